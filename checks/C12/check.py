"""C12 — AES/DES/3DES x ECB/CBC/CFB/OFB/CTR.

Theorems: lean/MgProof/C12/Props.lean; model: lean/MgModel/C12/{Modes,Ciphers}.lean
(mode loops of aes.c/des.c/tdes.c parametric in the block function) over the FIPS-197 /
FIPS 46-3 specifications lean/MgModel/C12/{Aes,Des}.lean; tie A: tables regenerated
from /repo (gentables.py); tie B: harness/c12/seq_crypt.c against the real API."""
import os
import subprocess
import sys
import vlib

HERE = os.path.dirname(os.path.abspath(__file__))
PROOFS = ["MgProof.C12.Lemmas", "MgProof.C12.LemmasStream", "MgProof.C12.LemmasAes", "MgProof.C12.LemmasAesKey",
          "MgProof.C12.LemmasDes", "MgProof.C12.LemmasExtra", "MgProof.C12.LemmasApi", "MgProof.C12.Props", "MgProof.C12.PropsParity", "MgProof.C12.Kat"]
GREP = ["MgModel/C12", "MgProof/C12", "MgModel/Common", "Drv/C12.lean"]
REPO_SRCS = ["muggle/c/crypt/aes.c", "muggle/c/crypt/des.c", "muggle/c/crypt/tdes.c",
             "muggle/c/crypt/parity.c", "muggle/c/crypt/crypt_utils.c",
             "muggle/c/crypt/openssl/openssl_aes.c", "muggle/c/crypt/openssl/openssl_des.c",
             "muggle/c/crypt/internal/internal_aes.c", "muggle/c/crypt/internal/internal_des.c"]

TRUSTED = [
    "Lean 4.33 kernel; axioms as printed by the audit (subset of propext, Classical.choice, Quot.sound)",
    "tie A: checks/C12/gentables.py (textual extraction of the AES/DES tables from crypt/internal/*.c, "
    "des.c, crypt/openssl/openssl_des.c, and the parity tables of crypt/parity.c), compared with lean/MgModel/C12/Tables.lean on every run",
    "tie B: harness/c12/seq_crypt.c + lib/vlib.py comparison; clang-14 -O1 ASan/UBSan build with "
    "MUGGLE_CRYPT_OPTIMIZATION=1 (the only configuration CMakeLists.txt allows), little-endian target",
    "that the optimised block primitives of crypt/openssl/*.c (bit-sliced AES, SP-table DES) compute the "
    "FIPS block functions of the model is established by the correspondence runs + published "
    "known-answer vectors only, not by a theorem",
    "the Lean transcription of FIPS-197 / FIPS 46-3 / SP 800-38A in MgModel/C12/{Aes,Des,Modes}.lean "
    "(pinned by the standards' known-answer vectors in checks/C12/check.py KATS)",
]

AES = ["aes128", "aes192", "aes256"]
ALGS = AES + ["des", "tdes"]
FNS = ["ecb", "cbc", "cfb", "ofb", "ctr"]
WEAK = ["0101010101010101", "fefefefefefefefe", "e0e0e0e0f1f1f1f1", "1f1f1f1f0e0e0e0e"]
SEMIWEAK = ["01fe01fe01fe01fe", "fe01fe01fe01fe01", "1fe01fe00ef10ef1", "e01fe01ff10ef10e",
            "01e001e001f101f1", "e001e001f101f101", "1ffe1ffe0efe0efe", "fe1ffe1ffe0efe0e",
            "011f011f010e010e", "1f011f010e010e01", "e0fee0fef1fef1fe", "fee0fee0fef1fef1"]


def bs_of(alg):
    return 16 if alg.startswith("aes") else 8


def keylen(alg):
    return {"aes128": 16, "aes192": 24, "aes256": 32, "des": 8, "tdes": 24}[alg]


def hx(b):
    return b.hex() if b else "-"


def build(ctx):
    exe = vlib.build_harness("C12", "seq_crypt", ["harness/c12/seq_crypt.c"], REPO_SRCS,
                             cflags=["-DNDEBUG"])
    return [exe], ctx.driver_cmd("drv_c12")


# ---------------------------------------------------------------------------
# structured values
# ---------------------------------------------------------------------------

def struct_bytes(rng, n, kinds=("zero", "ones", "bit", "rand", "rand", "rand")):
    k = rng.choice(kinds)
    if n == 0:
        return b""
    if k == "zero":
        return bytes(n)
    if k == "ones":
        return b"\xff" * n
    if k == "bit":
        b = bytearray(n)
        p = rng.randrange(8 * n)
        b[p // 8] = 1 << (p % 8)
        return bytes(b)
    if k == "bitclear":
        b = bytearray(b"\xff" * n)
        p = rng.randrange(8 * n)
        b[p // 8] ^= 1 << (p % 8)
        return bytes(b)
    return bytes(rng.getrandbits(8) for _ in range(n))


def gen_key(rng, alg):
    n = keylen(alg)
    r = rng.random()
    if alg == "des" and r < 0.35:
        return bytes.fromhex(rng.choice(WEAK + SEMIWEAK))
    if alg == "tdes" and r < 0.35:
        ks = [bytes.fromhex(rng.choice(WEAK + SEMIWEAK)) if rng.random() < 0.5
              else struct_bytes(rng, 8) for _ in range(3)]
        v = rng.random()
        if v < 0.25:
            ks[1] = ks[0]; ks[2] = ks[0]      # degenerates to single DES
        elif v < 0.5:
            ks[2] = ks[0]                      # two-key TDEA
        elif v < 0.6:
            ks[1] = ks[0]
        return b"".join(ks)
    return struct_bytes(rng, n, ("zero", "ones", "bit", "bitclear", "rand", "rand", "rand"))


def gen_iv(rng, alg, fn):
    n = bs_of(alg)
    if fn == "ctr" and rng.random() < 0.5:
        # counter overflow: the library increments BEFORE use, little endian
        k = rng.choice(["lo-1", "lo-2", "all", "all-1", "lo-few", "byte"])
        b = bytearray(struct_bytes(rng, n))
        if k == "lo-1":
            b[0:8] = b"\xff" * 8
        elif k == "lo-2":
            b[0:8] = b"\xfe" + b"\xff" * 7
        elif k == "all":
            b = bytearray(b"\xff" * n)
        elif k == "all-1":
            b = bytearray(b"\xfe" + b"\xff" * (n - 1))
        elif k == "lo-few":
            v = (1 << 64) - 1 - rng.randrange(0, 6)
            b[0:8] = v.to_bytes(8, "little")
        else:
            j = rng.randrange(1, 8)
            b[0:j] = b"\xff" * j
        return bytes(b)
    return struct_bytes(rng, n)


LEN_EDGES = [0, 1, 2, 7, 8, 9, 15, 16, 17, 23, 24, 31, 32, 33, 47, 48, 63, 64, 65, 127, 128, 129,
             255, 256, 257, 1023, 1024, 4088, 4095, 4096]


def gen_len(rng, alg, fn, maxlen):
    bs = bs_of(alg)
    r = rng.random()
    if r < 0.45:
        n = rng.choice([x for x in LEN_EDGES if x <= maxlen])
    elif r < 0.8:
        n = rng.randrange(0, min(maxlen, 200) + 1)
    else:
        n = rng.randrange(0, maxlen + 1)
    if fn in ("ecb", "cbc"):
        n -= n % bs
    return n


def gen_msg(rng, n):
    return struct_bytes(rng, n, ("zero", "ones", "bit", "rand", "rand", "rand", "rand"))


def partition(rng, n, bs_align, kmax=8):
    """cut [0,n) into 1..kmax chunks (empty chunks allowed); cuts at multiples of bs_align"""
    k = rng.randrange(1, kmax + 1)
    cuts = []
    for _ in range(k - 1):
        if rng.random() < 0.3 and n >= bs_align:
            # near a block boundary
            base = rng.randrange(0, n // bs_align + 1) * bs_align
            c = base if bs_align > 1 else min(n, max(0, base + rng.choice([-1, 0, 1])))
        else:
            c = rng.randrange(0, n + 1)
        c -= c % bs_align
        cuts.append(min(n, max(0, c)))
    cuts = [0] + sorted(cuts) + [n]
    return [(cuts[i], cuts[i + 1]) for i in range(len(cuts) - 1)]


def session(alg, mode, direction, key, iv, chunks_hex, fn=None, off=0, sb=None, dump=True):
    bs = bs_of(alg)
    fn = fn or FNS[mode]
    ops = ["setkey %s %d %d %s" % (alg, mode, direction, hx(key)),
           "state %s %d %s" % (hx(iv), off, hx(sb if sb is not None else bytes(bs)))]
    for c in chunks_hex:
        ops.append("crypt %s %s" % (fn, c))
        if dump:
            ops.append("dump")
    return ops


def roundtrip_case(alg, mode, first_dir, key, iv, msg, parts, sb=None):
    """session 1: msg in chunks with direction first_dir; session 2: the whole output of
    session 1 in ONE call with the opposite direction (must give msg back)."""
    ops = session(alg, mode, first_dir, key, iv, [hx(msg[a:b]) for a, b in parts], sb=sb)
    ops += session(alg, mode, 1 - first_dir, key, iv, ["@"], sb=sb)
    return ops


# ---------------------------------------------------------------------------
# generators
# ---------------------------------------------------------------------------

def gen_exhaustive(ctx):
    """(i) every algorithm x mode x direction x length 0..L x every 2-chunk split
    (block-aligned splits for ECB/CBC), fixed key/iv/message patterns."""
    cases = []
    for alg in ALGS:
        bs = bs_of(alg)
        key = bytes((7 * i + 1) & 0xff for i in range(keylen(alg)))
        iv = bytes((0xf0 + i) & 0xff for i in range(bs))
        L = (bs + 2 if ctx.quick else 2 * bs + 1) if bs == 16 else (2 * bs + 1 if ctx.quick else 3 * bs + 1)
        for mode, fn in enumerate(FNS):
            for d in (1, 0):
                step = bs if fn in ("ecb", "cbc") else 1
                lens = range(0, (3 * bs if fn in ("ecb", "cbc") else L) + 1, step)
                for n in lens:
                    msg = bytes((i * 37 + 11) & 0xff for i in range(n))
                    for cut in range(0, n + 1, step):
                        cases.append(roundtrip_case(alg, mode, d, key, iv, msg, [(0, cut), (cut, n)]))
                    # thorough: every 3-chunk split of the short messages (stream modes)
                    if not ctx.quick and step == 1 and n <= bs + 2:
                        for c1 in range(0, n + 1):
                            for c2 in range(c1, n + 1):
                                cases.append(roundtrip_case(alg, mode, d, key, iv, msg,
                                                            [(0, c1), (c1, c2), (c2, n)]))
    return cases


def gen_random(ctx):
    """(ii) structured random keys / IVs / messages, lengths 0..4096, 1..8 chunks, both
    directions, plus sessions that start in the middle of a block."""
    rng = ctx.rng
    cases = []
    n_rt = 700 if ctx.quick else 12000
    maxlen_p = [(0.80, 300), (0.95, 1100), (1.0, 4096)]
    for _ in range(n_rt):
        alg = rng.choice(ALGS)
        mode = rng.randrange(5)
        fn = FNS[mode]
        r = rng.random()
        maxlen = next(m for p, m in maxlen_p if r <= p)
        if not alg.startswith("aes"):
            maxlen = min(maxlen, 4096 if not ctx.quick else 1100)
        n = gen_len(rng, alg, fn, maxlen)
        msg = gen_msg(rng, n)
        key = gen_key(rng, alg)
        iv = gen_iv(rng, alg, fn)
        parts = partition(rng, n, bs_of(alg) if fn in ("ecb", "cbc") else 1)
        sb = struct_bytes(rng, bs_of(alg)) if rng.random() < 0.3 else None
        cases.append(roundtrip_case(alg, mode, rng.choice([1, 1, 0]), key, iv, msg, parts, sb=sb))
    # sessions entered with a non-zero offset (state carried over from elsewhere): model only
    for _ in range(150 if ctx.quick else 3000):
        alg = rng.choice(ALGS)
        mode = rng.choice([2, 3, 4])
        bs = bs_of(alg)
        n = rng.choice([0, 1, bs - 1, bs, bs + 1, rng.randrange(0, 80)])
        msg = gen_msg(rng, n)
        parts = partition(rng, n, 1, kmax=4)
        ops = session(alg, mode, rng.randrange(2), gen_key(rng, alg), gen_iv(rng, alg, FNS[mode]),
                      [hx(msg[a:b]) for a, b in parts], off=rng.randrange(1, bs),
                      sb=struct_bytes(rng, bs))
        cases.append(ops)
    return cases


def gen_malformed(ctx):
    """(iii) calls the property says are rejected, and that rejection leaves the caller's
    state untouched and the context usable."""
    rng = ctx.rng
    cases = []
    for alg in ALGS:
        bs = bs_of(alg)
        key = gen_key(rng, alg)
        # lengths that are not a block multiple in ECB / CBC: every residue, both directions
        for mode in (0, 1):
            for d in (0, 1):
                ops = ["setkey %s %d %d %s" % (alg, mode, d, hx(key)),
                       "state %s 0 %s" % (hx(gen_iv(rng, alg, FNS[mode])), hx(bytes(bs)))]
                for res in range(1, bs):
                    n = res + bs * rng.choice([0, 0, 1, 2, 5])
                    ops += ["crypt %s %s" % (FNS[mode], hx(gen_msg(rng, n))), "dump"]
                ops += ["crypt %s %s" % (FNS[mode], hx(gen_msg(rng, 2 * bs))), "dump"]
                cases.append(ops)
        # offset >= block size
        for mode in (2, 3, 4):
            for off in [bs, bs + 1, 2 * bs, 255, 256, 65536, 2 ** 31, 2 ** 32 - 1]:
                ops = ["setkey %s %d %d %s" % (alg, mode, rng.randrange(2), hx(key)),
                       "state %s %d %s" % (hx(gen_iv(rng, alg, FNS[mode])), off, hx(struct_bytes(rng, bs))),
                       "crypt %s %s" % (FNS[mode], hx(gen_msg(rng, rng.choice([0, 1, bs, 40])))), "dump",
                       "state %s %d %s" % (hx(gen_iv(rng, alg, FNS[mode])), 0, hx(bytes(bs))),
                       "crypt %s %s" % (FNS[mode], hx(gen_msg(rng, bs + 3))), "dump"]
                cases.append(ops)
        # context of one mode used with the function of another
        for mode in range(5):
            for fn in FNS:
                if FNS[mode] == fn:
                    continue
                cases.append(["setkey %s %d %d %s" % (alg, mode, rng.randrange(2), hx(key)),
                              "state %s 0 %s" % (hx(gen_iv(rng, alg, fn)), hx(bytes(bs))),
                              "crypt %s %s" % (fn, hx(gen_msg(rng, 2 * bs))), "dump",
                              "crypt %s %s" % (FNS[mode], hx(gen_msg(rng, 2 * bs))), "dump"])
        # invalid op / mode at key set-up (a failed set-up leaves no usable context)
        for mode, d in [(5, 1), (6, 0), (100, 1), (-1, 1), (0, 2), (1, -1), (2, 7), (-3, 9)]:
            cases.append(["setkey %s %d %d %s" % (alg, mode, d, hx(key)),
                          "crypt ecb %s" % hx(bytes(bs)), "dump"])
        # NULL pointers: every pointer parameter of every function
        for mode, fn in enumerate(FNS):
            params = {"ecb": ["ctx", "input", "output"], "cbc": ["ctx", "input", "iv", "output"],
                      "cfb": ["ctx", "input", "iv", "off", "output"],
                      "ofb": ["ctx", "input", "iv", "off", "output"],
                      "ctr": ["ctx", "input", "iv", "off", "sb", "output"]}[fn]
            for p in params:
                cases.append(["setkey %s %d %d %s" % (alg, mode, rng.randrange(2), hx(key)),
                              "null %s %s" % (fn, p)])
    # AES key sizes other than 128/192/256
    for bits in [0, 1, 64, 127, 129, 160, 255, 257, 512, -128]:
        cases.append(["setkey aes%d 0 1 %s" % (bits, hx(bytes(range(64)))), "crypt ecb %s" % hx(bytes(16))])
    return cases


# published known-answer vectors (the standards' own examples): judged on the implementation's
# output, and - through the model/spec columns - pin the Lean transcription of the standards
_K128 = "2b7e151628aed2a6abf7158809cf4f3c"
_K192 = "8e73b0f7da0e6452c810f32b809079e562f8ead2522c6b7b"
_K256 = "603deb1015ca71be2b73aef0857d77811f352c073b6108d72d9810a30914dff4"
_PT = ("6bc1bee22e409f96e93d7e117393172a" "ae2d8a571e03ac9c9eb76fac45af8e51"
       "30c81c46a35ce411e5fbc1191a0a52ef" "f69f2445df4f9b17ad2b417be66c3710")
_IV = "000102030405060708090a0b0c0d0e0f"
KATS = [
    # FIPS-197 Appendix C.1-C.3
    ("aes128", 0, "000102030405060708090a0b0c0d0e0f", "-", "00112233445566778899aabbccddeeff",
     "69c4e0d86a7b0430d8cdb78070b4c55a"),
    ("aes192", 0, "000102030405060708090a0b0c0d0e0f1011121314151617", "-", "00112233445566778899aabbccddeeff",
     "dda97ca4864cdfe06eaf70a0ec0d7191"),
    ("aes256", 0, "000102030405060708090a0b0c0d0e0f101112131415161718191a1b1c1d1e1f", "-",
     "00112233445566778899aabbccddeeff", "8ea2b7ca516745bfeafc49904b496089"),
    # SP 800-38A F.1.1, F.1.3, F.1.5 (ECB), F.2.1, F.2.3, F.2.5 (CBC), F.3.13-17 (CFB128), F.4.1-5 (OFB)
    ("aes128", 0, _K128, "-", _PT, "3ad77bb40d7a3660a89ecaf32466ef97f5d3d58503b9699de785895a96fdbaaf"
                                   "43b1cd7f598ece23881b00e3ed0306887b0c785e27e8ad3f8223207104725dd4"),
    ("aes192", 0, _K192, "-", _PT, "bd334f1d6e45f25ff712a214571fa5cc974104846d0ad3ad7734ecb3ecee4eef"
                                   "ef7afd2270e2e60adce0ba2face6444e9a4b41ba738d6c72fb16691603c18e0e"),
    ("aes256", 0, _K256, "-", _PT, "f3eed1bdb5d2a03c064b5a7e3db181f8591ccb10d410ed26dc5ba74a31362870"
                                   "b6ed21b99ca6f4f9f153e7b1beafed1d23304b7a39f9f3ff067d8d8f9e24ecc7"),
    ("aes128", 1, _K128, _IV, _PT, "7649abac8119b246cee98e9b12e9197d5086cb9b507219ee95db113a917678b2"
                                   "73bed6b8e3c1743b7116e69e222295163ff1caa1681fac09120eca307586e1a7"),
    ("aes192", 1, _K192, _IV, _PT, "4f021db243bc633d7178183a9fa071e8b4d9ada9ad7dedf4e5e738763f69145a"
                                   "571b242012fb7ae07fa9baac3df102e008b0e27988598881d920a9e64f5615cd"),
    ("aes256", 1, _K256, _IV, _PT, "f58c4c04d6e5f1ba779eabfb5f7bfbd69cfc4e967edb808d679f777bc6702c7d"
                                   "39f23369a9d9bacfa530e26304231461b2eb05e2c39be9fcda6c19078c6a9d1b"),
    ("aes128", 2, _K128, _IV, _PT, "3b3fd92eb72dad20333449f8e83cfb4ac8a64537a0b3a93fcde3cdad9f1ce58b"
                                   "26751f67a3cbb140b1808cf187a4f4dfc04b05357c5d1c0eeac4c66f9ff7f2e6"),
    ("aes192", 2, _K192, _IV, _PT, "cdc80d6fddf18cab34c25909c99a417467ce7f7f81173621961a2b70171d3d7a"
                                   "2e1e8a1dd59b88b1c8e60fed1efac4c9c05f9f9ca9834fa042ae8fba584b09ff"),
    ("aes256", 2, _K256, _IV, _PT, "dc7e84bfda79164b7ecd8486985d386039ffed143b28b1c832113c6331e5407b"
                                   "df10132415e54b92a13ed0a8267ae2f975a385741ab9cef82031623d55b1e471"),
    ("aes128", 3, _K128, _IV, _PT, "3b3fd92eb72dad20333449f8e83cfb4a7789508d16918f03f53c52dac54ed825"
                                   "9740051e9c5fecf64344f7a82260edcc304c6528f659c77866a510d9c1d6ae5e"),
    ("aes192", 3, _K192, _IV, _PT, "cdc80d6fddf18cab34c25909c99a4174fcc28b8d4c63837c09e81700c1100401"
                                   "8d9a9aeac0f6596f559c6d4daf59a5f26d9f200857ca6c3e9cac524bd9acc92a"),
    ("aes256", 3, _K256, _IV, _PT, "dc7e84bfda79164b7ecd8486985d38604febdc6740d20b3ac88f6ad82a4fb08d"
                                   "71ab47a086e86eedf39d1c5bba97c4080126141d67f37be8538f5a8be740e484"),
    # the classic DES worked example and a TDEA (three-key) vector (SP 800-67 / NIST TDES sample)
    ("des", 0, "133457799bbcdff1", "-", "0123456789abcdef", "85e813540f0ab405"),
    ("des", 0, "0123456789abcdef", "-", "4e6f772069732074", "3fa40e8a984d4815"),
    ("tdes", 0, "0123456789abcdef23456789abcdef01456789abcdef0123", "-",
     "5468652071756663", "a826fd8ce53b855f"),
    ("tdes", 0, "0123456789abcdef23456789abcdef01456789abcdef0123", "-",
     "5468652071756663" "6b2062726f776e20" "666f78206a756d70", "a826fd8ce53b855fcce21c8112256fe668d5c05dd9b6b900"),
]
# SP 800-38A F.5 (CTR) counter blocks are big-endian incrementing; the library's counter is the
# little-endian pre-incremented one named by the property, so F.5 applies to the first block only:
# T1 = f0f1..feff  <=> caller's nonce = T1 - 1 (little endian: first byte ef).
KATS += [("aes128", 4, _K128, "eff1f2f3f4f5f6f7f8f9fafbfcfdfeff", _PT[:32], "874d6191b620e3261bef6864990db6ce"),
         ("aes192", 4, _K192, "eff1f2f3f4f5f6f7f8f9fafbfcfdfeff", _PT[:32], "1abc932417521ca24f2b0459fe7e6e0b"),
         ("aes256", 4, _K256, "eff1f2f3f4f5f6f7f8f9fafbfcfdfeff", _PT[:32], "601ec313775789a5b7a7f504bbf3d228")]


def gen_kats():
    cases, expect = [], {}
    for alg, mode, key, iv, pt, ct in KATS:
        bs = bs_of(alg)
        ivb = bytes.fromhex(iv) if iv != "-" else bytes(bs)
        ops = session(alg, mode, 1, bytes.fromhex(key), ivb, [pt], dump=False)
        ops += session(alg, mode, 0, bytes.fromhex(key), ivb, [ct], dump=False)
        expect[tuple(ops)] = {2: "ok " + ct, 5: "ok " + pt}
        cases.append(ops)
    return cases, expect


# ---------------------------------------------------------------------------
# spec-level judge on the implementation's own output
# ---------------------------------------------------------------------------

def gen_parity():
    """crypt/parity.c on its whole domain (every unsigned char), plus out-of-domain requests"""
    cases = [["parity %d" % b for b in range(256)], ["parity 256", "parity -1", "parity 7"]]
    # the parity bit of a key byte is not key material (MgProof.C12.Parity.des_ignores_key_parity):
    # the same message under a key and under that key with parity bits changed, DES and 3DES
    import random
    rng = random.Random(12)
    for i in range(12):
        alg = "des" if i % 2 == 0 else "tdes"
        n = 8 if alg == "des" else 24
        key = bytes(rng.randrange(256) for _ in range(n))
        flip = bytes(rng.choice([0, 1, 1]) for _ in range(n)) if i else bytes([1]) * n
        key2 = bytes(a ^ f for a, f in zip(key, flip))
        msg = bytes(rng.randrange(256) for _ in range(8 * (1 + i % 3)))
        mode = i % 5
        cases.append(roundtrip_case(alg, mode, 1, key, bytes(8), msg, [(0, len(msg))]) +
                     roundtrip_case(alg, mode, 1, key2, bytes(8), msg, [(0, len(msg))]))
    return cases


def judge_key_parity(ops, out):
    """two round trips whose keys differ in parity bits only must print the same lines"""
    sk = [i for i, o in enumerate(ops) if o.startswith("setkey ")]
    if len(sk) != 4 or len(out) != len(ops):
        return None
    k1, k2 = bytes.fromhex(ops[sk[0]].split()[4]), bytes.fromhex(ops[sk[2]].split()[4])
    if len(k1) != len(k2) or any((a ^ b) & 0xfe for a, b in zip(k1, k2)):
        return None
    a, b = out[sk[0]:sk[2]], out[sk[2]:]
    if a != b:
        j = next(i for i in range(min(len(a), len(b))) if a[i] != b[i])
        return "keys differing in parity bits only give different results: %r / %r" % (a[j][:80], b[j][:80])
    return None


def judge_parity(ops, out):
    """reference parity computed here (bit count), on the implementation's own answers"""
    for o, line in zip(ops, out):
        w = o.split()
        if w[0] != "parity" or not w[1].lstrip("-").isdigit() or not 0 <= int(w[1]) <= 255:
            continue
        b = int(w[1])
        odd = bin(b).count("1") % 2
        want = "ok %d %d %d %d" % ((b & 0xfe) | (1 - bin(b >> 1).count("1") % 2), (b & 0xfe) | (bin(b >> 1).count("1") % 2),
                                   odd, 1 - odd)
        if line != want:
            return "parity of byte %d: implementation answers %r, bit counting says %r" % (b, line, want)
    return None


def make_judge(kat_expect):
    def judge(ops, out):
        if ops and ops[0].startswith("parity "):
            return judge_parity(ops, out)
        r = judge_key_parity(ops, out)
        if r:
            return r
        exp = kat_expect.get(tuple(ops))
        if exp:
            for j, want in exp.items():
                if j < len(out) and out[j] != want:
                    return "known-answer vector: line %d is %r, the standard says %r" % (j, out[j][:80], want[:80])
        # round trip: a final `crypt <fn> @` must return the concatenation of the first session's inputs
        if ops and ops[-2].endswith(" @") and ops[-1] == "dump" and len(out) == len(ops):
            sk = [i for i, o in enumerate(ops) if o.startswith("setkey ")]
            if len(sk) == 2:
                ins = []
                ok = True
                for i in range(sk[0], sk[1]):
                    if ops[i].startswith("crypt "):
                        if not out[i].startswith("ok"):
                            ok = False
                        h = ops[i].split()[2]
                        ins.append("" if h == "-" else h)
                if ok and out[sk[1]] == "ok":
                    want = "ok " + ("".join(ins) or "-")
                    if out[-2] != want:
                        return "decrypt(encrypt(x)) != x: got %r want %r" % (out[-2][:80], want[:80])
        return None
    return judge


def nontrivial(ops, out):
    return any(o.startswith("ok ") and o != "ok -" for o in out)


def signature_of(ops, res):
    if res.get("crash") and ops and ops[-1].startswith("null "):
        alg = ops[0].split()[1] if ops[0].startswith("setkey") else "?"
        fam = "aes" if alg.startswith("aes") else alg
        _, fn, p = ops[-1].split()
        return "missing-null-check:%s:%s:%s" % (fam, fn, p)
    return None


def tie_a(ctx):
    r = subprocess.run([sys.executable, os.path.join(HERE, "gentables.py"), vlib.REPO],
                       stdout=subprocess.PIPE, stderr=subprocess.PIPE, text=True)
    committed = open(os.path.join(vlib.LEAN, "MgModel/C12/Tables.lean")).read()
    ok = r.returncode == 0 and r.stdout == committed
    ctx.cov["ties"]["tieA"] = {"tables_regenerated_equal": ok}
    ctx.cov["obligations"] += 1
    if ok:
        ctx.cov["discharged"] += 1
    else:
        ctx.broken.append("tieA: tables extracted from the repository differ from lean/MgModel/C12/Tables.lean"
                          + ((": " + r.stderr[-300:]) if r.returncode else ""))
    return ok


def main(ctx):
    ctx.cov["trusted_base"] = TRUSTED
    ctx.assumptions += TRUSTED[2:]
    ctx.cov["rule"] = (
        "known-answer vectors of FIPS-197 / SP 800-38A / DES + corpus; crypt/parity.c on all 256 bytes "
        "(exhaustive: its whole domain) + out-of-domain requests; bounded-exhaustive: every "
        "algorithm(5) x mode(5) x direction(2) x length 0..L x every 2-chunk split (thorough: also every "
        "3-chunk split of the short messages), round trip; seeded "
        "random: structured keys (zero/ones/single-bit/weak+semi-weak DES/degenerate 3DES), IVs (incl. "
        "counter overflow), messages 0..4096 bytes, 1..8 chunks (empty chunks allowed), both directions, "
        "each followed by the inverse direction in one call; sessions entered at a non-zero offset; "
        "malformed stream (bad lengths, offsets, mode mismatch, bad op/mode/key size, NULL pointers). "
        "distinct = distinct op lists; non-trivial = at least one call returned non-empty output")
    ctx.lean_obligations("drv_c12", PROOFS, GREP, leanchecker=["MgProof.C12.Props"])
    if not getattr(ctx, "driver_ok", False):
        return
    tie_a(ctx)
    try:
        hcmd, dcmd = build(ctx)
    except vlib.BuildError as e:
        ctx.broken.append("harness-build: " + str(e)[:500])
        return
    kats, expect = gen_kats()
    cases = kats + gen_parity() + gen_malformed(ctx) + gen_exhaustive(ctx) + gen_random(ctx)
    vlib.seq_correspondence(ctx, hcmd, dcmd, cases, nontrivial=nontrivial, keep_prefix=2,
                            judge=make_judge(expect), signature_of=signature_of, timeout=1500)
    ctx.cov["exhaustive"] = True
    ctx.cov["explanation"] = ("exhaustive=true refers to the bounded space (all lengths up to L and all "
                              "2-chunk splits, per algorithm/mode/direction) described in rule; the "
                              "theorems are unbounded in length, chunking, key, IV")


def replay(ctx, path):
    hcmd, dcmd = build(ctx)
    vlib.lake_build(["drv_c12"])
    _, expect = gen_kats()
    return vlib.replay_file(ctx, path, hcmd, dcmd, judge=make_judge(expect))
