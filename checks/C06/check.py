"""C06 — growable memory pool. Theorems: lean/MgProof/C06/Props.lean; model:
lean/MgModel/C06/MemoryPool.lean; tie B: harness/c06/seq_mempool.c against the real
muggle/c/memory/memory_pool.c (malloc of that file scripted by size)."""
import itertools
import re
import vlib

PROOFS = ["MgProof.C06.Lemmas", "MgProof.C06.Steps", "MgProof.C06.Reach", "MgProof.C06.Props"]
GREP = ["MgModel/C06", "MgProof/C06", "MgModel/Common", "Drv/C06.lean"]
REPO_SRCS = ["muggle/c/memory/memory_pool.c"]

TRUSTED = [
    "Lean 4.33 kernel; axioms as printed by the audit (subset of propext, Classical.choice, Quot.sound)",
    "tie B: harness/c06/seq_mempool.c + lib/vlib.py comparison (whole pointer ring, cursors, counters, "
    "data-buffer sizes compared after every operation); clang-14 -O1 ASan+UBSan build of /repo's memory_pool.c",
    "malloc/free of libc: distinct live allocations are disjoint and at least as large as requested; in the "
    "harness malloc of memory_pool.c is scripted (-Dmalloc=vh_malloc: fails above `memlimit` bytes)",
    "block identity (data buffer, index) stands for the address base+index*block_size; that the base of a data "
    "buffer never changes and that live contents survive growth is checked by the harness on every run, not proved",
    "model is the 64-bit build (SIZE_MAX = 2^64-1, sizeof(void*) = 8)",
    "hypotheses of the theorems: frees are of live blocks only (API contract), and capacity < 2^31 at an "
    "automatic growth (uint32 new_cap = capacity + delta_cap does not wrap; needs a 16 GiB pointer ring to violate)",
]

FLAGS = re.compile(r"\b(OOB|MISALIGNED|DUP|CORRUPT|MOVED|FLAG)\b")
U32 = 1 << 32
LIMIT = 1 << 26


def build(ctx):
    def pff(rel):
        return ["-Dmalloc=vh_malloc"] if rel.endswith("memory_pool.c") else []
    exe = vlib.build_harness("C06", "seq_mempool", ["harness/c06/seq_mempool.c"], REPO_SRCS,
                             per_file_flags=pff)
    return [exe], ctx.driver_cmd("drv_c06")


def judge(ops, out):
    """spec-level monitor: the harness marks, on the implementation's own addresses, every
    returned block that is outside its data buffer / overlaps a live block / lost its contents."""
    for j, line in enumerate(out):
        m = FLAGS.search(line)
        if m:
            return "monitor flag %s at line %d: %r" % (m.group(1), j, line)
    return None


def signature_of(ops, res):
    """kind of failure, for labelling only. Deliberately NOT passed to seq_correspondence: it
    de-duplicates by signature only after shrinking, so thousands of same-kind failures would
    each be shrunk; without it at most three failures are shrunk and reported."""
    if res["crash"]:
        m = re.search(r"Assertion `([^']*)'|ERROR: AddressSanitizer: (\S+)|runtime error: ([^\n]{0,60})",
                      res["crash"])
        return "crash:" + (next((g for g in m.groups() if g), "?") if m else "other")
    for line in res["out"]:
        m = FLAGS.search(line)
        if m:
            return "flag:" + m.group(1)
    return "spec-column"


class Sim:
    """what the generator needs to know to emit mostly-valid operations (NOT an oracle:
    nothing here is compared with anything)."""

    def __init__(self, cap, bs):
        self.cap = cap if cap else 8
        self.bs = bs
        self.live = 0
        self.const = False
        self.md = self.cap if bs > 8192 else 512 * 1024
        self.limit = LIMIT

    def grow_ok(self, n):
        d = n - self.cap
        return (not self.const and 8 * n <= self.limit and self.bs * d <= self.limit)

    def alloc(self):
        if self.live == self.cap:
            d = self.cap
            if self.md > 0 and d > self.md:
                d = self.md
            if not self.grow_ok(self.cap + d):
                return
            self.cap += d
        self.live += 1

    def ensure(self, n):
        if n > self.cap and self.grow_ok(n):
            self.cap = n


def exhaustive(cap0, bs, L, alphabet, every_dump=True):
    """all operation sequences of length L over `alphabet` from init(cap0, bs) that never free
    without a live block; cnt (+dump) after every operation."""
    cases = []

    def rec(ops, sim, depth):
        if depth == L:
            cases.append(ops)
            return
        for a in alphabet:
            s = Sim.__new__(Sim)
            s.__dict__.update(sim.__dict__)
            if a == "alloc":
                op = "alloc"
                s.alloc()
            elif a == "free0":
                if s.live == 0:
                    continue
                op = "free 0"
                s.live -= 1
            elif a == "freeL":
                if s.live < 2:
                    continue
                op = "free %d" % (s.live - 1)
                s.live -= 1
            elif a.startswith("ens+"):
                n = s.cap + int(a[4:])
                op = "ensure %d" % n
                s.ensure(n)
            elif a.startswith("ens="):
                op = "ensure %d" % (s.live + int(a[4:]))
                s.ensure(s.live + int(a[4:]))
            elif a.startswith("flag"):
                op = "flag %s" % a[4:]
                s.const = int(a[4:]) % 2 == 1
            elif a.startswith("md"):
                op = "maxdelta %s" % a[2:]
                s.md = int(a[2:])
            else:
                raise ValueError(a)
            rec(ops + [op, "cnt"] + (["dump"] if every_dump else []), s, depth + 1)

    rec(["init %d %d" % (cap0, bs)], Sim(cap0, bs), 0)
    return cases


def near_wrap_pairs():
    """(capacity, block_size) with block_size * capacity around and beyond 2^32"""
    res = []
    for c in [1, 2, 3, 4, 5, 6, 7, 8, 16, 255, 256, 257, 4096, 65535, 65536, 65537]:
        for k in [1, 2, 3]:
            for r in [-2 * c, -c, -1, 0, 1, c, 2 * c, 4096, 65536]:
                t = k * U32 + r
                for bs in {t // c, (t + c - 1) // c}:
                    if 0 < bs < U32:
                        res.append((c, bs))
    return sorted(set(res))


def random_case(rng, n_ops):
    cap0 = rng.choice([0, 1, 1, 2, 2, 3, 3, 4, 5, 6, 7, 8, 9, 16, 33, 100])
    bs = rng.choice([1, 2, 8, 8, 24, 100, 255, 257, 1000, 4096, 8192, 8193, 20000])
    ops = ["init %d %d" % (cap0, bs)]
    sim = Sim(cap0, bs)
    phase = "fill"
    for k in range(n_ops):
        if rng.random() < 0.03:
            phase = rng.choice(["fill", "drain", "mix", "edge"])
        r = rng.random()
        p_alloc = {"fill": 0.75, "drain": 0.2, "mix": 0.5, "edge": 0.5}[phase]
        if phase == "edge":
            # stay near full / near empty so that growth happens at every cursor layout
            p_alloc = 0.85 if sim.live < sim.cap else 0.35
        if r < 0.06:
            t = rng.random()
            if t < 0.4:
                n = sim.cap + rng.choice([1, 1, 2, 3, sim.cap])
            elif t < 0.7:
                n = sim.live + rng.choice([0, 1, 2])
            else:
                n = rng.randrange(0, 2 * sim.cap + 3)
            ops.append("ensure %d" % n)
            sim.ensure(n)
        elif r < 0.075:
            f = rng.choice([1, 1, 0, 0, 2, 3])
            ops.append("flag %d" % f)
            sim.const = f % 2 == 1
        elif r < 0.09:
            d = rng.choice([0, 1, 2, 3, sim.cap, 2 * sim.cap, 512 * 1024])
            ops.append("maxdelta %d" % d)
            sim.md = d
        elif r < 0.10:
            lim = rng.choice([LIMIT, LIMIT, 8 * sim.cap, 8 * sim.cap + 8, sim.bs * sim.cap, 16 * sim.cap])
            ops.append("memlimit %d" % lim)
            sim.limit = lim
        elif r < 0.10 + 0.9 * p_alloc or sim.live == 0:
            ops.append("alloc")
            sim.alloc()
        else:
            t = rng.random()
            if t < 0.4:
                k_ = 0
            elif t < 0.7:
                k_ = sim.live - 1
            else:
                k_ = rng.randrange(sim.live)
            ops.append("free %d" % k_)
            sim.live -= 1
        ops.append("cnt")
        if rng.random() < 0.15:
            ops.append("dump")
        if sim.cap > 6000:
            break
    ops.append("dump")
    return ops


def gen_cases(ctx):
    quick = ctx.quick
    rng = ctx.rng
    cases = []
    # (i) bounded-exhaustive: every cursor layout at the moment of growth
    L = 7 if quick else 9
    core = ["alloc", "free0", "freeL", "ens+1", "ens+2"]
    for cap0 in (2, 3):
        cases += exhaustive(cap0, 8, L, core)
    cases += exhaustive(1, 3, L, ["alloc", "free0", "ens+1", "ens=0"])
    Lf = 5 if quick else 7
    cases += exhaustive(2, 16, Lf, ["alloc", "free0", "ens+1", "flag1", "flag0", "md1", "md0"],
                        every_dump=False)
    n_exh = len(cases)
    # init: for every small capacity and block size, that many distinct usable blocks, then growth
    for cap0 in list(range(0, 10)) + [16, 31]:
        for bs in [1, 2, 3, 7, 8, 9, 64, 8192, 8193]:
            c = cap0 if cap0 else 8
            cases.append(["init %d %d" % (cap0, bs), "dump"] + ["alloc"] * c + ["cnt", "dump", "alloc", "cnt",
                         "dump"] + ["free 0"] * (c + 1) + ["cnt", "dump"])
    # block_size x capacity around and beyond 2^32 (init, explicit growth, automatic growth)
    for c, bs in near_wrap_pairs():
        cc = min(c, 4)
        cases.append(["init %d %d" % (c, bs), "cnt"] + ["alloc", "cnt"] * cc + ["dump" if c <= 16 else "cnt"])
    for bs_log in (16, 20, 24):
        bs = 1 << bs_log
        wrap = U32 // bs
        for c0 in (1, 2, 3):
            for d in (wrap - 1, wrap, wrap + 1, 2 * wrap, 2 * wrap + 1):
                cases.append(["init %d %d" % (c0, bs), "ensure %d" % (c0 + d), "cnt"] +
                             ["alloc", "cnt"] * (c0 + 2) + ["free 0", "cnt", "alloc", "cnt"])
    # automatic growth whose byte size crosses the limit / 2^32: maxdelta = 0 (no limit) and explicit
    for md in (0, 1, 3, 512 * 1024):
        ops = ["init 1 16777216", "maxdelta %d" % md]
        for _ in range(7):
            ops += ["alloc", "cnt"]
        ops += ["free 0", "cnt"] * 3 + ["alloc", "cnt"] * 4
        cases.append(ops)
    # data buffers really larger than 4 GiB (virtual memory only: large blocks are touched at their
    # edges): block offsets beyond 2^32 must not be truncated either
    big = 1 << 33
    cases.append(["init 1 67108864", "memlimit %d" % big, "ensure 69", "cnt"] + ["alloc"] * 69 +
                 ["cnt", "free 68", "free 0", "free 30", "alloc", "alloc", "cnt", "dump"])
    cases.append(["memlimit %d" % big, "init 68 67108864", "cnt"] + ["alloc"] * 68 +
                 ["cnt", "free 67", "free 0", "alloc", "cnt", "dump"])
    # (ii) random long histories
    nrand = 400 if quick else 6000
    for _ in range(nrand):
        cases.append(random_case(rng, rng.choice([40, 150, 400] if quick else [40, 150, 400, 2500])))
    # (iii) malformed stream: outside the API contract (double free, free of nothing, bad sizes)
    cases.append(["alloc", "cnt", "init 4 0", "alloc", "init 0 8", "cnt", "dump", "free 0", "free 7",
                  "alloc", "free 0", "free 0", "dfree 0 0", "cnt", "dfree 9 9", "dfree 0 8", "ensure 4294967295",
                  "ensure 4294967296", "flag 4294967296", "maxdelta 4294967295", "cnt", "bogus", "init 1",
                  "init 4294967296 1", "cnt"])
    for _ in range(60 if quick else 800):
        cap0 = rng.choice([1, 2, 3, 4])
        ops = ["init %d 8" % cap0]
        sim = Sim(cap0, 8)
        for k in range(rng.choice([10, 40])):
            r = rng.random()
            if r < 0.45:
                ops.append("alloc")
                sim.alloc()
            elif r < 0.65 and sim.live:
                ops.append("free %d" % rng.randrange(sim.live + 1))   # may be one past the end
                sim.live = max(0, sim.live - 1)
            elif r < 0.9:
                ops.append("dfree %d %d" % (rng.randrange(0, 3), rng.randrange(0, sim.cap + 1)))
                sim.live = max(0, sim.live - 1)
            else:
                n = sim.cap + rng.choice([0, 1, 2])
                ops.append("ensure %d" % n)
                sim.ensure(n)
            ops.append("cnt")
            ops.append("dump")
        cases.append(ops)
    return cases, n_exh


def nontrivial(ops, out):
    # at least two successful allocations and a free or a successful growth
    a = sum(1 for l in out if l.startswith("b "))
    caps = {l.split()[1] for o, l in zip(ops, out) if o == "cnt" and len(l.split()) == 2}
    return a >= 2 and (any(l.startswith("ok") for o, l in zip(ops, out) if o.startswith("free")) or len(caps) > 1)


def main(ctx):
    ctx.cov["trusted_base"] = TRUSTED
    ctx.assumptions += TRUSTED[2:]
    ctx.cov["rule"] = (
        "bounded-exhaustive: ALL sequences of length L (7 quick / 9 thorough) over {alloc, free oldest, free newest, "
        "ensure cap+1, ensure cap+2} from init capacity 2 and 3 (and a 4-letter alphabet from capacity 1; a 7-letter "
        "alphabet with flag/maxdelta at length 5/7), counters and the whole pointer ring compared after every "
        "operation; init over capacities 0..9,16,31 x 9 block sizes with capacity+1 allocations; block_size x "
        "capacity products around k*2^32 (init, ensure_space, automatic growth); two histories with a data buffer "
        "really larger than 4 GiB, every block allocated; seeded random long histories "
        "(fill/drain/edge phases, flag, maxdelta, memlimit); separate malformed stream (double free, foreign "
        "index, free on empty, zero sizes, >32-bit arguments). distinct = distinct op lists; non-trivial = at "
        "least two successful allocations and a free or a growth in the implementation's answers")
    ctx.lean_obligations("drv_c06", PROOFS, GREP, leanchecker=["MgProof.C06.Props"])
    if not getattr(ctx, "driver_ok", False):
        return
    try:
        hcmd, dcmd = build(ctx)
    except vlib.BuildError as e:
        ctx.broken.append("harness-build: " + str(e)[:500])
        return
    cases, n_exh = gen_cases(ctx)
    vlib.seq_correspondence_batched(ctx, hcmd, dcmd, cases, batch=150000, nontrivial=nontrivial, keep_prefix=1, judge=judge)
    ctx.cov["exhaustive"] = True
    ctx.cov["exhaustive_cases"] = n_exh
    ctx.cov["explanation"] = ("exhaustive=true refers to the bounded operation-sequence space described in rule "
                              "(%d sequences); the theorems are unbounded" % n_exh)


def replay(ctx, path):
    hcmd, dcmd = build(ctx)
    vlib.lake_build(["drv_c06"])
    return vlib.replay_file(ctx, path, hcmd, dcmd, judge=judge)
