"""C17 — log rotation never loses, splits or misfiles a line.

Theorems: lean/MgProof/C17/Props.lean; models: lean/MgModel/C17/{Size,Time,Civil}.lean;
tie B: harness/c17/seq_logrotate.c drives the real log_file_rotate_handler.c /
log_file_time_rot_handler.c (+ os.c, path.c) in a scratch directory, with the
formatted line, msg.ts, time(NULL) and TZ under the harness's control."""
import calendar
import itertools
import os
import shutil
import vlib

PROOFS = ["MgProof.C17.LemmasSize", "MgProof.C17.LemmasTime", "MgProof.C17.Props"]
GREP = ["MgModel/C17", "MgProof/C17", "MgModel/Common", "Drv/C17.lean"]

TRUSTED = [
    "Lean 4.33 kernel; axioms as printed by the audit (subset of propext, Classical.choice, Quot.sound)",
    "tie B: harness/c17/seq_logrotate.c + lib/vlib.py comparison; the formatter is replaced by one that copies "
    "msg->payload (public muggle_log_handler_set_fmt), log_file_time_rot_handler.c is compiled with "
    "-Dtime=vh_time (scripted clock), TZ is a fixed-offset POSIX zone",
    "rename/remove/fopen/fwrite/fflush semantics (POSIX, no I/O failure, nobody else touches the directory while "
    "a handler is open); gmtime_r/localtime_r are a parameter of the time theorems, the driver's calendar "
    "(MgModel/C17/Civil.lean, fixed offsets, no DST) is validated against libc by the correspondence",
    "hypotheses of the time theorems: rotate_mod >= 1, unit in s/m/h/d, message timestamps non-decreasing and not "
    "before the clock at init (a message stamped earlier than the newest one seen is appended to the current file "
    "by design of detect())",
    "formatted line <= 4090 bytes (longer lines are C16's concern)",
]

SCRATCH = os.path.join(vlib.BUILD, "C17", "scratch")


def build(ctx):
    def pff(rel):
        return ["-Dtime=vh_time"] if rel.endswith("log_file_time_rot_handler.c") else []
    exe = vlib.build_harness("C17", "seq_logrotate", ["harness/c17/seq_logrotate.c"], "ALL",
                             per_file_flags=pff)
    return [exe], ctx.driver_cmd("drv_c17")


# ---------------------------------------------------------------------------
# size rotation
# ---------------------------------------------------------------------------

PRE_VARIANTS = [
    [],
    ["pre L 10"],
    ["pre L 25"],                       # live file already over every small limit
    ["pre 2 4", "pre 1 6", "pre L 3"],
    ["pre 2 9"],                        # gap: .1 missing
    ["pre 3 5", "pre 0 4", "pre 1 4"],  # .0 (removed when backup_count = 0), .3
]


def size_exhaustive(ctx):
    quick = ctx.quick
    L = 4 if quick else 6
    mbs = [1, 9, 10, 20] if quick else [1, 8, 9, 10, 13, 20]
    bcs = [0, 1, 2, 3]
    alpha = ["w 3", "w 7", "w 10", "R"]
    cases = []
    for mb, bc, pre in itertools.product(mbs, bcs, PRE_VARIANTS):
        for seq in itertools.product(alpha, repeat=L):
            if not quick and seq[0] == "R":
                continue                # R first = same as the initial rinit
            ops = list(pre) + ["rinit %d %d" % (mb, bc)]
            for a in seq:
                if a == "R":
                    ops += ["close", "rinit %d %d" % (mb, bc)]
                else:
                    ops.append(a)
                ops.append("view")
            ops.append("ls")
            cases.append(ops)
    return cases


def rand_len(rng, mb):
    r = rng.random()
    if r < 0.25:
        return rng.choice([3, 4, 5, 8])
    if r < 0.6:
        return min(4090, max(3, rng.choice([mb - 1, mb, mb + 1, mb // 2, mb // 2 + 1, mb // 3, 2 * mb])))
    if r < 0.9:
        return rng.randrange(3, max(4, min(4090, 2 * mb)))
    return rng.randrange(3, 4091)


def rand_mb(rng):
    r = rng.random()
    if r < 0.2:
        return rng.choice([1, 2, 3, 4096, 4095, 1024])
    if r < 0.6:
        return rng.randrange(1, 64)
    return rng.randrange(1, 4097)


def size_random(ctx, n, vary_bc=False, external=False):
    rng = ctx.rng
    cases = []
    for _ in range(n):
        mb = rand_mb(rng)
        bc = rng.choice([0, 1, 2, 3, 4, 5])
        ops = []
        # pre-existing files, oldest first so that line ids grow along the chain
        if rng.random() < 0.5:
            idxs = sorted(rng.sample(range(0, 9), rng.randrange(0, 5)), reverse=True)
            for i in idxs:
                ops.append("pre %d %s" % (i, " ".join(str(rand_len(rng, mb)) for _ in range(rng.randrange(0, 4)))))
            if rng.random() < 0.6:
                ops.append("pre L " + " ".join(str(rand_len(rng, mb)) for _ in range(rng.randrange(0, 4))))
            ops = [o.rstrip() for o in ops]
        rel = " rel" if rng.random() < 0.2 else ""
        ops.append("rinit %d %d%s" % (mb, bc, rel))
        nlines = 0
        kmin = max(bc, 1)
        for _k in range(rng.choice([10, 40, 120, 300])):
            if nlines > 3900:
                break
            r = rng.random()
            if r < 0.82:
                ops.append("w %d" % rand_len(rng, mb))
                nlines += 1
            elif r < 0.90:
                ops.append(rng.choice(["view", "view %d" % kmin, "ls"]))
            else:
                ops.append("close")
                if external and rng.random() < 0.5:
                    ops.append("pre %s %d" % (rng.choice(["L", "1", "2", "7"]), rand_len(rng, mb)))
                    nlines += 1
                if rng.random() < 0.5:
                    mb = rand_mb(rng)
                if vary_bc and rng.random() < 0.6:
                    bc = rng.choice([0, 1, 2, 3, 4, 5])
                    kmin = min(kmin, max(bc, 1))
                ops.append("rinit %d %d%s" % (mb, bc, rel))
        ops += ["view", "view %d" % kmin, "ls"]
        cases.append(ops)
    return cases


def size_malformed(ctx):
    rng = ctx.rng
    cases = [
        ["rinit 0 2", "w 5", "w 5", "view", "ls"],                 # max_bytes 0: rotates on every write
        ["rinit 0 0", "w 5", "close", "rinit 0 0", "view", "ls"],
        ["w 5", "close", "view", "ls"],                            # nothing open
        ["rinit 10 2", "rinit 10 2", "w 2", "w 4091", "w 5", "ls"],  # double init / bad lengths
        ["pre 40 5", "pre 39 6", "rinit 5 40", "w 5", "w 5", "ls"],  # long rename chain
        ["pre L 5", "rinit 100 3", "pre L 5", "w 5", "close", "pre L 7 7", "rinit 10 3", "view", "ls"],
    ]
    cases += size_random(ctx, 30 if ctx.quick else 300, vary_bc=True, external=True)
    return cases


# ---------------------------------------------------------------------------
# time rotation
# ---------------------------------------------------------------------------

def ts(y, mo, d, h=0, mi=0, s=0):
    return calendar.timegm((y, mo, d, h, mi, s, 0, 0, 0))


BASES = [
    ts(2024, 2, 29, 23, 59, 58),      # leap day -> March
    ts(2023, 12, 31, 23, 59, 58),     # year end
    ts(2100, 2, 28, 23, 59, 58),      # 2100 is not a leap year
    ts(2024, 4, 30, 18, 29, 58),      # month end in UTC+5:30
    ts(2025, 1, 1, 2, 59, 58),        # year end in UTC-3
    ts(2038, 1, 19, 3, 14, 6),        # 2^31 - 2
    ts(2024, 7, 9, 11, 58, 59),
]
GAPS = [0, 1, 2, 59, 60, 3599, 3600, 86399, 86400, 86401, 6 * 86400, 30 * 86400]
UNIT_SECS = {"s": 1, "m": 60, "h": 3600, "d": 86400}


def time_exhaustive(ctx):
    quick = ctx.quick
    cases = []

    def block(mods, zones, bases, gaps, L):
        for u, mod, (loc, tz), base in itertools.product("smhd", mods, zones, bases):
            if quick and (mod, tz) in ((7, -180), (2, 330)) and u in "hd":
                continue
            for gs in itertools.product(gaps, repeat=L):
                ops = ["tz %d" % tz, "clock %d" % base, "tinit %s %d %d" % (u, mod, loc)]
                t = base
                for g in gs:
                    t += g
                    ops.append("tw %d 5" % t)
                ops += ["cur", "ls"]
                cases.append(ops)

    if quick:
        block([1, 2, 7, 30], [(0, 0), (1, 330), (1, -180), (0, 330)], BASES[:5],
              [0, 1, 2, 60, 3600, 86400, 30 * 86400], 2)
    else:
        block([1, 2, 3, 5, 7, 15, 30],
              [(0, 0), (1, 0), (1, 330), (1, -180), (0, 330), (1, 840), (1, -720), (1, 345)],
              BASES, GAPS, 2)
        block([1, 7, 30], [(0, 0), (1, 330), (1, -180), (1, 345)], BASES,
              [0, 1, 60, 3600, 86400, 30 * 86400], 3)
    return cases


def next_boundary(t, u, mod, tzmin):
    """a timestamp near the next change of the unit's field (in the zone)"""
    q = UNIT_SECS[u]
    loc = t + tzmin * 60
    nb = (loc // q + 1) * q - tzmin * 60
    return nb


def time_random(ctx, n, monotone=True):
    rng = ctx.rng
    cases = []
    for _ in range(n):
        u = rng.choice("smhd")
        mod = rng.choice([1, 1, 2, 3, 5, 7, 10, 15, 24, 29, 30])
        loc = rng.choice([0, 1])
        tz = rng.choice([0, 0, 60, 330, 345, 840, -180, -570, -720])
        t = rng.choice(BASES + [rng.randrange(1, 2 ** 32), rng.randrange(1, 5 * 10 ** 9)])
        t -= rng.choice([0, 0, 3, 100, 5000, 100000])
        t = max(1, t)
        ops = ["tz %d" % tz, "clock %d" % t, "tinit %s %d %d%s" % (u, mod, loc, " rel" if rng.random() < 0.15 else "")]
        q = UNIT_SECS[u]
        hi = t
        for _k in range(rng.choice([5, 20, 60, 150])):
            r = rng.random()
            if r < 0.35:
                g = rng.choice([0, 0, 1, 1, 2])
            elif r < 0.6:
                g = rng.choice([q - 1, q, q + 1, q * mod - 1, q * mod, q * mod + 1, q // 2])
            elif r < 0.85:
                nb = next_boundary(t, rng.choice("smhd"), mod, tz if loc else 0)
                g = nb - t + rng.choice([-1, 0, 0, 1])
            else:
                g = rng.randrange(0, 40 * 86400)
            if not monotone and rng.random() < 0.3:
                g = -rng.randrange(0, 3 * q * mod + 2)
            t = max(1, t + max(g, 0) if monotone else t + g)
            hi = max(hi, t)
            p = rng.random()
            if p < 0.8:
                ops.append("tw %d %d" % (t, rng.choice([3, 5, 17, 200])))
            elif p < 0.86:
                # message without a timestamp: the handler reads the clock
                ops.append("clock %d" % t)
                ops.append("tw 0 %d" % rng.choice([3, 9]))
            elif p < 0.92:
                ops.append(rng.choice(["cur", "ls"]))
            else:
                ops.append("close")
                if rng.random() < 0.5:
                    u = rng.choice("smhd")
                    mod = rng.choice([1, 2, 5, 7, 30])
                    loc = rng.choice([0, 1])
                    q = UNIT_SECS[u]
                if monotone:
                    t = hi + rng.choice([0, 0, 1, q, 86400])
                    hi = t
                else:
                    t = max(1, t + rng.choice([-q, 0, 1, q]))
                ops.append("clock %d" % t)
                ops.append("tinit %s %d %d" % (u, mod, loc))
        ops += ["cur", "ls"]
        cases.append(ops)
    return cases


def time_malformed(ctx):
    cases = [
        ["clock 100", "tinit s 0 0", "tinit x 1 0", "tw 100 5", "cur", "ls"],   # rejected configurations
        ["clock 100", "tinit s 1 0", "tinit s 1 0", "tw 100 2", "tw 99 5", "tw 98 5", "tw 101 5", "ls"],
        ["tw 5 5", "close", "cur", "ls"],
    ]
    cases += time_random(ctx, 40 if ctx.quick else 400, monotone=False)
    return cases


# ---------------------------------------------------------------------------
# the LITERAL clause: backup_count changing at restarts, view judged with the
# backup_count in force at the time of the view
# ---------------------------------------------------------------------------

KNOWN_STALE = "C17-stale-backups-after-backup-count-shrank"
WITNESS = ["rinit 5 3", "w 6", "w 6", "w 6", "close", "rinit 5 0", "w 6", "close", "rinit 5 3", "w 6", "view", "ls"]


def size_literal(ctx):
    """histories on an empty directory; backup_count changes at restarts; plain `view`
    (k = max(backup_count,1) of the handler that is open) after every restart and write burst"""
    rng = ctx.rng
    quick = ctx.quick
    cases = [list(WITNESS)]
    # bounded-exhaustive: every sequence of 3 (quick) / 4 backup counts over 0..3, every burst
    # length in {1,2,4} per session, limit 5 and 6-byte lines (each write rotates)
    nsess = 3 if quick else 4
    bursts = [1, 2, 4] if quick else [1, 3]
    for bcs in itertools.product([0, 1, 2, 3], repeat=nsess):
        for bs in itertools.product(bursts, repeat=nsess):
            ops = []
            for bc, b in zip(bcs, bs):
                if ops:
                    ops.append("close")
                ops.append("rinit 5 %d" % bc)
                ops.append("view")
                ops += ["w 6"] * b
                ops.append("view")
            ops.append("ls")
            cases.append(ops)
    # random: mixed line lengths, rotations not on every write, counts 0..5
    for _ in range(400 if quick else 6000):
        mb = rng.choice([1, 5, 9, 16, 33, 64, rng.randrange(1, 200)])
        ops = []
        total = 0
        for _s in range(rng.randrange(2, 7)):
            if ops:
                ops.append("close")
            if rng.random() < 0.3:
                mb = rng.choice([1, 5, 9, 16, 33, 64, rng.randrange(1, 200)])
            ops.append("rinit %d %d" % (mb, rng.choice([0, 1, 2, 3, 4, 5])))
            ops.append("view")
            for _w in range(rng.randrange(0, 14)):
                ops.append("w %d" % rand_len(rng, mb))
                total += 1
                if rng.random() < 0.3:
                    ops.append("view")
            ops.append("view")
        ops.append("ls")
        cases.append(ops)
    return cases


def shrink_then_grow(effs, j):
    """is a gap after path.j attributable to the recorded finding?  There must be a session b
    that kept fewer backups than an earlier one (the count shrank) and fewer than a later one
    (it grew again), and the gap must be above that smaller count: path.(eff_b+1).. were not
    shifted while b was running and are stale (later rotations may have moved them further up)."""
    valleys = [e for i, e in enumerate(effs)
               if any(x > e for x in effs[:i]) and any(x > e for x in effs[i + 1:])]
    return bool(valleys) and j > min(valleys)


def literal_oracle(ops, out):
    """None | ("known", msg) | ("violation", msg): the literal clause judged on the
    implementation's own output.  Every plain `view` must list, oldest file first, whole
    lines with consecutive ids ending with the newest line written.  A forward gap between
    two files is attributed to the recorded finding only when the history contains a restart
    with a smaller backup_count followed by one with a larger count and the older file's index
    is above that smaller count (shrink_then_grow); anything else (gap elsewhere, duplicate, reordering, missing newest line, split
    line) is a violation."""
    effs = []
    created = 0
    last_written = None
    zero_limit = False
    known = None
    for op, line in zip(ops, out):
        t = op.split()
        if "CORRUPT" in line:
            return ("violation", "a file is not a sequence of whole lines: " + line[:200])
        if t[0] == "pre":
            return None                                   # not a literal-family history
        if t[0] == "rinit" and line.startswith("ok"):
            effs.append(max(int(t[2]), 1))
            zero_limit = zero_limit or int(t[1]) == 0
        elif t[0] == "w" and line not in ("closed", "bad-op"):
            last_written = created
            created += 1
        elif op == "view" and line.startswith("k=") and effs:
            k = int(line[2:].split()[0])
            if k != effs[-1]:
                return ("violation", "view not taken with the backup_count in force: " + line[:100])
            body = line.split(" : ", 1)[1] if " : " in line else ""
            segs = [[int(x.split(":")[0]) for x in sg.split() if ":" in x] for sg in body.split("/")]
            if len(segs) != k + 1:
                return ("violation", "view has %d files, expected %d: %s" % (len(segs), k + 1, line[:200]))
            prev = None           # (last id, file index) of the previous non-empty file
            for pos, ids in enumerate(segs):
                idx = k - pos     # file index: k .. 1, 0 = live
                for a, b in zip(ids, ids[1:]):
                    if b != a + 1:
                        return ("violation", "lines inside path.%d not consecutive: %s" % (idx, line[:200]))
                if not ids:
                    continue
                if prev is not None and ids[0] != prev[0] + 1:
                    if ids[0] <= prev[0]:
                        return ("violation", "duplicate / reordered lines across files: " + line[:200])
                    if shrink_then_grow(effs, prev[1]):
                        known = known or ("stale path.%d after backup_count shrank and grew (%s): %s"
                                          % (prev[1], effs, line[:200]))
                    else:
                        return ("violation", "gap after path.%d not explained by stale backups (%s): %s"
                                % (prev[1], effs, line[:200]))
                prev = (ids[-1], idx)
            if last_written is not None and not zero_limit and (prev is None or prev[0] != last_written):
                return ("violation", "newest line %d missing from view: %s" % (last_written, line[:200]))
    return ("known", known) if known else None


def judge_literal(ops, out):
    """the general monitor plus the literal clause; the recorded finding itself is not a failure here"""
    m = judge(ops, out)
    if m:
        return m
    v = literal_oracle(ops, out)
    return v[1] if v and v[0] == "violation" else None


def run_literal(ctx, hcmd, dcmd, env):
    cases = size_literal(ctx)
    impl = vlib.run_cases(hcmd, cases, timeout=1500, env=env)
    mres = vlib.run_cases(dcmd, cases, timeout=1500)
    model, spec = vlib.split_model_spec(mres)
    differ = {d[0] for d in vlib.compare_streams(impl, model)}
    stats = {"histories": len(cases), "histories_with_shrink_then_grow": 0, "views_judged": 0,
             "literal_clause_holds": 0, "known_finding_hits": 0, "other_failures": 0}
    known_cases, bad_cases = [], []
    for i, c in enumerate(cases):
        effs = [max(int(o.split()[2]), 1) for o in c if o.startswith("rinit")]
        if any(shrink_then_grow(effs[:n], j) for n in range(1, len(effs) + 1) for j in range(1, 6)):
            stats["histories_with_shrink_then_grow"] += 1
        stats["views_judged"] += sum(1 for o in c if o == "view")
        if impl[i]["crash"] or i in differ or vlib.first_spec_diff(impl[i]["out"], spec[i]) \
                or judge(c, impl[i]["out"]):
            bad_cases.append(c)
            continue
        v = literal_oracle(c, impl[i]["out"])
        if v is None:
            stats["literal_clause_holds"] += 1
        elif v[0] == "known":
            known_cases.append(c)
        else:
            bad_cases.append(c)
    stats["known_finding_hits"] = len(known_cases)
    stats["other_failures"] = len(bad_cases)
    seen = set()
    for i, c in enumerate(cases):
        if tuple(c) not in seen:
            seen.add(tuple(c))
            if nontrivial(c, impl[i]["out"]):
                ctx.cov["distinct_nontrivial"] += 1
    ctx.cov["evaluations"] += len(cases)
    ctx.cov["ties"]["literal"] = stats
    ctx.cov["literal_clause"] = stats
    if bad_cases:
        # anything that is not exactly the recorded finding: ordinary violation (shrunk, replay)
        vlib.seq_correspondence(ctx, hcmd, dcmd, bad_cases[:50], nontrivial=nontrivial, keep_prefix=0,
                                env=env, judge=judge_literal, label="tieB-literal-failures", timeout=1500,
                                corpus_dir=os.path.join(vlib.BUILD, "C17", "no-corpus"),
                                signature_of=lambda ops, a: "ops: " + " ; ".join(ops))
    if known_cases:
        def is_known(ops):
            a = vlib.run_one(hcmd, ops, env=env)
            b = vlib.run_one(dcmd, ops)
            mo, sp = vlib.split_model_spec([b])
            if a["crash"] or vlib.compare_streams([a], mo) or vlib.first_spec_diff(a["out"], sp[0]):
                return False
            v = literal_oracle(ops, a["out"])
            return bool(v and v[0] == "known")
        c = min(known_cases, key=len)
        ops = vlib.ddmin(c, is_known, keep_prefix=0)
        a = vlib.run_one(hcmd, ops, env=env)
        b = vlib.run_one(dcmd, ops)
        v = literal_oracle(ops, a["out"])
        ctx.violation({"kind": "literal-clause-fails-on-implementation", "tie": "literal",
                       "ops": ops, "implementation": a["out"], "model_and_spec": b["out"],
                       "oracle": v[1] if v else None,
                       "lean_witness": "MgProof.C17.size_view_literal_fails",
                       "histories_hitting_it": len(known_cases),
                       "how_to_replay": "bin/check C17 --replay <this file>"},
                      found_input=True, signature=KNOWN_STALE)


# ---------------------------------------------------------------------------

def gen_cases(ctx):
    quick = ctx.quick
    cases = []
    cases += size_exhaustive(ctx)
    cases += time_exhaustive(ctx)
    cases += size_random(ctx, 250 if quick else 3000)
    cases += size_random(ctx, 60 if quick else 600, vary_bc=True)
    cases += time_random(ctx, 300 if quick else 4000)
    cases += size_malformed(ctx)
    cases += time_malformed(ctx)
    return cases


def nontrivial(ops, out):
    # the history produced at least two non-empty files (a rotation really happened)
    for line in reversed(out):
        if line.startswith("ls"):
            groups = [g for g in line.split("]") if "[" in g and not g.endswith("[")]
            return len(groups) >= 2
    return False


def judge(ops, out):
    """Spec-level monitor on the implementation's own output, independent of Lean:
    whenever the pre-existing files were created oldest-first, nobody touched the
    directory afterwards and k <= every max(backup_count,1) so far, `view k` (k newest backups oldest..newest ++ live) must list consecutive
    line ids and end with the newest line written; no file may be CORRUPT (a split line);
    no time-rotated line may be lost / split / land in several files."""
    ordered = True
    started = False
    last_pre = None
    created = 0
    last_written = None
    keep = None
    zero_limit = False
    for op, line in zip(ops, out):
        t = op.split()
        if "CORRUPT" in line:
            return "a file is not a sequence of whole lines: " + line[:200]
        if t[0] == "tw" and line.split()[-1] in ("lost", "split", "multi", "P?"):
            return "time-rotated line %s: %s" % (line.split()[-1], op)
        if t[0] == "pre" and line == "ok":
            if started:
                ordered = False
            idx = 10 ** 6 if t[1] == "L" else -int(t[1])
            if t[1] == "0":
                ordered = False         # app.log.0 is not part of the chain
            if last_pre is not None and idx < last_pre:
                ordered = False
            last_pre = idx
            created += len(t) - 2
        elif t[0] == "rinit" and line.startswith("ok"):
            started = True
            k = max(int(t[2]), 1)
            keep = k if keep is None else min(keep, k)   # smallest number of backups kept so far
            if int(t[1]) == 0:
                zero_limit = True       # max_bytes 0 (outside the property): empty files are rotated too
        elif t[0] in ("w", "tw") and line not in ("closed", "bad-op"):
            last_written = created
            created += 1
        elif t[0] == "view" and ordered and line.startswith("k="):
            if keep is None or int(line[2:].split()[0]) > keep:
                continue                # files beyond the smallest backup_count may be stale leftovers
            body = line.split(" : ", 1)[1] if " : " in line else ""
            ids = [int(x.split(":")[0]) for x in body.replace("/", " ").split() if ":" in x]
            for a, b in zip(ids, ids[1:]):
                if b != a + 1:
                    return "view is not contiguous: " + line[:200]
            if last_written is not None and not zero_limit and (not ids or ids[-1] != last_written):
                return "newest line %d missing from view: %s" % (last_written, line[:200])
    return None


def main(ctx):
    ctx.cov["trusted_base"] = TRUSTED
    ctx.assumptions += TRUSTED[2:]
    ctx.cov["rule"] = (
        "size handler: bounded-exhaustive op sequences over {w 3, w 7, w 10, restart} of length L for every "
        "max_bytes in a small set x backup_count 0..3 x 6 pre-existing directory layouts (view after every op) + "
        "seeded random histories (max_bytes 1..4096, backup_count 0..5, line lengths biased to max_bytes-1/max_bytes/"
        "max_bytes+1, restarts with new limits, pre-existing files incl. gaps and indices beyond backup_count, "
        "relative paths) + malformed stream (max_bytes 0, directory modified between sessions, backup_count "
        "changed between sessions, long rename chain, calls on a closed handler); time handler: bounded-exhaustive "
        "gap tuples from boundary bases (leap day, year end, 2100-02-28, month end in UTC+5:30, 2^31) for every "
        "unit x rotate_mod x (UTC|local, zone) + seeded random monotone timelines biased to unit boundaries with "
        "restarts/reconfiguration and clock-stamped messages + non-monotone malformed stream; distinct = distinct "
        "op lists; non-trivial = the final directory has at least two non-empty files; literal family: histories on "
        "an empty directory with backup_count changing at restarts (every sequence of 3/4 counts over 0..3 x burst "
        "lengths, + random), plain view judged with the count in force by an oracle on the implementation's output "
        "(coverage.literal_clause: histories / known-finding hits / other failures)")
    ctx.lean_obligations("drv_c17", PROOFS, GREP, leanchecker=["MgProof.C17.Props"])
    if not getattr(ctx, "driver_ok", False):
        return
    try:
        hcmd, dcmd = build(ctx)
    except vlib.BuildError as e:
        ctx.broken.append("harness-build: " + str(e)[:500])
        return
    cases = gen_cases(ctx)
    scratch = os.path.join(SCRATCH, "run%d" % os.getpid())
    try:
        vlib.seq_correspondence(ctx, hcmd, dcmd, cases, nontrivial=nontrivial, keep_prefix=0,
                                env={"VH_SCRATCH": scratch}, judge=judge, timeout=1500,
                                signature_of=lambda ops, a: "ops: " + " ; ".join(ops))
        run_literal(ctx, hcmd, dcmd, {"VH_SCRATCH": scratch})
    finally:
        shutil.rmtree(scratch, ignore_errors=True)
        try:
            os.rmdir(SCRATCH)
        except OSError:
            pass
    ctx.cov["exhaustive"] = True
    ctx.cov["explanation"] = ("exhaustive=true refers to the bounded op-sequence spaces described in rule; "
                              "the theorems are unbounded (any history, any limits, any zone function)")


def replay(ctx, path):
    hcmd, dcmd = build(ctx)
    vlib.lake_build(["drv_c17"])
    scratch = os.path.join(SCRATCH, "replay%d" % os.getpid())
    try:
        import json
        r = json.load(open(path))
        env = {"VH_SCRATCH": scratch}
        if r.get("signature") == KNOWN_STALE and r.get("ops"):
            a = vlib.run_one(hcmd, r["ops"], env=env)
            b = vlib.run_one(dcmd, r["ops"])
            mo, sp = vlib.split_model_spec([b])
            print("ops:", r["ops"])
            print("implementation:", a["out"], "crash:", a["crash"])
            print("model:", mo[0]["out"])
            v = literal_oracle(r["ops"], a["out"])
            if not a["crash"] and not vlib.compare_streams([a], mo) and v and v[0] == "known":
                k = ctx.matches_known(KNOWN_STALE)
                if k is not None:
                    print("KNOWN-FINDING: property=C17 %s" % k.get("what", KNOWN_STALE))
                    return 0
                print("VIOLATION property=C17 replay=%s" % path)
                return 1
            # not (only) the recorded finding any more: fall through to the general replay
        return vlib.replay_file(ctx, path, hcmd, dcmd, env=env, judge=judge_literal)
    finally:
        shutil.rmtree(scratch, ignore_errors=True)
        try:
            os.rmdir(SCRATCH)
        except OSError:
            pass
