"""C10 — heap order and the five sorts. Theorems: lean/MgProof/C10/Props.lean; models:
lean/MgModel/C10/{Heap,Sort}.lean; tie B: harness/c10/seq_heap.c, seq_sort.c against the
real muggle/c/dsaa/heap.c and sort.c (exact output, including the order of equal keys),
plus a spec-level monitor (multiset / heap order / sorted permutation) on the
implementation's own answers."""
import itertools
import os
import vlib

PROOFS = ["MgProof.C10.Basic", "MgProof.C10.SortLemmas", "MgProof.C10.HeapLemmas", "MgProof.C10.HeapOps",
          "MgProof.C10.HeapHistory", "MgProof.C10.HeapSortLemmas", "MgProof.C10.MergeLemmas",
          "MgProof.C10.QuickLemmas", "MgProof.C10.Props"]
GREP = ["MgModel/C10", "MgProof/C10", "MgModel/Common", "Drv/C10.lean"]
REPO_SRCS = ["muggle/c/dsaa/heap.c", "muggle/c/dsaa/sort.c"]
ALGS = ["ins", "shell", "heap", "merge", "quick"]

TRUSTED = [
    "Lean 4.33 kernel; axioms as printed by the audit (subset of propext, Classical.choice, Quot.sound)",
    "tie B: harness/c10/seq_heap.c, harness/c10/seq_sort.c + lib/vlib.py comparison (exact output incl. order of "
    "equal keys) and the Python spec monitor in checks/C10/check.py",
    "comparison callback = a consistent total preorder, modelled as integer keys (any consistent callback on a "
    "finite set of pointers is induced by an integer rank)",
    "size_t arithmetic on Nat: left+right < 2^64 (count < 2^63); heap sort: count < 2^31-1 (beyond that "
    "muggle_heap_init refuses the capacity and the routine returns false)",
    "allocation failure is outside this property (C18)",
    "the model is the code WITH fixes/C10-heap-remove-last-slot.patch and fixes/C10-sort-count-zero.patch "
    "(in /repo as cb68d3b and 1420afa); the unpatched entry points are modelled as removeOrig / mergeSortOrig / "
    "quickSortOrig and proved to fail, and on a tree without the fixes the check reports the crashes with replays",
]


def build(ctx):
    heap = vlib.build_harness("C10", "seq_heap", ["harness/c10/seq_heap.c"], REPO_SRCS)
    sort = vlib.build_harness("C10", "seq_sort", ["harness/c10/seq_sort.c"], REPO_SRCS)
    return [heap], [sort], ctx.driver_cmd("drv_c10")


# --------------------------------------------------------------------------
# spec-level monitors (judge the implementation's own answers)
# --------------------------------------------------------------------------

def _pair(tok):
    k, v = tok.rsplit(":", 1)
    return int(k), int(v)


def judge_heap(ops, out):
    """multiset + min + heap-order monitor. Returns a message on the first violation."""
    ms = None            # list of (k, v) or None when no heap exists
    for j, (op, res) in enumerate(zip(ops, out)):
        t = op.split()
        try:
            if t[0] == "init":
                ms = [] if res == "ok" else None
                continue
            if ms is None:
                if res != "bad-op":
                    return "line %d: %r answered %r without a heap" % (j, op, res)
                continue
            mn = min((k for k, _ in ms), default=None)
            if t[0] == "ins":
                if res == "ok":
                    ms.append((int(t[1]), int(t[2])))
                elif res != "fail":
                    return "line %d: ins answered %r" % (j, res)
            elif t[0] in ("root", "ext"):
                if res == "none":
                    if ms:
                        return "line %d: %s says empty but %d entries expected" % (j, t[0], len(ms))
                else:
                    e = _pair(res)
                    if e not in ms:
                        return "line %d: %s returned %s which is not in the heap" % (j, t[0], res)
                    if e[0] != mn:
                        return "line %d: %s returned key %d but the minimum is %d" % (j, t[0], e[0], mn)
                    if t[0] == "ext":
                        ms.remove(e)
            elif t[0] == "minkey":
                want = "none" if mn is None else str(mn)
                if res != want:
                    return "line %d: minkey %s, expected %s" % (j, res, want)
            elif t[0] in ("find", "has"):
                present = any(k == int(t[1]) for k, _ in ms)
                if t[0] == "has":
                    ok = res == ("1" if present else "0")
                else:
                    ok = (res == "none") if not present else (res != "none" and 1 <= int(res) <= len(ms))
                if not ok:
                    return "line %d: %s answered %s, key present=%s" % (j, op, res, present)
            elif t[0] == "rm":
                present = any(k == int(t[1]) for k, _ in ms)
                if res == "none":
                    if present:
                        return "line %d: rm did not find a key that is in the heap" % j
                else:
                    r = res.split()
                    if r[0] != "ok" or len(r) != 3:
                        return "line %d: rm answered %r" % (j, res)
                    e = _pair(r[2])
                    if e[0] != int(t[1]) or e not in ms:
                        return "line %d: rm %s removed %s (not an entry with that key)" % (j, t[1], r[2])
                    ms.remove(e)
            elif t[0] in ("rmi", "rml"):
                idx = len(ms) if t[0] == "rml" else int(t[1])
                valid = 1 <= idx <= len(ms)
                if res == "fail":
                    if valid:
                        return "line %d: %s refused a live node (size %d)" % (j, op, len(ms))
                else:
                    r = res.split()
                    if r[0] != "ok" or len(r) != 2 or not valid:
                        return "line %d: %s answered %r (size %d)" % (j, op, res, len(ms))
                    e = _pair(r[1])
                    if e not in ms:
                        return "line %d: %s released %s which is not in the heap" % (j, op, r[1])
                    ms.remove(e)
            elif t[0] == "size":
                if res != str(len(ms)):
                    return "line %d: size %s, expected %d" % (j, res, len(ms))
            elif t[0] == "empty":
                if res != ("1" if not ms else "0"):
                    return "line %d: empty %s with %d entries" % (j, res, len(ms))
            elif t[0] == "clear":
                if res != "ok %d" % len(ms):
                    return "line %d: clear answered %r, %d entries expected" % (j, res, len(ms))
                ms = []
            elif t[0] == "dump":
                head, _, body = res.partition(":")
                ents = [_pair(x) for x in body.split()]
                if int(head.split()[0]) != len(ms) or sorted(ents) != sorted(ms):
                    return "line %d: contents %s differ from the expected multiset %s" % (j, sorted(ents), sorted(ms))
                for i in range(2, len(ents) + 1):
                    if ents[i // 2 - 1][0] > ents[i - 1][0]:
                        return "line %d: heap order broken at node %d" % (j, i)
        except (ValueError, IndexError):
            return "line %d: unparsable answer %r to %r" % (j, res, op)
    return None


def judge_sort(ops, out):
    keys = []
    for j, (op, res) in enumerate(zip(ops, out)):
        t = op.split()
        try:
            if t[0] == "a":
                keys += [int(x) for x in t[1:]]
            elif t[0] == "sort" and len(t) == 2 and t[1] in ALGS:
                r = res.split()
                if r[0] != "ok":
                    return "line %d: %s answered %r" % (j, op, res[:80])
                ents = [_pair(x) for x in r[1:]]
                if len(ents) != len(keys):
                    return "line %d: %s returned %d of %d elements" % (j, op, len(ents), len(keys))
                if sorted(i for _, i in ents) != list(range(len(keys))):
                    return "line %d: %s lost or duplicated a pointer" % (j, op)
                if any(keys[i] != k for k, i in ents):
                    return "line %d: %s returned a pointer with a foreign key" % (j, op)
                if any(ents[i][0] > ents[i + 1][0] for i in range(len(ents) - 1)):
                    return "line %d: %s output is not in non-decreasing order" % (j, op)
            elif t[0] == "keys" and len(t) == 2 and t[1] in ALGS:
                r = res.split()
                if r[0] != "k" or [int(x) for x in r[1:]] != sorted(keys):
                    return "line %d: %s keys are not the sorted input keys" % (j, op)
        except (ValueError, IndexError):
            return "line %d: unparsable answer %r to %r" % (j, res[:80], op)
    return None


def sig_heap(ops, a):
    if a["crash"]:
        last = ops[min(len(a["out"]), len(ops) - 1)].split()[0]
        return "heap:crash-in-" + last
    return "heap:" + (judge_heap(ops, a["out"]) or "model-diff").split(":")[-1][:60]


def sig_sort(ops, a):
    n = sum(len(o.split()) - 1 for o in ops if o.startswith("a"))
    if a["crash"]:
        last = ops[min(len(a["out"]), len(ops) - 1)]
        return "sort:crash-in-%s%s" % (last.split()[-1], " count=0" if n == 0 else "")
    msg = judge_sort(ops, a["out"])
    return "sort:" + (msg.split(":", 1)[-1].strip()[:70] if msg else "model-diff")


class OncePerSignature:
    """vlib shrinks every failing case before it looks at the signature; when thousands of
    cases fail for one reason that takes forever. The first case of a signature keeps it
    (de-duplication + known-findings lookup); later cases of the same signature are numbered,
    reported as further instances and so exhaust max_reports after at most 3 shrinks."""

    def __init__(self, f):
        self.f, self.seen = f, {}

    def __call__(self, ops, a):
        s = self.f(ops, a)
        n = self.seen.get(s, 0) + 1
        self.seen[s] = n
        return s if n == 1 else "%s (instance %d)" % (s, n)


# --------------------------------------------------------------------------
# generators
# --------------------------------------------------------------------------

def gen_heap(ctx):
    quick = ctx.quick
    rng = ctx.rng
    cases = []
    # (i-a) every key tuple over a small alphabet, every position removed, then drained
    lim = [(3, 6), (2, 8), (4, 4)] if quick else [(3, 8), (4, 6), (2, 11), (5, 5)]
    seen = set()
    for m, L in lim:
        for n in range(1, L + 1):
            for ks in itertools.product(range(m), repeat=n):
                if ks in seen:
                    continue
                seen.add(ks)
                pre = ["init %d" % (1 + (n % 3))] + ["ins %d %d" % (k, i) for i, k in enumerate(ks)]
                for p in range(0, n + 2):
                    ops = pre + ["rmi %d" % p, "dump", "minkey"] + ["ext"] * n + ["empty"]
                    cases.append(ops)
    # (i-b) every operation sequence of length L over a small op alphabet
    alpha = ["ins 0", "ins 1", "ins 2", "ext", "rm 0", "rm 1", "rm 2", "rml"]
    L = 5 if quick else 6
    for seq in itertools.product(alpha, repeat=L):
        if seq[0][0] != "i":
            continue
        ops = ["init 1"]
        for i, o in enumerate(seq):
            ops.append(o + (" %d" % i if o.startswith("ins") else ""))
        ops += ["dump", "size", "minkey"]
        cases.append(ops)
    # (ii) long random histories (growth past the initial capacity, phases of growth/shrink)
    for _ in range(1000 if quick else 12000):
        cap = rng.choice([0, 1, 1, 2, 3, 8])
        nk = rng.choice([1, 2, 3, 5, 20, 1000])
        n_ops = rng.choice([20, 60, 200, 600])
        ops = ["init %d" % cap]
        vid = 0
        est = 0
        grow = True
        for _ in range(n_ops):
            if rng.random() < 0.03:
                grow = not grow
            r = rng.random()
            k = rng.randrange(nk) - nk // 2
            if r < (0.6 if grow else 0.25):
                ops.append("ins %d %d" % (k, vid)); vid += 1; est += 1
            elif r < (0.7 if grow else 0.5):
                ops.append("ext"); est = max(0, est - 1)
            elif r < (0.8 if grow else 0.7):
                ops.append("rm %d" % k); est = max(0, est - 1)
            elif r < (0.85 if grow else 0.8):
                ops.append("rml"); est = max(0, est - 1)
            elif r < 0.9:
                ops.append("rmi %d" % rng.randrange(0, est + 3)); est = max(0, est - 1)
            else:
                ops.append(rng.choice(["root", "minkey", "dump", "size", "empty", "find %d" % k,
                                       "has %d" % k, "dump"]))
        ops += ["dump"] + ["ext"] * min(est + 2, 40) + ["dump"]
        cases.append(ops)
    # (iii) malformed: no heap, invalid capacities, invalid nodes, clear/ensure in the middle
    cases.append(["ins 1 1", "ext", "dump", "rml", "root"])
    cases.append(["init 2147483648", "ins 1 1", "dump"])
    cases.append(["init 4294967296", "dump", "init 3", "ins 1 0", "ens 2147483648", "ens 2", "ens 100", "dump"])
    for _ in range(40 if quick else 400):
        ops = ["init %d" % rng.choice([0, 1, 5])]
        vid = 0
        for _ in range(30):
            r = rng.random()
            if r < 0.4:
                ops.append("ins %d %d" % (rng.randrange(4), vid)); vid += 1
            elif r < 0.6:
                ops.append("rmi %d" % rng.choice([0, 0, 1, 2, 7, 9, 40, 1000]))
            elif r < 0.7:
                ops.append("clear")
            elif r < 0.8:
                ops.append("ens %d" % rng.choice([0, 1, 16, 17, 2147483647 + 1, 64]))
            elif r < 0.9:
                ops.append(rng.choice(["ext", "rml", "rm 9", "find 9", "root"]))
            else:
                ops.append("dump")
        ops.append("dump")
        cases.append(ops)
    return cases


def sort_case(keys, algs=ALGS, keys_alg=None):
    ops = []
    if not keys:
        ops.append("a")
    for i in range(0, len(keys), 2000):
        ops.append("a " + " ".join(map(str, keys[i:i + 2000])))
    ops += ["sort " + a for a in algs]
    if keys_alg:
        ops.append("keys " + keys_alg)
    return ops


def pattern(rng, n, kind, m):
    if kind == "random":
        return [rng.randrange(m) for _ in range(n)]
    if kind == "sorted":
        return sorted(rng.randrange(m) for _ in range(n))
    if kind == "reversed":
        return sorted((rng.randrange(m) for _ in range(n)), reverse=True)
    if kind == "sawtooth":
        p = max(1, rng.choice([2, 3, 5, 7, 10, 11, m]))
        return [i % p for i in range(n)]
    if kind == "organ":
        return [min(i, n - 1 - i) % m for i in range(n)]
    if kind == "equal":
        return [rng.randrange(3) - 1] * n
    if kind == "nearly":
        a = sorted(rng.randrange(m) for _ in range(n))
        for _ in range(rng.choice([1, 2, 5])):
            if n >= 2:
                i, j = rng.randrange(n), rng.randrange(n)
                a[i], a[j] = a[j], a[i]
        return a
    if kind == "extreme":
        pool = [-2 ** 63, 2 ** 63 - 1, 0, -1, 1, 2 ** 31, -2 ** 31 - 1]
        return [rng.choice(pool) for _ in range(n)]
    raise ValueError(kind)


KINDS = ["random", "sorted", "reversed", "sawtooth", "organ", "equal", "nearly", "extreme"]


def gen_sort(ctx):
    quick = ctx.quick
    rng = ctx.rng
    cases = []
    # (i-a) every array of length 0..L over an m-symbol alphabet, all five routines
    lim = [(3, 8), (4, 6)] if quick else [(3, 10), (4, 9)]
    seen = set()
    for m, L in lim:
        for n in range(0, L + 1):
            for ks in itertools.product(range(m), repeat=n):
                if ks in seen:
                    continue
                seen.add(ks)
                cases.append(sort_case(list(ks), keys_alg=ALGS[len(seen) % 5]))
    # (i-b) around the quick-sort cutoff (partition code runs for count >= 11): every
    # 2-symbol array (and 3-symbol in thorough) of these lengths
    for m, ns in ([(2, [10, 11, 12, 13])] if quick else [(2, [10, 11, 12, 13, 14, 15, 16]), (3, [11, 12])]):
        for n in ns:
            for ks in itertools.product(range(m), repeat=n):
                cases.append(sort_case(list(ks), algs=["quick", "merge", "shell"]))
    # (ii) random / structured arrays, sizes biased to the boundaries
    sizes = [9, 10, 11, 12, 13, 19, 20, 21, 22, 23, 31, 32, 33, 50, 64, 100, 127, 128, 129, 257]
    for _ in range(1500 if quick else 20000):
        n = rng.choice(sizes) if rng.random() < 0.8 else rng.randrange(0, 400)
        m = rng.choice([1, 2, 3, 4, 10, n + 1, n * n + 1, 2 ** 40])
        cases.append(sort_case(pattern(rng, n, rng.choice(KINDS), m), keys_alg=rng.choice(ALGS)))
    big = [1000, 2000] if quick else [1000, 2500, 5000, 10000, 10000, 10000]
    for n in big:
        for kind in (["random", "sawtooth", "reversed", "equal"] if quick else KINDS):
            m = rng.choice([3, 100, n, 2 ** 40])
            cases.append(sort_case(pattern(rng, n, kind, m), keys_alg=rng.choice(ALGS)))
    # (iii) malformed stream
    cases.append(["sort ins", "sort bogus", "keys bogus", "sort", "a 1 2", "sort bogus", "bogus"])
    cases.append(["keys ins", "keys shell", "keys heap", "keys merge", "keys quick"])
    return cases


def nontrivial_heap(ops, out):
    return any(o == "ok" for o in out[1:]) and any(
        r not in ("none", "fail", "bad-op") for op, r in zip(ops, out)
        if op.split()[0] in ("ext", "rm", "rmi", "rml"))


def nontrivial_sort(ops, out):
    return sum(len(o.split()) - 1 for o in ops if o.startswith("a")) >= 2 and \
        any(r.startswith("ok ") for r in out)


RULE = ("heap: (a) every key tuple of length<=L over an m-symbol alphabet inserted into a heap of initial capacity "
        "1..3 (growth), every node index 0..n+1 removed, then drained; (b) every operation sequence of length L "
        "over {ins 0/1/2, ext, rm 0/1/2, remove-last-slot}; (c) seeded random long histories with growth/shrink "
        "phases; (d) malformed stream (no heap, invalid capacity, invalid node index, clear, ensure_capacity). "
        "sorts: (a) every array of length 0..L over a 3- and 4-symbol alphabet through all five routines; (b) every "
        "2-symbol (thorough: 3-symbol) array of the lengths around the quick-sort cutoff; (c) seeded "
        "random/sorted/reversed/sawtooth/organ-pipe/all-equal/nearly-sorted/extreme-key arrays, sizes biased to "
        "9..13, 19..23, 31..33, powers of two, up to 10^4 (thorough); (d) malformed ops. distinct = distinct op "
        "lists; non-trivial = heap: at least one successful insert and one successful extract/remove; sort: at "
        "least 2 elements and one routine answered")


def main(ctx):
    ctx.cov["trusted_base"] = TRUSTED
    ctx.assumptions += TRUSTED[2:]
    ctx.cov["rule"] = RULE
    ctx.lean_obligations("drv_c10", PROOFS, GREP, leanchecker=["MgProof.C10.Props"])
    if not getattr(ctx, "driver_ok", False):
        return
    try:
        hheap, hsort, dcmd = build(ctx)
    except vlib.BuildError as e:
        ctx.broken.append("harness-build: " + str(e)[:500])
        return
    cdir = os.path.join(vlib.VERIF, "corpus", "C10")
    vlib.seq_correspondence(ctx, hheap, dcmd, gen_heap(ctx), nontrivial=nontrivial_heap, keep_prefix=1,
                            signature_of=OncePerSignature(sig_heap), label="tieB-heap", judge=judge_heap,
                            corpus_dir=os.path.join(cdir, "heap"))
    vlib.seq_correspondence(ctx, hsort, dcmd, gen_sort(ctx), nontrivial=nontrivial_sort, keep_prefix=1,
                            signature_of=OncePerSignature(sig_sort), label="tieB-sort", judge=judge_sort,
                            corpus_dir=os.path.join(cdir, "sort"))
    ctx.cov["exhaustive"] = True
    ctx.cov["explanation"] = ("exhaustive=true refers to the bounded spaces (a)/(b) described in rule; "
                              "the theorems are unbounded")


def replay(ctx, path):
    import json
    hheap, hsort, dcmd = build(ctx)
    vlib.lake_build(["drv_c10"])
    r = json.load(open(path))
    ops = r.get("ops") or (r.get("model_difference") or {}).get("ops") or []
    is_sort = any(o.split()[0] in ("a", "sort", "keys") for o in ops) or r.get("tie") == "tieB-sort"
    if is_sort:
        return vlib.replay_file(ctx, path, hsort, dcmd, judge=judge_sort)
    return vlib.replay_file(ctx, path, hheap, dcmd, judge=judge_heap)
