"""C05 — concurrent memory pools never hand out a block that is still owned.
Models: lean/MgModel/C05/{Client,TsPool,TsOrig,SowrPool,RingPool}.lean; theorems:
lean/MgProof/C05/Props.lean; tie C: the real object code of threadsafe_memory_pool.c,
sowr_memory_pool.c, ring_memory_pool.c under the deterministic scheduler (harness/tsanshim):
every schedule chosen there is replayed on the Lean model and the traces must be equal
event for event. Sequential alloc/free histories are runs with one thread. The property
oracle (`judge`) recomputes block ownership from the implementation's own trace."""
import itertools
import json
import os
import re
import vlib

PROOFS = ["MgProof.C05.Lemmas", "MgProof.C05.TsInv", "MgProof.C05.TsStepSimple", "MgProof.C05.TsStepA",
          "MgProof.C05.TsStepF", "MgProof.C05.TsStep", "MgProof.C05.ClientLegal", "MgProof.C05.TsLegal", "MgProof.C05.SowrInv", "MgProof.C05.SowrStep", "MgProof.C05.RingInv", "MgProof.C05.RingLegal",
          "MgProof.C05.Props"]
GREP = ["MgModel/C05", "MgProof/C05", "MgModel/Common", "Drv/C05.lean"]
REPO_SRCS = ["muggle/c/memory/threadsafe_memory_pool.c", "muggle/c/memory/sowr_memory_pool.c",
             "muggle/c/memory/ring_memory_pool.c", "muggle/c/sync/spinlock.c", "muggle/c/base/thread.c",
             "muggle/c/base/utils.c"]
TS_C = "muggle/c/memory/threadsafe_memory_pool.c"
TS_H = "muggle/c/memory/threadsafe_memory_pool.h"
U32 = 1 << 32

TRUSTED = [
    "Lean 4.33 kernel; axioms printed by the audit (subset of propext, Classical.choice, Quot.sound)",
    "tie C: harness/tsanshim (own __tsan_* runtime + deterministic scheduler), clang's TSan instrumentation "
    "pass as the source of 'every shared access', harness/c05/conc_pools.c (client + ghost ownership map), "
    "lib/vlib.py comparison",
    "memory model: sequentially consistent values (stale relaxed/acquire reads allowed by C11 are not exhibited); "
    "memory orders are compared in the trace and in the static inventory, happens-before of block contents is not proved",
    "sowr pool: alloc_idx / cached_free_pos are private to the allocating thread (not scheduling points); "
    "the pool's contract (one allocating thread, one freeing thread) is a hypothesis (monitor `misuse`)",
    "block contents, alignment and block_size arithmetic are not modelled (the harness checks every returned "
    "pointer is base + i*block_size + head with i < capacity and block_size >= head + data_size)",
    "capacities are powers of two (init rounds up); i & (cap-1) is proved equal to i % cap under that hypothesis",
]

# expected static inventory: (builtin, memory order) per function -- tie A for the memory orders
EXPECTED_SITES = {
    (TS_C, "muggle_ts_memory_pool_free"): [("__atomic_store_n", "3")],
    ("muggle/c/memory/sowr_memory_pool.c", "muggle_sowr_memory_pool_alloc"): [("__atomic_load_n", "0")],
    ("muggle/c/memory/sowr_memory_pool.c", "muggle_sowr_memory_pool_free"): [("__atomic_store_n", "0")],
    ("muggle/c/memory/ring_memory_pool.c", "muggle_ring_memory_pool_alloc"): [("__atomic_load_n", "0")],
    ("muggle/c/memory/ring_memory_pool.c", "muggle_ring_memory_pool_free"): [("__atomic_store_n", "0")],
    ("muggle/c/sync/spinlock.c", "muggle_spinlock_lock"): [("__atomic_test_and_set", "2")],
    ("muggle/c/sync/spinlock.c", "muggle_spinlock_unlock"): [("__atomic_clear", "3")],
}


def site_key(site):
    name, args = site
    if name == "__atomic_compare_exchange_n":
        return (name, args[3], args[4])
    return (name, args[-1])


def ts_is_repaired():
    try:
        return "alloc_spinlock" in open(os.path.join(vlib.REPO, TS_H)).read()
    except OSError:
        return False


def static_inventory(ctx, repaired):
    inv = {}
    exp = dict(EXPECTED_SITES)
    if repaired:
        exp[(TS_C, "muggle_ts_memory_pool_alloc")] = [("__atomic_load_n", "2")]
    else:
        exp[(TS_C, "muggle_ts_memory_pool_alloc")] = [("__atomic_load_n", "2"),
                                                      ("__atomic_compare_exchange_n", "1", "0")]
    for (f, fn), want in exp.items():
        try:
            sites = vlib.atomic_sites(f, fn)
        except vlib.BuildError as e:
            ctx.broken.append("tieA: " + str(e)[:200])
            continue
        got = [site_key(s) for s in (sites or [])]
        inv["%s:%s" % (f, fn)] = got
        if got != want:
            ctx.broken.append("tieA: atomic sites of %s:%s are %s, the model assumes %s" % (f, fn, got, want))
    if not repaired:
        ctx.broken.append("tieA: muggle_ts_memory_pool_alloc is the lock-free compare-exchange algorithm (no "
                          "alloc_spinlock); the model and the safety theorem are about the repaired algorithm, "
                          "see fixes/C05-ts-pool-alloc-lock.patch")
    else:
        try:
            src = open(os.path.join(vlib.REPO, TS_C)).read()
        except OSError:
            src = ""
        m = re.search(r"muggle_ts_memory_pool_alloc\s*\([^)]*\)\s*\{(.*?)\n\}", src, re.S)
        body = m.group(1) if m else ""
        if "muggle_spinlock_lock(&pool->alloc_spinlock)" not in body or \
                "muggle_spinlock_unlock(&pool->alloc_spinlock)" not in body:
            ctx.broken.append("tieA: muggle_ts_memory_pool_alloc does not lock/unlock alloc_spinlock")
    ctx.cov["ties"]["tieA_atomic_sites"] = inv


def build(ctx):
    repaired = ts_is_repaired()
    cf = ["-DNDEBUG"] + (["-DVH_TS_ALLOC_LOCK=1"] if repaired else [])
    exe = vlib.build_conc_harness("C05", "conc_pools", ["harness/c05/conc_pools.c"], REPO_SRCS, cflags=cf)
    return [exe], ctx.driver_cmd("drv_c05"), repaired


# --------------------------------------------------------------------------- capacities
def real_cap(kind, c):
    def np2(n):
        p = 1
        while p < n:
            p *= 2
        return p
    if kind in ("ts", "tsorig"):
        return np2(c) if c > 0 else None
    if kind == "sowr":
        return np2(c if c > 0 else 8)
    return np2(max(c, 2))


def usable(kind, cap):
    return cap if kind in ("ring", "ringts") else cap - 1


def mkrun(kind, cap, opt, progs, sched, legal=True, tag=""):
    return {"conf": ["conf %s %d %d %s" % (kind, cap, opt, " ".join(p if p else "-" for p in progs))],
            "sched": sched, "kind": kind, "cap": real_cap(kind, cap), "legal": legal, "tag": tag}


# --------------------------------------------------------------------------- generators
def seq_exhaustive(ctx, tsk):
    """(i) one thread: fill, free in every order (all permutations, cap <= 4), refill -- twice."""
    runs = []
    for kind in (tsk, "sowr", "ring"):
        for cap in (2, 4):
            u = usable(kind, cap)
            ids_first = list(range(u))
            for k in range(1, u + 1):
                for perm in itertools.permutations(ids_first, k):
                    if kind == "sowr":
                        # legal only while every freed block is still owned: freeing i releases <= i
                        ok, top = True, -1
                        for b in perm:
                            if b <= top:
                                ok = False
                            top = max(top, b)
                        if not ok:
                            continue
                    prog = "a" * (u + 1 if kind != "ring" else u)
                    prog += "".join("x%d" % b for b in perm)
                    prog += "a" * (k + 1 if kind != "ring" else k)
                    # second round: free oldest-first / newest-first what is held, refill
                    for tail in ("f" * u + "a" * u, "g" + "a" + "f" + "a" + "a"):
                        if kind == "sowr" and tail[0] == "g":
                            tail = "f" + "a" + "f" + "a" + "a"
                        if kind == "ring":
                            tail = tail.rstrip("a") + "a"
                        runs.append(mkrun(kind, cap, 0, [prog + tail], "random 1", tag="seq-exh"))
    return runs


def rand_seq_prog(rng, kind, cap, length, malformed=False):
    """one-thread history, python tracks ownership to stay legal (unless malformed)."""
    u = usable(kind, cap)
    held = []          # block ids in allocation order (approximation: ids unknown -> use f/g/x of known ring order)
    prog = []
    nheld = 0
    for _ in range(length):
        r = rng.random()
        if malformed and r < 0.15:
            prog.append("X%d" % rng.randrange(cap + 1))
            nheld = max(0, nheld - 1)
            continue
        full = nheld >= u
        want_alloc = rng.random() < (0.25 if full else 0.6 if nheld else 0.95)
        if want_alloc:
            if kind in ("ring", "ringts") and full:
                continue            # the ring pool would spin forever
            prog.append("a")
            if not full:
                nheld += 1
        elif nheld:
            if kind == "sowr":
                c = rng.random()
                prog.append("f")    # oldest first is always legal
                nheld -= 1
                if c < 0.2 and nheld:
                    pass
            else:
                prog.append(rng.choice(["f", "g", "f", "x%d" % rng.randrange(cap)]))
                if prog[-1][0] != "x":
                    nheld -= 1
                else:
                    nheld = nheld  # may or may not be held: harness decides; keep conservative count
                    if kind in ("ring", "ringts"):
                        prog.pop()
                        prog.append("f")
                        nheld -= 1
        else:
            prog.append(rng.choice(["f", "g"]))
    return "".join(prog)


def seq_random(ctx, tsk):
    rng = ctx.rng
    runs = []
    per = 60 if ctx.quick else 1500
    for kind in (tsk, "sowr", "ring", "ringts"):
        for i in range(per):
            cap = rng.choice([1, 2, 2, 3, 4, 4, 5, 8, 8, 16])
            rc = real_cap(kind, cap)
            opt = 0
            if kind == "sowr":
                opt = rng.choice([0, 0, U32 - rc, U32 - 2 * rc, rc * 5, U32 // 2])
            elif kind in ("ts", "tsorig"):
                opt = rng.choice([0, 1])
            prog = rand_seq_prog(rng, kind, rc, rng.randrange(10, 120))
            if prog:
                runs.append(mkrun(kind, cap, opt, [prog], "random 1", tag="seq-rand"))
    return runs


def seq_sowr_later(ctx):
    """sowr: freeing a later block releases the earlier ones (x<i> of a later block)."""
    rng = ctx.rng
    runs = []
    for i in range(40 if ctx.quick else 400):
        cap = rng.choice([2, 4, 8])
        u = cap - 1
        prog = ""
        pos = 0           # next position handed out
        held = []         # positions held, in order
        for _ in range(rng.randrange(5, 40)):
            if len(held) < u and rng.random() < 0.65:
                prog += "a"
                held.append(pos % cap)
                pos += 1
            elif held:
                k = rng.randrange(len(held))
                prog += "x%d" % held[k]
                held = held[k + 1:]
            else:
                prog += "a"
                held.append(pos % cap)
                pos += 1
        prog += "a" * (u - len(held) + 1)
        base = rng.choice([0, U32 - cap, U32 - 3 * cap])
        runs.append(mkrun("sowr", cap, base, [prog], "random 1", tag="seq-sowr-later"))
    return runs


def malformed(ctx, tsk):
    """(iii) illegal histories (double free, free of a block never handed out, index out of
    range): only the correspondence model == implementation is checked."""
    rng = ctx.rng
    runs = []
    for kind in (tsk, "sowr", "ring"):
        for i in range(30 if ctx.quick else 300):
            cap = rng.choice([2, 4, 8])
            prog = rand_seq_prog(rng, kind, cap, rng.randrange(5, 60), malformed=True)
            if kind == "ring":
                # keep the ring pool from spinning: never more allocations than frees + capacity
                out, p2 = 0, ""
                for tok in re.findall(r"[a-zA-Z]\d*", prog):
                    if tok == "a":
                        if out >= cap:
                            continue
                        out += 1
                    elif tok[0] in "fg" and out:
                        out -= 1
                    p2 += tok
                prog = p2
                # X may clear a flag the python count does not know about: that only frees blocks
            if prog:
                runs.append(mkrun(kind, cap, 0, [prog], "random 1", legal=False, tag="malformed"))
    return runs


def sched_of(rng, i):
    s = rng.randrange(1, 1 << 30)
    m = i % 5
    if m < 3:
        return "random %d" % s
    return "pct %d %d" % (s, rng.choice([1, 2, 3]))


def budget_prog(rng, length, budget, ops):
    """program that never holds more than `budget` blocks (published blocks count forever)."""
    held, pub, prog = 0, 0, ""
    for _ in range(length):
        op = rng.choice(ops)
        if op in "ap":
            if held + pub >= budget:
                op = "f" if held and "f" in ops else None
            elif op == "a":
                held += 1
            else:
                pub += 1
        if op in ("f", "g"):
            if not held:
                continue
            held -= 1
        if op:
            prog += op
    return prog


def conc_runs(ctx, tsk):
    rng = ctx.rng
    runs = []
    per = 120 if ctx.quick else 6000
    # thread-safe pool: any thread allocates / frees, blocks handed between threads through the bag
    for i in range(per * 2):
        cap = rng.choice([2, 2, 4, 4, 4, 8])
        n = rng.choice([2, 2, 3, 3, 4])
        progs = ["".join(rng.choice("aaaffgppttt") for _ in range(rng.randrange(2, 9 if n > 2 else 12)))
                 for _ in range(n)]
        r = mkrun(tsk, cap, rng.choice([0, 0, 1]), progs, sched_of(rng, i), tag="conc-ts")
        runs.append(r)
    # sowr: thread 0 allocates (publishes), thread 1 frees in order / frees a later block
    for i in range(per):
        cap = rng.choice([2, 2, 4, 4, 8])
        p0 = "p" * rng.randrange(1, 4 * cap)
        p1 = "".join(rng.choice("tttu") for _ in range(rng.randrange(1, 4 * cap)))
        base = rng.choice([0, 0, U32 - cap, U32 - 2 * cap])
        runs.append(mkrun("sowr", cap, base, [p0, p1], sched_of(rng, i), tag="conc-sowr"))
    # ring, one allocating thread (plain alloc), any number of freeing threads
    for i in range(per):
        cap = rng.choice([2, 2, 4, 4, 8])
        n = rng.choice([2, 2, 3])
        p0 = budget_prog(rng, rng.randrange(2, 14), cap, "aafgppp")
        progs = [p0] + ["t" * rng.randrange(1, 8) for _ in range(n - 1)]
        runs.append(mkrun("ring", cap, 0, progs, sched_of(rng, i), tag="conc-ring"))
    # ring, spin-locked allocators
    for i in range(per):
        cap = rng.choice([2, 4, 4, 8])
        n = rng.choice([2, 2, 3])
        budgets = [cap // n] * n
        budgets[0] += cap - sum(budgets)
        progs = [budget_prog(rng, rng.randrange(2, 10), b, "aafgpt") if b else "t" * rng.randrange(1, 5)
                 for b in budgets]
        runs.append(mkrun("ringts", cap, 0, progs, sched_of(rng, i), tag="conc-ringts"))
    return runs


def deep_tail(ctx, hcmd, dcmd, tsk):
    """deep states: an operation-atomic history (the allocation cursors have gone round the pool, slots
    permuted by out-of-order frees, pool near exhaustion), then every schedule with at most two
    preemptions of the last one or two operations of each thread"""
    from concurrent.futures import ThreadPoolExecutor
    import re as _re
    rng, q = ctx.rng, ctx.quick
    base = [r for r in conc_runs(ctx, tsk)]
    rng.shuffle(base)
    base = base[:100 if q else 500]
    jobs0 = []
    for r in base:
        progs = r["conf"][0].split()[4:]
        nops = [len(_re.findall(r"[a-zA-Z]", p)) for p in progs]
        keep = [max(0, n - rng.choice([1, 1, 2])) for n in nops]
        order = [t for t, k in enumerate(keep) for _ in range(k)]
        rng.shuffle(order)
        jobs0.append((r, order))
    first = vlib.run_cases(hcmd, [r["conf"] + ["sched opseq " + " ".join(map(str, o)), "run"] for r, o in jobs0])
    jobs = []
    for (r, o), a in zip(jobs0, first):
        sched = next((l.split()[1:] for l in a["out"] if l.startswith("schedule ")), None)
        k = next((int(l.split()[1]) for l in a["out"] if l.startswith("#opseq-steps")), None)
        if a["crash"] or sched is None or k is None:
            continue
        jobs.append((r, sched[:k]))
    runs = []
    stats = {"histories": len(jobs), "tail_schedules": 0, "exhausted": 0}

    def explore(job):
        r, pre = job
        g = vlib.explore_schedules(hcmd, r["conf"], 2, max_runs=200 if q else 500, start_prefix=pre, workers=1)
        out = []
        for s, _ in g:
            x = dict(r)
            x["sched"] = "replay " + " ".join(s)
            x["tag"] = "deep-tail"
            out.append(x)
        return out, g.exhausted
    with ThreadPoolExecutor(vlib.NPROC) as ex:
        for out, exh in ex.map(explore, jobs):
            runs += out
            stats["tail_schedules"] += len(out)
            stats["exhausted"] += bool(exh)
    ctx.cov["deep_tail"] = stats
    vlib.conc_correspondence_batched(ctx, hcmd, dcmd, runs, judge=judge, label="tieC_deep_tail", escalate=False)


# the interleavings that break the original lock-free allocation (both reproduce on the real code
# before the repair); on the repaired tree the same client programs are explored systematically
WITNESS = [
    ("aba", "conf tsorig 4 0 a aaagga", "0 0 0 0 " + " ".join(["1"] * 37) + " 0"),
    ("stale-cached-free-pos", "conf tsorig 4 0 aa aaafafa",
     " ".join(["1"] * 22 + ["0"] * 4 + ["1"] * 23 + ["0"] * 12)),
]

SYSTEMATIC = [
    # (kind, cap, opt, progs, preemption bound quick, thorough)
    ("TS", 4, 0, ["a", "aaagga"], 1, 2),
    ("TS", 4, 0, ["aa", "aaafafa"], 1, 2),
    ("TS", 2, 0, ["af", "af"], 2, 3),
    ("TS", 2, 0, ["pa", "tf"], 2, 3),
    ("TS", 2, 0, ["a", "a", "af"], 1, 2),
    ("sowr", 2, 0, ["ppp", "tt"], 3, 4),
    ("sowr", 4, 0, ["ppppp", "tut"], 3, 4),
    ("ring", 2, 0, ["apfa", "t"], 2, 3),
    ("ringts", 2, 0, ["af", "af"], 2, 3),
]


# --------------------------------------------------------------------------- oracle
def judge(run, out):
    """Property-level oracle on the implementation's own trace: recompute ownership from the
    notes; a block returned while owned, NULL while fewer than the usable capacity is outstanding,
    a pointer that is no block, or a run that does not finish violate the property."""
    end = next((l for l in out if l.startswith("end ")), None)
    if out and out[-1] == "init-failed":
        return None if run["cap"] is None or run["cap"] > 64 else "pool init failed"
    if end is None:
        return "no end line"
    kind, cap = run["kind"], run["cap"]
    sowr = kind == "sowr"
    owned = {}              # block -> serial
    unret = {}              # block -> serial: handed out and the free call has not returned yet
    serial = 0
    cur_free = {}           # tid -> (block, serial)
    op_max = {}             # tid -> max number of unreturned blocks since its allocation began
    legal = True
    ev = re.compile(r"T(\d+) note (.*)")
    for l in out:
        m = ev.match(l)
        if not m:
            continue
        t, txt = int(m.group(1)), m.group(2)
        w = txt.split()
        if txt == "BAD-POINTER":
            return "allocation returned a pointer that is not a block of the pool"
        if txt == "SPURIOUS-NULL":
            continue
        if w[0] in ("a", "p") and len(w) == 1:
            op_max[t] = len(unret)
        elif w[0] == "ILLEGAL-FREE":
            legal = False
        elif w[0] in ("got", "pub"):
            b = int(w[1][1:])
            if legal and b in owned:
                return "block b%d handed out while still owned (%s)" % (b, l)
            owned[b] = serial
            unret[b] = serial
            serial += 1
            for k in op_max:
                op_max[k] = max(op_max[k], len(unret))
        elif w[0] == "free":
            b = int(w[1][1:])
            sb = owned.get(b)
            cur_free[t] = (b, sb)
            if sb is not None:
                if sowr:
                    for x in [x for x, sx in owned.items() if sx <= sb]:
                        del owned[x]
                else:
                    del owned[b]
        elif w[0] == "freed":
            b, sb = cur_free.pop(t, (None, None))
            if sb is not None:
                if sowr:
                    for x in [x for x, sx in unret.items() if sx <= sb]:
                        del unret[x]
                elif unret.get(b) == sb:
                    del unret[b]
        elif w[0] == "null":
            if not legal:
                continue
            if kind in ("ring", "ringts"):
                return "ring pool returned NULL"
            if op_max.get(t, 0) < usable(kind, cap):
                return "allocation returned NULL with at most %d of %d usable blocks outstanding (%s)" % (
                    op_max.get(t, 0), usable(kind, cap), l)
    if not legal:
        return None
    if not end.startswith("end ok"):
        return "run did not complete: " + end
    oc = next((l for l in out if l.startswith("outcome ")), "")
    kv = dict(x.split("=", 1) for x in oc.split()[1:])
    if kv.get("double") != "0" or kv.get("badptr") != "0" or kv.get("layout") != "ok":
        return "harness monitors: " + oc
    return None


def run_of_ops(ops):
    toks = ops[0].split()
    kind, cap = toks[1], int(toks[2])
    return {"kind": kind, "cap": real_cap(kind, cap), "conf": [l for l in ops if l.startswith(("conf", "spurious"))],
            "legal": True}


# --------------------------------------------------------------------------- main
def corpus_runs(repaired):
    runs = []
    cdir = os.path.join(vlib.VERIF, "corpus", "C05")
    if os.path.isdir(cdir):
        for f in sorted(os.listdir(cdir)):
            if not f.endswith(".ops"):
                continue
            ops = [l.strip() for l in open(os.path.join(cdir, f)) if l.strip() and not l.startswith("#")]
            conf = [l for l in ops if l.startswith(("conf", "spurious"))]
            sched = next((l[len("sched "):] for l in ops if l.startswith("sched ")), "random 1")
            if not conf:
                continue
            kind = conf[0].split()[1]
            if kind == "tsorig" and repaired:
                continue          # schedules of the pre-fix object code do not exist on the repaired tree
            if kind == "ts" and not repaired:
                continue
            r = run_of_ops(conf)
            r.update(conf=conf, sched=sched, tag="corpus:" + f)
            runs.append(r)
    return runs


def main(ctx):
    ctx.cov["trusted_base"] = TRUSTED
    ctx.assumptions += TRUSTED[2:]
    ctx.cov["rule"] = (
        "real object code of the three pools under the deterministic scheduler; (i) one-thread histories: fill, "
        "free in every order (all permutations for capacity 2 and 4), refill, twice; (ii) random one-thread "
        "histories (capacity 1..16, sowr alloc_idx started next to the 2^32 wrap), sowr 'free a later block'; "
        "(iii) malformed histories (double free, foreign block) for the correspondence only; (iv) corpus; "
        "(v) seeded random + PCT schedules: ts pool 2..4 threads allocating/freeing/handing blocks over, sowr "
        "1 allocator || 1 freer, ring pool 1 allocator || freers and spin-locked allocators, capacity 2..8; "
        "(vi) preemption-bounded systematic exploration of small configurations incl. the two client programs "
        "whose interleavings break the pre-fix algorithm. Every schedule is replayed on the Lean model, traces "
        "compared event for event; distinct = distinct implementation traces")
    ctx.lean_obligations("drv_c05", PROOFS, GREP, leanchecker=["MgProof.C05.Props"])
    if not getattr(ctx, "driver_ok", False):
        return
    try:
        hcmd, dcmd, repaired = build(ctx)
    except vlib.BuildError as e:
        ctx.broken.append("harness-build: " + str(e)[:500])
        return
    static_inventory(ctx, repaired)
    ctx.cov["ts_pool_algorithm"] = "repaired (alloc_spinlock)" if repaired else "original (lock-free CAS)"
    tsk = "ts" if repaired else "tsorig"
    runs = corpus_runs(repaired)
    if not repaired:
        for name, conf, sched in WITNESS:
            r = run_of_ops([conf])
            r.update(conf=[conf], sched="replay " + sched, tag="witness:" + name)
            runs.append(r)
    runs += seq_exhaustive(ctx, tsk) + seq_random(ctx, tsk) + seq_sowr_later(ctx) + malformed(ctx, tsk)
    vlib.conc_correspondence(ctx, hcmd, dcmd, runs, judge=judge, label="tieB_sequential_histories")
    deep_tail(ctx, hcmd, dcmd, tsk)
    vlib.conc_correspondence(ctx, hcmd, dcmd, conc_runs(ctx, tsk), judge=judge, label="tieC")
    # systematic exploration
    sys_runs, exh = [], {}
    for kind, cap, opt, progs, bq, bt in SYSTEMATIC:
        k = tsk if kind == "TS" else kind
        base = mkrun(k, cap, opt, progs, "", tag="systematic")
        bound = bq if ctx.quick else bt
        g = vlib.explore_schedules(hcmd, base["conf"], bound, max_runs=3000 if ctx.quick else 60000)
        n = 0
        for sched, out in g:
            n += 1
            r = dict(base)
            r["sched"] = "replay " + " ".join(sched)
            sys_runs.append(r)
        exh[base["conf"][0]] = {"preemption_bound": bound, "schedules": n, "exhausted": g.exhausted}
    ctx.cov["systematic"] = exh
    ctx.cov["exhaustive"] = all(v["exhausted"] for v in exh.values())
    vlib.conc_correspondence(ctx, hcmd, dcmd, sys_runs, judge=judge, label="tieC_systematic")
    if (ctx.broken and not any(f for _, f in ctx.violations)) or not ctx.quick:
        exhaustion_search(ctx, hcmd, tsk)


# workloads that keep a capacity-4 pool at the edge of exhaustion while two or three threads free
# concurrently with an allocator, after an out-of-order free has permuted the slot ring: the states in
# which a slot published before its pointer is stored (or a stale cursor) hands out an owned block
EDGE_PROGS = [["pppaa", "t", "t"], ["pppfaa", "tt", "t"], ["aafpppaa", "t", "tt"], ["ppgppaa", "t", "t", "t"],
              ["ppp", "tta", "ta"], ["apfppaa", "tt", "t"], ["aagpppaaa", "tt", "tt"], ["pgpppa", "ta", "ta", "t"]]


def exhaustion_search(ctx, hcmd, tsk):
    """SEARCH (DESIGN §2.6), run when an obligation / tie is broken without a concrete failing input
    (and in the thorough tier): many PCT / random schedules of the real code on the edge-of-exhaustion
    workloads, judged by the ownership oracle only (no model replay)."""
    rng = ctx.rng
    per = 4000 if ctx.quick else 8000
    runs = []
    for progs in EDGE_PROGS:
        for cap in (4,):
            for i in range(per):
                s = rng.randrange(1, 1 << 30)
                sched = "pct %d %d" % (s, rng.choice([2, 3, 4])) if i % 2 else "random %d" % s
                runs.append(mkrun(tsk, cap, 0, progs, sched, tag="edge-of-exhaustion"))
    res = vlib.run_cases(hcmd, [r["conf"] + ["sched " + r["sched"], "run"] for r in runs])
    nbad = 0
    for r, a in zip(runs, res):
        msg = ("crash: " + a["crash"][:800]) if a["crash"] else judge(r, a["out"])
        if msg:
            nbad += 1
            if nbad <= 2:
                sched = next((l[len("schedule "):] for l in a["out"] if l.startswith("schedule ")), "")
                ctx.violation({"kind": "property-fails-on-implementation", "tie": "edge-of-exhaustion-search",
                               "conf": r["conf"], "schedule": sched, "what": msg,
                               "ops": r["conf"] + ["sched replay " + sched, "run"],
                               "implementation_trace": a["out"], "broken_obligations": ctx.broken},
                              found_input=True)
    ctx.cov["ties"]["edge_of_exhaustion_search"] = {"runs": len(runs), "property_failures": nbad}
    ctx.cov["evaluations"] += len(runs)


def replay(ctx, path):
    hcmd, dcmd, repaired = build(ctx)
    vlib.lake_build(["drv_c05"])
    r = json.load(open(path))
    ops = r.get("ops") or (r.get("model_difference") or {}).get("ops")
    if not ops:
        print("replay names a broken obligation only:", r.get("broken"))
        return 2
    a = vlib.run_one(hcmd, ops)
    if not a["crash"] and any(l.startswith("end replay-diverged") for l in a["out"]):
        # the recorded schedule does not fit this tree (other threads are enabled): follow it as far as
        # it applies, then continue non-preemptively
        ops = [("sched prefix " + l[len("sched replay "):]) if l.startswith("sched replay ") else l for l in ops]
        a = vlib.run_one(hcmd, ops)
        sched = next((l[len("schedule "):] for l in a["out"] if l.startswith("schedule ")), "")
        ops = [("sched replay " + sched) if l.startswith("sched prefix ") else l for l in ops]
        a = vlib.run_one(hcmd, ops)
    b = vlib.run_one(dcmd, ops)
    print("\n".join(a["out"]))
    if a["crash"]:
        print("VIOLATION property=C05 replay=%s" % path)
        print("crash:", a["crash"][:2000])
        return 1
    msg = judge(run_of_ops(ops), a["out"])
    if msg:
        print("VIOLATION property=C05 replay=%s" % path)
        print(msg)
        return 1
    if [l for l in a["out"] if not l.startswith("#")] != [l for l in b["out"] if not l.startswith("#")]:
        print("model and implementation traces differ")
        return 1
    print("replay passes on the current tree")
    return 0
