"""C09 — AVL tree, hash table and trie refine a map; the AVL tree stays balanced.
Theorems: lean/MgProof/C09/Props.lean; models: lean/MgModel/C09/{Avl,HashTable,Trie}.lean;
tie B: harness/c09/seq_dsaa.c against the real avl_tree.c / hash_table.c / trie.c /
memory_pool.c (malloc and node-pool variants)."""
import itertools
import os
import re
import vlib

PROOFS = ["MgProof.C09.AvlLemmas", "MgProof.C09.AvlInsert", "MgProof.C09.AvlRemove", "MgProof.C09.AvlCheck", "MgProof.C09.AvlParent",
          "MgProof.C09.HashLemmas", "MgProof.C09.TrieLemmas", "MgProof.C09.MapLemmas",
          "MgProof.C09.Props"]
GREP = ["MgModel/C09", "MgProof/C09", "MgModel/Common", "Drv/C09.lean"]
REPO_SRCS = ["muggle/c/dsaa/avl_tree.c", "muggle/c/dsaa/hash_table.c", "muggle/c/dsaa/trie.c",
             "muggle/c/memory/memory_pool.c"]

TRUSTED = [
    "Lean 4.33 kernel; axioms as printed by the audit (subset of propext, Classical.choice, Quot.sound)",
    "tie B: harness/c09/seq_dsaa.c + lib/vlib.py comparison: after every operation the real pointer "
    "structure is dumped (AVL: pre-order key/value/balance/node identity/parent pointer/shape; hash: chains "
    "in order + prev links; trie: every node) and must equal the model's dump",
    "hash chains are modelled as lists: consistency of the prev links is checked on the real structure by "
    "the harness (hdump), not proved; AVL node identity = allocation number assigned by the harness to the "
    "pointer returned by insert",
    "node allocation (malloc or muggle_memory_pool) is assumed to succeed and to return distinct blocks "
    "(pool correctness is C06); both variants are run against the same model",
    "AVL keys modelled as Int with the usual order (the C comparator is a user-supplied total order); "
    "hash/trie keys are NUL-free byte strings; trie values are non-NULL (NULL data means absent)",
    "sources compiled with -DNDEBUG (MUGGLE_ASSERT compiled out, as in a release build), clang-14 ASan+UBSan",
]


def build(ctx):
    exe = vlib.build_harness("C09", "seq_dsaa", ["harness/c09/seq_dsaa.c"], REPO_SRCS,
                             cflags=["-DNDEBUG"])
    return [exe], ctx.driver_cmd("drv_c09")


# ---------------------------------------------------------------------------
# AVL generators
# ---------------------------------------------------------------------------

def avl_insert_case(perm, cap, probe=True):
    ops = ["ainit %d" % cap]
    for i, k in enumerate(perm):
        ops += ["ains %d %d" % (k, 100 + i), "adump", "achk"]
    if perm:
        ops += ["ains %d 999" % perm[len(perm) // 2], "adump"]      # duplicate: rejected, unchanged
    if probe:
        lo, hi = (min(perm), max(perm)) if perm else (0, 0)
        for k in range(lo - 1, hi + 2):
            ops.append("afind %d" % k)
    ops.append("aitems")
    return ops


def avl_remove_case(ins_perm, rm_perm, cap, light=False):
    ops = ["ainit %d" % cap]
    for i, k in enumerate(ins_perm):
        ops.append("ains %d %d" % (k, 100 + i))
    ops.append("adump")
    for j, k in enumerate(rm_perm):
        ops += ["arm %d" % k, "adump", "achk"]
        if not light:
            ops.append("afind %d" % k)
        if j == len(rm_perm) // 2:
            ops += ["arm %d" % k, "aitems"]                           # second removal: not found
    ops.append("aitems")
    return ops


def avl_exhaustive(ctx, hcmd, dcmd):
    """every insertion order of n distinct keys (n <= n_ins); then, for every distinct tree
    shape reached, every removal order (n <= n_rm) (+ a random sample of removal orders above)."""
    quick = ctx.quick
    n_ins = 6 if quick else 8
    n_rm = 6 if quick else 7
    casesA, perms = [], []
    for n in range(0, n_ins + 1):
        for perm in itertools.permutations(range(n)):
            keys = [2 * x + 1 for x in perm]
            casesA.append(avl_insert_case(keys, (0, 2, 1)[len(casesA) % 3], probe=(n <= 6)))
            perms.append(keys)
    vlib.seq_correspondence(ctx, hcmd, dcmd, casesA, nontrivial=nontrivial, label="tieB-avl-insert-orders")
    # distinct shapes (as built by the implementation) -> one representative insertion order
    res = vlib.run_cases(hcmd, [["ainit 0"] + ["ains %d 1" % k for k in p] + ["adump"] for p in perms])
    shapes = {}
    for p, r in zip(perms, res):
        if r["crash"] is None and r["out"]:
            # shape = keys and balances; node identities / parent ids differ per insertion order
            shapes.setdefault((len(p), re.sub(r" #\d+ \^\S+", "", r["out"][-1])), p)
    ctx.cov["avl_shapes"] = len(shapes)
    casesB = []
    big = []
    for (n, _), p in sorted(shapes.items()):
        if n == 0:
            continue
        if n <= n_rm:
            for rm in itertools.permutations(sorted(p)):
                casesB.append(avl_remove_case(p, rm, (0, 3)[len(casesB) % 2]))
        elif quick:
            ks = sorted(p)
            for _ in range(20):
                rm = ks[:]
                ctx.rng.shuffle(rm)
                casesB.append(avl_remove_case(p, rm, (0, 3)[len(casesB) % 2]))
        else:
            big.append(p)
    none_dir = os.path.join(vlib.VERIF, "corpus", "C09", "none")
    vlib.seq_correspondence(ctx, hcmd, dcmd, casesB, nontrivial=nontrivial, label="tieB-avl-remove-orders",
                            corpus_dir=none_dir)
    # thorough: every removal order of the 8-key shapes too, one shape at a time (memory)
    for p in big:
        batch = [avl_remove_case(p, rm, (0, 3)[i % 2], light=True)
                 for i, rm in enumerate(itertools.permutations(sorted(p)))]
        merged_correspondence(ctx, hcmd, dcmd, batch, "tieB-avl-remove-orders-8keys")
        if ctx.violations or ctx.broken:
            break


def merged_correspondence(ctx, hcmd, dcmd, cases, label):
    """seq_correspondence for one batch of a large family; the statistics of the batches
    are summed under one label"""
    tmp = label + "/batch"
    vlib.seq_correspondence(ctx, hcmd, dcmd, cases, nontrivial=nontrivial, label=tmp,
                            corpus_dir=os.path.join(vlib.VERIF, "corpus", "C09", "none"))
    b = ctx.cov["ties"].pop(tmp)
    a = ctx.cov["ties"].setdefault(label, {})
    for k, v in b.items():
        if isinstance(v, int):
            a[k] = a.get(k, 0) + v
        else:
            a.setdefault(k, v)


def avl_random(ctx):
    rng = ctx.rng
    cases = []
    nrand = 60 if ctx.quick else 600
    for ci in range(nrand):
        cap = rng.choice([0, 0, 1, 2, 8, 64])
        R = rng.choice([6, 12, 40, 200, 1000])
        nops = rng.choice([60, 200, 600] if ctx.quick else [100, 400, 1500, 4000])
        base = rng.choice([0, 0, -R // 2, 2 ** 62 - R, -2 ** 62])
        ops = ["ainit %d" % cap]
        style = rng.choice(["mixed", "mixed", "grow-shrink", "asc-desc", "zigzag"])
        live = set()
        step = 0

        def observe(ops, every):
            ops.append("achk")
            if rng.random() < every:
                ops.append("adump")
        dump_p = 1.0 if R <= 40 else 0.15
        if style == "mixed":
            p_ins = rng.choice([0.5, 0.6, 0.75])
            for _ in range(nops):
                k = base + rng.randrange(R)
                r = rng.random()
                if r < p_ins:
                    ops.append("ains %d %d" % (k, rng.randrange(0, 1000)))
                    live.add(k)
                    observe(ops, dump_p)
                elif r < 0.92:
                    if live and rng.random() < 0.8:
                        k = rng.choice(sorted(live))
                    ops.append("arm %d" % k)
                    live.discard(k)
                    observe(ops, dump_p)
                else:
                    ops.append("afind %d" % k)
        else:
            n = min(R, max(4, nops // 3))
            if style == "asc-desc":
                order = list(range(n))
                if rng.random() < 0.5:
                    order.reverse()
            elif style == "zigzag":
                order = []
                lo, hi = 0, n - 1
                while lo <= hi:
                    order.append(lo)
                    if lo != hi:
                        order.append(hi)
                    lo += 1
                    hi -= 1
            else:
                order = list(range(n))
                rng.shuffle(order)
            for k in order:
                ops.append("ains %d %d" % (base + k, k + 1))
                observe(ops, dump_p)
            rm = list(order)
            how = rng.choice(["same", "reverse", "shuffle", "root"])
            if how == "reverse":
                rm.reverse()
            elif how == "shuffle":
                rng.shuffle(rm)
            elif how == "root":
                rm = sorted(order, key=lambda x: abs(x - n // 2))
            for k in rm[: rng.choice([n, n, n // 2])]:
                ops.append("arm %d" % (base + k))
                observe(ops, dump_p)
                ops.append("afind %d" % (base + k))
        ops += ["adump", "aitems"]
        cases.append(ops)
    return cases


# ---------------------------------------------------------------------------
# keys for hash table / trie
# ---------------------------------------------------------------------------

def hexkey(bs):
    return "".join("%02x" % b for b in bs) if bs else "-"


def rand_key(rng, alphabet, maxlen):
    n = rng.choice([0, 1, 1, 2, 2, 3, maxlen]) if maxlen > 3 else rng.randrange(0, maxlen + 1)
    return tuple(rng.choice(alphabet) for _ in range(n))


ALPHABETS = {
    "ascii": [0x61, 0x62, 0x63],
    "edge": [0x01, 0x7f, 0x80, 0xff],
    "high": [0x80, 0x81, 0xfe, 0xff, 0xc3, 0xa9],
    "full": list(range(1, 256)),
    "low7": list(range(1, 128)),
}


# ---------------------------------------------------------------------------
# hash table generators
# ---------------------------------------------------------------------------

def hash_cases(ctx):
    rng = ctx.rng
    quick = ctx.quick
    cases = []
    # (i) bounded-exhaustive: every op sequence of length L over 3 colliding keys
    keys = [(0x61,), (0x61, 0x62), (0xff, 0x80)]
    alpha = [("hput", k) for k in keys] + [("hrm", k) for k in keys] + [("hfind", k) for k in keys]
    L = 4 if quick else 5
    cfgs = [(8, 1, 0), (8, 0, 2)] if quick else [(8, 1, 0), (8, 0, 2), (9, 2, 1), (0, 3, 0)]
    for (size, kind, cap) in cfgs:
        for seq in itertools.product(alpha, repeat=L):
            ops = ["hinit %d %d %d" % (size, kind, cap)]
            for i, (o, k) in enumerate(seq):
                ops.append("%s %s%s" % (o, hexkey(k), " %d" % (i + 1) if o == "hput" else ""))
                if o != "hfind":
                    ops.append("hdump")
            ops.append("hitems")
            cases.append(ops)
    # (ii) random long histories: colliding hashes, full byte alphabet
    nrand = 60 if quick else 500
    for _ in range(nrand):
        size = rng.choice([8, 8, 9, 16, 31, 0, 7, 10007])
        kind = rng.choice([0, 0, 1, 2, 3, 4])
        cap = rng.choice([0, 0, 1, 2, 8])
        aname = rng.choice(["ascii", "edge", "high", "full", "full"])
        alphabet = ALPHABETS[aname]
        maxlen = rng.choice([2, 3, 6, 12])
        nops = rng.choice([50, 200, 600] if quick else [100, 500, 2000])
        pool = [rand_key(rng, alphabet, maxlen) for _ in range(rng.choice([4, 10, 40, 200]))]
        ops = ["hinit %d %d %d" % (size, kind, cap)]
        small = size in (8, 9, 16, 31)
        for i in range(nops):
            k = rng.choice(pool) if rng.random() < 0.85 else rand_key(rng, alphabet, maxlen)
            r = rng.random()
            if r < 0.5:
                ops.append("hput %s %d" % (hexkey(k), rng.randrange(0, 1000)))
            elif r < 0.8:
                ops.append("hrm %s" % hexkey(k))
            else:
                ops.append("hfind %s" % hexkey(k))
                continue
            if small or rng.random() < 0.03:
                ops.append("hdump")
            if rng.random() < 0.05:
                ops.append("hitems")
        for k in pool[:20]:
            ops.append("hfind %s" % hexkey(k))
        ops += ["hdump", "hitems"]
        cases.append(ops)
    return cases


# ---------------------------------------------------------------------------
# trie generators
# ---------------------------------------------------------------------------

TRIE_PROBE = ["tinit 0", "tins 80 1", "tfind 80", "tins 61ff 2", "tfind 61ff", "trm 80", "tfind 80"]


def trie_cases(ctx, high_ok=True):
    """high_ok=False: the signed-index defect is present on this tree (the probe crashed); it is
    reported once through the probe case and the other cases with bytes >= 0x80 are left out
    (every one of them would crash the same way), so that the 7-bit behaviour is still checked."""
    cases = trie_cases_all(ctx)
    if high_ok:
        return [TRIE_PROBE] + cases
    kept = [c for c in cases if not has_high_byte_trie_key(c)]
    ctx.cov["trie_high_byte_cases_skipped"] = len(cases) - len(kept)
    return [TRIE_PROBE] + kept


def trie_cases_all(ctx):
    rng = ctx.rng
    quick = ctx.quick
    cases = []
    # (i) bounded-exhaustive: every op sequence of length L over a universe with shared prefixes,
    # the empty key and bytes on both sides of 0x80
    uni7 = [(), (0x61,), (0x61, 0x62), (0x62,), (0x7f, 0x01)]
    uni8 = [(), (0x61,), (0x61, 0x80), (0x80,), (0xff, 0x7f), (0x80, 0xff, 0x81)]
    for uni, L in [(uni7, 3 if quick else 4), (uni8, 3 if quick else 4)]:
        alpha = [("tins", k) for k in uni] + [("trm", k) for k in uni]
        for seq in itertools.product(alpha, repeat=L):
            ops = ["tinit %d" % (0, 1)[len(cases) % 2]]
            for i, (o, k) in enumerate(seq):
                ops.append("%s %s%s" % (o, hexkey(k), " %d" % (i + 1) if o == "tins" else ""))
            ops.append("tdump")
            for k in uni:
                ops.append("tfind %s" % hexkey(k))
            ops.append("titems")
            cases.append(ops)
    # every single byte value as a one-byte key and as the second byte of a key
    for cap in (0, 4):
        ops = ["tinit %d" % cap]
        for b in range(1, 256):
            ops.append("tins %02x %d" % (b, b))
            ops.append("tins 61%02x %d" % (b, 1000 + b))
        for b in range(1, 256):
            ops.append("tfind %02x" % b)
            ops.append("tfind 61%02x" % b)
        ops += ["titems", "tdump"]
        cases.append(ops)
    # (ii) random long histories over the byte alphabets
    nrand = 60 if quick else 500
    for _ in range(nrand):
        cap = rng.choice([0, 0, 1, 2, 8])
        aname = rng.choice(["ascii", "edge", "high", "full", "full", "low7"])
        alphabet = ALPHABETS[aname]
        maxlen = rng.choice([2, 3, 5, 8])
        nops = rng.choice([40, 120, 300] if quick else [100, 300, 800])
        pool = [rand_key(rng, alphabet, maxlen) for _ in range(rng.choice([4, 10, 40]))]
        pool += [k[:-1] for k in pool[:5] if k]          # proper prefixes of stored keys
        ops = ["tinit %d" % cap]
        for i in range(nops):
            k = rng.choice(pool) if rng.random() < 0.85 else rand_key(rng, alphabet, maxlen)
            r = rng.random()
            if r < 0.5:
                ops.append("tins %s %d" % (hexkey(k), rng.randrange(1, 1000)))
            elif r < 0.72:
                ops.append("trm %s" % hexkey(k))
            elif r < 0.95:
                ops.append("tfind %s" % hexkey(k))
            else:
                ops.append("tnode %s" % hexkey(k))
            if rng.random() < 0.04:
                ops.append("titems")
        for k in pool[:25]:
            ops.append("tfind %s" % hexkey(k))
        ops += ["tdump", "titems"]
        cases.append(ops)
    return cases


# ---------------------------------------------------------------------------
# malformed / outside-the-hypotheses stream (model vs implementation only)
# ---------------------------------------------------------------------------

def malformed_cases(ctx):
    rng = ctx.rng
    cases = [
        ["afind 1", "ains 1 1", "arm 1", "adump", "achk", "aitems", "hput 61 1", "hfind 61", "hrm 61",
         "hdump", "hitems", "tins 61 1", "tfind 61", "trm 61", "tdump", "titems", "tnode 61"],
        ["ainit 2147483648", "ains 1 1", "adump"],
        ["ainit 0", "arm 5", "afind 5", "adump", "achk", "aitems", "ains 5 0", "afind 5", "arm 5", "arm 5",
         "adump", "ainit 3", "adump", "ains 1 1", "adump"],
        ["hinit 8 0 2147483648", "hput 61 1"],
        ["hinit 8 1 0", "hrm 61", "hfind 61", "hput - 5", "hfind -", "hput - 6", "hrm -", "hfind -", "hdump",
         "hput 6g 1", "hput 611 1", "hput 61 1", "hinit 9 2 1", "hdump", "hitems"],
        ["tinit 2147483648", "tins 61 1"],
        ["tinit 0", "trm 61", "tfind 61", "tnode 61", "tins 6162 0", "tfind 6162", "tnode 6162", "tnode 61",
         "trm 61", "trm 6162", "tins - 0", "tfind -", "tnode -", "trm -", "tins - 4", "tins - 5", "tfind -",
         "tdump", "titems", "tins 610062 9", "tfind 61", "tdump", "tinit 1", "tdump"],
        ["tinit 0", "tins 61 1", "trm 6162", "tfind 6162", "tins 6162 2", "trm 61", "tfind 61", "tfind 6162",
         "tnode 61", "tins 61 0", "tdump", "titems", "bogus", "tins", "tfind 61 62"],
    ]
    for _ in range(20 if ctx.quick else 200):
        ops = ["tinit %d" % rng.choice([0, 1])]
        pool = [rand_key(rng, ALPHABETS["ascii"], 3) for _ in range(6)]
        for i in range(40):
            k = rng.choice(pool)
            r = rng.random()
            if r < 0.5:
                ops.append("tins %s %d" % (hexkey(k), rng.choice([0, 0, 1, 2, 3])))   # NULL values
            elif r < 0.7:
                ops.append("trm %s" % hexkey(k))
            elif r < 0.85:
                ops.append("tnode %s" % hexkey(k))
            else:
                ops.append("tfind %s" % hexkey(k))
        ops += ["tdump", "titems"]
        cases.append(ops)
    return cases


def nontrivial(ops, out):
    # at least one accepted mutation and one negative answer (rejected duplicate / absent key)
    return "1" in out and ("0" in out or "nil" in out)


def has_high_byte_trie_key(ops):
    for o in ops:
        t = o.split()
        if len(t) >= 2 and t[0] in ("tins", "tfind", "trm", "tnode") and t[1] != "-":
            try:
                if any(b >= 0x80 for b in bytes.fromhex(t[1])):
                    return True
            except ValueError:
                pass
    return False


def signature_of(ops, impl):
    """identity of a failure, so that the one defect with a pending fix
    (fixes/C09-trie-unsigned-index.patch) is reported once, not once per case"""
    if impl.get("crash") and has_high_byte_trie_key(ops) and "trie.c" in impl["crash"]:
        return "trie.c: children[(int)(*p)] indexed with a signed char (byte >= 0x80)"
    return None


def main(ctx):
    ctx.cov["trusted_base"] = TRUSTED
    ctx.assumptions += TRUSTED[2:]
    ctx.cov["rule"] = (
        "AVL: every insertion order of n<=6 (quick) / n<=8 (thorough) distinct keys with dump+check after "
        "every insert, then for every distinct tree shape reached every removal order (n<=6 / n<=8) with dump+check after every removal, malloc and pool variants; random long mixed histories "
        "(duplicates, absent keys, ascending/descending/zigzag builds, extreme keys). Hash: every op sequence "
        "of length L over 3 keys that collide, random long histories with colliding hashes and the library's "
        "default string hash over bytes 1..255. Trie: every op sequence of length L over key universes with "
        "shared prefixes, the empty key and bytes >= 0x80; all 255 byte values; random long histories. "
        "Malformed stream (ops before init, capacity 2^31, NULL values, bad hex). distinct = distinct op "
        "lists; non-trivial = at least one accepted mutation and one negative answer")
    ctx.lean_obligations("drv_c09", PROOFS, GREP, leanchecker=["MgProof.C09.Props"])
    if not getattr(ctx, "driver_ok", False):
        return
    try:
        hcmd, dcmd = build(ctx)
    except vlib.BuildError as e:
        ctx.broken.append("harness-build: " + str(e)[:500])
        return
    none_dir = os.path.join(vlib.VERIF, "corpus", "C09", "none")
    avl_exhaustive(ctx, hcmd, dcmd)
    vlib.seq_correspondence(ctx, hcmd, dcmd, avl_random(ctx), nontrivial=nontrivial,
                            label="tieB-avl-random", corpus_dir=none_dir)
    vlib.seq_correspondence(ctx, hcmd, dcmd, hash_cases(ctx), nontrivial=nontrivial,
                            label="tieB-hash", corpus_dir=none_dir)
    high_ok = vlib.run_one(hcmd, TRIE_PROBE)["crash"] is None
    vlib.seq_correspondence(ctx, hcmd, dcmd, trie_cases(ctx, high_ok), nontrivial=nontrivial,
                            label="tieB-trie", corpus_dir=none_dir, signature_of=signature_of)
    vlib.seq_correspondence(ctx, hcmd, dcmd, malformed_cases(ctx), label="tieB-malformed",
                            corpus_dir=none_dir)
    ctx.cov["exhaustive"] = True
    ctx.cov["explanation"] = ("exhaustive=true refers to the bounded spaces described in rule (all insertion "
                              "orders x all removal orders per shape; all short op sequences for hash/trie); "
                              "the theorems are unbounded")


def replay(ctx, path):
    hcmd, dcmd = build(ctx)
    vlib.lake_build(["drv_c09"])
    return vlib.replay_file(ctx, path, hcmd, dcmd)
