"""C01 — channel (4 writer locks x 3 reader modes), array blocking queue, double buffer:
exactly-once in-order delivery, FULL only when really full, no overwrite of unread, hand-over
is a happens-before edge.

Models: lean/MgModel/C01/{Channel,ABQ,DoubleBuffer}.lean; theorems: lean/MgProof/C01/Props.lean;
tie C: real object code of /repo under the deterministic scheduler (harness/tsanshim), the
schedule chosen there is replayed on the Lean model and the traces must be equal event for
event (location, value, memory order); tie A: weak/strong flag and memory orders of the atomic
builtins of channel.c / synclock.c / spinlock.c read from the preprocessed source.

The property-level oracle (`judge`) works on the implementation's own trace only: FIFO /
exactly-once / FULL-only-when-full / no-overwrite are recomputed from the events, the
happens-before clause with vector clocks over the release/acquire/mutex events of the trace.
"""
import json
import os
import re
import vlib

PROOFS = ["MgProof.Tie.Bits", "MgProof.C01.Lemmas", "MgProof.C01.StepLemmas", "MgProof.C01.InvW", "MgProof.C01.InvR", "MgProof.C01.Once", "MgProof.C01.HB", "MgProof.C01.Props",
          "MgProof.C01.ABQInv", "MgProof.C01.DBufInv", "MgProof.C01.PropsQ"]
GREP = ["MgProof/Tie", "MgModel/Generated", "MgModel/C01", "MgProof/C01", "MgModel/Common", "Drv/C01.lean"]
REPO_SRCS = ["muggle/c/sync/channel.c", "muggle/c/sync/array_blocking_queue.c", "muggle/c/sync/double_buffer.c",
             "muggle/c/sync/spinlock.c", "muggle/c/sync/synclock.c", "muggle/c/sync/mutex.c",
             "muggle/c/sync/condition_variable.c", "muggle/c/sync/sync_obj_futex.c",
             "muggle/c/base/thread.c", "muggle/c/base/utils.c"]

TRUSTED = [
    "Lean 4.33 kernel; axioms printed by the audit (subset of propext, Classical.choice, Quot.sound)",
    "tie C: harness/tsanshim (own __tsan_* runtime + deterministic scheduler), clang's TSan instrumentation "
    "pass as the source of 'every shared access', harness/c01/conc_chan.c, lib/vlib.py comparison",
    "memory model: sequentially consistent values + release/acquire knowledge sets (stale atomic reads "
    "allowed by C11 are not exhibited; a stale read_cursor can only make FULL conservative); the re-use of a "
    "slot after the reader's copy is ordered by a relaxed load + control dependency (value-level theorem only)",
    "futex / pthread mutex / condition variable semantics are the scheduler's (POSIX, incl. spurious wake-ups), trusted",
    "array blocking queue and double buffer are modelled at monitor granularity (one step per pthread call); "
    "justified on every run by the lock-coverage check of the `fine` harness variant",
    "capacities: requested 1..64 (the harness bound); muggle_next_pow_of_2 is exercised through the real init",
]

WLS = ["mutex", "sync", "spin", "single"]
RMS = ["sync", "mutex", "busy"]

# --------------------------------------------------------------------------- tie A
EXPECTED_SITES = {
    ("muggle/c/sync/channel.c", "muggle_channel_write_sync"): [("__atomic_load_n", "0"), ("__atomic_store_n", "3")],
    ("muggle/c/sync/channel.c", "muggle_channel_read_sync"): [("__atomic_load_n", "2"), ("__atomic_store_n", "3")],
    ("muggle/c/sync/channel.c", "muggle_channel_write_busy"): [("__atomic_store_n", "3"), ("__atomic_load_n", "0"),
                                                               ("__atomic_store_n", "3")],
    ("muggle/c/sync/channel.c", "muggle_channel_read_busy"): [("__atomic_load_n", "2"), ("__atomic_store_n", "3")],
    ("muggle/c/sync/channel.c", "muggle_channel_write_mutex"): [],
    ("muggle/c/sync/channel.c", "muggle_channel_read_mutex"): [],
    ("muggle/c/sync/spinlock.c", "muggle_spinlock_lock"): [("__atomic_test_and_set", "2")],
    ("muggle/c/sync/spinlock.c", "muggle_spinlock_unlock"): [("__atomic_clear", "3")],
    ("muggle/c/sync/synclock.c", "muggle_synclock_lock"): [("__atomic_compare_exchange_n", "0", "2")],
    ("muggle/c/sync/synclock.c", "muggle_synclock_unlock"): [("__atomic_store_n", "3")],
}


def site_key(site):
    name, args = site
    if name == "__atomic_compare_exchange_n":
        return (name, args[3], args[4])      # weak flag, success order
    return (name, args[-1])


def static_inventory(ctx):
    inv = {}
    for (f, fn), exp in EXPECTED_SITES.items():
        try:
            sites = vlib.atomic_sites(f, fn)
        except vlib.BuildError as e:
            ctx.broken.append("tieA: " + str(e)[:200])
            continue
        got = [site_key(s) for s in (sites or [])] if sites is not None else None
        inv["%s:%s" % (f, fn)] = got
        if got != exp:
            ctx.broken.append("tieA: atomic sites of %s:%s are %s, the model assumes %s" % (f, fn, got, exp))
    ctx.cov["ties"]["tieA_atomic_sites"] = inv


# --------------------------------------------------------------------------- build
def build(ctx):
    exe = vlib.build_conc_harness("C01", "conc_chan", ["harness/c01/conc_chan.c"], REPO_SRCS)
    return [exe], ctx.driver_cmd("drv_c01")


def pow2(req):
    c = 1
    while c < req:
        c *= 2
    return c


# --------------------------------------------------------------------------- generators
def sched_of(rng):
    s = rng.randrange(1, 1 << 30)
    return "random %d" % s if rng.random() < 0.55 else "pct %d %d" % (s, rng.choice([1, 2, 3]))


def chan_run(wl, rm, req, tries, reads, ns, sched, spur=0, fx=0):
    """spur: spurious condition-variable wake-ups (permille per scheduling decision); fx: a parked
    futex wait (reader on write_cursor, writer on the futex lock) returns EINTR although nobody woke it"""
    conf = ["conf chan %s %s %d %d %d %s" % (wl, rm, req, tries, reads, " ".join(map(str, ns)))]
    if fx:
        conf.append("spurious 0 %d %d" % (spur, fx))
    elif spur:
        conf.append("spurious 0 %d" % spur)
    return {"conf": conf, "sched": sched, "kind": "chan", "wl": wl, "rm": rm, "cap": pow2(req), "W": len(ns),
            "ns": list(ns), "tries": tries, "reads": reads, "expect_ok": True}


def gen_chan(ctx, per):
    rng = ctx.rng
    runs = []
    for wl in WLS:
        for rm in RMS:
            for req in (1, 2, 3, 4, 5, 8):
                cap = pow2(req)
                for W in ((1,) if wl == "single" else (1, 2, 3)):
                    for i in range(per):
                        # message counts that force wrap-around and FULL
                        if i % 2 == 0:
                            tot = 3 * cap if cap <= 4 else 2 * cap + 1
                        else:
                            tot = rng.randrange(1, 2 * cap + 3)
                        ns = [tot // W + (1 if w < tot % W else 0) for w in range(W)]
                        if cap >= 3 and i % 3 != 2:
                            tries, reads = 0, tot            # writers retry: everything is delivered
                        else:
                            tries = rng.choice([1, 2, 3])    # writers give up: only cap-2 reads are safe
                            reads = min(tot, max(cap - 2, 0))
                        spur = rng.choice([0, 100, 300]) if rm == "mutex" else 0
                        fx = rng.choice([0, 0, 200, 500]) if (rm == "sync" or wl == "sync") else 0
                        runs.append(chan_run(wl, rm, req, tries, reads, ns, sched_of(rng), spur, fx))
    return runs


def abq_run(cap, ns, ks, sched, spur=0, fine=False):
    conf = ["conf abq %d %d %d %s %s" % (cap, len(ns), len(ks), " ".join(map(str, ns)), " ".join(map(str, ks)))]
    if spur:
        conf.append("spurious 0 %d" % spur)
    if fine:
        conf.append("fine 1")
    tot, take = sum(ns), sum(ks)
    return {"conf": conf, "sched": sched, "kind": "abq", "cap": cap, "ns": list(ns), "ks": list(ks), "fine": fine,
            "expect_ok": take <= tot <= take + cap}


def gen_abq(ctx, n, fine=False):
    rng = ctx.rng
    runs = []
    for i in range(n):
        cap = rng.choice([1, 1, 2, 3, 4])
        P, C = rng.choice([1, 2, 3]), rng.choice([1, 2, 3])
        ns = [rng.randrange(0, 2 * cap + 3) for _ in range(P)]
        tot = sum(ns)
        take = tot if rng.random() < 0.85 else rng.randrange(0, tot + 3)
        ks = [0] * C
        for _ in range(take):
            ks[rng.randrange(C)] += 1
        runs.append(abq_run(cap, ns, ks, sched_of(rng), rng.choice([0, 0, 100, 300]), fine))
    return runs


def dbuf_run(cap, nb, tries, reads, ns, sched, spur=0, fine=False):
    conf = ["conf dbuf %d %d %d %d %s" % (cap, nb, tries, reads, " ".join(map(str, ns)))]
    if spur:
        conf.append("spurious 0 %d" % spur)
    if fine:
        conf.append("fine 1")
    return {"conf": conf, "sched": sched, "kind": "dbuf", "cap": cap, "nb": nb, "tries": tries, "reads": reads,
            "ns": list(ns), "fine": fine, "expect_ok": True}


def gen_dbuf(ctx, n, fine=False):
    rng = ctx.rng
    runs = []
    for i in range(n):
        cap = rng.choice([1, 1, 2, 3, 4])
        W = rng.choice([1, 2, 3])
        nb = rng.choice([0, 1])
        ns = [rng.randrange(0, 2 * cap + 3) for _ in range(W)]
        tot = sum(ns)
        if nb == 0 or rng.random() < 0.6:
            tries, reads = 0, tot
        else:
            tries, reads = rng.choice([1, 2, 3]), min(tot, 1)
        runs.append(dbuf_run(cap, nb, tries, reads, ns, sched_of(rng), rng.choice([0, 0, 100, 300]), fine))
    return runs


MALFORMED = [
    "conf", "conf chan", "conf chan mutex sync 4 0 1", "conf chan futex sync 4 0 1 1", "conf chan mutex poll 4 0 1 1",
    "conf chan single sync 4 0 2 1 1", "conf chan mutex sync 0 0 1 1", "conf chan mutex sync 65 0 1 1",
    "conf chan mutex sync 4 0 1 1 1 1 1 1 1 1 1", "conf chan mutex sync x 0 1 1", "conf chan mutex sync 4 0 1 -1",
    "conf chan mutex sync 4 0 600 1", "conf chan mutex sync 4 0 1 600", "conf abq 2 1", "conf abq 0 1 1 1 1",
    "conf abq 2 1 1 1", "conf abq 2 0 1 1", "conf abq 2 1 1 1 1 1", "conf abq 2 4 5 1 1 1 1 1 1 1 1 1",
    "conf dbuf 2 0 0 1", "conf dbuf 2 2 0 1 1", "conf dbuf 0 0 0 1 1", "conf dbuf 2 0 0 1 a", "conf ring 2 1 1",
    "conf abq 2 1 1 600 1",
]


def gen_malformed(ctx):
    return [{"conf": [m], "sched": "random 1", "kind": "malformed", "expect_ok": False} for m in MALFORMED]


def load_corpus():
    """corpus/C01/*.ops: conf lines followed by `sched ...` — every file is one run."""
    d = os.path.join(vlib.VERIF, "corpus", "C01")
    runs = []
    if os.path.isdir(d):
        for f in sorted(os.listdir(d)):
            if not f.endswith(".ops"):
                continue
            lines = [l.strip() for l in open(os.path.join(d, f)) if l.strip() and not l.startswith("#")]
            conf = [l for l in lines if not l.startswith("sched ") and l != "run"]
            sched = next((l[6:] for l in lines if l.startswith("sched ")), "random 1")
            r = run_from_conf(conf, sched)
            if r:
                runs.append(r)
    return runs


def run_from_conf(conf, sched):
    t = conf[0].split()
    spur = fx = 0
    fine = any(l.startswith("fine 1") for l in conf)
    for l in conf[1:]:
        if l.startswith("spurious"):
            spur = int(l.split()[2])
            fx = int(l.split()[3]) if len(l.split()) > 3 else 0
    try:
        if t[1] == "chan":
            return chan_run(t[2], t[3], int(t[4]), int(t[5]), int(t[6]), [int(x) for x in t[7:]], sched, spur, fx)
        if t[1] == "abq":
            P, C = int(t[3]), int(t[4])
            return abq_run(int(t[2]), [int(x) for x in t[5:5 + P]], [int(x) for x in t[5 + P:5 + P + C]], sched, spur, fine)
        if t[1] == "dbuf":
            return dbuf_run(int(t[2]), int(t[3]), int(t[4]), int(t[5]), [int(x) for x in t[6:]], sched, spur, fine)
    except (IndexError, ValueError):
        pass
    return {"conf": conf, "sched": sched, "kind": "malformed", "expect_ok": False}


# --------------------------------------------------------------------------- oracle
class VC:
    """vector clocks over the release/acquire/mutex events of a trace (C11 happens-before,
    restricted to what the shim prints). Relaxed stores break a release sequence; RMWs continue it."""

    def __init__(self):
        self.c = {}        # tid -> {tid: n}
        self.rel = {}      # location / mutex -> clock
        self.wr = {}       # plain location -> (tid, epoch) of its last write

    def clk(self, t):
        if t not in self.c:
            self.c[t] = {t: 1}
        return self.c[t]

    def tick(self, t):
        c = self.clk(t)
        c[t] = c.get(t, 0) + 1

    def acquire(self, t, loc):
        c = self.clk(t)
        for k, v in self.rel.get(loc, {}).items():
            if c.get(k, 0) < v:
                c[k] = v

    def release(self, t, loc):
        self.rel[loc] = dict(self.clk(t))
        self.tick(t)

    def relaxed_store(self, loc):
        self.rel[loc] = {}

    def write(self, t, loc):
        self.wr[loc] = (t, self.clk(t).get(t, 0))
        self.tick(t)

    def read_ok(self, t, loc):
        """is the last write of loc happens-before this read?"""
        if loc not in self.wr:
            return True
        w, e = self.wr[loc]
        return w == t or self.clk(t).get(w, 0) > e


EV = re.compile(r"T(\d+) (\S+) ?(.*)")


def hb_feed(vc, t, kind, rest):
    """update the vector clocks with one event; returns the plain location read/written or None"""
    f = rest.split()
    if kind == "ld":
        if f[2] in ("acq", "sc", "ar", "con"):
            vc.acquire(t, f[0])
    elif kind == "st":
        if f[2] in ("rel", "sc", "ar"):
            vc.release(t, f[0])
        else:
            vc.relaxed_store(f[0])
    elif kind in ("xchg", "cas", "fadd", "fsub"):
        mo = f[-1]
        if kind == "cas" and len(f) >= 3 and not f[2].startswith("ok"):
            if mo in ("acq", "sc", "ar"):
                pass                               # failed CAS: relaxed failure order in this code base
            return None
        if mo in ("acq", "sc", "ar"):
            vc.acquire(t, f[0])
        if mo in ("rel", "sc", "ar"):
            old = vc.rel.get(f[0], {})
            vc.release(t, f[0])
            for k, v in old.items():               # RMW continues the release sequence
                if vc.rel[f[0]].get(k, 0) < v:
                    vc.rel[f[0]][k] = v
    return None


def mutex_of(cv):
    return {"rcv": "rmutex", "cv_not_empty": "mutex", "cv_not_full": "mutex"}.get(cv, cv)


def parse_trace(out):
    evs = []
    for l in out:
        m = EV.match(l)
        if m:
            evs.append((int(m.group(1)), m.group(2), m.group(3)))
    return evs


def end_status(out):
    end = next((l for l in out if l.startswith("end ")), None)
    return end.split()[1] if end else None


def outcome_kv(out):
    oc = next((l for l in out if l.startswith("outcome ")), "")
    return dict(x.split("=", 1) for x in oc.split()[1:] if "=" in x)


def ids(s):
    return [] if s in ("-", "", None) else [int(x) for x in s.split(",")]


def pid(v):
    m = re.match(r"&payload\[(\d+)\]$", v)
    return int(m.group(1)) if m else None


def hb_common(vc, t, kind, rest):
    """mutex / cv events with the right mutex names; other events through hb_feed"""
    f = rest.split()
    if kind == "mtx-lock":
        vc.acquire(t, "M:" + f[0])
    elif kind == "mtx-unlock":
        vc.release(t, "M:" + f[0])
    elif kind == "cv-wait":
        vc.release(t, "M:" + mutex_of(f[0]))
    elif kind == "cv-resume":
        vc.acquire(t, "M:" + mutex_of(f[0]))
    else:
        hb_feed(vc, t, kind, rest)


def judge_chan(run, out):
    cap, W = run["cap"], run["W"]
    reader = W
    full_at = max(cap - 2, 0)
    st = end_status(out)
    if st is None:
        return "no end line"
    if run.get("expect_ok") and st != "ok":
        return "run did not complete (%s): a participant sleeps or spins while messages remain" % st
    vc = VC()
    cur = {}
    slots = {}
    pending = {}                # writer -> (idx, g) stored but not yet published
    accepted, consumed, notes_read = [], [], []
    fetched = None
    wc = 0
    ok_notes, full_notes = [], 0
    wmax = {}                   # writer -> max unread seen during its current call
    mtx_owner = {}
    for (t, kind, rest) in parse_trace(out):
        f = rest.split()
        unread_before = len(accepted) - len(consumed)
        hb_common(vc, t, kind, rest)
        if kind == "mtx-lock":
            mtx_owner[f[0]] = t
        elif kind == "mtx-unlock":
            if "NOT-OWNER" in rest:
                return "mutex unlocked by a thread that does not own it: " + rest
            mtx_owner[f[0]] = None
        elif kind == "cv-wait":
            mtx_owner[mutex_of(f[0])] = None
        elif kind == "cv-resume":
            mtx_owner[mutex_of(f[0])] = t
        if kind == "w" and f[0].startswith("payload["):
            g = int(f[0][8:-1])
            cur[t] = g
            if int(f[1]) != 100 + g:
                return "harness wrote a wrong stamp"
            vc.write(t, f[0])
            wmax[t] = unread_before
        elif kind == "yield" and t < W:
            wmax[t] = unread_before
        elif kind == "w" and f[0].startswith("blocks["):
            idx = int(f[0][7:-1])
            g = pid(f[1])
            if g is None or g != cur.get(t):
                return "a writer stored something else than its message: T%d %s" % (t, rest)
            live = set(accepted[len(consumed):])
            if slots.get(idx) in live:
                return "slot %d holding the unread accepted message m%d was overwritten by T%d (m%d)" % (
                    idx, slots[idx], t, g)
            for w2, (i2, g2) in pending.items():
                if w2 != t and i2 == idx:
                    return "slot %d written by two writers before publication (m%d, m%d)" % (idx, g2, g)
            if idx != wc:
                return "writer T%d stored into slot %d but write_cursor is %d" % (t, idx, wc)
            if run["rm"] == "mutex" and mtx_owner.get("rmutex") != t:
                return "slot store outside read_mutex in mutex mode"
            slots[idx] = g
            pending[t] = (idx, g)
            vc.write(t, f[0])
        elif (kind == "st" and f[0] == "write_cursor") or (kind == "w" and f[0] == "write_cursor"):
            if t >= W:
                return "the reader wrote write_cursor"
            if t not in pending:
                return "write_cursor published without a slot store: T%d %s" % (t, rest)
            idx, g = pending.pop(t)
            if int(f[1]) != (idx + 1) % cap:
                return "write_cursor moved from %d to %s" % (idx, f[1])
            if kind == "w" and mtx_owner.get("rmutex") != t:
                return "plain write of write_cursor outside read_mutex"
            if g in accepted:
                return "message m%d accepted twice" % g
            accepted.append(g)
            wc = int(f[1])
            if len(accepted) - len(consumed) > full_at:
                return "more than capacity-2 = %d unread messages in the ring" % full_at
        elif kind == "r" and f[0].startswith("blocks[") and t == reader:
            idx = int(f[0][7:-1])
            g = pid(f[1])
            if g is None:
                return "the reader fetched %s from slot %d" % (f[1], idx)
            if not vc.read_ok(t, f[0]):
                return "data race: the reader's load of slot %d is not ordered after the writer's store (HB)" % idx
            fetched = (idx, g)
        elif ((kind == "st" or kind == "w") and f[0] == "read_cursor"):
            if t != reader or fetched is None:
                return "read_cursor moved without a fetch: T%d %s" % (t, rest)
            idx, g = fetched
            fetched = None
            if int(f[1]) != idx:
                return "read_cursor set to %s after reading slot %d" % (f[1], idx)
            n = len(consumed)
            if n >= len(accepted) or accepted[n] != g:
                return "read #%d returned m%d but the %s accepted message is %s" % (
                    n, g, "next", ("m%d" % accepted[n]) if n < len(accepted) else "none (nothing unread)")
            consumed.append(g)
        elif kind == "r" and f[0].startswith("payload[") and t == reader:
            g = int(f[0][8:-1])
            if int(f[1]) != 100 + g:
                return "the reader saw stamp %s in m%d" % (f[1], g)
            if not vc.read_ok(t, f[0]):
                return ("payload of m%d is not happens-before visible to the reader (no release/acquire or "
                        "mutex chain from the producer's store)") % g
        elif kind == "note":
            m = re.match(r"write=(ok|full|err) m(\d+)", rest)
            if m:
                g = int(m.group(2))
                if m.group(1) == "ok":
                    if g not in accepted:
                        return "write of m%d returned success but was never published" % g
                    ok_notes.append(g)
                elif m.group(1) == "full":
                    full_notes += 1
                    if g in accepted:
                        return "write of m%d returned FULL although it was published" % g
                    if max(wmax.get(t, 0), unread_before) < full_at:
                        return ("write of m%d refused as FULL but at most %d of %d slots were occupied at any "
                                "instant of the call") % (g, max(wmax.get(t, 0), unread_before), full_at)
                else:
                    return "write returned an unexpected error"
                wmax[t] = unread_before
            m = re.match(r"read=m(\d+) stamp=(\d+)", rest)
            if m:
                notes_read.append(int(m.group(1)))
                if int(m.group(2)) != 100 + int(m.group(1)):
                    return "wrong stamp delivered"
            if rest.startswith("read=BAD"):
                return "muggle_channel_read returned " + rest
        for w in wmax:
            u = len(accepted) - len(consumed)
            if wmax[w] < u:
                wmax[w] = u
    if notes_read != consumed[:len(notes_read)]:
        return "reads returned %s, consumed order is %s" % (notes_read, consumed)
    if len(set(ok_notes)) != len(ok_notes):
        return "a message was reported written twice"
    kv = outcome_kv(out)
    if st == "ok":
        if sorted(ok_notes) != sorted(accepted):
            return "accepted %s vs successful writes %s" % (accepted, ok_notes)
        if ids(kv.get("accepted")) != accepted:
            return "ring contents at the end (%s) differ from the publication order %s" % (kv.get("accepted"), accepted)
        if ids(kv.get("delivered")) != consumed:
            return "delivered %s vs consumed %s" % (kv.get("delivered"), consumed)
        if len(consumed) != run["reads"]:
            return "reader finished with %d of %d reads" % (len(consumed), run["reads"])
        if run["tries"] == 0 and len(accepted) != sum(run["ns"]):
            return "a retrying writer finished without its message accepted"
    # per-writer order
    last = {}
    for g in accepted:
        w = owner(run["ns"], g)
        if last.get(w, -1) >= g:
            return "writer %d's messages accepted out of order" % w
        last[w] = g
    return None


def owner(ns, g):
    b = 0
    for w, n in enumerate(ns):
        if g < b + n:
            return w
        b += n
    return -1


def lock_coverage(run, out):
    """`fine` variant: every access to the queue's fields lies inside the mutex (abq), resp. is by a
    producer inside the mutex or by the consumer on the buffer it owns (dbuf)."""
    owner_m = None
    front = "buf0"
    consumer = len(run["ns"]) if run["kind"] == "dbuf" else None
    for (t, kind, rest) in parse_trace(out):
        f = rest.split()
        if kind in ("mtx-lock", "cv-resume"):
            owner_m = t
        elif kind in ("mtx-unlock", "cv-wait"):
            owner_m = None
        elif kind in ("r", "w") and not f[0].startswith("payload["):
            if owner_m == t:
                if kind == "w" and f[0] == "front":
                    front = f[1]
                continue
            if run["kind"] == "dbuf" and t == consumer and kind == "r" and (f[0] == "front" or f[0].startswith(front + ".")):
                continue
            return "access outside the mutex: T%d %s %s" % (t, kind, rest)
    return None


def judge_abq(run, out):
    cap = run["cap"]
    P = len(run["ns"])
    st = end_status(out)
    if st is None:
        return "no end line"
    if run.get("expect_ok") and st != "ok":
        return "run did not complete (%s): a participant sleeps while messages remain" % st
    vc = VC()
    cur, puts, takes_pending, taken = {}, [], [], []
    ntake = 0
    for (t, kind, rest) in parse_trace(out):
        f = rest.split()
        hb_common(vc, t, kind, rest)
        if "NOT-OWNER" in rest:
            return "pthread call by a thread that does not own the mutex: " + rest
        if kind == "w" and f[0].startswith("payload["):
            cur[t] = int(f[0][8:-1])
            vc.write(t, f[0])
        elif kind == "cv-signal" and f[0] == "cv_not_empty":
            if t >= P:
                return "a consumer signalled cv_not_empty"
            puts.append(cur[t])
            if len(puts) - ntake > cap:
                return "cnt exceeded the capacity"
        elif kind == "cv-signal" and f[0] == "cv_not_full":
            ntake += 1
            if ntake > len(puts):
                return "take #%d completed with only %d puts" % (ntake, len(puts))
            takes_pending.append(t)
        elif kind == "r" and f[0].startswith("payload["):
            if not vc.read_ok(t, f[0]):
                return "payload not happens-before visible to the consumer"
        elif kind == "note":
            m = re.match(r"take=m(\d+) stamp=(\d+)", rest)
            if m:
                g = int(m.group(1))
                if int(m.group(2)) != 100 + g:
                    return "wrong stamp"
                if t not in takes_pending:
                    return "take returned without a dequeue"
                pos = takes_pending.index(t)
                # the dequeue order is the order of the cv_not_full signals
                taken.append((pos, g, t))
                takes_pending[pos] = None
            if rest.startswith("take=BAD"):
                return "take returned " + rest
            if rest.startswith("put=err"):
                return "put failed"
    order = [g for (pos, g, t) in sorted(taken)]
    # dequeues whose take has not returned yet (run ended early) are unknown: compare known positions
    for (pos, g, t) in taken:
        if pos >= len(puts) or puts[pos] != g:
            return "take #%d returned m%d, put order is %s" % (pos, g, puts)
    kv = outcome_kv(out)
    if int(kv.get("cnt", -1)) != len(puts) - ntake:
        return "cnt=%s but %d puts and %d takes" % (kv.get("cnt"), len(puts), ntake)
    if ids(kv.get("left")) != puts[ntake:]:
        return "ring holds %s, expected %s" % (kv.get("left"), puts[ntake:])
    if run.get("fine"):
        return lock_coverage(run, out)
    return None


def judge_dbuf(run, out):
    cap = run["cap"]
    W = len(run["ns"])
    st = end_status(out)
    if st is None:
        return "no end line"
    if run.get("expect_ok") and st != "ok":
        return "run did not complete (%s): a participant sleeps while messages remain" % st
    vc = VC()
    cur, written, items = {}, [], []
    handed = 0
    expect_cnt = None
    last_lock_written = {}
    for (t, kind, rest) in parse_trace(out):
        f = rest.split()
        hb_common(vc, t, kind, rest)
        if "NOT-OWNER" in rest:
            return "pthread call by a thread that does not own the mutex: " + rest
        if kind == "w" and f[0].startswith("payload["):
            cur[t] = int(f[0][8:-1])
            vc.write(t, f[0])
        elif kind in ("mtx-lock", "cv-resume"):
            last_lock_written[t] = len(written) - handed
        elif kind == "cv-signal" and f[0] == "cv_not_empty":
            written.append(cur[t])
            if len(written) - handed > cap:
                return "back buffer exceeded its capacity"
        elif kind == "cv-signal" and f[0] == "cv_not_full":
            if t != W:
                return "a producer signalled cv_not_full"
            expect_cnt = len(written) - handed
            if expect_cnt == 0:
                return "read swapped an empty back buffer"
            handed = len(written)
        elif kind == "r" and f[0].startswith("payload["):
            if not vc.read_ok(t, f[0]):
                return "payload not happens-before visible to the consumer"
        elif kind == "note":
            m = re.match(r"read cnt=(\d+)", rest)
            if m and int(m.group(1)) != expect_cnt:
                return "read returned %s items, %s were written since the last read" % (m.group(1), expect_cnt)
            m = re.match(r"item=m(\d+) stamp=(\d+)", rest)
            if m:
                g = int(m.group(1))
                if int(m.group(2)) != 100 + g:
                    return "wrong stamp"
                if len(items) >= len(written) or written[len(items)] != g:
                    return "item #%d is m%d, write order is %s" % (len(items), g, written)
                items.append(g)
            if rest.startswith("item=BAD") or rest.startswith("read=NULL"):
                return "read returned " + rest
            m = re.match(r"write=full m(\d+)", rest)
            if m:
                if not run["nb"]:
                    return "a blocking double buffer refused a write"
                if last_lock_written.get(t) != cap:
                    return "write refused as FULL with %s of %d slots used" % (last_lock_written.get(t), cap)
            if rest.startswith("write=err"):
                return "write failed"
    kv = outcome_kv(out)
    if ids(kv.get("delivered")) != items:
        return "delivered list differs from the item notes"
    if ids(kv.get("left")) != written[handed:]:
        return "back buffer holds %s, expected %s" % (kv.get("left"), written[handed:])
    if st == "ok" and run["tries"] == 0 and items != written[:len(items)]:
        return "items out of order"
    if st == "ok" and run["tries"] == 0 and len(items) < run["reads"]:
        return "consumer finished early"
    if run.get("fine"):
        return lock_coverage(run, out)
    return None


def judge(run, out):
    k = run.get("kind")
    if k == "chan":
        return judge_chan(run, out)
    if k == "abq":
        return judge_abq(run, out)
    if k == "dbuf":
        return judge_dbuf(run, out)
    if k == "malformed":
        if not any(l == "bad-op" for l in out):
            return "malformed configuration accepted"
    return None


# --------------------------------------------------------------------------- fine variant
def fine_runs(ctx, hcmd, runs, label):
    """abq/dbuf with every field access as an event: lock coverage + the same oracle; no model
    replay (the models are at monitor granularity)."""
    cases = [r["conf"] + ["sched " + r["sched"], "run"] for r in runs]
    res = vlib.run_cases(hcmd, cases)
    bad = 0
    for r, a in zip(runs, res):
        msg = ("crash: " + a["crash"][:800]) if a["crash"] else judge(r, a["out"])
        if msg:
            bad += 1
            if bad <= 2:
                sched = next((l[len("schedule "):] for l in a["out"] if l.startswith("schedule ")), "")
                ctx.violation({"kind": "property-fails-on-implementation", "tie": label, "conf": r["conf"],
                               "schedule": sched, "what": msg,
                               "ops": r["conf"] + ["sched replay " + sched, "run"],
                               "implementation_trace": a["out"][:400]}, found_input=True)
    ctx.cov["evaluations"] += len(runs)
    ctx.cov["ties"][label] = {"runs": len(runs), "property_failures": bad,
                              "what": "lock-coverage of every field access of array_blocking_queue.c / double_buffer.c "
                                      "+ FIFO oracle at access granularity"}
    return bad


# --------------------------------------------------------------------------- systematic
def systematic(ctx, hcmd, dcmd, small, label):
    sys_runs = []
    exh = {}
    for conf, bound in small:
        g = vlib.explore_schedules(hcmd, conf, bound, max_runs=1500 if ctx.quick else 40000)
        n = 0
        for sched, out in g:
            n += 1
            r = run_from_conf(conf, "replay " + " ".join(sched))
            sys_runs.append(r)
        exh[" / ".join(conf)] = {"preemption_bound": bound, "schedules": n, "exhausted": g.exhausted}
    ctx.cov.setdefault("systematic", {}).update(exh)
    ctx.cov["exhaustive"] = all(v["exhausted"] for v in ctx.cov["systematic"].values())
    vlib.conc_correspondence_batched(ctx, hcmd, dcmd, sys_runs, judge=judge, label=label, batch=30000)


def small_confs(ctx):
    b = 1 if ctx.quick else 2
    out = []
    for wl, rm in [("single", "sync"), ("single", "busy"), ("single", "mutex")]:
        out.append((["conf chan %s %s 4 0 3 3" % (wl, rm)], b))
        out.append((["conf chan %s %s 1 1 0 1" % (wl, rm)], b))
    out.append((["conf chan single sync 3 2 2 4"], b))
    for wl in ("mutex", "sync", "spin"):
        out.append((["conf chan %s sync 4 0 2 1 1" % wl], b))
        out.append((["conf chan %s busy 2 1 0 1 1" % wl], b))
        if not ctx.quick:
            out.append((["conf chan %s mutex 4 0 3 2 1" % wl], b))
            out.append((["conf chan %s busy 4 0 3 2 1" % wl], 1))
    out.append((["conf abq 1 2 1 1 1 2"], b))
    out.append((["conf abq 2 1 2 3 2 1"], b))
    out.append((["conf dbuf 1 0 0 3 2 1"], b))
    out.append((["conf dbuf 1 1 0 2 1 1"], b))
    return out


# --------------------------------------------------------------------------- deep states
def deep_tail(ctx, hcmd, dcmd):
    """an operation-atomic history first (the 32-bit-free-running cursors several times round the ring,
    the queue alternately full and empty), then every schedule with at most two preemptions of the last
    operation(s) of every thread"""
    from concurrent.futures import ThreadPoolExecutor
    rng, q = ctx.rng, ctx.quick
    jobs0 = []
    # stratified: every writer lock x reader mode, one and two writers, every number of messages left
    # pending (0..room) when the exploration starts; plus array-blocking-queue histories
    plans = []
    for rep in range(1 if q else 4):
        for wl in WLS:
            for rm in RMS:
                for W in ((1,) if wl == "single" else (1, 2)):
                    for lag in (0, 1, 2, 3):
                        plans.append(("chan", wl, rm, W, lag))
    for i in range(30 if q else 150):
        plans.append(("abq",))
    for plan in plans:
        if plan[0] == "chan":
            _, wl, rm, W, lag = plan
            # (a ring of 2 slots accepts nothing; one of 4 holds 2 messages, so more than one message can
            # only be pending at a successful write in a ring of 8)
            req = rng.choice([5, 8]) if lag >= 2 or rng.random() < 0.4 else rng.choice([3, 4])
            cap = pow2(req)
            tot = rng.randrange(cap + 1, 3 * cap + 2)
            ns = [tot // W + (1 if w < tot % W else 0) for w in range(W)]
            run = chan_run(wl, rm, req, 0, tot, ns, "")
            room = max(1, cap - 2)
            wr, rd = list(ns), [tot]
            tails_w = [rng.choice([1, 1, 2]) if n > 1 else n for n in wr]
            tails_r = [min(tot, sum(tails_w) + min(lag, room))]
        else:
            cap = rng.choice([1, 2, 2, 3, 4])
            P, C = rng.choice([1, 2]), rng.choice([1, 2])
            tot = rng.randrange(cap + 1, 4 * cap + 3)
            ns = [tot // P + (1 if w < tot % P else 0) for w in range(P)]
            ks = [tot // C + (1 if c < tot % C else 0) for c in range(C)]
            run = abq_run(cap, ns, ks, "")
            room = cap
            wr, rd = list(ns), list(ks)
            tails_w = [rng.choice([1, 1, 2]) if n > 1 else n for n in wr]
            tails_r = [min(n, rng.choice([1, 1, 2, 3])) for n in rd]
        # operation order: never more than `room` messages in flight, never a read on empty; the last
        # operation (sometimes two) of every thread is left to the exploration
        P_ = len(wr)
        left_w = [n - t for n, t in zip(wr, tails_w)]
        left_r = [n - t for n, t in zip(rd, tails_r)]
        order, fly = [], 0
        while True:
            cw = [w for w in range(P_) if left_w[w] > 0] if fly < room else []
            cr = [c for c in range(len(rd)) if left_r[c] > 0] if fly > 0 else []
            if not cw and not cr:
                break
            if cw and (not cr or rng.random() < 0.55):
                w = rng.choice(cw)
                left_w[w] -= 1
                fly += 1
                order.append(w)
            else:
                c = rng.choice(cr)
                left_r[c] -= 1
                fly -= 1
                order.append(P_ + c)
        jobs0.append((run, order))
    first = vlib.run_cases(hcmd, [r["conf"] + ["sched opseq " + " ".join(map(str, o)), "run"] for r, o in jobs0])
    jobs = []
    for (r, o), a in zip(jobs0, first):
        sched = next((l.split()[1:] for l in a["out"] if l.startswith("schedule ")), None)
        k = next((int(l.split()[1]) for l in a["out"] if l.startswith("#opseq-steps")), None)
        if a["crash"] or sched is None or k is None:
            continue
        jobs.append((r, sched[:k]))
    runs = []
    stats = {"histories": len(jobs), "tail_schedules": 0, "exhausted": 0,
             "prefix_steps_total": sum(len(p) for _, p in jobs)}

    def explore(job):
        r, pre = job
        g = vlib.explore_schedules(hcmd, r["conf"], 2, max_runs=150 if q else 400, start_prefix=pre, workers=1)
        out = []
        for sc, _ in g:
            x = dict(r)
            x["sched"] = "replay " + " ".join(sc)
            out.append(x)
        return out, g.exhausted
    with ThreadPoolExecutor(vlib.NPROC) as ex:
        for out, exh in ex.map(explore, jobs):
            runs += out
            stats["tail_schedules"] += len(out)
            stats["exhausted"] += bool(exh)
    ctx.cov["deep_tail"] = stats
    vlib.conc_correspondence_batched(ctx, hcmd, dcmd, runs, judge=judge, label="tieC_deep_tail", escalate=False)


# --------------------------------------------------------------------------- main
def main(ctx):
    ctx.cov["trusted_base"] = TRUSTED
    ctx.assumptions += TRUSTED[2:]
    ctx.cov["rule"] = ("corpus + seeded random and PCT schedules of the real object code under the deterministic "
                       "scheduler: channel 4 writer locks x 3 reader modes x requested capacity {1,2,3,4,5,8} x "
                       "W in 1..3 with message counts forcing wrap-around and FULL (retrying and giving-up writers, "
                       "spurious condvar wake-ups); array blocking queue (P,C in 1..3) and double buffer (blocking / "
                       "non-blocking); preemption-bounded systematic exploration of small configurations; a malformed "
                       "configuration stream. Every schedule is replayed on the Lean model and the traces compared "
                       "event for event; distinct = distinct implementation traces")
    ctx.lean_obligations("drv_c01", PROOFS, GREP, leanchecker=["MgProof.C01.Props", "MgProof.C01.PropsQ"])
    vlib.tie_a_generated(ctx)
    if not getattr(ctx, "driver_ok", False):
        return
    static_inventory(ctx)
    try:
        hcmd, dcmd = build(ctx)
    except vlib.BuildError as e:
        ctx.broken.append("harness-build: " + str(e)[:500])
        return
    q = ctx.quick
    # (the directed family first: the random families escalate into a long search when only the trace tie
    # breaks, and that search is skipped once a concrete failing input is known)
    deep_tail(ctx, hcmd, dcmd)
    runs = load_corpus()
    ctx.cov["ties"]["corpus_runs"] = len(runs)
    runs += gen_chan(ctx, 8 if q else 60)
    runs += gen_abq(ctx, 400 if q else 4000)
    runs += gen_dbuf(ctx, 400 if q else 4000)
    runs += gen_malformed(ctx)
    vlib.conc_correspondence(ctx, hcmd, dcmd, runs, judge=judge)
    fine_runs(ctx, hcmd, gen_abq(ctx, 150 if q else 1500, fine=True) + gen_dbuf(ctx, 150 if q else 1500, fine=True),
              "lock_coverage")
    systematic(ctx, hcmd, dcmd, small_confs(ctx), "tieC_systematic")


def replay(ctx, path):
    hcmd, dcmd = build(ctx)
    vlib.lake_build(["drv_c01"])
    r = json.load(open(path))
    ops = r.get("ops") or (r.get("model_difference") or {}).get("ops")
    if not ops:
        print("replay names a broken obligation only:", r.get("broken"))
        return 2
    a, ops = vlib.run_replay_conc(hcmd, ops)
    conf = [l for l in ops if not l.startswith("sched ") and l != "run"]
    sched = next((l[6:] for l in ops if l.startswith("sched ")), "random 1")
    b = vlib.run_one(dcmd, [l for l in ops if not l.startswith("fine ")])
    print("\n".join(a["out"]))
    run = run_from_conf(conf, sched)
    msg = ("crash: " + a["crash"]) if a["crash"] else judge(run, a["out"])
    if msg:
        print("VIOLATION property=%s replay=%s" % (ctx.pid, path))
        print(msg)
        return 1
    if not run.get("fine") and [l for l in a["out"] if not l.startswith("#")] != [l for l in b["out"] if not l.startswith("#")]:
        print("model and implementation traces differ")
        return 1
    print("replay passes on the current tree")
    return 0
