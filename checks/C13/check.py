"""C13 — event loop callback life-cycle; select, poll and epoll agree.
Theorems: lean/MgProof/C13/Props.lean; model: lean/MgModel/C13/{Kernel,EvLoop}.lean;
tie B: harness/c13/seq_evloop.c runs the real muggle_evloop_run of every back-end over
real pipes / socket pairs / TCP loop-back with scripted callbacks."""
import itertools
import os
import vlib

PROOFS = ["MgProof.C13.Lemmas", "MgProof.C13.LemmasTrace", "MgProof.C13.LemmasPoll", "MgProof.C13.LemmasSelect",
          "MgProof.C13.LemmasEpoll", "MgProof.C13.LemmasReady", "MgProof.C13.LemmasEpollReady",
          "MgProof.C13.LemmasSelectFd", "MgProof.C13.LemmasAgree", "MgProof.C13.Props"]
GREP = ["MgModel/C13", "MgProof/C13", "Drv/C13.lean"]
REPO_SRCS = ["muggle/c/event/event_loop.c", "muggle/c/event/internal/event_loop_epoll.c",
             "muggle/c/event/internal/event_loop_poll.c",
             "muggle/c/event/internal/event_loop_select.c",
             "muggle/c/event/event_context.c", "muggle/c/event/event_signal.c",
             "muggle/c/event/event_fd.c", "muggle/c/event/event.c",
             "muggle/c/dsaa/linked_list.c", "muggle/c/memory/memory_pool.c",
             "muggle/c/sync/ref_cnt.c", "muggle/c/base/thread.c", "muggle/c/time/time_counter.c"]
WRAP = ["-Wl,--wrap=poll", "-Wl,--wrap=select", "-Wl,--wrap=epoll_wait"]
BACKENDS = ["select", "poll", "epoll"]
KINDS = ["pipe", "sock", "tcp"]

TRUSTED = [
    "Lean 4.33 kernel; axioms as printed by the audit (subset of propext, Classical.choice, Quot.sound)",
    "tie B: harness/c13/seq_evloop.c + lib/vlib.py comparison (exact trace equality per back-end, "
    "including dispatch boundaries and order inside a dispatch)",
    "abstract kernel (MgModel/C13/Kernel.lean): readiness of pipes / AF_UNIX stream pairs / TCP "
    "loop-back under write, half-close, close, own shutdown; level-triggered select/poll; "
    "edge-triggered epoll with a FIFO ready list re-polled at report time; eventfd counter — "
    "modelled, validated by every correspondence run on the machine's kernel",
    "the wait calls are intercepted (--wrap): 'would block' is decided by a zero-timeout call; outside "
    "actions run while the loop sleeps; timers not modelled (timeout = -1)",
    "byte values are a fixed function of (descriptor, offset): the model counts bytes, the harness "
    "checks the values; malloc failure not modelled (C18); every context is added at most once",
]


def build(ctx):
    exe = vlib.build_harness("C13", "seq_evloop", ["harness/c13/seq_evloop.c"], REPO_SRCS,
                             ldflags=WRAP)
    return [exe], ctx.driver_cmd("drv_c13")


# ---------------------------------------------------------------------------
# generators
# ---------------------------------------------------------------------------

def tail(tag):
    return ["run %s" % b for b in BACKENDS] + ["agree %s" % tag]


# development knobs: model the trees without fixes/C13-poll-ready-count.patch (L) /
# fixes/C13-select-stale-fd.patch (M)
LEGACY = (" L" if os.environ.get("VERIF_C13_LEGACY") else "") + (" M" if os.environ.get("VERIF_C13_LEGACY_SEL") else "")


def head(hints, pool, kinds, closefd=False):
    """closefd: the close callback closes the descriptor (muggle_ev_ctx_close), as the
    library's own socket layer does; closefd == "R": additionally a context added in that callback
    takes over the descriptor NUMBER just released (what the kernel hands out to a reconnect in the
    close callback). Descriptor numbers are invisible at the level of the model (contexts are
    identified by descriptor identity), so the model treats R like C; the real back-ends must too."""
    flag = " R" if closefd == "R" else (" C" if closefd else "")
    # flag I: every other select/poll/epoll_wait call of the run first fails with EINTR (a signal
    # arrived): invisible to the model, the loop must simply wait again
    global _HEADS
    _HEADS += 1
    if _HEADS % 3 == 0:
        flag += " I"
    return ["cfg %d %d%s%s" % (hints, pool, LEGACY, flag)] + ["fd %s" % k for k in kinds]


_HEADS = 0


def gen_fd_reuse(ctx, rng, exact):
    """reconnect-on-close: the close callback of context c closes its descriptor and adds new
    contexts, the first of which gets c's descriptor number; input for them arrives in later rounds
    (sometimes it is already pending). Only add actions inside the close callback (they are performed
    after the descriptor has been closed).
    exact=True : c is closed by another context's callback (shutdown), so its bit is not in select's
                 result set of that round and the real back-ends must produce the model's trace exactly.
    exact=False: c is closed because its peer closed; select's result set then still holds the bit of
                 the recycled number and the new context legitimately gets one read callback in the
                 same round (before its first input): event positions differ from the model, so these
                 cases are compared at outcome level (bytes delivered per context, closed/cleared)."""
    nd = rng.choice([3, 3, 4, 5]) if exact else rng.choice([2, 2, 3, 4])
    kinds = [rng.choice(KINDS) for _ in range(nd)]
    if exact:
        c, a = 1, 0
        kinds[c] = rng.choice(["sock", "tcp"])
        others = [d for d in range(nd) if d not in (a, c)]
    else:
        c = rng.randrange(nd)
        others = [d for d in range(nd) if d != c]
    ops = head(rng.choice([nd, nd + 1, 16]), rng.randrange(2), kinds, "R")
    later = [d for d in others if rng.random() < 0.7] or [others[0]]
    pre = ["a:%d" % d for d in range(nd) if d not in later]
    rng.shuffle(pre)
    if exact:
        # a before c in the context list: a's read callback flags c, the scan reaches c afterwards
        pre = ["a:%d" % a] + [x for x in pre if x != "a:%d" % a]
    if rng.random() < 0.3:
        pre.append("w:%d:%d" % (rng.choice(later), rng.choice([1, 3, 64])))
    ops.append("pre " + " ".join(pre))
    ops.append("on cl %d %s" % (c, " ".join("a:%d" % d for d in later)))
    k = 0
    if exact:
        ops.append("on by %d 1 s:%d" % (a, c))
        ops.append("on idle 0 w:%d:1" % a)
    else:
        ops.append("on idle 0 %s" % rng.choice(["p:%d" % c, "h:%d" % c, "w:%d:2 p:%d" % (c, c)]))
    k = 1
    for _ in range(rng.choice([1, 2, 3])):
        acts = []
        for d in rng.sample(later, rng.randrange(1, len(later) + 1)):
            acts.append(rng.choice(["w:%d:%d" % (d, rng.choice([1, 2, 5, 64])), "p:%d" % d, "h:%d" % d]))
        ops.append("on idle %d %s" % (k, " ".join(acts)))
        k += 1
    return ops + tail("Q")


def gen_exhaustive(ctx):
    """every pair of descriptor kinds x every pair of outside batches from a small
    alphabet x with/without an in-callback reaction"""
    cases = []
    batches = ["w:0:3", "w:0:3 w:1:2", "p:0", "h:0", "w:0:3 p:0", "w:1:2 h:1", "w:0:2 w:0:2 p:1",
               "p:0 p:1", "u", "w:1:4 u", "w:0:1 X"]
    reactions = [[], ["on by 0 3 s:0"], ["on by 0 1 x"], ["on cl 0 a:1"], ["on by 1 2 u", "on wk 0 a:0"]]
    if ctx.quick:
        reactions = reactions[:3]
    for k0, k1 in itertools.product(KINDS, repeat=2):
        for b0, b1 in itertools.product(batches, repeat=2):
            for ri, re in enumerate(reactions):
                pre = "pre a:0 a:1" if ri != 3 and ri != 4 else ("pre a:0" if ri == 3 else "pre a:1")
                ops = head(2, (len(cases) % 2), [k0, k1], len(cases) % 4 >= 2) + [pre, "on idle 0 " + b0, "on idle 1 " + b1]
                ops += re
                cases.append(ops + tail("-"))
    return cases


def rand_peer_batch(rng, nd, maxw=40):
    acts = []
    for _ in range(rng.choice([1, 1, 2, 3, 5])):
        d = rng.randrange(nd)
        r = rng.random()
        if r < 0.62:
            acts.append("w:%d:%d" % (d, rng.choice([1, 1, 2, 3, 7, 64, 256, 257, rng.randrange(1, maxw)])))
        elif r < 0.74:
            acts.append("h:%d" % d)
        elif r < 0.9:
            acts.append("p:%d" % d)
        else:
            acts.append("u")
    return acts


def gen_class_p(ctx, rng, nd_max):
    """externally driven draining scripts: the class of the agreement theorem (spec column)"""
    nd = rng.randrange(1, nd_max + 1)
    kinds = [rng.choice(KINDS) for _ in range(nd)]
    hints = rng.choice([nd, nd, nd + 1, 16])
    ops = head(hints, rng.randrange(2), kinds, rng.random() < 0.5)
    pre = []
    for d in range(nd):
        if rng.random() < 0.85:
            pre.append("a:%d" % d)
    rng.shuffle(pre)
    for _ in range(rng.choice([0, 0, 1, 3])):
        peer = [a for a in rand_peer_batch(rng, nd) if a != "u"] or ["w:0:1"]
        pre.insert(rng.randrange(len(pre) + 1), peer[0])
    ops.append("pre " + " ".join(pre))
    for k in range(rng.choice([1, 2, 4, 8])):
        acts = [a for a in rand_peer_batch(rng, nd) if a != "u"]
        ops.append("on idle %d %s" % (k, " ".join(acts)))
    return ops + tail("P")


def gen_class_q(ctx, rng, nd_max):
    """class on which the three real back-ends are required to agree (judge): draining
    callbacks; peers act only before the run or while the loop sleeps; callbacks add
    contexts, shut down their own socket, wake up, exit; no add beyond the capacity hint"""
    nd = rng.randrange(1, nd_max + 1)
    kinds = [rng.choice(KINDS) for _ in range(nd)]
    hints = rng.choice([nd, nd, nd + 2, 16])
    ops = head(hints, rng.randrange(2), kinds, rng.random() < 0.6)
    # tag R: a context is added and shut down in the same callback. Whether bytes already queued
    # for it are still offered, and whether it is closed or cleared when the loop exits in that
    # round, legitimately depends on the scan order: life-cycle and no-EBADF are judged, agreement
    # is not
    tag = "Q"
    later = [d for d in range(nd) if rng.random() < 0.3]
    pre = ["a:%d" % d for d in range(nd) if d not in later]
    rng.shuffle(pre)
    if rng.random() < 0.3:
        pre.append("w:%d:%d" % (rng.randrange(nd), rng.randrange(1, 20)))
    ops.append("pre " + " ".join(pre))
    pre_idx = len(ops) - 1
    cross = False
    for c in range(nd):
        for _ in range(rng.choice([0, 0, 1, 2])):
            acts = []
            r = rng.random()
            others = [d for d in range(nd) if d != c and d not in later and kinds[d] != "pipe"]
            if r < 0.12 and others:
                # flags ANOTHER registered context closed while both have input pending in the same
                # round: whichever is dispatched first, the other's bytes are still offered to its read
                # callback before it is closed (all three back-ends)
                d = rng.choice(others)
                acts.append("s:%d" % d)
                both = "w:%d:%d w:%d:%d" % ((c, rng.randrange(1, 9), d, rng.randrange(1, 9)) if rng.random() < 0.5
                                          else (d, rng.randrange(1, 9), c, rng.randrange(1, 9)))
                ops[pre_idx] += " " + both
                cross = True
            elif r < 0.35 and kinds[c] != "pipe":
                acts.append("s:%d" % c)
            elif r < 0.6 and later:
                d = rng.choice(later)
                acts.append("a:%d" % d)
                if kinds[d] != "pipe" and rng.random() < 0.4:     # added and closed in the same round
                    acts.append("s:%d" % d)
                    tag = "R"
            elif r < 0.7:
                acts.append("x")
            elif r < 0.8:
                acts.append("u")
            else:
                acts.append("a:%d" % rng.randrange(nd))
            ops.append("on by %d %d %s" % (c, rng.choice([1, 2, 3, 5, 10, 30]), " ".join(acts)))
        if rng.random() < 0.25:
            a = "a:%d" % rng.choice(later) if later and rng.random() < 0.7 else rng.choice(["u", "x"])
            ops.append("on cl %d %s" % (c, a))
    if later and rng.random() < 0.35:       # hand-over through the wake callback, possibly closed at once
        d = rng.choice(later)
        shut = kinds[d] != "pipe" and rng.random() < 0.5
        if shut:
            tag = "R"
        ops.append("on wk 0 a:%d%s" % (d, " s:%d" % d if shut else ""))
        ops.append("on idle 0 u")
    nidle = rng.choice([1, 2, 4, 8])
    for k in range(nidle):
        acts = [a for a in rand_peer_batch(rng, nd) if a != "u"]
        if rng.random() < 0.1:
            acts.append("X")
        ops.append("on idle %d %s" % (k, " ".join(acts)))
    if cross:
        # an exit requested from a callback of the same round ends the run before the flagged context is
        # processed: closed or cleared then legitimately depends on the scan order. Such scripts leave
        # by the exit the harness requests while the loop sleeps.
        ops = [" ".join("u" if (w in ("x", "X") and i > 2) else w for i, w in enumerate(o.split()))
               if o.startswith("on ") else o for o in ops]
    return ops + tail(tag)


def rand_act(rng, nd):
    d = rng.randrange(nd)
    return rng.choice(["w:%d:%d" % (d, rng.choice([1, 2, 5, 33, 300])), "w:%d:%d" % (d, rng.randrange(1, 9)),
                       "h:%d" % d, "p:%d" % d, "a:%d" % d, "a:%d" % d, "s:%d" % d, "u", "x", "X"])


def gen_general(ctx, rng, nd_max):
    """anything goes: actions of every kind inside every callback, partial reads, small
    hints (capacity rejections, truncated epoll batches) — model == implementation only"""
    nd = rng.randrange(1, nd_max + 1)
    kinds = [rng.choice(KINDS) for _ in range(nd)]
    hints = rng.choice([0, 1, 1, 2, 4, nd, 16])
    ops = head(hints, rng.randrange(2), kinds, rng.random() < 0.5)
    for d in range(nd):
        if rng.random() < 0.3:
            ops.append("rm %d %d" % (d, rng.choice([1, 1, 2, 3, 8, 300])))
    pre = ["a:%d" % d for d in range(nd) if rng.random() < 0.7]
    rng.shuffle(pre)
    for _ in range(rng.choice([0, 0, 1, 2, 4])):
        pre.insert(rng.randrange(len(pre) + 1), rand_act(rng, nd))
    ops.append("pre " + " ".join(pre))
    for _ in range(rng.choice([0, 1, 2, 4, 8, 12])):
        acts = " ".join(rand_act(rng, nd) for _ in range(rng.choice([1, 1, 2, 3])))
        r = rng.random()
        if r < 0.5:
            ops.append("on by %d %d %s" % (rng.randrange(nd), rng.choice([1, 1, 2, 3, 5, 8, 20]), acts))
        elif r < 0.7:
            ops.append("on cl %d %s" % (rng.randrange(nd), acts))
        else:
            ops.append("on wk %d %s" % (rng.choice([0, 0, 1, 2]), acts))
    for k in range(rng.choice([1, 2, 3, 6, 10])):
        acts = [rand_act(rng, nd) for _ in range(rng.choice([1, 2, 3, 4]))]
        acts = [a for a in acts if a[0] not in "ax"] or ["u"]
        ops.append("on idle %d %s" % (k, " ".join(acts)))
    return ops + tail("-")


def gen_malformed(ctx, rng):
    cases = []
    fixed = [
        ["cfg x 0", "fd pipe", "pre a:0", "run poll", "agree"],
        ["cfg 2 0", "fd fifo", "fd pipe", "pre a:1", "pre a:0 w:0:0", "pre a:0 w:0:1", "run select", "agree -"],
        ["agree", "run poll", "run kqueue", "cfg 1 1", "run epoll", "agree"],
        ["cfg 1 0", "fd sock", "rm 0 0", "rm 1 all", "rm 0 2", "on by 0 0 x", "on by 1 1 x", "on cl 3 u",
         "on wk z u", "on idle 64 u", "on idle 1 q", "pre a:0 w:0:5", "run epoll", "run poll", "agree"],
        ["cfg 0 1"] + ["fd pipe"] * 17 + ["pre " + " ".join("a:%d" % d for d in range(16))] + tail("-"),
        # double add, add of a shut-down context, shutdown of a pipe context (flag only)
        head(4, 0, []) + ["fd pipe", "fd sock", "pre a:0 a:0 s:1 a:1 s:0", "on idle 0 w:0:3 w:1:3"] + tail("-"),
        # write after own shutdown (EPIPE / reset), close after half-close
        head(4, 0, []) + ["fd sock", "fd tcp", "pre a:0 a:1", "on idle 0 w:0:2 w:1:2", "on by 0 1 s:0", "on by 1 1 s:1",
         "on cl 0 w:0:5 h:0 p:0", "on cl 1 w:1:5 w:1:5 h:1 p:1"] + tail("-"),
        head(4, 0, []) + ["fd tcp", "fd sock", "pre a:0 a:1 s:0 s:1 w:0:3 w:1:3 w:0:3", "on idle 0 h:0 h:1 p:0 p:1"] + tail("-"),
        # exit requested before the run, wake-ups before the run
        head(4, 0, []) + ["fd pipe", "pre a:0 u u x w:0:4"] + tail("-"),
        head(4, 0, []) + ["fd pipe", "pre X a:0 w:0:4"] + tail("-"),
        # no context at all
        head(4, 1, []) + tail("-"),
    ]
    cases += fixed
    for _ in range(30 if ctx.quick else 300):
        nd = rng.randrange(1, 4)
        ops = head(rng.choice([0, 1, 2]), rng.randrange(2), [rng.choice(KINDS) for _ in range(nd)])
        pool = ["pre a:9", "pre w:0", "pre w:0:x", "on by 0", "on by 0 1 a:%d" % nd, "rm 0 all", "rm 0 1",
                "pre a:0", "pre a:0 w:0:2", "on idle 0 w:0:2 p:0", "on idle 1 s:0 u", "on wk 0 x", "fd pipe",
                "on cl 0 a:0 a:1", "pre s:0", "on idle 0 x", "on idle 3 X", "bogus", "run", "agree"]
        for _ in range(rng.randrange(1, 8)):
            ops.append(rng.choice(pool))
        cases.append(ops + tail("-"))
    return cases


def gen_cases(ctx):
    rng = ctx.rng
    q = ctx.quick
    cases = gen_exhaustive(ctx)
    ndm = 8 if q else 16
    for _ in range(150 if q else 2000):
        cases.append(gen_class_p(ctx, rng, ndm))
    for _ in range(300 if q else 4000):
        cases.append(gen_class_q(ctx, rng, ndm))
    for _ in range(400 if q else 6000):
        cases.append(gen_general(ctx, rng, ndm))
    for _ in range(150 if q else 2000):
        cases.append(gen_fd_reuse(ctx, rng, True))
    cases += gen_malformed(ctx, rng)
    return cases


# ---------------------------------------------------------------------------
# property-level oracle on the implementation's own output
# ---------------------------------------------------------------------------

def lifecycle_violation(trace, level=True):
    """life-cycle clauses checked directly on one implementation trace"""
    toks = trace.split()
    added, closed, cleared = set(), set(), set()
    exited = False
    for t in toks:
        if exited:
            return "event %s after cb_exit" % t
        if t.startswith("A+"):
            added.add(t[2:])
        elif t[0] == "R":
            c = t[1:].split(":")[0]
            if "!" in t:
                return "corrupt bytes offered: %s" % t
            if c not in added or c in closed or cleared:
                return "cb_read on unregistered/closed context: %s" % t
        elif t[0] == "C":
            c = t[1:]
            if c in closed:
                return "cb_close twice on %s" % c
            if c not in added or cleared:
                return "cb_close on unregistered context %s" % c
            closed.add(c)
        elif t[0] == "X":
            c = t[1:]
            if c in cleared or c in closed or c not in added:
                return "cb_clear on %s (closed, cleared twice or never registered)" % c
            cleared.add(c)
        elif t == "E":
            exited = True
        elif t == "S!" and level:
            return "loop sleeps while a registered context has pending input"
        elif t == "W" and cleared:
            return "cb_wake after clear phase"
        elif t == "ERR":
            return "the wait call failed (EBADF): the loop gives up on its own"
        elif t.startswith("!") or t == "F":
            return "harness anomaly %s" % t
    if not exited:
        return "no cb_exit"
    if added - closed - cleared:
        return "registered context neither closed nor cleared: %s" % sorted(added - closed - cleared)
    return None


def judge(ops, out):
    k = 0
    runs = [o for o, l in zip(ops, out) if o.startswith("run ")]
    for o, l in zip(ops, out):
        if o.startswith("run ") and " ; " in l:
            # clause 2 holds unconditionally for the level-triggered back-ends; for epoll only
            # when the read callbacks drain and the batch is not truncated (classes P, Q)
            lvl = o != "run epoll" or ops[-1] in ("agree P", "agree Q", "agree R")
            v = lifecycle_violation(l.split(" ; ")[0], lvl)
            if v:
                return "%s: %s" % (o, v)
            if "!" in l.split(" ; ")[1]:
                return "%s: close/clear multiplicity %s" % (o, l.split(" ; ")[1])
        if o in ("agree Q", "agree P") and l == "differ":
            return "back-ends disagree on a script of class %s" % o[-1]
    return None


def outcome_correspondence(ctx, hcmd, dcmd, cases, label):
    """Tie at outcome level (see gen_fd_reuse, exact=False): for every `run <back-end>` line only the
    part after ` ; ` (bytes delivered per context, closed / cleared) and the `agree` verdict are
    compared with the model; the life-cycle / agreement oracle judges the implementation's own trace."""
    impl = vlib.run_cases(hcmd, cases)
    model, _ = vlib.split_model_spec(vlib.run_cases(dcmd, cases))

    def proj(ops, out):
        return [l.split(" ; ", 1)[-1] if o.startswith("run ") else l for o, l in zip(ops, out)]
    nbad_model, nbad_prop, first = 0, 0, None
    for ops, a, b in zip(cases, impl, model):
        msg = ("crash: " + a["crash"][:800]) if a["crash"] else judge(ops, a["out"])
        if msg:
            nbad_prop += 1
            if nbad_prop <= 2:
                def fails(o2):
                    r = vlib.run_one(hcmd, o2)
                    return bool(r["crash"] or judge(o2, r["out"]))
                small = vlib.ddmin(ops, fails, keep_prefix=1)
                r = vlib.run_one(hcmd, small)
                ctx.violation({"kind": "property-fails-on-implementation", "tie": label, "ops": small,
                               "what": ("crash: " + r["crash"][:800]) if r["crash"] else judge(small, r["out"]),
                               "implementation": r["out"], "broken_obligations": ctx.broken}, found_input=True)
        elif proj(ops, a["out"]) != proj(ops, b["out"]):
            nbad_model += 1
            first = first or {"ops": ops, "implementation": a["out"], "model": b["out"]}
    ctx.cov["evaluations"] += len(cases)
    ctx.cov["distinct_nontrivial"] += len({tuple(c) for c, a in zip(cases, impl) if nontrivial(c, a["out"])})
    ctx.cov["ties"][label] = {"cases": len(cases), "differ_model": nbad_model, "differ_spec": nbad_prop}
    if nbad_model:
        ctx.broken.append("%s: model and implementation outcomes differ on %d case(s)" % (label, nbad_model))
        ctx.model_diff = first


def nontrivial(ops, out):
    s = " ".join(out)
    return ("R" in s) and any(t[0] == "R" and not t.endswith(":0") and not t.endswith(":0e")
                              for l in out for t in l.split() if t) and (" C" in s or " X" in s)


def main(ctx):
    ctx.cov["trusted_base"] = TRUSTED
    ctx.assumptions += TRUSTED[2:]
    ctx.cov["rule"] = (
        "each case = one script run on the three real back-ends (select, poll, epoll) + outcome comparison; "
        "generators: bounded-exhaustive (all pairs of descriptor kinds x all pairs of outside batches from an "
        "11-element alphabet x in-callback reactions), random class-P scripts (externally driven, spec column), "
        "random class-Q scripts (callbacks add / shut own socket / wake / exit; agreement judged on the "
        "implementation), random general scripts (all actions in all callbacks, partial reads, hints 0..16, "
        "pool on/off), malformed stream, corpus; distinct = distinct op lists; non-trivial = some bytes offered "
        "to a read callback and some context closed or cleared")
    ctx.lean_obligations("drv_c13", PROOFS, GREP, leanchecker=["MgProof.C13.Props"])
    if not getattr(ctx, "driver_ok", False):
        return
    try:
        hcmd, dcmd = build(ctx)
    except vlib.BuildError as e:
        ctx.broken.append("harness-build: " + str(e)[:500])
        return
    cases = gen_cases(ctx)
    vlib.seq_correspondence(ctx, hcmd, dcmd, cases, nontrivial=nontrivial, keep_prefix=1, judge=judge)
    outcome_correspondence(ctx, hcmd, dcmd, [gen_fd_reuse(ctx, ctx.rng, False) for _ in range(150 if ctx.quick else 2000)],
                           "tieB_fd_number_reuse_outcomes")
    ctx.cov["exhaustive"] = True
    ctx.cov["explanation"] = ("exhaustive=true refers to the bounded script space described in rule; "
                              "the theorems are unbounded")


def replay(ctx, path):
    hcmd, dcmd = build(ctx)
    vlib.lake_build(["drv_c13"])
    return vlib.replay_file(ctx, path, hcmd, dcmd, judge=judge)
