"""C15 — socket contexts (bytes in order; closed, released, freed exactly once; never used
after release, never leaked) and the event-loop pipe (every pointer exactly once, per-writer
order).

Models: lean/MgModel/C15/Handle.lean (ownership life-cycle of socket_evloop_handle.c),
lean/MgModel/C15/Pipe.lean (socket_evloop_pipe.c under N writers / 1 reader);
theorems: lean/MgProof/C15/Props.lean.
Tie B: harness/c15/seq_socket.c — the real handle on the real select/poll/epoll loops with
real AF_UNIX / loopback TCP sockets, ownership oracle under ASan.
Tie C: harness/c15/conc_pipe.c — the real object code of socket_evloop_pipe.c / socket.c /
spinlock.c under the deterministic scheduler, the kernel pipe replaced by a modelled byte
FIFO with scripted partial writes / partial reads; the schedule is replayed on the Lean
model and the traces compared event for event."""
import importlib.util
import itertools
import json
import os
import re
import vlib


def _load_c04():
    p = os.path.join(vlib.VERIF, "checks", "C04", "check.py")
    spec = importlib.util.spec_from_file_location("check_C04_for_c15", p)
    mod = importlib.util.module_from_spec(spec)
    spec.loader.exec_module(mod)
    return mod

PROOFS = ["MgProof.C15.HandleLemmas", "MgProof.C15.HandleInv", "MgProof.C15.HandleSteps", "MgProof.C15.HandleLoop",
          "MgProof.C15.HandleSafety", "MgProof.C15.PipeLemmas", "MgProof.C15.Props"]
GREP = ["MgModel/C15", "MgProof/C15", "MgModel/Common", "Drv/C15.lean"]

PIPE_SRCS = ["muggle/c/net/socket_evloop_pipe.c", "muggle/c/net/socket.c", "muggle/c/net/socket_context.c",
             "muggle/c/event/event_context.c", "muggle/c/event/event_fd.c", "muggle/c/event/event.c",
             "muggle/c/sync/ref_cnt.c", "muggle/c/sync/spinlock.c", "muggle/c/base/thread.c",
             "muggle/c/os/sys.c"]

TRUSTED = [
    "Lean 4.33 kernel; axioms printed by the audit (subset of propext, Classical.choice, Quot.sound)",
    "tie B: harness/c15/seq_socket.c + lib/vlib.py comparison; Linux AF_UNIX / loopback TCP sockets, eventfd, "
    "select/poll/epoll as the kernel (the model's kernel: FIFO accept queue, per-connection byte queue + EOF); "
    "quiescence of the loop is detected by two park/resume barriers without callback activity",
    "tie C: harness/tsanshim (own __tsan_* runtime + deterministic scheduler), clang's TSan instrumentation as the "
    "source of 'every shared access'; the kernel pipe is replaced by the harness' byte FIFO (read/write/pipe/fcntl/"
    "close of event_fd.c and socket_evloop_pipe.c redirected), muggle_nsleep by a yield",
    "dispatch order inside one round and the back-end specific registration capacity are parameters of the model "
    "(theorems hold for every order); the back-end loops themselves are C13's subject",
    "the user's message callback drains its socket with reads of >= 1 byte (documented contract of the edge-"
    "triggered epoll back-end); worker threads follow the documented protocol (release only what they retained; the "
    "thread whose release returns 0 releases user data, closes and frees)",
    "event loop built with use_mem_pool = 0 (the growable memory pool is C06's subject); socket_utils.c (address "
    "handling) is outside the property",
    "pipe: pointers are non-NULL (NULL is the API's 'nothing to read'); no descriptor error other than EAGAIN; "
    "sequentially consistent values (the release/acquire fences are in the trace tie, their effect on payload "
    "visibility is not modelled)",
]


# --------------------------------------------------------------------------- builds
def build_seq(ctx):
    def pff(rel):
        return ["-Dclose=vh_close"] if rel.endswith("event/event_fd.c") else []
    exe = vlib.build_harness("C15", "seq_socket", ["harness/c15/seq_socket.c"], "ALL", per_file_flags=pff)
    return [exe]


def build_pipe(ctx):
    redir = ["-Dread=vp_read", "-Dwrite=vp_write", "-Dclose=vp_close", "-Dfcntl=vp_fcntl", "-Dpipe=vp_pipe"]

    def pff(rel):
        f = list(vlib.TSAN_FLAGS)
        if rel.endswith("event/event_fd.c") or rel.endswith("net/socket_evloop_pipe.c"):
            f += redir
        return f
    shim = "harness/tsanshim/vsched.c"
    exe = vlib.build_harness(
        "C15", "conc_pipe", ["harness/c15/conc_pipe.c", shim], PIPE_SRCS, sanitize=False, opt="-O0",
        per_file_flags=pff,
        harness_flags=lambda rel: [] if rel.endswith("vsched.c") else vlib.TSAN_FLAGS,
        ldflags=["-Wl," + ",".join("--wrap=" + w for w in vlib.VS_WRAP)])
    return [exe]


# --------------------------------------------------------------------------- part 1: scenarios
class Sim:
    """Light simulation used only to keep random scenarios inside the envelope in which the
    three back-ends and the kernel give one deterministic per-context result (the Lean model
    decides what that result is)."""

    def __init__(self, rng, be, hints, fam, rd):
        self.rng = rng
        self.be, self.hints, self.fam, self.rd = be, hints, fam, rd
        self.cap = hints if be == 2 else None
        self.ops = ["new %d %d %s %d" % (be, hints, fam, rd)]
        self.n = 1
        self.reg = {0}
        self.ids = {}            # id -> dict
        self.pending = []        # registration attempts since the last sync (ids)
        self.fail_conn_in_batch = False
        self.shut_in_batch = False
        self.parked = False
        self.exited = False
        self.batch_bytes = {}
        self.l_held = 0
        self.hooks = []          # armed: dict(cb, id, act, t)
        self.dirty = set()       # ids with an unsynced act that makes the loop call back on them

    def emit(self, s):
        self.ops.append(s)

    def fire(self, cb, c):
        """the hosted worker acts of callback cb on c happen now (Sim's view of them)"""
        mine = [h for h in self.hooks if h["cb"] == cb and h["id"] == c]
        self.hooks = [h for h in self.hooks if not (h["cb"] == cb and h["id"] == c)]
        for h in mine:
            t = h["t"]
            d = self.ids.get(t)
            if d is None:
                continue
            if h["act"] == "wrel":
                if d["held"] > 0:
                    d["held"] -= 1
                    if d["held"] == 0 and t not in self.reg and t not in self.pending:
                        d["alive"] = False
            elif d["alive"] and (t == c or d["held"] > 0):
                d["held"] += 1

    def turn(self, c):
        d = self.ids[c]
        closing = (not d["copen"]) or d["shut"]
        if closing or self.batch_bytes.get(c, (0, 0))[0] > 0:
            self.fire("msg", c)
        if closing:
            self.fire("close", c)
            self.reg.discard(c)
            d["alive"] = d["held"] > 0
            d["gone"] = True

    def sync(self):
        self.emit("sync")
        if self.exited:
            return
        for c in sorted(self.reg):
            if c:
                self.turn(c)
        for c in self.pending:
            d = self.ids[c]
            if d["kind"] == "conn" and not d["alloc"]:
                d["alive"] = False
                d["gone"] = True
            elif self.cap is not None and len(self.reg) >= self.cap:
                d["alive"] = d["kind"] == "hand" and d["held"] > 0
                d["gone"] = True
            else:
                self.reg.add(c)
                d["alive"] = True
                self.turn(c)
        self.pending = []
        self.fail_conn_in_batch = False
        self.shut_in_batch = False
        self.batch_bytes = {}
        self.dirty = set()

    def hook_race(self, t):
        """free-running loop: would a worker act on t now race with a hosted act that may be firing,
        or with the close callback of t (which reports the count it sees)?"""
        if self.parked:
            return False
        d = self.ids.get(t)
        closing = d is not None and t in self.dirty and ((not d["copen"]) or d["shut"])
        return closing or any(h["t"] == t and h["id"] in self.dirty for h in self.hooks)

    def room(self):
        return None if self.cap is None else self.cap - len(self.reg) - len(self.pending)

    def registration(self, kind, alloc=True):
        """conn / hand, keeping capacity contention and accept failures out of batches"""
        if self.exited:
            return
        will_fail_alloc = kind == "conn" and not alloc
        r = self.room()
        lone = False
        if self.fail_conn_in_batch and kind == "conn":
            self.sync()
            r = self.room()
        if r is not None and r <= 0:
            if self.pending or self.ops[-1] != "sync":
                self.sync()
            r = self.room()
            lone = r <= 0
        c = self.n
        self.n += 1
        if kind == "conn":
            self.emit("conn %d" % (1 if alloc else 0))
            self.ids[c] = dict(kind="conn", alloc=alloc, copen=True, alive=False, held=0, shut=False, gone=False)
        else:
            self.emit("hand")
            self.ids[c] = dict(kind="hand", alloc=True, copen=True, alive=True, held=0, shut=False, gone=False)
        self.pending.append(c)
        if will_fail_alloc:
            self.fail_conn_in_batch = True
        if lone:
            self.sync()
        return c

    def step(self):
        rng = self.rng
        ids = list(self.ids)
        r = rng.random()
        if r < 0.16:
            self.registration("conn", alloc=rng.random() > 0.12)
        elif r < 0.24:
            self.registration("hand")
        elif r < 0.50 and ids:
            c = rng.choice(ids)
            d = self.ids[c]
            if d["copen"] and not d["gone"] and not d["shut"] and (d["alloc"] or self.parked):
                big = self.rd >= 512 and rng.random() < 0.1
                n = rng.choice([0, 1, 2, 7, 8, 9, 63, 64, 65, 200, 1000]) if not big else rng.choice([4096, 20000])
                frag = rng.choice([1, 2, 3, 7, 64, 1000, 100000])
                frag = max(frag, (n + 99) // 100)          # at most 100 writes per send
                nb, nw = self.batch_bytes.get(c, (0, 0))
                if nb + n <= 40000 and nw + (n + frag - 1) // frag <= 150:
                    self.batch_bytes[c] = (nb + n, nw + (n + frag - 1) // frag)
                    if n > 0:
                        self.dirty.add(c)
                    self.emit("send %d %d %d" % (c, n, frag))
        elif r < 0.62 and ids:
            c = rng.choice(ids)
            if self.ids[c]["copen"]:
                self.ids[c]["copen"] = False
                self.dirty.add(c)
                self.emit("pclose %d" % c)
        elif r < 0.72 and ids:
            c = rng.choice(ids + [0])
            if c == 0:
                can = (not self.exited) and (self.l_held > 0 or self.parked)
                can = can or (self.exited and self.l_held > 0)
            else:
                d = self.ids[c]
                can = d["alive"] and (d["held"] > 0 or (self.parked and not self.exited and not self.pending_has(c)))
            if c and self.hook_race(c):
                self.sync()
                can = self.ids[c]["alive"] and self.ids[c]["held"] > 0
            if can or rng.random() < 0.05:
                self.emit("retain %d" % c)
                if can:
                    if c:
                        self.ids[c]["held"] += 1
                    else:
                        self.l_held += 1
        elif r < 0.80 and ids:
            held = [c for c in ids if self.ids[c]["held"] > 0] + ([0] if self.l_held else [])
            if held:
                c = rng.choice(held)
                if c and self.hook_race(c):
                    self.sync()
                    if self.ids[c]["held"] == 0:
                        return
                if c:
                    d = self.ids[c]
                    d["held"] -= 1
                    if d["held"] == 0 and c not in self.reg and c not in self.pending:
                        d["alive"] = False
                else:
                    self.l_held -= 1
                self.emit("wrel %d" % c)
            elif rng.random() < 0.1:
                c = rng.choice(ids)
                if self.hook_race(c):
                    self.sync()
                self.emit("wrel %d" % c)
        elif r < 0.85 and ids:
            c = rng.choice(ids)
            d = self.ids[c]
            can = d["alive"] and (d["held"] > 0 or (self.parked and not self.pending_has(c)))
            # outside the envelope (back-ends legitimately differ, C13): shutting down a context
            # that still has unread bytes (select closes it without the read callback), or one
            # that is still in the hand-over queue
            msg_hook = any(h["cb"] == "msg" and h["id"] == c for h in self.hooks)
            if can and not d["shut"] and c not in self.pending and c not in self.batch_bytes and not msg_hook \
                    and not self.hook_race(c):
                d["shut"] = True
                self.shut_in_batch = True
                self.dirty.add(c)
                self.emit("shut %d" % c)
        elif r < 0.89 and ids and not self.exited:
            c = rng.choice(ids)
            d = self.ids[c]
            cb = rng.choice(["msg", "close", "close"])
            t = c     # hosted acts on another context would make that context's observations depend on
                      # the back-end's order inside one round; those are enumerated in gen_incb instead
            act = rng.choice(["wrel", "wrel", "retain"])
            if not d["gone"] and not (cb == "msg" and d["shut"]) and len(self.hooks) < 100:
                if not self.parked and c in self.dirty:
                    self.sync()
                if not self.ids[c]["gone"]:
                    self.hooks.append(dict(cb=cb, id=c, act=act, t=t))
                    self.emit("incb %s %d %s %d" % (cb, c, act, t))
        elif r < 0.93 and not self.exited:
            if self.parked:
                self.emit("unpark")
                self.parked = False
                self.sync()
            else:
                self.sync()
                self.emit("park")
                self.parked = True
        else:
            self.sync()

    def pending_has(self, c):
        # a connection that is not accepted yet has no context a worker could touch
        return c in self.pending and self.ids[c]["kind"] == "conn"

    def finish(self):
        rng = self.rng
        if not self.exited:
            if not self.parked or self.shut_in_batch or rng.random() < 0.5:
                self.sync()
            self.emit("exit")
            self.exited = True
        for c, d in self.ids.items():
            for _ in range(d["held"]):
                self.emit("wrel %d" % c)
        for _ in range(self.l_held):
            self.emit("wrel 0")
        self.emit("sync")
        self.emit("end")
        return self.ops


def gen_random(ctx, n_cases, max_conn):
    rng = ctx.rng
    cases = []
    for i in range(n_cases):
        be = 1 + i % 3
        # loopback TCP for a bounded number of cases (every closed connection holds an
        # ephemeral port in TIME_WAIT for a minute), AF_UNIX for the rest
        fam = "t" if rng.random() < min(0.2, 1200.0 / max(1, n_cases)) else "u"
        hints = rng.choice([2, 3, 4, 8, 40]) if be == 2 else rng.choice([1, 8, 64])
        rd = rng.choice([1, 3, 7, 64, 4096])
        s = Sim(rng, be, hints, fam, rd)
        mode = rng.random()
        nsteps = rng.choice([6, 15, 40, 90])
        if mode < 0.3:
            s.emit("park")
            s.parked = True
        for k in range(nsteps):
            if s.n >= max_conn:
                break
            s.step()
            if mode >= 0.6 and s.ops[-1] != "sync":      # sequential histories: every act alone
                s.sync()
            if rng.random() < 0.01 and not s.exited:     # exit at a random point
                break
        cases.append(s.finish())
    return cases


ALPHA = ["conn 1", "conn 0", "hand", "send 1 5 2", "send 2 300 7", "pclose 1", "pclose 2", "retain 1", "retain 2",
         "wrel 1", "shut 1", "shut 2", "park", "unpark",
         "incb close 1 wrel 1", "incb close 1 retain 1", "incb msg 1 wrel 1", "incb msg 1 retain 1"]

# the histories of the class "a worker acts while the loop is inside a callback", completely,
# around one retained connection: every choice of (callback, hosted act) x (how the turn is triggered)
def gen_incb(configs):
    cases = []
    tail = ["exit", "wrel 1", "wrel 1", "wrel 1", "wrel 2", "wrel 2", "sync", "end"]
    for be, hints, fam, rd in configs:
        for nret in (0, 1, 2):
            for hooks in itertools.product(["", "incb close 1 wrel 1", "incb close 1 retain 1", "incb msg 1 wrel 1",
                                            "incb msg 1 retain 1", "incb close 1 wrel 2", "incb msg 2 wrel 1"], repeat=2):
                for trig in (["send 1 9 2", "sync", "pclose 1", "sync"], ["send 1 9 2", "pclose 1", "sync"],
                             ["shut 1", "sync"], ["pclose 1", "sync", "exit"]):
                    if trig[0].startswith("shut") and any(h.startswith("incb msg") for h in hooks):
                        continue      # select closes a shut-down context without the read callback (C13)
                    for parked in (False, True):
                        ops = ["new %d %d %s %d" % (be, hints, fam, rd), "conn 1", "hand", "sync", "park"]
                        ops += ["retain 1"] * nret + ["retain 2"]
                        ops += [h for h in hooks if h]
                        if not parked:
                            ops += ["unpark"]
                        ops += ["sync"] + trig
                        cases.append(ops + tail)
    return cases


def gen_exhaustive(ctx, length, configs):
    """every sequence of `length` acts over ALPHA, each act followed by `sync` (so every
    history is deterministic whatever the back-end), then exit and the release of whatever
    the workers still hold; acts that are not legal at their point answer bad-op on both sides"""
    cases = []
    tail = ["exit", "wrel 1", "wrel 1", "wrel 1", "wrel 2", "wrel 2", "wrel 2", "sync", "end"]
    for be, hints, fam, rd in configs:
        for seq in itertools.product(ALPHA, repeat=length):
            ops = ["new %d %d %s %d" % (be, hints, fam, rd)]
            for a in seq:
                ops += [a, "sync"]
            cases.append(ops + tail)
    return cases


MALFORMED = [
    ["conn 1", "sync"], ["end"],
    ["new 3 8 u 7", "send 9 5 1", "pclose 9", "pclose 0", "retain 5", "wrel 0", "shut 0", "unpark", "park", "park",
     "sync", "exit", "exit", "conn 1", "hand", "park", "sync", "end"],
    ["new 2 1 u 7", "conn 1", "sync", "conn 0", "sync", "hand", "sync", "send 1 3 1", "send 2 3 1", "send 3 3 1",
     "sync", "exit", "end"],
    ["new 1 8 t 1", "conn 1", "send 1 10 1", "pclose 1", "pclose 1", "send 1 1 1", "sync", "retain 1", "exit", "sync",
     "end"],
]


def judge_seq(ops, out):
    # every client connection must be accepted and announced: once the running loop has been brought
    # to quiescence after a connect, a context for that connection exists (or existed)
    pending, seen, exited = {}, set(), False
    for o, l in zip(ops, out):
        if o == "exit":
            exited = True
        elif o == "conn 1" and re.match(r"c\d+$", l) and not exited:
            pending[int(l[1:])] = True
        elif o == "sync" and not exited and "TIMEOUT" not in l:
            for m in re.finditer(r"c(\d+):([A-Za-z-])", l):
                if m.group(2) != "-":
                    seen.add(int(m.group(1)))
            miss = sorted(c for c in pending if c not in seen)
            if miss:
                return ("connection(s) %s completed before the loop went quiescent but were never accepted: no "
                        "context, no cb_conn, their bytes never reach cb_msg" % miss[:8])
            pending = {}
    for l in out:
        # life-cycle of an announced context: whoever was announced through cb_conn / cb_add_ctx is
        # released exactly once before its memory is freed (closed at most once: a context still
        # registered when the loop exits is cleared, i.e. released without cb_close)
        for m in re.finditer(r"c(\d+):F r\S+ k(\d+) a(\d+) x(\d+) l(\d+)", l):
            c, k, a, x, rel = (int(g) for g in m.groups())
            if (k or a) and (x > 1 or rel != 1):
                return ("context c%d was announced (cb_conn=%d cb_add_ctx=%d) and then freed with cb_close=%d "
                        "cb_release=%d" % (c, k, a, x, rel))
        if "TIMEOUT" in l:
            return "the event loop did not reach quiescence (hang)"
        if l.startswith("end "):
            m = re.match(r"end exited=\d leaks=(\S+) multi=(\S+) bad=(\S+) lost=(\S+) fdl=(\S+) unowned=(\S+) wild=(\d+)", l)
            if not m:
                return "malformed end line: " + l
            if m.group(1) != "-":
                return "contexts leaked (never closed/released/freed, no owner left): " + m.group(1)
            if m.group(2) != "-":
                return "a callback / close / free happened more than once for: " + m.group(2)
            if m.group(3) != "-":
                return "bytes reached cb_msg out of order or duplicated for: " + m.group(3)
            if m.group(4) != "-":
                return "bytes sent before the peer closed never reached cb_msg for: " + m.group(4)
            if m.group(5) != "-":
                return "server-side descriptor never closed although its context is gone / was never created: " + m.group(5)
            if m.group(6) != "-":
                return ("a user callback ran on a context while the loop's own reference was not counted "
                        "(count seen inside the callback < 1 + workers' retains): " + m.group(6))
            if m.group(7) != "0":
                return "free or callback on a context that is not live / accept identity mismatch / timeout"
    return None


def nontrivial_seq(ops, out):
    return any(" x1 " in l for l in out) and any(l.startswith("end exited=1") for l in out)


def signature_seq(ops, a):
    out = a["out"]
    end = next((l for l in out if l.startswith("end ")), "")
    if re.search(r"leaks=\d", end) and any(o == "hand" for o in ops) and ops[0].startswith("new 2 ") \
            and " multi=- bad=- lost=- fdl=- unowned=- wild=0" in end and not a["crash"]:
        return "on-wake-add-failure-leak"
    return None


# --------------------------------------------------------------------------- part 2: pipe
def gen_pipe_runs(ctx):
    rng = ctx.rng
    runs = []
    per = 400 if ctx.quick else 12000
    for i in range(per):
        nw = rng.choice([1, 2, 2, 3, 4])
        tot = rng.randint(1, min(10, 31))
        msgs = list(range(1, tot + 1))
        rng.shuffle(msgs)
        progs = [[] for _ in range(nw)]
        for m in msgs:
            progs[rng.randrange(nw)].append(m)
        cap = rng.choice([1, 3, 7, 8, 9, 16, 64, 4096])
        wch = [rng.choice([0, 1, 2, 3, 5, 8]) for _ in range(rng.choice([0, 1, 3, 5]))]
        rch = [rng.choice([0, 1, 2, 3, 5, 8]) for _ in range(rng.choice([0, 1, 3, 5]))]
        conf = "conf pipe %d ; %s ; %s ; %s" % (
            cap, " ".join(map(str, wch)), " ".join(map(str, rch)),
            " ; ".join(" ".join(map(str, p)) for p in progs))
        conf = re.sub(r" +", " ", conf)
        s = rng.randrange(1, 1 << 30)
        sched = ("random %d" % s) if i % 3 else ("pct %d %d" % (s, rng.choice([1, 2, 3])))
        runs.append({"conf": [conf], "sched": sched, "progs": progs})
    return runs


def judge_pipe(run, out):
    end = next((l for l in out if l.startswith("end ")), None)
    oc = next((l for l in out if l.startswith("outcome ")), None)
    if end is None or oc is None:
        return "no end/outcome line"
    if not end.startswith("end ok"):
        return "run did not complete: " + end
    d = oc.split("delivered=")[1].strip()
    got = [] if d == "-" else d.split(",")
    if any(g.startswith("torn") for g in got):
        return "a pointer was assembled from bytes of different writes: " + oc
    got = [int(g) for g in got]
    progs = run["progs"]
    allm = sorted(m for p in progs for m in p)
    if sorted(got) != allm:
        return "pointers read %s are not exactly the pointers written %s (lost or duplicated)" % (got, allm)
    for w, p in enumerate(progs):
        if [g for g in got if g in p] != p:
            return "writer %d's pointers were read out of order: %s vs %s" % (w, [g for g in got if g in p], p)
    # the read order is the order of the critical sections (commit order)
    wrote = [int(l.split()[-1]) for l in out if re.match(r"T\d+ note wrote ", l)]
    if wrote != got:
        return "read order %s differs from the order of the locked writes %s" % (got, wrote)
    return None


EXPECTED_SITES = {
    ("muggle/c/net/socket_evloop_pipe.c", "muggle_socket_evloop_pipe_write"): [("__atomic_thread_fence", "3")],
    ("muggle/c/net/socket_evloop_pipe.c", "muggle_socket_evloop_pipe_read"): [("__atomic_thread_fence", "2")],
    ("muggle/c/sync/spinlock.c", "muggle_spinlock_lock"): [("__atomic_test_and_set", "2")],
    ("muggle/c/sync/spinlock.c", "muggle_spinlock_unlock"): [("__atomic_clear", "3")],
}


def static_inventory(ctx):
    inv = {}
    for (f, fn), exp in EXPECTED_SITES.items():
        try:
            sites = vlib.atomic_sites(f, fn)
        except vlib.BuildError as e:
            ctx.broken.append("tieA: " + str(e)[:200])
            continue
        got = [(n, a[-1]) for n, a in (sites or [])]
        inv["%s:%s" % (f, fn)] = got
        if got != exp:
            ctx.broken.append("tieA: atomic sites of %s:%s are %s, the model assumes %s" % (f, fn, got, exp))
    ctx.cov["ties"]["tieA_atomic_sites"] = inv


# --------------------------------------------------------------------------- main
def seq_cases(ctx):
    q = ctx.quick
    cases = [list(c) for c in MALFORMED]
    if q:
        cfgs = [(2, 2, "u", 3), (3, 8, "u", 64)]
        cases += gen_exhaustive(ctx, 2, cfgs + [(1, 8, "t", 1)])
        cases += gen_exhaustive(ctx, 3, [(2, 2, "u", 3)])[::7]
        cases += gen_incb([(1, 8, "u", 3), (2, 8, "u", 64), (3, 8, "u", 1)])[::2]
        cases += gen_random(ctx, 1800, 12)
        cases += gen_random(ctx, 300, 33)
        cases += gen_burst(ctx, 45)
    else:
        cfgs = [(1, 8, "u", 1), (2, 2, "u", 3), (2, 3, "t", 7), (3, 8, "u", 64), (3, 1, "t", 4096)]
        cases += gen_exhaustive(ctx, 2, cfgs)
        cases += gen_exhaustive(ctx, 3, [(1, 8, "u", 7), (2, 2, "u", 3), (3, 8, "u", 64)])
        cases += gen_incb([(1, 8, "u", 3), (2, 8, "u", 64), (3, 8, "u", 1), (2, 3, "t", 7), (3, 8, "t", 4096)])
        cases += gen_random(ctx, 60000, 12)
        cases += gen_random(ctx, 12000, 33)
        cases += gen_burst(ctx, 1500)
    return cases


def gen_burst(ctx, n_cases):
    """connection bursts: 17..60 clients connect while the loop is parked (or between two syncs of a
    running loop), so that one read event of the listener finds a long backlog — every one of them
    must be accepted, announced and served (edge-triggered epoll gives no second event for the
    listener); then ordinary traffic on some of them."""
    rng = ctx.rng
    cases = []
    for i in range(n_cases):
        be = 1 + i % 3
        k = rng.choice([17, 18, 24, 33, 48, 60])
        hints = 128 if be == 2 else rng.choice([8, 64])
        s = Sim(rng, be, hints, "u", rng.choice([3, 64, 4096]))
        if rng.random() < 0.7:
            s.emit("park")
            s.parked = True
        for _ in range(k):
            s.registration("conn", alloc=True)
        s.sync()
        for _ in range(rng.choice([0, 5, 20])):
            s.step()
        cases.append(s.finish())
    return cases


def main(ctx):
    ctx.cov["trusted_base"] = TRUSTED
    ctx.assumptions += TRUSTED[3:]
    ctx.cov["rule"] = (
        "part 1 (tie B): every sequence of 2..3 acts over {connect ok/alloc-fail, hand-over, send, peer close, "
        "retain, worker release, shutdown, park, unpark, worker release / retain hosted INSIDE cb_msg / cb_close} each followed by a quiescing sync, on select / poll "
        "(capacity 2) / epoll, AF_UNIX and loopback TCP, then exit; seeded random scenarios of up to 32 "
        "connections and bursts of 17..60 simultaneous connections (one listener event must drain the whole backlog) (payload sizes 0..20000, write fragmentation 1..100000, read chunk 1..4096, close order, "
        "retains released later, accept-time allocation failure, registration failure at poll capacity at accept "
        "time and at hand-over time, batches issued while the loop is parked inside cb_wake or running, contexts "
        "queued at exit, worker acts hosted inside callbacks, exit at a random point); every (hosted act x hosted act x trigger x parked/free x 0..2 retains) history around one retained connection; the reference count seen inside every cb_conn / cb_add_ctx / cb_close / cb_release is compared with the model; malformed stream; corpus. part 2 (tie C): seeded random/PCT "
        "schedules of 1..4 writers + reader over the real pipe code, FIFO capacity 1..4096, scripted partial "
        "writes/reads. distinct = distinct op lists / distinct implementation traces; non-trivial (part 1) = at "
        "least one context closed by the loop and the loop exited")
    ctx.lean_obligations("drv_c15", PROOFS, GREP, leanchecker=["MgProof.C15.Props"])
    if not getattr(ctx, "driver_ok", False):
        return
    dcmd = ctx.driver_cmd("drv_c15")
    try:
        hseq = build_seq(ctx)
        hpipe = build_pipe(ctx)
    except vlib.BuildError as e:
        ctx.broken.append("harness-build: " + str(e)[:800])
        return
    cases = seq_cases(ctx)
    vlib.seq_correspondence(ctx, hseq, dcmd, cases, nontrivial=nontrivial_seq, keep_prefix=1,
                            signature_of=signature_seq, judge=judge_seq, label="tieB_socket", timeout=900)
    static_inventory(ctx)
    runs = gen_pipe_runs(ctx)
    vlib.conc_correspondence(ctx, hpipe, dcmd, runs, judge=judge_pipe, label="tieC_pipe")
    ctx_refcount(ctx)
    ctx.cov["explanation"] = ("the bounded act sequences of part 1 are enumerated completely; the theorems are "
                              "unbounded (every history, every dispatch order, every schedule, every split)")


def ctx_refcount(ctx):
    """muggle_socket_ctx_ref_retain / _release are macros over muggle_ref_cnt_*: 'released and freed
    exactly once, only when the count reaches zero' rests on that counter being a sequential counter under
    every interleaving of the loop thread and the workers. Part 1 drives it with real threads (no control
    over the few-instruction windows), so the counter is also run under the deterministic scheduler here,
    with the harness, model (MgModel.C04.RefCnt) and oracle of C04."""
    C04 = _load_c04()
    ok, out = vlib.lake_build(["drv_c04"])
    if not ok:
        ctx.broken.append("drv_c04 does not build: " + out[-400:])
        return
    try:
        h04, d04 = C04.build(ctx)
    except vlib.BuildError as e:
        ctx.broken.append("harness-build (ref_cnt under the scheduler): " + str(e)[:400])
        return
    rng = ctx.rng
    progs = ["r", "d", "rd", "dr", "dd", "rr", "rdd", "ddr", "drd", "rrd", "ddd"]
    runs = []
    for i in range(300 if ctx.quick else 6000):
        nthr = rng.choice([2, 2, 3, 4])            # the loop thread + workers holding retains
        init = rng.choice([1, 2, 2, 3])
        ps = [rng.choice(progs) for _ in range(nthr)]
        s = rng.randrange(1, 1 << 30)
        runs.append({"conf": ["conf refcnt %d %s" % (init, " ".join(ps))],
                     "sched": ("random %d" % s) if i % 3 else ("pct %d 2" % s),
                     "kind": "refcnt", "init": init, "progs": ps})
    vlib.conc_correspondence(ctx, h04, d04, runs, judge=C04.judge, label="tieC_ctx_refcount")


def replay(ctx, path):
    vlib.lake_build(["drv_c15"])
    dcmd = ctx.driver_cmd("drv_c15")
    r = json.load(open(path))
    ops = r.get("ops") or (r.get("model_difference") or {}).get("ops") or []
    if ops and ops[0].startswith("conf refcnt"):
        C04 = _load_c04()
        vlib.lake_build(["drv_c04"])
        h04, d04 = C04.build(ctx)
        a, ops = vlib.run_replay_conc(h04, ops)
        print("\n".join(a["out"]))
        t = ops[0].split()
        msg = "crash: " + a["crash"][:500] if a["crash"] else C04.judge(
            {"kind": "refcnt", "init": int(t[2]), "progs": t[3:], "conf": [ops[0]]}, a["out"])
        if msg:
            print("VIOLATION property=C15 replay=%s" % path)
            print(msg)
            return 1
        print("replay passes on the current tree")
        return 0
    if ops and ops[0].startswith("conf pipe"):
        hpipe = build_pipe(ctx)
        a = vlib.run_one(hpipe, ops)
        b = vlib.run_one(dcmd, ops)
        print("\n".join(a["out"]))
        progs = [[int(x) for x in seg.split()] for seg in ops[0].split(";")[3:]]
        msg = "crash: " + a["crash"][:500] if a["crash"] else judge_pipe({"progs": progs}, a["out"])
        if msg:
            print("VIOLATION property=C15 replay=%s" % path)
            print(msg)
            return 1
        if [l for l in a["out"] if not l.startswith("#")] != [l for l in b["out"] if not l.startswith("#")]:
            print("model and implementation traces differ")
            return 1
        print("replay passes on the current tree")
        return 0
    hseq = build_seq(ctx)
    return vlib.replay_file(ctx, path, hseq, dcmd, judge=judge_seq, repeat=25)
