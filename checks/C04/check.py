"""C04 — spinlock / synclock / mutex exclusion + HB, call_once, ref_cnt.
Models: lean/MgModel/C04/{Locks,Once,RefCnt}.lean; theorems: lean/MgProof/C04/Props.lean;
tie C: real object code of /repo under the deterministic scheduler (harness/tsanshim),
the schedule chosen there is replayed on the Lean model and the traces must be equal
event for event (location, value, memory order); tie A: weak/strong flag and memory
orders of the atomic builtins read from the preprocessed source."""
import json
import re
import vlib

PROOFS = ["MgProof.C04.Lemmas", "MgProof.C04.LockStep", "MgProof.C04.OnceStep", "MgProof.C04.RefStep", "MgProof.C04.Props"]
GREP = ["MgModel/C04", "MgProof/C04", "MgModel/Common", "Drv/C04.lean"]
REPO_SRCS = ["muggle/c/sync/spinlock.c", "muggle/c/sync/synclock.c", "muggle/c/sync/mutex.c",
             "muggle/c/sync/call_once.c", "muggle/c/sync/ref_cnt.c", "muggle/c/sync/sync_obj_futex.c",
             "muggle/c/base/thread.c"]

TRUSTED = [
    "Lean 4.33 kernel; axioms printed by the audit (subset of propext, Classical.choice, Quot.sound)",
    "tie C: harness/tsanshim (own __tsan_* runtime + deterministic scheduler), clang's TSan instrumentation "
    "pass as the source of 'every shared access', harness/c04/conc_locks.c, lib/vlib.py comparison",
    "memory model: sequentially consistent values + release/acquire knowledge sets (stale atomic reads "
    "allowed by C11 are not exhibited); futex / pthread mutex semantics are the scheduler's (POSIX), trusted",
    "weak CAS may fail spuriously only where the source uses a weak compare-exchange (static inventory)",
]

# expected static inventory (builtin, memory order, weak flag) -- tie A for what traces cannot show
EXPECTED_SITES = {
    ("muggle/c/sync/spinlock.c", "muggle_spinlock_lock"): [("__atomic_test_and_set", "2")],
    ("muggle/c/sync/spinlock.c", "muggle_spinlock_unlock"): [("__atomic_clear", "3")],
    ("muggle/c/sync/synclock.c", "muggle_synclock_unlock"): [("__atomic_store_n", "3")],
    ("muggle/c/sync/call_once.c", "muggle_call_once"): [("__atomic_compare_exchange_n", "0", "0"),
                                                         ("__atomic_store_n", "3"), ("__atomic_load_n", "2")],
    ("muggle/c/sync/ref_cnt.c", "muggle_ref_cnt_retain"): [("__atomic_compare_exchange_n", "0", "0")],
    ("muggle/c/sync/ref_cnt.c", "muggle_ref_cnt_release"): [("__atomic_compare_exchange_n", "0", "0")],
}


def site_key(site):
    name, args = site
    if name == "__atomic_compare_exchange_n":
        return (name, args[3], args[4])      # weak flag, success order
    return (name, args[-1])


def static_inventory(ctx):
    """Returns the synclock CAS kind ('weak' | 'strong') and records inventory mismatches."""
    inv = {}
    for (f, fn), exp in EXPECTED_SITES.items():
        try:
            sites = vlib.atomic_sites(f, fn)
        except vlib.BuildError as e:
            ctx.broken.append("tieA: " + str(e)[:200])
            continue
        got = [site_key(s) for s in (sites or [])]
        inv["%s:%s" % (f, fn)] = got
        if got != exp:
            ctx.broken.append("tieA: atomic sites of %s:%s are %s, the model assumes %s" % (f, fn, got, exp))
    weak = "strong"
    try:
        sites = vlib.atomic_sites("muggle/c/sync/synclock.c", "muggle_synclock_lock") or []
    except vlib.BuildError:
        sites = []
    cas = [s for s in sites if s[0] == "__atomic_compare_exchange_n"]
    inv["synclock_lock"] = [site_key(s) for s in sites]
    if len(cas) != 1 or cas[0][1][4] != "2":
        ctx.broken.append("tieA: synclock_lock atomic sites are %s, the model assumes one CAS with acquire order" % inv["synclock_lock"])
    elif cas[0][1][3] == "1":
        weak = "weak"
    ctx.cov["ties"]["tieA_atomic_sites"] = inv
    return weak


def build(ctx):
    exe = vlib.build_conc_harness("C04", "conc_locks", ["harness/c04/conc_locks.c"], REPO_SRCS)
    return [exe], ctx.driver_cmd("drv_c04")


def gen_runs(ctx, sync_kind):
    rng = ctx.rng
    runs = []
    q = ctx.quick
    per = 25 if q else 400
    kinds = ["spinlock", "synclock" if sync_kind == "strong" else "synclock-weak", "mutex"]
    for k in kinds:
        for n in (2, 3, 4):
            for r in (1, 2, 3):
                for i in range(per):
                    conf = ["conf %s %d %d" % (k, n, r)]
                    if k == "synclock-weak":
                        conf.append("spurious %d 0" % rng.choice([0, 100, 300]))
                    elif k == "synclock" and i % 2:
                        # interrupted futex waits (EINTR): the lock loop must retry, never proceed
                        conf.append("spurious 0 0 %d" % rng.choice([200, 500, 800]))
                    pol = rng.random()
                    s = rng.randrange(1, 1 << 30)
                    sched = "random %d" % s if pol < 0.6 else "pct %d %d" % (s, rng.choice([1, 2, 3]))
                    runs.append({"conf": conf, "sched": sched, "kind": "lock", "n": n, "r": r})
    for n in (2, 3, 4, 5):
        for i in range(per * 2):
            s = rng.randrange(1, 1 << 30)
            runs.append({"conf": ["conf once %d" % n],
                         "sched": ("random %d" % s) if i % 3 else ("pct %d 2" % s), "kind": "once", "n": n})
    progs = ["r", "d", "rd", "dr", "dd", "rr", "rdd", "ddr", "drd", "rrd", "ddd"]
    for i in range(per * 8):
        nthr = rng.choice([2, 2, 3, 4])
        init = rng.choice([1, 1, 2, 3])
        ps = [rng.choice(progs) for _ in range(nthr)]
        s = rng.randrange(1, 1 << 30)
        runs.append({"conf": ["conf refcnt %d %s" % (init, " ".join(ps))],
                     "sched": ("random %d" % s) if i % 4 else ("pct %d 2" % s),
                     "kind": "refcnt", "init": init, "progs": ps})
    return runs


def judge(run, out):
    """Property-level oracle on the implementation's own trace."""
    end = next((l for l in out if l.startswith("end ")), None)
    oc = next((l for l in out if l.startswith("outcome ")), "")
    if end is None:
        return "no end line"
    if not end.startswith("end ok"):
        return "run did not complete: " + end
    kv = dict(x.split("=") for x in oc.split()[1:])
    if run["kind"] == "lock":
        if kv.get("exclusion_violations") != "0":
            return "two threads inside the critical section (" + oc + ")"
        if int(kv.get("data", -1)) != run["n"] * run["r"]:
            return "lost update under the lock: data=%s expected %d" % (kv.get("data"), run["n"] * run["r"])
    elif run["kind"] == "once":
        if kv.get("body_runs") != "1":
            return "call_once body ran %s times" % kv.get("body_runs")
        if kv.get("early_returns") != "0":
            return "a call_once caller returned before the body completed"
    elif run["kind"] == "refcnt":
        cur = run["init"]
        zero_releases = 0
        for l in out:
            m = re.match(r"T\d+ cas ref (-?\d+)->(-?\d+) ok", l)
            if m:
                v, d = int(m.group(1)), int(m.group(2))
                if v != cur:
                    return "CAS history is not a sequential counter history at: " + l
                if v == 0:
                    return "counter left zero: " + l
                if abs(d - v) != 1:
                    return "a successful compare-exchange did not change the counter by exactly one: " + l
                cur = d
            m = re.match(r"T\d+ note (retain|release)=(-?\d+)", l)
            if m:
                res = int(m.group(2))
                if res == 0 and m.group(1) == "release":
                    zero_releases += 1
                if cur == 0 and res not in (0, -1):
                    return "operation succeeded after the counter reached zero: " + l
        if zero_releases > 1:
            return "%d releases observed zero" % zero_releases
        ok_ret = sum(1 for l in out if re.match(r"T\d+ note retain=[1-9]", l))
        ok_rel = sum(1 for l in out if re.match(r"T\d+ note release=\d", l))
        if cur != run["init"] + ok_ret - ok_rel:
            return ("counter is %d after %d successful retains and %d successful releases from %d"
                    % (cur, ok_ret, ok_rel, run["init"]))
        if int(kv.get("ref", -1)) != cur:
            return "final value %s differs from the CAS history %d" % (kv.get("ref"), cur)
        total_release = sum(p.count("d") for p in run["progs"])
        total_retain = sum(p.count("r") for p in run["progs"])
        if cur == 0 and zero_releases != 1:
            return "counter reached zero but %d releases observed it" % zero_releases
    return None


def signature_of(run, out, msg):
    if run["kind"] == "lock" and run["conf"][0].startswith("conf synclock-weak") and \
            any(" spurious " in l for l in out):
        return "synclock-weak-cas-spurious-failure"
    return None


def main(ctx):
    ctx.cov["trusted_base"] = TRUSTED
    ctx.assumptions += TRUSTED[2:]
    ctx.cov["rule"] = ("seeded random and PCT schedules of the real object code under the deterministic "
                       "scheduler: lock kinds x threads 2..4 x rounds 1..3, call_once with 2..5 callers, "
                       "ref_cnt with random retain/release programs; every schedule is replayed on the Lean "
                       "model and the traces compared event for event; plus ALL schedules of the real code up to a "
                       "preemption bound (CHESS-style) on the small configurations (coverage.systematic; exhaustive "
                       "refers to that bounded space); distinct = distinct implementation traces")
    ctx.lean_obligations("drv_c04", PROOFS, GREP, leanchecker=["MgProof.C04.Props"])
    if not getattr(ctx, "driver_ok", False):
        return
    sync_kind = static_inventory(ctx)
    ctx.cov["synclock_cas"] = sync_kind
    try:
        hcmd, dcmd = build(ctx)
    except vlib.BuildError as e:
        ctx.broken.append("harness-build: " + str(e)[:500])
        return
    runs = gen_runs(ctx, sync_kind)
    vlib.conc_correspondence(ctx, hcmd, dcmd, runs, judge=judge, signature_of=signature_of)
    # systematic part: every schedule of the real code up to a preemption bound on the small
    # configurations; each one is judged and replayed on the model like the random ones
    b = 2 if ctx.quick else 3
    sk = "synclock" if sync_kind == "strong" else "synclock-weak"
    small = [("conf spinlock 2 1", "lock", dict(n=2, r=1), b), ("conf spinlock 2 2", "lock", dict(n=2, r=2), b),
             ("conf %s 2 1" % sk, "lock", dict(n=2, r=1), b), ("conf %s 2 2" % sk, "lock", dict(n=2, r=2), b),
             ("conf mutex 2 2", "lock", dict(n=2, r=2), b), ("conf spinlock 3 1", "lock", dict(n=3, r=1), b - 1),
             ("conf %s 3 1" % sk, "lock", dict(n=3, r=1), b - 1),
             ("conf once 2", "once", dict(n=2), b + 1), ("conf once 3", "once", dict(n=3), b),
             ("conf refcnt 1 rd d", "refcnt", dict(init=1, progs=["rd", "d"]), b + 1),
             ("conf refcnt 1 d d", "refcnt", dict(init=1, progs=["d", "d"]), b + 1),
             ("conf refcnt 2 dd rd", "refcnt", dict(init=2, progs=["dd", "rd"]), b),
             ("conf refcnt 1 r d d", "refcnt", dict(init=1, progs=["r", "d", "d"]), b)]
    sys_runs = []
    exh = {}
    for conf, kind, extra, bound in small:
        g = vlib.explore_schedules(hcmd, [conf], bound, max_runs=6000 if ctx.quick else 200000)
        n = 0
        for sched, out in g:
            n += 1
            r = {"conf": [conf], "sched": "replay " + " ".join(sched), "kind": kind}
            r.update(extra)
            sys_runs.append(r)
        exh[conf] = {"preemption_bound": bound, "schedules": n, "exhausted": g.exhausted}
    ctx.cov["systematic"] = exh
    ctx.cov["exhaustive"] = all(v["exhausted"] for v in exh.values())
    vlib.conc_correspondence(ctx, hcmd, dcmd, sys_runs, judge=judge, signature_of=signature_of,
                             label="tieC_systematic")


def replay(ctx, path):
    hcmd, dcmd = build(ctx)
    vlib.lake_build(["drv_c04"])
    r = json.load(open(path))
    ops = r.get("ops") or (r.get("model_difference") or {}).get("ops")
    if not ops:
        print("replay names a broken obligation only:", r.get("broken"))
        return 2
    a, ops = vlib.run_replay_conc(hcmd, ops)
    b = vlib.run_one(dcmd, ops)
    print("\n".join(a["out"]))
    kind = "lock" if " once " not in ops[0] and " refcnt " not in ops[0] else ("once" if " once " in ops[0] else "refcnt")
    run = {"kind": kind, "conf": ops[:-2]}
    toks = ops[0].split()
    if kind == "lock":
        run.update(n=int(toks[2]), r=int(toks[3]))
    elif kind == "refcnt":
        run.update(init=int(toks[2]), progs=toks[3:])
    msg = judge(run, a["out"])
    if msg:
        print("VIOLATION property=C04 replay=%s" % path)
        print(msg)
        return 1
    if [l for l in a["out"] if not l.startswith("#")] != [l for l in b["out"] if not l.startswith("#")]:
        print("model and implementation traces differ")
        return 1
    print("replay passes on the current tree")
    return 0
