"""C14 — cross-thread wake-up, hand-over and exit of the event loop are never lost.

Model: lean/MgModel/C14/EvLoop.lean; theorems: lean/MgProof/C14/Props.lean.
Tie C without any hook in /repo: the real muggle_evloop_run/exit/wakeup, the three back-ends and
the socket handle run with REAL eventfd / poll / epoll / select / socketpairs under the
deterministic scheduler of harness/tsanshim (harness/c14/conc_evloop.c redirects write/read of the
eventfd and poll/epoll_wait/select at link time and parks a blocking poll in the scheduler, so a
loop that would sleep for ever is observed as `end deadlock`). The schedule chosen on the real code
is replayed on the Lean model; traces must agree event for event. Tie A: which variant of the three
repaired places the tree has is read from the source, together with the inventory of the calls the
model mirrors."""
import json
import os
import re
import vlib

PROOFS = ["MgProof.C14.Lemmas", "MgProof.C14.TypStep", "MgProof.C14.LoopInv", "MgProof.C14.CtxInv", "MgProof.C14.Progress", "MgProof.C14.Props"]
GREP = ["MgModel/C14", "MgProof/C14", "MgModel/Common", "Drv/C14.lean"]
WRAP = ["poll", "epoll_wait", "select", "read", "write"]

TRUSTED = [
    "Lean 4.33 kernel; axioms printed by the audit (subset of propext, Classical.choice, Quot.sound)",
    "tie C: harness/tsanshim (own __tsan_* runtime + deterministic scheduler), clang's TSan instrumentation pass "
    "as the source of 'every access to evloop->tid / evloop->to_exit', harness/c14/conc_evloop.c (link-time "
    "redirection of write/read/poll/epoll_wait/select; the kernel objects are real and are touched only under "
    "the scheduler's baton), lib/vlib.py comparison",
    "kernel semantics as modelled in EvLoop.lean (eventfd counter; level-triggered poll/select; epoll ready list "
    "in arrival order, filtered by actual readiness) -- validated by the trace correspondence, not proved",
    "plain int/pthread_t accesses to to_exit and tid are modelled as sequentially consistent values (they are data "
    "races in C11 terms; x86 + -O0 object code is what is traced)",
    "lifetime contract: muggle_socket_evloop_handle_destroy / muggle_evloop_delete are called by the owner only "
    "after run() returned and every thread that calls exit / wakeup / add_ctx has returned from that call "
    "(the harness joins first); a wake-up or exit call racing evloop_delete is outside the property",
    "time-outs are infinite (timeout = -1, the case in which a lost wake-up or exit hangs); timers are not driven",
]

# ---------------------------------------------------------------- tie A: variant + call inventory

VOCAB = ["muggle_thread_equal", "to_exit = MUGGLE_EV_LOOP_EXIT_STATUS_WAKE", "to_exit = MUGGLE_EV_LOOP_EXIT_STATUS_EXIT",
         "to_exit == MUGGLE_EV_LOOP_EXIT_STATUS_WAKE", "to_exit == MUGGLE_EV_LOOP_EXIT_STATUS_EXIT",
         "muggle_evloop_wakeup", "muggle_ev_signal_wakeup", "muggle_ev_signal_clearup", "cb_wake", "cb_add_ctx",
         "cb_clear", "cb_exit", "fn_run", "tid = muggle_thread_current_id",
         "muggle_mutex_lock", "muggle_mutex_unlock", "muggle_queue_enqueue", "muggle_queue_dequeue",
         "muggle_evloop_add_ctx", "muggle_socket_evloop_release_ctx", "muggle_queue_destroy", "muggle_mutex_destroy",
         "muggle_socket_ctx_ref_release", "cb_release", "muggle_socket_ctx_close", "cb_free"]


def strip_c_comments(txt):
    txt = re.sub(r"/\*.*?\*/", " ", txt, flags=re.S)
    return re.sub(r"//[^\n]*", " ", txt)


def func_body(txt, name):
    m = re.search(r"\b%s\s*\([^;{]*\)\s*\{" % re.escape(name), txt)
    if not m:
        return None
    i = m.end()
    depth = 1
    j = i
    while j < len(txt) and depth:
        depth += {"{": 1, "}": -1}.get(txt[j], 0)
        j += 1
    return txt[i:j]


def inventory(rel, fn):
    try:
        txt = strip_c_comments(open(os.path.join(vlib.REPO, rel)).read())
    except OSError:
        return None
    body = func_body(txt, fn)
    if body is None:
        return None
    body = re.sub(r"\s+", " ", body)
    hits = []
    for v in VOCAB:
        for m in re.finditer(re.escape(v) + (r"\b" if v[-1].isalnum() or v[-1] == "_" else ""), body):
            hits.append((m.start(), v))
    # "cb_wake" also matches inside "if (evloop->cb_wake)": keep calls only
    res = []
    for pos, v in sorted(hits):
        if v.startswith("cb_") and not re.match(re.escape(v) + r"\s*\(", body[pos:]):
            continue
        res.append(v)
    return res


HANDLE_WAKEUP = ["muggle_ev_signal_clearup", "cb_wake", "to_exit == MUGGLE_EV_LOOP_EXIT_STATUS_WAKE",
                 "to_exit = MUGGLE_EV_LOOP_EXIT_STATUS_EXIT"]
EXPECT = {
    ("muggle/c/event/event_loop.c", "muggle_evloop_exit"): {
        False: ["muggle_thread_equal", "to_exit = MUGGLE_EV_LOOP_EXIT_STATUS_WAKE", "muggle_evloop_wakeup",
                "to_exit = MUGGLE_EV_LOOP_EXIT_STATUS_EXIT"],
        True: ["muggle_thread_equal", "to_exit = MUGGLE_EV_LOOP_EXIT_STATUS_WAKE", "muggle_evloop_wakeup",
               "to_exit = MUGGLE_EV_LOOP_EXIT_STATUS_EXIT", "muggle_evloop_wakeup"]},
    ("muggle/c/event/event_loop.c", "muggle_evloop_wakeup"): {None: ["muggle_ev_signal_wakeup"]},
    ("muggle/c/event/event_loop.c", "muggle_evloop_run"): {
        None: ["tid = muggle_thread_current_id", "fn_run", "cb_clear", "cb_exit"]},
    ("muggle/c/event/internal/event_loop_poll.c", "muggle_evloop_poll_handle_wakeup"): {None: HANDLE_WAKEUP},
    ("muggle/c/event/internal/event_loop_epoll.c", "muggle_evloop_epoll_handle_wakeup"): {None: HANDLE_WAKEUP},
    ("muggle/c/event/internal/event_loop_select.c", "muggle_evloop_select_handle_wakeup"): {None: HANDLE_WAKEUP},
    ("muggle/c/net/socket_evloop_handle.c", "muggle_socket_evloop_add_ctx"): {
        None: ["muggle_mutex_lock", "muggle_queue_enqueue", "muggle_mutex_unlock", "muggle_evloop_wakeup"]},
    ("muggle/c/net/socket_evloop_handle.c", "muggle_socket_evloop_on_wake"): {
        False: ["muggle_mutex_lock", "muggle_evloop_add_ctx", "cb_add_ctx", "muggle_queue_dequeue",
                "muggle_mutex_unlock", "cb_wake"],
        True: ["muggle_mutex_lock", "muggle_evloop_add_ctx", "muggle_socket_evloop_release_ctx", "cb_add_ctx",
               "muggle_queue_dequeue", "muggle_mutex_unlock", "cb_wake"]},
    ("muggle/c/net/socket_evloop_handle.c", "muggle_socket_evloop_on_exit"): {
        None: ["muggle_mutex_lock", "muggle_socket_evloop_release_ctx", "muggle_queue_dequeue", "muggle_mutex_unlock"]},
    ("muggle/c/net/socket_evloop_handle.c", "muggle_socket_evloop_handle_destroy"): {
        False: ["muggle_mutex_destroy", "muggle_queue_destroy"],
        True: ["muggle_socket_ctx_ref_release", "cb_release", "muggle_socket_ctx_close", "cb_free",
               "muggle_queue_dequeue", "muggle_mutex_destroy", "muggle_queue_destroy"]},
}
VARIANT_OF = {"muggle_evloop_exit": "exitWake", "muggle_socket_evloop_on_wake": "addFail",
              "muggle_socket_evloop_handle_destroy": "lateQueue"}


def static_inventory(ctx):
    """Returns {'exitWake': bool, 'addFail': bool, 'lateQueue': bool}; a function whose call inventory is
    none of the variants the model knows breaks tie A."""
    fix = {"exitWake": False, "addFail": False, "lateQueue": False}
    inv = {}
    for (rel, fn), variants in EXPECT.items():
        got = inventory(rel, fn)
        inv["%s:%s" % (rel, fn)] = got
        if got is None:
            ctx.broken.append("tieA: function %s not found in %s" % (fn, rel))
            continue
        match = [k for k, v in variants.items() if v == got]
        if not match:
            ctx.broken.append("tieA: call inventory of %s:%s is %s; the model knows %s" %
                              (rel, fn, got, list(variants.values())))
            continue
        if fn in VARIANT_OF:
            fix[VARIANT_OF[fn]] = bool(match[0])
    ctx.cov["ties"]["tieA_call_inventory"] = inv
    ctx.cov["variant"] = fix
    return fix


def vline(fix):
    return "variant %d %d %d" % (fix["exitWake"], fix["addFail"], fix["lateQueue"])


# ---------------------------------------------------------------- build

def build(ctx):
    exe = vlib.build_conc_harness("C14", "conc_evloop", ["harness/c14/conc_evloop.c"],
                                  vlib.all_repo_c_sources(), extra_wrap=WRAP)
    return [exe], ctx.driver_cmd("drv_c14")


# ---------------------------------------------------------------- generators

BACKENDS = ["poll", "epoll", "select"]


def mkrun(backend, cap, io, roles, sched, fix):
    return {"conf": ["conf %s %d %d %s" % (backend, cap, io, " ".join(roles)), vline(fix)],
            "sched": sched, "roles": list(roles), "backend": backend, "cap": cap, "io": io}


def rand_roles(rng):
    """one loop thread at a random position, a random mix of the other roles; biased to the
    interesting set-ups: creator != loop thread, exit present, capacity exceeded, bad descriptors"""
    n_other = rng.choice([1, 2, 2, 3, 3, 4])
    io = rng.random() < 0.35
    others = []
    have_exit = False
    for _ in range(n_other):
        k = rng.random()
        if k < 0.30 and not have_exit:
            others.append("E")
            have_exit = True
        elif k < 0.50:
            others.append("W%d" % rng.choice([1, 1, 2, 3]))
        elif k < 0.80:
            others.append("H" + "".join(rng.choice("gggb") for _ in range(rng.choice([1, 1, 2, 3]))))
        elif io:
            others.append("I%d" % rng.choice([1, 2]))
        else:
            others.append("W1")
    loop = "L" if rng.random() < 0.8 else "X%d" % rng.choice([1, 1, 2])
    pos = 0 if rng.random() < 0.55 else rng.randrange(0, len(others) + 1)
    roles = others[:pos] + [loop] + others[pos:]
    return roles, int(io)


def gen_random(ctx, fix):
    rng = ctx.rng
    n = 1500 if ctx.quick else 150000
    runs = []
    for i in range(n):
        roles, io = rand_roles(rng)
        be = BACKENDS[i % 3]
        cap = rng.choice([1, 1, 2, 4])
        s = rng.randrange(1, 1 << 30)
        sched = "random %d" % s if rng.random() < 0.6 else "pct %d %d" % (s, rng.choice([1, 2, 3]))
        runs.append(mkrun(be, cap, io, roles, sched, fix))
    return runs


SMALL = [  # (roles, cap, io, bound quick, bound thorough)
    (["L", "E"], 2, 0, 4, 6), (["E", "L"], 2, 0, 4, 6), (["L", "W1"], 2, 0, 4, 6), (["L", "W2"], 2, 0, 3, 5),
    (["L", "E", "W1"], 2, 0, 2, 4), (["E", "L", "W1"], 2, 0, 2, 4), (["W1", "L", "E"], 2, 0, 2, 4),
    (["L", "Hg"], 2, 0, 3, 5), (["L", "Hg", "E"], 2, 0, 2, 3), (["L", "Hgg"], 1, 0, 3, 4), (["L", "Hb", "E"], 2, 0, 2, 3),
    (["E", "L", "Hg"], 2, 0, 2, 3), (["X1", "W1"], 2, 0, 3, 5), (["X2", "W2", "E"], 2, 0, 1, 2),
    (["L", "W2", "E"], 2, 0, 2, 3), (["W2", "L", "E"], 2, 0, 2, 3),
    (["L", "E", "I1"], 2, 1, 2, 3), (["E", "L", "I1"], 2, 1, 2, 3), (["L", "W1", "I1"], 2, 1, 2, 3),
]


def gen_systematic(ctx, hcmd, fix):
    runs, exh = [], {}
    for roles, cap, io, bq, bt in SMALL:
        for be in BACKENDS:
            if ctx.quick and be != "poll" and len(roles) > 2:
                continue
            conf = ["conf %s %d %d %s" % (be, cap, io, " ".join(roles)), vline(fix)]
            bound = bq if ctx.quick else bt
            g = vlib.explore_schedules(hcmd, conf, bound, max_runs=2500 if ctx.quick else 120000)
            n = 0
            for sched, out in g:
                n += 1
                # `prefix` (not `replay`): a run that ends with the loop parked must end `deadlock`
                # on the real code too, not `replay-diverged` because the tokens ran out
                runs.append(mkrun(be, cap, io, roles, "prefix " + " ".join(sched), fix))
            exh[conf[0]] = {"preemption_bound": bound, "schedules": n, "exhausted": g.exhausted}
    ctx.cov["systematic"] = exh
    ctx.cov["exhaustive"] = all(v["exhausted"] for v in exh.values())
    return runs


def load_corpus(fix):
    runs = []
    cdir = os.path.join(vlib.VERIF, "corpus", "C14")
    if os.path.isdir(cdir):
        for f in sorted(os.listdir(cdir)):
            if not f.endswith(".ops"):
                continue
            lines = [l.strip() for l in open(os.path.join(cdir, f)) if l.strip() and not l.startswith("#")]
            conf = [l for l in lines if l.startswith("conf ")]
            sched = [l for l in lines if l.startswith("sched ")]
            if not conf or not sched:
                continue
            t = conf[0].split()
            runs.append(mkrun(t[1], int(t[2]), int(t[3]), t[4:], sched[0][len("sched "):], fix))
    return runs


MALFORMED = [
    ["conf poll 0 0 L E"], ["conf poll 2 0 E W1"], ["conf poll 2 0 L L E"], ["conf kqueue 2 0 L E"],
    ["conf poll 2 0 L I1"], ["conf poll 2 0 L X0"], ["conf poll 2 0 L Hgx"], ["conf poll 2 0 L Q1"],
    ["conf poll 2 0"], ["conf epoll 2 1 X0"], ["run"], ["sched replay 0 1", "run"], ["bogus"],
]


# ---------------------------------------------------------------- property oracle

def judge(run, out):
    roles = run["roles"]
    L = next(i for i, r in enumerate(roles) if r[0] in "LX")
    end = next((l for l in out if l.startswith("end ")), None)
    oc = next((l for l in out if l.startswith("outcome ")), None)
    if end is None or oc is None:
        return "no end/outcome line"
    status = end.split()[1]
    ev = [l for l in out if re.match(r"T-?\d+ ", l)]
    for l in ev:
        if "USE-AFTER-FREE" in l or "DOUBLE-FREE" in l:
            return "a callback touched a context after it was freed: " + l
    kv = dict(x.split("=") for x in oc.split()[1:5])
    ctxs = {}
    for tok in oc.split()[5:]:
        m = re.match(r"(cio|c\d+\.\d+):(\d)(\d)(\d)(\d+)$", tok)
        if not m:
            return "bad outcome token " + tok
        ctxs[m.group(1)] = (int(m.group(2)), int(m.group(3)), int(m.group(4)), int(m.group(5)))
    returned = kv["run_returned"] == "1"
    lp = "T%d " % L
    n_cb_wake = sum(1 for l in ev if l == lp + "note cb_wake")
    xk = int(roles[L][1:]) if roles[L][0] == "X" else 0
    exit_requested = int(kv["exit_done"]) > 0 or (xk and n_cb_wake >= xk)
    # ---- exit
    if exit_requested:
        if not returned or status != "ok":
            return ("exit was requested (exit_done=%s) but run() did not return: %s; loop thread: %s" %
                    (kv["exit_done"], end, next((l for l in out if l.startswith("state T%d " % L)), "?")))
    else:
        if returned:
            return "run() returned although no exit was requested"
        if status != "deadlock" or ("state T%d futex evfd" % L) not in out:
            return "no exit requested: expected the loop parked in poll at the end, got " + end
        for l in out:
            if l.startswith("state T") and not l.startswith("state T%d " % L) and not l.endswith(" done -"):
                return "a thread other than the loop is stuck: " + l
    # ---- wake-ups: every request is followed by an entry of the wake callback, unless run() returned
    lock_idx = [i for i, l in enumerate(ev) if l == lp + "mtx-lock mtx"]
    wake_entries = []
    for i in lock_idx:
        nxt = next((l for l in ev[i + 1:] if l in (lp + "note cb_wake", lp + "note run-returned")), None)
        if nxt == lp + "note cb_wake":
            wake_entries.append(i)
    # (a run that returned: wake-ups that race with an exit request are not judged. The code under test
    # itself drops a wake-up that arrives between the entry of the wake callback and the check of the exit
    # flag in the same wake handling pass when an exit request arrives in that window too — the loop is
    # leaving; DESIGN.md §8.8 records this reading of "a running event loop".)
    if not returned:
        for i, l in enumerate(ev):
            m = re.match(r"T(\d+) futex-wake evfd ", l)
            if m and roles[int(m.group(1))][0] != "I":
                if not any(j > i for j in wake_entries):
                    return "wake-up request lost: no wake callback entered after '%s' (event %d) and the loop is parked" % (l, i)
        if kv["queued"] != "0":
            return ("hand-over lost: %s context(s) still in the hand-over queue while the loop is parked and "
                    "every other thread has finished" % kv["queued"])
    # ---- contexts
    if returned and ev and ev[-1] != lp + "note run-returned":
        tail = [l for l in ev[ev.index(lp + "note run-returned"):] if l.startswith(lp)]
        if len(tail) > 1:
            return "the loop thread did something after run() returned: " + tail[1]
    for c, (nreg, nrel, freed, uaf) in sorted(ctxs.items()):
        enq = c == "cio" or any(re.match(r"T\d+ note hand-done %s$" % re.escape(c), l) for l in ev) or \
            any(l.startswith("T%d note cb_add_ctx %s reg=" % (L, c)) for l in ev)
        if uaf:
            return "context %s used after free" % c
        if nreg > 1 or nrel > 1 or freed != (1 if nrel else 0):
            return "context %s: registered %d times, released %d times, freed=%d" % (c, nreg, nrel, freed)
        if not enq:
            continue
        if status in ("ok", "deadlock") and nreg + nrel == 0:
            dropped = any(l == "T%d note cb_add_ctx %s reg=0" % (L, c) for l in ev)
            return ("handed-over context %s was neither registered nor released (%s)" %
                    (c, "registration failed in on_wake and the result was ignored" if dropped
                     else "still queued when the handle was destroyed: handed over after on_exit drained the queue"))
        if returned and nrel != 1:
            return "run() returned but context %s was not released" % c
        if returned and nreg == 1:
            rel = next((i for i, l in enumerate(ev) if l == "T%d note cb_release %s" % (L, c)), None)
            ret = ev.index(lp + "note run-returned")
            if rel is None or rel > ret:
                return "registered context %s was not released by the clear phase before run() returned" % c
        # nothing touches c after its free
        fr = next((i for i, l in enumerate(ev) if l.endswith("note cb_free %s" % c)), None)
        if fr is not None:
            for l in ev[fr + 1:]:
                if re.search(r" %s( |$)" % re.escape(c), l) and "hand-done" not in l:
                    return "context %s touched after its free: %s" % (c, l)
    return None


def signature_of(run, out, msg):
    if "did not return" in msg:
        return "exit-lost"
    if "result was ignored" in msg:
        return "on-wake-add-ctx-failure-ignored"
    if "still queued" in msg:
        return "handover-after-exit-drain-leaked"
    return None


# ---------------------------------------------------------------- main

def main(ctx):
    ctx.cov["trusted_base"] = TRUSTED
    ctx.assumptions += TRUSTED[2:]
    ctx.cov["hooks"] = ("none needed: the orderings are forced by the deterministic scheduler through link-time "
                        "redirection of write/read/poll/epoll_wait/select (no MUGGLEC_VERIF_DELAY hook in /repo)")
    ctx.cov["rule"] = (
        "real object code of /repo (event_loop.c, event_signal.c, the poll/epoll/select back-ends, "
        "socket_evloop_handle.c) with real eventfd/poll/epoll/select under the deterministic scheduler; "
        "workloads = one loop thread (optionally exiting from its own wake callback) + random mixes of exit / "
        "waker / hand-over (good and bad descriptors, capacity 1..4) / I/O threads, the creator being the loop "
        "thread or another thread; seeded random and PCT schedules on all three back-ends + ALL schedules up to "
        "a preemption bound on the small configurations (coverage.systematic; `exhaustive` refers to that bounded "
        "space) + corpus + malformed configurations; every schedule is replayed on the Lean model and the traces "
        "compared event for event; every run is judged by the property oracle on the implementation's own trace; "
        "distinct = distinct implementation traces")
    ctx.lean_obligations("drv_c14", PROOFS, GREP, leanchecker=["MgProof.C14.Props"])
    if not getattr(ctx, "driver_ok", False):
        return
    fix = static_inventory(ctx)
    try:
        hcmd, dcmd = build(ctx)
    except vlib.BuildError as e:
        ctx.broken.append("harness-build: " + str(e)[:500])
        return
    # malformed stream: both sides must reject
    mal = vlib.run_cases(hcmd, MALFORMED)
    mdl = vlib.run_cases(dcmd, MALFORMED)
    nmal = 0
    for c, a, b in zip(MALFORMED, mal, mdl):
        nmal += 1
        if a["crash"] or a["out"] != b["out"]:
            ctx.broken.append("malformed configuration %s: harness %s, model %s" % (c, a["out"], b["out"]))
    ctx.cov["ties"]["malformed"] = {"cases": nmal}
    ctx.cov["evaluations"] += nmal
    corpus = load_corpus(fix)
    vlib.conc_correspondence(ctx, hcmd, dcmd, corpus + gen_random(ctx, fix), judge=judge,
                             signature_of=signature_of, label="tieC_random")
    ctx.cov["ties"]["tieC_random"]["corpus"] = len(corpus)
    sys_runs = gen_systematic(ctx, hcmd, fix)
    vlib.conc_correspondence(ctx, hcmd, dcmd, sys_runs, judge=judge, signature_of=signature_of,
                             label="tieC_systematic")


def replay(ctx, path):
    hcmd, dcmd = build(ctx)
    vlib.lake_build(["drv_c14"])
    r = json.load(open(path))
    ops = r.get("ops") or (r.get("model_difference") or {}).get("ops")
    if not ops:
        print("replay names a broken obligation only:", r.get("broken"))
        return 2
    # the variant line of the replay is replaced by the current tree's
    class _C:
        broken = []
        cov = {"ties": {}}
    fix = static_inventory(_C)
    ops = [vline(fix) if l.startswith("variant ") else l for l in ops]
    a = vlib.run_one(hcmd, [l.replace("sched replay ", "sched prefix ", 1) for l in ops])
    # the model replays the schedule the real code actually ran (the prefix may have been continued)
    sched = next((l[len("schedule "):] for l in a["out"] if l.startswith("schedule ")), "")
    b = vlib.run_one(dcmd, [("sched replay " + sched) if l.startswith("sched ") else l for l in ops])
    print("\n".join(a["out"]))
    if a["crash"]:
        print("VIOLATION property=C14 replay=%s" % path)
        print("crash:", a["crash"][:1500])
        return 1
    t = ops[0].split()
    run = {"roles": t[4:], "backend": t[1], "cap": int(t[2]), "io": int(t[3])}
    msg = judge(run, a["out"])
    if msg:
        print("VIOLATION property=C14 replay=%s" % path)
        print(msg)
        return 1
    if [l for l in a["out"] if not l.startswith("#")] != [l for l in b["out"] if not l.startswith("#")]:
        print("model and implementation traces differ")
        return 1
    print("replay passes on the current tree")
    return 0
