"""C18 tie A (static): inventory of the acquisition call sites of the library.

scan(repo) walks the C sources of the subsystems named by the property and returns
{ "<file>::<function>": ["malloc", "aligned_alloc", ...] } (calls in source order, both arms of
#if/#else counted).  The committed inventory checks/C18/sites.json records, for every function
that acquires something, which harness operations drive it (or why it is not driven).  A site
that appears, disappears or moves to another function makes the check report a broken tie:
the models (and the fault enumeration) were written against the recorded sites."""
import json
import os
import re

DIRS = ["sync", "memory", "dsaa", "event", "net", "log", "time"]
CALL = re.compile(r"\b(malloc|calloc|realloc|aligned_alloc|eventfd|epoll_create1?|pipe2?|socket|p_alloc)\s*\(")


def _strip(src):
    """remove comments and string/char literals, keep newlines"""
    out = []
    i, n = 0, len(src)
    while i < n:
        c = src[i]
        if src.startswith("/*", i):
            j = src.find("*/", i + 2)
            j = n if j < 0 else j + 2
            out.append("".join(ch if ch == "\n" else " " for ch in src[i:j]))
            i = j
        elif src.startswith("//", i):
            j = src.find("\n", i)
            j = n if j < 0 else j
            i = j
        elif c in "\"'":
            j = i + 1
            while j < n and src[j] != c:
                j += 2 if src[j] == "\\" else 1
            out.append(c + c)
            i = j + 1
        else:
            out.append(c)
            i += 1
    return "".join(out)


def functions(src):
    """yield (name, body) for every top-level function definition"""
    s = _strip(src)
    # drop preprocessor lines (keeps both arms of conditionals)
    s = "\n".join("" if ln.lstrip().startswith("#") else ln for ln in s.split("\n"))
    depth = 0
    start = 0          # start of the text since the last top-level ';' or '}'
    body_start = None
    for i, c in enumerate(s):
        if c == "{":
            if depth == 0:
                head = s[start:i]
                body_start = i
            depth += 1
        elif c == "}":
            depth -= 1
            if depth == 0 and body_start is not None:
                m = re.findall(r"([A-Za-z_]\w*)\s*\(", head)
                if m and "=" not in head.split("(")[0]:
                    yield m[0] if len(m) == 1 else [x for x in m if x not in ("__attribute__",)][0], s[body_start:i + 1]
                start = i + 1
                body_start = None
        elif c == ";" and depth == 0:
            start = i + 1


def scan(repo):
    res = {}
    for d in DIRS:
        root = os.path.join(repo, "muggle", "c", d)
        for dp, _, fs in os.walk(root):
            for fn in sorted(fs):
                if not fn.endswith(".c"):
                    continue
                path = os.path.join(dp, fn)
                rel = os.path.relpath(path, os.path.join(repo, "muggle", "c"))
                for name, body in functions(open(path, errors="replace").read()):
                    calls = CALL.findall(body)
                    if calls:       # same name twice = platform variants under #if: concatenated
                        res.setdefault("%s::%s" % (rel, name), []).extend(calls)
    return res


def compare(repo, inventory_path):
    """returns (problems, stats)"""
    inv = json.load(open(inventory_path))
    got = scan(repo)
    problems = []
    for k in sorted(set(inv["sites"]) | set(got)):
        a, b = inv["sites"].get(k, {}).get("calls"), got.get(k)
        if a != b:
            problems.append("%s: recorded %s, source has %s" % (k, a, b))
    driven = sum(1 for v in inv["sites"].values() if v.get("ops"))
    return problems, {"functions_with_sites": len(got), "sites": sum(len(v) for v in got.values()),
                      "functions_driven_by_harness": driven,
                      "functions_not_driven": {k: v["why_not"] for k, v in inv["sites"].items() if not v.get("ops")}}


if __name__ == "__main__":
    import sys
    print(json.dumps(scan(sys.argv[1] if len(sys.argv) > 1 else "/repo"), indent=1))
