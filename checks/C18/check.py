"""C18 — allocation failure is reported, leak-free and crash-free; destroy releases all.

Theorems: lean/MgProof/C18/Props.lean (over the function models lean/MgModel/C18/*.lean, every
fault schedule `Nat -> Bool`, every call sequence).  Tie B: harness/c18/seq_fault.c links the real
code of /repo with --wrap=malloc,... and fails exactly the scheduled acquisitions; for every
constructor / grower / inserter, every single-fault position k is enumerated (plus pairs and seeded
random multi-fault sequences) and return class, injected/attempted acquisitions, live memory
blocks / descriptors and the NULL / owned / dangling state of every resource field must equal the
model's prediction."""
import itertools
import os
import re
import importlib.util
import vlib

HERE = os.path.dirname(os.path.abspath(__file__))
_spec = importlib.util.spec_from_file_location("c18_sites", os.path.join(HERE, "sites.py"))
sites = importlib.util.module_from_spec(_spec)
_spec.loader.exec_module(sites)

PROOFS = ["MgProof.C18.Lemmas", "MgProof.C18.LemmasOps", "MgProof.C18.LemmasNC", "MgProof.C18.LemmasEv",
          "MgProof.C18.LemmasSeq", "MgProof.C18.LemmasFam", "MgProof.C18.Props"]
GREP = ["MgModel/C18", "MgProof/C18", "Drv/C18.lean"]
WRAP = ("-Wl,--wrap=malloc,--wrap=calloc,--wrap=realloc,--wrap=aligned_alloc,--wrap=free,"
        "--wrap=eventfd,--wrap=epoll_create,--wrap=pipe,--wrap=socket,--wrap=close")

TRUSTED = [
    "Lean 4.33 kernel; axioms as printed by the audit (subset of propext, Classical.choice, Quot.sound)",
    "tie B: harness/c18/seq_fault.c (ld --wrap interposition of malloc/calloc/realloc/aligned_alloc/free/"
    "eventfd/epoll_create/pipe/socket/close, live-table accounting, field classification n/o/d) + lib/vlib.py",
    "the function models are hand-written (no clang-generated skeletons): their agreement with the code is "
    "what tie B checks, at every fault position of every function and on random multi-fault sequences",
    "only allocation / descriptor-creation failures are injected: pthread_mutex_init, pthread_cond_init, "
    "pthread_create, fcntl, epoll_ctl are assumed to succeed (glibc: no allocation) ",
    "Linux build only: eventfd variant of event_signal.c; the pipe/socket variants, kqueue and Windows "
    "paths are not compiled",
    "allocations made inside libc (pthread_create stacks, stdio) are not acquisitions of the library and "
    "are not failed",
    "the async logger and the ma_ring backend are observed after their worker thread has consumed the "
    "message / list node (bounded wait in the harness)",
]

# family -> (init variants, destroy op)
INITS = {
    "chan": (["4 0", "4 16", "4 2", "4 18", "4 17", "4 35", "1 32", "5 48", "3 19", "64 1"], "chan.destroy"),
    "rbuf": (["4 0", "8 3", "8 16", "5 8"], "rbuf.destroy"),
    "dbuf": (["4", "1"], "dbuf.destroy"),
    "abq": (["4", "1"], "abq.destroy"),
    "maring": ([""], "maring.cleanup"),
    "mpool": (["2 16", "0 8", "4 10000"], "mpool.destroy"),
    "sowr": (["0 8", "4 8", "8 100"], "sowr.destroy"),
    "tsp": (["4 8", "1 1"], "tsp.destroy"),
    "rmp": (["4 8", "0 16"], "rmp.destroy"),
    "pslot": (["4", "0", "5"], "pslot.destroy"),
    "bbuf": (["16", "1024"], "bbuf.destroy"),
    "fctl": (["1 4", "2 1"], "fctl.destroy"),
    "alist": (["0", "1", "4"], "alist.destroy"),
    "heap": (["0", "1", "4"], "heap.destroy"),
    "stack": (["0", "1", "4"], "stack.destroy"),
    "llist": (["0", "2", "4"], "llist.destroy"),
    "queue": (["0", "2", "4"], "queue.destroy"),
    "avl": (["0", "2", "4"], "avl.destroy"),
    "htab": (["8 0", "0 0", "16 2", "0 4"], "htab.destroy"),
    "trie": (["0", "2"], "trie.destroy"),
    "evsig": ([""], "evsig.destroy"),
    "evloop": (["%d %d %d" % (t, m, hh) for t in (1, 2, 3, 0) for m in (0, 1) for hh in (2, 0)], "evloop.delete"),
    "sockh": ([""], "sockh.destroy"),
    "evpipe": ([""], "evpipe.destroy"),
    "sock": ([""], "sock.close"),
    "ffctl": (["1 4", "2 1"], "ffctl.destroy"),
    "alog": (["4", "8"], "alog.destroy"),
}
INIT_OP = {f: f + ".init" for f in INITS}
INIT_OP["evloop"] = "evloop.new"
INIT_OP["sock"] = "sock.create"
KMAX_INIT = 11          # the longest success path (evloop.new epoll + node pool) has 10 acquisitions

# growers / inserters: family -> (init args, ops that may acquire, ops that release, a pre-op)
GROW = {
    "mpool": (["2 16", "1 8"], ["mpool.alloc", "mpool.ensure 7", "mpool.ensure 40"], ["mpool.free"], "mpool.alloc"),
    "alist": (["1", "2"], ["alist.insert", "alist.append", "alist.ensure 9"], ["alist.remove"], "alist.append"),
    "heap": (["1", "2"], ["heap.insert 3", "heap.ensure 9"], ["heap.extract"], "heap.insert 5"),
    "stack": (["1", "2"], ["stack.push", "stack.ensure 9"], ["stack.pop"], "stack.push"),
    "llist": (["0", "2"], ["llist.insert", "llist.append"], ["llist.remove"], "llist.append"),
    "queue": (["0", "2"], ["queue.enq"], ["queue.deq"], "queue.enq"),
    "avl": (["0", "2"], ["avl.insert 77", "avl.insert 1"], ["avl.remove 1"], None),
    "htab": (["8 0", "8 2"], ["htab.put 77", "htab.put 1"], ["htab.remove 1"], None),
    "trie": (["0", "2"], ["trie.insert abc", "trie.insert ab", "trie.insert b", "trie.insert"], [], None),
    "evloop": (["2 0 2", "2 1 2", "3 0 2", "3 1 2", "1 1 1"], ["evloop.add"], [], "evloop.add"),
    "alog": (["4"], ["alog.log"], [], "alog.log"),
}
WEAK_FAIL = {"trie.insert"}     # a failed call may keep what it acquired (owned by the object)
MUST_REPORT = {"sockh.addctx"}  # inserters that hand a resource over: a dropped hand-over must be reported


def build(ctx):
    exe = vlib.build_harness("C18", "seq_fault", ["harness/c18/seq_fault.c"], "ALL",
                             cflags=["-DNDEBUG"], ldflags=[WRAP])
    return [exe], ctx.driver_cmd("drv_c18")


def fam_of(op):
    return op.split(".")[0].split(" ")[0]


def pre_op(fam, i):
    if fam == "avl":
        return "avl.insert %d" % (i + 1)
    if fam == "htab":
        return "htab.put %d" % (i + 1)
    if fam == "trie":
        return "trie.insert %s" % ["a", "ab", "c", "abd", "ca", "x"][i % 6]
    return GROW[fam][3]


def corpus_cases():
    d = os.path.join(vlib.VERIF, "corpus", "C18")
    res = []
    if os.path.isdir(d):
        for f in sorted(os.listdir(d)):
            if f.endswith(".ops"):
                res.append([l.rstrip("\n") for l in open(os.path.join(d, f)) if l.strip()])
    return res


def gen_cases(ctx):
    quick = ctx.quick
    rng = ctx.rng
    cases = corpus_cases()
    # (i-a) complete enumeration of single-fault positions of every constructor, each followed by
    #       destroy / retry+destroy; plus every pair of fault positions (k1<k2)
    for fam, (variants, destroy) in INITS.items():
        init = INIT_OP[fam]
        for v in variants:
            call = (init + " " + v).strip()
            for k in range(0, KMAX_INIT + 1):
                flt = "fault %d" % k if k else "fault"
                cases.append([flt, call, destroy])
                cases.append([flt, call, call, destroy])
                cases.append([flt, call, "fault", call, destroy, call, destroy])
            pairs = list(itertools.combinations(range(1, KMAX_INIT + 1), 2))
            if quick:
                pairs = [p for p in pairs if p[1] <= 6]
            for k1, k2 in pairs:
                cases.append(["fault %d %d" % (k1, k2), call, call, destroy])
            if not quick:       # every triple of fault positions
                for ks in itertools.combinations(range(1, KMAX_INIT + 1), 3):
                    cases.append(["fault %d %d %d" % ks, call, call, call, destroy])
    # (i-b) complete enumeration for growers / inserters from every small state
    npre = 6 if quick else 10
    for fam, (variants, acq_ops, rel_ops, _) in GROW.items():
        init = INIT_OP[fam]
        destroy = INITS[fam][1]
        for v in variants:
            for n in range(0, npre + 1):
                pre = [(init + " " + v).strip()] + [pre_op(fam, i) for i in range(n)]
                for op in acq_ops:
                    for k in range(0, 5):
                        flt = "fault %d" % k if k else "fault"
                        cases.append(pre + [flt, op, destroy])
                        cases.append(pre + [flt, op, op, op] + rel_ops + [destroy])
                    if not quick or n <= 3:
                        for k1, k2 in itertools.combinations(range(1, 6), 2):
                            cases.append(pre + ["fault %d %d" % (k1, k2), op, op, op, destroy])
    # socket handle: hand contexts over to an event loop
    for ev in ("3 0 2", "2 1 2"):
        for n in range(0, 4):
            pre = ["evloop.new " + ev, "sockh.init"] + ["sockh.addctx"] * n
            for k in range(0, 3):
                flt = "fault %d" % k if k else "fault"
                cases.append(pre + [flt, "sockh.addctx", "sockh.destroy", "evloop.delete"])
                cases.append(pre + [flt, "sockh.addctx", "sockh.addctx", "evloop.add", "evloop.delete", "sockh.destroy"])
    for _ in range(30 if quick else 600):
        ops = ["evloop.new %d %d 3" % (rng.choice([1, 2, 3]), rng.choice([0, 1])), "sockh.init"]
        for _i in range(rng.choice([3, 8, 20])):
            r = rng.random()
            if r < 0.3:
                ks = sorted(set(rng.choice([1, 1, 2, 3, 4]) for _j in range(rng.choice([1, 1, 2]))))
                ops.append("fault " + " ".join(map(str, ks)))
            elif r < 0.8:
                ops.append("sockh.addctx")
            else:
                ops.append("evloop.add")
        ops += ["sockh.destroy", "evloop.delete"]
        cases.append(ops)
    for k in range(0, 3):
        for n in (1, 2, 7, 64):
            cases.append(["fault %d" % k if k else "fault", "msort %d" % n, "msort %d" % n])
    # memory pool with fixed size / bounded growth
    for k in range(0, 4):
        cases.append(["mpool.init 1 8", "mpool.setflag 1", "mpool.alloc", "fault %d" % k, "mpool.alloc", "mpool.destroy"])
        cases.append(["mpool.init 4 8", "mpool.setmax 1"] + ["mpool.alloc"] * 4 + ["fault %d" % k, "mpool.alloc", "mpool.alloc", "mpool.destroy"])
    # (ii) seeded random multi-fault call sequences per family
    nrand = 1500 if quick else 15000
    for fam in INITS:
        variants, destroy = INITS[fam]
        init = INIT_OP[fam]
        g = GROW.get(fam)
        for _ in range(nrand if g else max(4, nrand // 4)):
            ops = []
            length = rng.choice([6, 12, 30, 60]) if g else rng.choice([4, 8, 12])
            alive = False
            for _i in range(length):
                r = rng.random()
                if r < 0.22:
                    nf = rng.choice([0, 1, 1, 1, 2, 2, 3, 4])
                    ks = sorted(set(rng.choice([1, 1, 2, 2, 3, 3, 4, 5, 6, 8, 10, 13]) for _j in range(nf)))
                    ops.append(("fault " + " ".join(map(str, ks))).strip())
                elif r < 0.40 or not g:
                    if rng.random() < 0.6:
                        ops.append((init + " " + rng.choice(variants)).strip())
                    else:
                        ops.append(destroy)
                else:
                    if fam in ("avl", "htab"):
                        key = rng.randrange(0, 6)
                        o = rng.choice([g[1][0].split(" ")[0] + " %d" % key] * 3 + [g[2][0].split(" ")[0] + " %d" % key])
                    elif fam == "trie":
                        o = "trie.insert " + "".join(rng.choice("ab") for _j in range(rng.randrange(0, 4)))
                        o = o.strip()
                    elif fam in ("alist", "heap", "stack", "mpool") and rng.random() < 0.15:
                        o = g[1][-1].split(" ")[0] + " %d" % rng.choice([1, 3, 9, 17, 40])
                    else:
                        o = rng.choice(g[1][:2] * 3 + g[2])
                    ops.append(o)
            ops.append(destroy)
            cases.append(ops)
    # (iii) malformed stream: invalid parameters, calls on objects that do not exist, unknown ops
    bad = [
        ["chan.init 0 0", "chan.destroy"], ["chan.init -1 16", "chan.init 4 16", "chan.destroy"],
        ["rbuf.init 0 0", "rbuf.destroy"], ["rbuf.init 8 24", "rbuf.destroy"], ["dbuf.init 0", "dbuf.destroy"],
        ["abq.init -3", "abq.destroy"], ["tsp.init 0 8", "tsp.destroy"], ["tsp.init 4 0", "tsp.destroy"],
        ["rmp.init 4 0", "rmp.destroy"], ["fctl.init 0 4", "fctl.destroy"], ["fctl.init 1 0", "fctl.destroy"],
        ["alist.init 2147483648", "alist.destroy"], ["heap.init 4294967298", "heap.destroy"],
        ["stack.init 2147483648", "stack.destroy"], ["llist.init 2147483648", "llist.destroy"],
        ["queue.init 2147483649", "queue.destroy"], ["avl.init 4294967296", "avl.destroy"],
        ["trie.init 2147483648", "trie.destroy"], ["htab.init 8 2147483648", "htab.destroy"],
        ["mpool.init 4 0", "mpool.destroy"], ["alog.init 0"], ["evloop.new 9 0 -5", "evloop.add", "evloop.delete"],
        ["alist.init 1", "alist.ensure 2147483648", "alist.remove", "alist.remove", "alist.destroy"],
        ["heap.init 1", "heap.extract", "heap.ensure 4294967296", "heap.destroy"],
        ["stack.init 1", "stack.pop", "stack.ensure 2147483648", "stack.destroy"],
        ["avl.init 0", "avl.insert 1", "avl.insert 1", "avl.remove 2", "avl.destroy"],
        ["htab.init 8 0", "htab.put 1", "htab.put 1", "htab.remove 9", "htab.destroy"],
        ["evloop.new 2 0 1", "evloop.add", "evloop.add", "evloop.add", "evloop.delete"],
        ["ffctl.init 0 4", "ffctl.destroy"], ["ffctl.init 1 0", "ffctl.destroy"], ["evpipe.destroy"], ["sock.close"],
        ["sockh.addctx"], ["sockh.init", "sockh.addctx", "sockh.destroy"], ["evloop.new 3 0 2", "sockh.addctx", "evloop.delete"],
        ["chan.destroy"], ["mpool.alloc"], ["evloop.add"], ["alog.log"], ["nonsense 1 2"], ["trie.insert a"],
        ["chan.init 4 0", "chan.init 4 0", "chan.destroy", "chan.destroy"],
        ["llist.remove", "llist.init 0", "llist.remove", "llist.destroy", "llist.insert"],
        ["maring.cleanup", "maring.init", "maring.init", "maring.cleanup"],
    ]
    for b in bad:
        cases.append(b)
        cases.append(["fault 1"] + b)
    return cases


LINE = re.compile(r"ret=(\w+) inj=(\d+) acq=(\d+) live=(-?\d+)/(-?\d+) st=(.*)$")
DESTROY_OPS = {v[1] for v in INITS.values()}


def judge_detail(ops, out):
    """Spec-level monitor over the implementation's own answers.  Returns (message, signature) of
    the first violation of the property, or None."""
    prev = (0, 0, 0, 0)        # inj, acq, mem, fds
    alive = set()
    for op, ln in zip(ops, out):
        name = op.split(" ")[0]
        if name == "fault":
            prev = (0, 0, prev[2], prev[3])
            continue
        if " wildclose=" in ln:
            return ("%s: the library closed a descriptor it had not acquired (%s) — a descriptor of the "
                    "application is gone" % (op, ln.split(" wildclose=")[1]), name + ":wild-close")
        m = LINE.match(ln)
        if not m:
            continue
        ret, inj, acq, mem, fds, st = m.group(1), int(m.group(2)), int(m.group(3)), int(m.group(4)), int(m.group(5)), m.group(6)
        dinj = inj - prev[0]
        fam = fam_of(name)
        if dinj > 0 and ret == "void" and name in MUST_REPORT:
            return ("%s: an acquisition failed during the call and the call cannot report it (void): the "
                    "handed-over context is silently dropped (state %s)" % (op, st), name + ":failure-not-reported")
        if dinj > 0 and ret == "ok":
            return ("%s: success reported although %d acquisition(s) failed during the call (object state %s)"
                    % (op, dinj, st), name + ":ok-despite-fault")
        if ret == "fail" and dinj > 0 and name not in WEAK_FAIL and (mem, fds) != (prev[2], prev[3]):
            return ("%s: failed call did not release what it acquired: live %d/%d -> %d/%d"
                    % (op, prev[2], prev[3], mem, fds), name + ":leak-on-failure")
        if name in INIT_OP.values():
            if ret == "ok":
                alive.add(fam)
            elif ret == "fail" and "d" in re.sub(r"[a-z]+=", "", st.replace("(d)", "D")).replace("poll", "").replace("epoll", ""):
                pass        # dangling field after a failed init: reported when destroy trips over it
        if name in DESTROY_OPS:
            alive.discard(fam)
            if not alive and (mem, fds) != (0, 0):
                return ("%s: resources still live after destroy: %d blocks, %d descriptors" % (op, mem, fds),
                        name + ":leak-after-destroy")
        if name == "msort" and ret == "ok" and st != "sorted":
            return ("%s: success but output not sorted" % op, name + ":unsorted")
        prev = (inj, acq, mem, fds)
    return None


def judge(ops, out):
    r = judge_detail(ops, out)
    return r[0] if r else None


def signature_of(ops, res):
    if res["crash"]:
        i = min(len(res["out"]), len(ops) - 1)
        kind = "hang" if "hang:" in res["crash"] else "crash"
        m = re.search(r"ERROR: AddressSanitizer: ([\w-]+)", res["crash"])
        if m:
            kind = m.group(1)
        # the op that died, together with the call before it
        prev = [o.split(" ")[0] for o in ops[:i] if not o.startswith("fault")]
        return "%s:%s after %s" % (ops[i].split(" ")[0], kind, prev[-1] if prev else "-")
    r = judge_detail(ops, res["out"])
    return r[1] if r else None


def nontrivial(ops, out):
    # at least one fault was actually injected into a library call
    for ln in out:
        m = LINE.match(ln)
        if m and int(m.group(2)) > 0:
            return True
    return False


def fault_position_stats(ctx, cases, impl):
    """per API call: the set of (1-based) positions, counted from the start of the call, at which an
    acquisition was made to fail, and the largest number of acquisitions seen in one call"""
    hit, width = {}, {}
    for ops, r in zip(cases, impl):
        prev_inj = prev_acq = 0
        fl = []
        for op, ln in zip(ops, r["out"]):
            name = op.split(" ")[0]
            if name == "fault":
                fl = [int(x) for x in op.split(" ")[1:]]
                prev_inj = prev_acq = 0
                continue
            m = LINE.match(ln)
            if not m:
                continue
            inj, acq = int(m.group(2)), int(m.group(3))
            width[name] = max(width.get(name, 0), acq - prev_acq)
            for k in fl:
                if prev_acq < k <= acq:
                    hit.setdefault(name, set()).add(k - prev_acq)
            prev_inj, prev_acq = inj, acq
    ctx.cov["fault_positions"] = {n: {"acquisitions_max": width[n], "positions_failed": sorted(hit.get(n, []))}
                                  for n in sorted(width) if width[n] > 0}
    ctx.cov["functions_with_every_position_failed"] = sum(
        1 for n in width if width[n] > 0 and set(range(1, width[n] + 1)) <= hit.get(n, set()))
    ctx.cov["functions_acquiring"] = sum(1 for n in width if width[n] > 0)
    inv = vlib.json.load(open(os.path.join(HERE, "sites.json")))
    want = {o for v in inv["sites"].values() for o in v.get("ops", [])}
    missing = sorted(o for o in want if not hit.get(o))
    ctx.cov["inventory_ops_never_faulted"] = missing
    if missing:
        ctx.broken.append("tieA-sites: operations of the inventory never hit by a fault: " + ",".join(missing))


def main(ctx):
    ctx.cov["trusted_base"] = TRUSTED
    ctx.assumptions += TRUSTED[3:]
    ctx.cov["rule"] = (
        "per constructor (27 families, every variant of flags/backends/node pool): every single fault position "
        "k=0..11 x {destroy, retry+destroy, retry-with-cleared-schedule} and every pair k1<k2; per grower/inserter: "
        "every small state (0..n previous insertions) x every k=0..4 x {destroy, repeat thrice + release}; seeded "
        "random multi-fault call sequences per family; malformed stream. distinct = distinct op lists; "
        "non-trivial = at least one acquisition actually failed inside a library call")
    ctx.lean_obligations("drv_c18", PROOFS, GREP, leanchecker=["MgProof.C18.Props"])
    # tie A (static): the acquisition call sites of the source are the recorded ones
    problems, stats = sites.compare(vlib.REPO, os.path.join(HERE, "sites.json"))
    ctx.cov["ties"]["tieA_sites"] = stats
    ctx.cov["obligations"] += 1
    if problems:
        ctx.broken.append("tieA-sites: acquisition sites differ from checks/C18/sites.json: " + "; ".join(problems[:6]))
    else:
        ctx.cov["discharged"] += 1
    if not getattr(ctx, "driver_ok", False):
        return
    try:
        hcmd, dcmd = build(ctx)
    except vlib.BuildError as e:
        ctx.broken.append("harness-build: " + str(e)[:500])
        return
    cases = gen_cases(ctx)
    # pre-pass on the implementation: keep at most two cases per distinct failure signature so that the
    # (expensive) shrinking in seq_correspondence runs once per defect, not once per failing case
    impl = vlib.run_cases(hcmd, cases, timeout=900)
    fault_position_stats(ctx, cases, impl)
    kept, seen, dropped = [], {}, 0
    for ops, r in zip(cases, impl):
        sig = signature_of(ops, r) if (r["crash"] or judge_detail(ops, r["out"])) else None
        if sig is not None:
            seen[sig] = seen.get(sig, 0) + 1
            if seen[sig] > 1:
                dropped += 1
                continue
        kept.append(ops)
    ctx.cov["failing_cases_by_signature"] = seen
    ctx.cov["evaluations"] += dropped
    vlib.seq_correspondence(ctx, hcmd, dcmd, kept, nontrivial=nontrivial, keep_prefix=0,
                            signature_of=signature_of, judge=judge, max_reports=24, timeout=900)
    # shrinking may turn one failure into another (e.g. drop the fault and keep a leak): report every
    # signature of the pre-pass that has no replay yet, shrunk with a signature-preserving predicate
    reported = set()
    for path, _ in ctx.violations:
        try:
            reported.add(vlib.json.load(open(path)).get("signature"))
        except (OSError, ValueError):
            pass
    first_case = {}
    for ops, r in zip(cases, impl):
        if r["crash"] or judge_detail(ops, r["out"]):
            first_case.setdefault(signature_of(ops, r), ops)
    for sig, ops in first_case.items():
        if sig in reported or len(ctx.violations) >= 40:
            continue

        def same(o, sig=sig):
            return signature_of(o, vlib.run_one(hcmd, o)) == sig
        small = vlib.ddmin(ops, same, keep_prefix=0, max_tests=60)
        a = vlib.run_one(hcmd, small)
        b = vlib.run_one(dcmd, small)
        if signature_of(small, a) != sig:
            small, a, b = ops, vlib.run_one(hcmd, ops), vlib.run_one(dcmd, ops)
        ctx.violation({"kind": "property-fails-on-implementation", "tie": "tieB", "ops": small,
                       "implementation": a["out"], "impl_crash": a["crash"], "model_and_spec": b["out"],
                       "first_difference": {"impl": (a["crash"] or judge(small, a["out"]) or "")[:1500]},
                       "how_to_replay": "bin/check C18 --replay <this file>"},
                      found_input=True, signature=sig)
    ctx.cov["exhaustive"] = True
    ctx.cov["explanation"] = ("exhaustive=true: every single-fault position of every listed function is enumerated "
                              "(see fault_positions: positions_failed covers 1..acquisitions_max); the theorems "
                              "quantify over all fault schedules and all call sequences")


def replay(ctx, path):
    hcmd, dcmd = build(ctx)
    vlib.lake_build(["drv_c18"])
    return vlib.replay_file(ctx, path, hcmd, dcmd, judge=judge)
