"""C03 — no lost wake-up, no deadlock: a consumer blocked on an empty channel / ring buffer /
array blocking queue / double buffer is resumed by the next completed write, a producer blocked
on a full queue / buffer is resumed as the consumer keeps consuming; no interleaving of the
documented usage ends with every participant asleep while messages remain.

Theorems: lean/MgProof/C03/Channel.lean (channel, all 4 x 3 modes: blocked-implies-reason
invariant + no_global_sleep), ABQ.lean, DoubleBuffer.lean (mutex + condvar protocols),
RingBuffer.lean (by the C02 builder). Models, drivers and harnesses are those of C01
(channel / ABQ / double buffer: harness/c01/conc_chan.c, drv_c01) and C02 (ring buffer).

Tie C / search: the real object code runs under the deterministic scheduler of
harness/tsanshim, which *observes* "every live thread blocked" (end deadlock) and endless
spinning (end step-limit) instead of waiting for them. Configurations are completable by
construction (every read can be served, every producer can finish), so any run not ending
`ok` is a violation. Schedules: PCT with few change points (parks a sleeper between its check
and its sleep while the other side runs to completion), uniform random, and preemption-bounded
systematic exploration, which places the waker exactly inside every check-to-sleep window of
the small configurations. Every schedule is also replayed on the Lean model (trace equality)."""
import importlib.util
import json
import os
import vlib

HERE = os.path.dirname(os.path.abspath(__file__))


def _load(pid):
    p = os.path.join(vlib.VERIF, "checks", pid, "check.py")
    if not os.path.exists(p):
        return None
    spec = importlib.util.spec_from_file_location("check_%s_for_c03" % pid, p)
    mod = importlib.util.module_from_spec(spec)
    spec.loader.exec_module(mod)
    return mod


C01 = _load("C01")
try:
    C02 = _load("C02")
except Exception:                      # the ring-buffer part is optional here
    C02 = None

PROOFS = ["MgProof.C03.Channel", "MgProof.C03.DoubleBuffer", "MgProof.C03.ABQ", "MgProof.C03.ABQGlobal"]
if os.path.exists(os.path.join(vlib.LEAN, "MgProof", "C03", "RingBuffer.lean")):
    PROOFS.append("MgProof.C03.RingBuffer")
GREP = ["MgProof/C03", "MgModel/C01", "MgModel/Common", "Drv/C01.lean"]

TRUSTED = [
    "Lean 4.33 kernel; axioms printed by the audit (subset of propext, Classical.choice, Quot.sound)",
    "tie C: harness/tsanshim (own __tsan_* runtime + deterministic scheduler that models futex / pthread mutex / "
    "condvar / sched_yield and observes deadlock), harness/c01/conc_chan.c (+ harness/c02 for the ring buffer)",
    "futex (compare-and-block is atomic; wake n unblocks up to n, lowest tid first), pthread mutex / condition "
    "variable (POSIX, with spurious wake-ups) semantics are the scheduler's, trusted",
    "safety formulation: 'a state with every thread disabled while work remains is unreachable'; liveness under a "
    "fair scheduler follows but is not mechanised as a temporal property",
    "documented usage: one channel reader; the consumer keeps consuming until everything it asked for is delivered",
]


# --------------------------------------------------------------------------- generators
def pct(rng, depths=(1, 1, 2, 3)):
    return "pct %d %d" % (rng.randrange(1, 1 << 30), rng.choice(depths))


def rnd(rng):
    return "random %d" % rng.randrange(1, 1 << 30)


def gen_chan(ctx, per):
    """retrying writers, the reader reads everything: completable; reader modes that sleep (sync, mutex)
    get most of the budget, busy is kept for the spinning variant"""
    rng = ctx.rng
    runs = []
    for wl in C01.WLS:
        for rm in C01.RMS:
            for req in (3, 4, 5):
                cap = C01.pow2(req)
                for W in ((1,) if wl == "single" else (1, 2, 3)):
                    n = per if rm != "busy" else max(1, per // 3)
                    for i in range(n):
                        tot = rng.choice([1, 2, cap - 2, cap - 1, cap, 2 * cap])
                        tot = max(tot, W)
                        ns = [tot // W + (1 if w < tot % W else 0) for w in range(W)]
                        spur = rng.choice([0, 0, 200]) if rm == "mutex" else 0
                        fx = rng.choice([0, 0, 300]) if (rm == "sync" or wl == "sync") else 0
                        sched = pct(rng) if i % 3 else rnd(rng)
                        r = C01.chan_run(wl, rm, req, 0, tot, ns, sched, spur, fx)
                        runs.append(r)
    return runs


def gen_abq(ctx, n):
    rng = ctx.rng
    runs = []
    for i in range(n):
        cap = rng.choice([1, 1, 2, 3])
        P, C = rng.choice([1, 2, 3]), rng.choice([1, 2, 3])
        ns = [rng.randrange(1, 2 * cap + 3) for _ in range(P)]
        tot = sum(ns)
        ks = [0] * C
        for _ in range(tot):
            ks[rng.randrange(C)] += 1
        runs.append(C01.abq_run(cap, ns, ks, pct(rng) if i % 3 else rnd(rng), rng.choice([0, 0, 200])))
    return runs


def gen_dbuf(ctx, n):
    rng = ctx.rng
    runs = []
    for i in range(n):
        cap = rng.choice([1, 1, 2, 3])
        W = rng.choice([1, 2, 3, 4])
        nb = 0 if i % 4 else 1
        ns = [rng.randrange(1, 2 * cap + 3) for _ in range(W)]
        runs.append(C01.dbuf_run(cap, nb, 0, sum(ns), ns, pct(rng) if i % 3 else rnd(rng), rng.choice([0, 0, 200])))
    return runs


def judge(run, out):
    """progress oracle: the run must end `ok`; the C01 oracle (FIFO, exactly once, ...) runs as well,
    it also checks that every reader/consumer got everything it asked for"""
    st = C01.end_status(out)
    if st is None:
        return "no end line"
    if st != "ok":
        states = [l for l in out if l.startswith("state ")]
        return ("every participant asleep or spinning while messages remain to be exchanged: end %s %s"
                % (st, " | ".join(states)))
    return C01.judge(run, out)


def small_confs(ctx):
    b = 1 if ctx.quick else 2
    out = []
    for wl, rm in [("single", "sync"), ("single", "mutex"), ("sync", "sync"), ("sync", "mutex"), ("mutex", "sync"),
                   ("spin", "mutex")]:
        W = 1 if wl == "single" else 2
        ns = "2" if W == 1 else "1 1"
        out.append((["conf chan %s %s 3 0 2 %s" % (wl, rm, ns)], b + (1 if W == 1 else 0)))
    out.append((["conf chan sync sync 3 0 3 1 1 1"], 1))
    out.append((["conf abq 1 2 2 1 1 1 1"], b))
    out.append((["conf abq 1 1 2 2 1 1"], b))
    out.append((["conf dbuf 1 0 0 3 1 1 1"], b))
    out.append((["conf dbuf 2 0 0 4 2 2"], b))
    return out


def build(ctx):
    return C01.build(ctx)


def main(ctx):
    ctx.cov["trusted_base"] = TRUSTED
    ctx.assumptions += TRUSTED[2:]
    ctx.cov["rule"] = ("completable workloads only (every read can be served, every producer can finish): channel "
                       "4 writer locks x 3 reader modes x capacity {4,8} x W in 1..3 with retrying writers, array "
                       "blocking queue P,C in 1..3 at capacity 1..3, blocking and non-blocking double buffer with up to "
                       "4 producers, ring buffer (blocking reader modes); PCT schedules with 1-3 change points + random "
                       "+ preemption-bounded systematic exploration; a run ending deadlock / step-limit is a violation; "
                       "every schedule is replayed on the Lean model; distinct = distinct implementation traces")
    ctx.lean_obligations("drv_c01", PROOFS, GREP, leanchecker=["MgProof.C03.Channel"])
    if not getattr(ctx, "driver_ok", False):
        return
    try:
        hcmd, dcmd = build(ctx)
    except vlib.BuildError as e:
        ctx.broken.append("harness-build: " + str(e)[:500])
        return
    q = ctx.quick
    runs = gen_chan(ctx, 3 if q else 40) + gen_abq(ctx, 250 if q else 5000) + gen_dbuf(ctx, 250 if q else 5000)
    vlib.conc_correspondence(ctx, hcmd, dcmd, runs, judge=judge, label="tieC_sleepers")
    # systematic: the waker is placed in every check-to-sleep window of the small configurations
    sys_runs, exh = [], {}
    for conf, bound in small_confs(ctx):
        g = vlib.explore_schedules(hcmd, conf, bound, max_runs=1500 if q else 40000)
        n = 0
        for sched, out in g:
            n += 1
            sys_runs.append(C01.run_from_conf(conf, "replay " + " ".join(sched)))
        exh[" / ".join(conf)] = {"preemption_bound": bound, "schedules": n, "exhausted": g.exhausted}
    ctx.cov["systematic"] = exh
    vlib.conc_correspondence(ctx, hcmd, dcmd, sys_runs, judge=judge, label="tieC_systematic")
    # ring buffer part (C02 builder): same oracle idea, its own harness / driver / model
    if C02 is not None and hasattr(C02, "c03_runs"):
        ok, out = vlib.lake_build(["drv_c02"])
        if not ok:
            ctx.broken.append("lean-build:drv_c02")
        else:
            try:
                h2, d2 = C02.build(ctx)
                vlib.conc_correspondence(ctx, h2, d2, C02.c03_runs(ctx), judge=C02.c03_judge, label="tieC_ringbuffer")
                if hasattr(C02, "systematic"):
                    saved = ctx.cov.get("systematic")
                    C02.systematic(ctx, h2, d2)
                    ring = ctx.cov.get("systematic") or {}
                    ctx.cov["systematic"] = dict(saved or {})
                    ctx.cov["systematic"].update({"ring: " + k: v for k, v in ring.items()})
            except vlib.BuildError as e:
                ctx.broken.append("harness-build(C02): " + str(e)[:300])
    else:
        ctx.cov["ties"]["tieC_ringbuffer"] = "not available in this tree (checks/C02 missing)"
    ctx.cov["exhaustive"] = all(v.get("exhausted") for v in ctx.cov["systematic"].values())


def replay(ctx, path):
    r = json.load(open(path))
    ops = r.get("ops") or (r.get("model_difference") or {}).get("ops")
    if not ops:
        print("replay names a broken obligation only:", r.get("broken"))
        return 2
    if r.get("tie") == "tieC_ringbuffer" and C02 is not None:
        return C02.replay(ctx, path)
    hcmd, dcmd = build(ctx)
    vlib.lake_build(["drv_c01"])
    a, ops = vlib.run_replay_conc(hcmd, ops)
    b = vlib.run_one(dcmd, [l for l in ops if not l.startswith("fine ")])
    print("\n".join(a["out"]))
    conf = [l for l in ops if not l.startswith("sched ") and l != "run"]
    sched = next((l[6:] for l in ops if l.startswith("sched ")), "random 1")
    run = C01.run_from_conf(conf, sched)
    msg = ("crash: " + a["crash"]) if a["crash"] else judge(run, a["out"])
    if msg:
        print("VIOLATION property=%s replay=%s" % (ctx.pid, path))
        print(msg)
        return 1
    if [l for l in a["out"] if not l.startswith("#")] != [l for l in b["out"] if not l.startswith("#")]:
        print("model and implementation traces differ")
        return 1
    print("replay passes on the current tree")
    return 0
