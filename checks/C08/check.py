"""C08 — shared-memory ring buffer: variable-length messages intact, once, in order; the
writer's region never overlaps unread data; a drained ring accepts N/2-1 cache lines;
a dead writer leaves only whole committed messages visible.

Model: lean/MgModel/C08/Ring.lean (one step per shared access of shm_ring_buffer.c at -O0);
theorems: lean/MgProof/C08/Props.lean (invariants over every reachable state of every
schedule). Tie C: the real object code of /repo under the deterministic scheduler
(harness/tsanshim), the schedule it chose replayed on the Lean model, traces equal event
for event. Sequential histories are single-thread programs through the same harness.
Tie A: memory orders of the atomic builtins (static inventory, and in every trace)."""
import itertools
import json
import os
import re
import vlib

PROOFS = ["MgProof.C08.Lemmas", "MgProof.C08.Frame", "MgProof.C08.StepW", "MgProof.C08.StepW2",
          "MgProof.C08.StepR", "MgProof.C08.Main", "MgProof.C08.Crash", "MgProof.C08.HB", "MgProof.C08.HBStep",
          "MgProof.C08.HBStep2", "MgProof.C08.HBStep3", "MgProof.C08.Props"]
GREP = ["MgModel/C08", "MgProof/C08", "MgModel/Common", "Drv/C08.lean"]
REPO_SRCS = ["muggle/c/sync/shm_ring_buffer.c", "muggle/c/sync/spinlock.c",
             "muggle/c/base/thread.c", "muggle/c/base/utils.c"]

TRUSTED = [
    "Lean 4.33 kernel; axioms printed by the audit (subset of propext, Classical.choice, Quot.sound)",
    "tie C: harness/tsanshim (own __tsan_* runtime + deterministic scheduler, incl. vs_kill_after for the "
    "writer crash), clang's TSan instrumentation pass as the source of 'every shared access', "
    "harness/c08/conc_shmring.c (most general client; its muggle_shm_open returns a zeroed heap region "
    "instead of a SysV segment: muggle/c/sync/shm.c is not executed), lib/vlib.py comparison",
    "memory model: sequentially consistent values + release/acquire knowledge sets; cross-process "
    "visibility of the shared mapping is the same release/acquire model",
    "payload modelled per cache line (fill byte), exact while no region handed to a writer overlaps "
    "unread data, which is what is proved; message lengths are uint32 (1 <= n < 2^32), n = 0 is "
    "indistinguishable from the wrap marker and outside the property",
    "no-wedge clause: proved (no_wedge_partial) and enforced as VIOLATION with the exact constant of the code: a "
    "drained ring accepts every request of at most N/2-1 cache lines INCLUDING the 3-line overhead of "
    "CAL_BYTES_CACHELINE (at most 64*(N/2-3)-8 payload bytes; nothing for N = 4); the literal clause (up to half "
    "the ring's bytes) is false for the code (no_wedge_literal_fails), probed on the real code and reported as "
    "known finding C08-no-wedge-literal-half-ring",
]

EXPECTED_SITES = {
    "muggle_shm_ringbuf_update_cached_remain": [("__atomic_load_n", "0"), ("__atomic_store_n", "3")],
    "muggle_shm_ringbuf_w_move": [("__atomic_store_n", "3")],
    "muggle_shm_ringbuf_r_fetch": [("__atomic_load_n", "2"), ("__atomic_store_n", "0")],
    "muggle_shm_ringbuf_r_move": [("__atomic_store_n", "3")],
}


def static_inventory(ctx):
    inv = {}
    f = "muggle/c/sync/shm_ring_buffer.c"
    for fn, exp in EXPECTED_SITES.items():
        try:
            sites = vlib.atomic_sites(f, fn)
        except vlib.BuildError as e:
            ctx.broken.append("tieA: " + str(e)[:200])
            continue
        got = [(s[0], s[1][-1]) for s in (sites or [])]
        inv[fn] = got
        if got != exp:
            ctx.broken.append("tieA: atomic sites of %s are %s, the model assumes %s" % (fn, got, exp))
    ctx.cov["ties"]["tieA_atomic_sites"] = inv


def build(ctx):
    exe = vlib.build_conc_harness("C08", "conc_shmring", ["harness/c08/conc_shmring.c"], REPO_SRCS)
    return [exe], ctx.driver_cmd("drv_c08")


# ---------------------------------------------------------------------------------------
# sizes
# ---------------------------------------------------------------------------------------

def ncl_of(n):
    return (8 + n + 63) // 64 + 2


def bytes_for(ncl, rng=None):
    """a payload length whose request is `ncl` cache lines (ncl >= 3)"""
    lo, hi = (ncl - 3) * 64 - 8 + 1, (ncl - 2) * 64 - 8
    lo = max(lo, 1)
    if rng is None:
        return hi
    return rng.choice([lo, hi, rng.randint(lo, hi)])


# ---------------------------------------------------------------------------------------
# reference walk used ONLY to generate histories that reach every cursor position
# (the oracle is the Lean model / the judge, never this)
# ---------------------------------------------------------------------------------------

def walk_alloc(N, st, ncl):
    W, R, CR, mark = st
    if CR < ncl:
        if R > W:
            CR = R - W - 1
        else:
            right, left = N - W - 1, R - 1
            if right >= ncl:
                CR = right
            elif left >= ncl:
                mark, W, CR = W, 0, left
        if CR < ncl:
            return (W, R, CR, mark), False
    return (W + ncl, R, CR - ncl, mark), True


def reach_histories(N, sizes, cap=4000):
    """BFS over (W, R, cached_remain, marker) of a sequential client; returns one shortest op
    history per abstract position (W, R, marker)."""
    from collections import deque
    start = (0, 0, N - 1, None)
    seen = {start: []}
    best = {}
    dq = deque([(start, [], ())])   # state, ops, queue of pending ncl
    seenq = {(start, ())}
    while dq and len(seenq) < cap * 8:
        st, ops, q = dq.popleft()
        key = (st[0], st[1], st[3])
        if key not in best:
            best[key] = ops
        for k in sizes:
            st2, ok = walk_alloc(N, st, k)
            q2 = q + (k,) if ok else q
            if (st2, q2) not in seenq and len(ops) < 40:
                seenq.add((st2, q2))
                dq.append((st2, ops + ["a%d" % bytes_for(k)], q2))
        # fetch
        W, R, CR, mark = st
        if q:
            if mark is not None and R == mark:
                if W != 0:
                    st2, q2 = (W, q[0], CR, None), q[1:]
                else:
                    st2, q2 = st, q
            else:
                st2, q2 = (W, R + q[0], CR, mark), q[1:]
            if (st2, q2) not in seenq and len(ops) < 40:
                seenq.add((st2, q2))
                dq.append((st2, ops + ["f"], q2))
    return best


# ---------------------------------------------------------------------------------------
# generators
# ---------------------------------------------------------------------------------------

def seq_run(N, ops, kind="seq", wf=True):
    return {"conf": ["conf %d 0" % (N * 64), "thr " + " ".join(ops)], "sched": "random 1",
            "kind": kind, "wf": wf, "N": N}


def gen_sequential(ctx):
    rng, q = ctx.rng, ctx.quick
    runs = []
    # (i) bounded-exhaustive: all histories over {3,4,5 cache lines, fetch}
    for N, L in ((4, 5 if q else 7), (8, 6 if q else 8), (16, 5 if q else 7)):
        alpha = ["a%d" % bytes_for(3), "a%d" % bytes_for(4), "a%d" % bytes_for(5), "f"]
        for ops in itertools.product(alpha, repeat=L):
            runs.append(seq_run(N, list(ops), "seq-exh"))
    # every reachable (W, R, marker) position, then a probing suffix
    reach_stats = {}
    for N in (4, 8, 16, 32, 64):
        sizes = sorted(set(k for k in (3, 4, 5, 6, N // 2 - 1, N // 2, N // 2 + 1, N - 2, N - 1) if 3 <= k < N))
        best = reach_histories(N, sizes, cap=1500 if q else 6000)
        reach_stats[N] = len(best)
        keys = sorted(best, key=lambda k: (k[0], k[1], -1 if k[2] is None else k[2]))
        if q and len(keys) > 400:
            keys = rng.sample(keys, 400)
        for key in keys:
            for suffix in (["f", "a1", "f", "f"], ["a%d" % bytes_for(max(3, N // 2 - 1)), "f", "f", "f"],
                           ["a%d" % bytes_for(rng.choice(sizes), rng) for _ in range(3)] + ["f"] * 4):
                runs.append(seq_run(N, best[key] + suffix, "seq-reach"))
    # the wrap marker at every slot it can occupy (N/2 < M <= N-1): fill up to M, drain, then ask for more
    # than the right side has; variants leave 0, 1 or all messages unread when the writer wraps
    for N in (8, 16, 32, 64):
        for M in range(N // 2 + 1, N):
            parts, rest = [], M
            while rest:
                k = 5 if rest == 5 else 4 if rest % 3 == 1 and rest >= 4 else 5 if rest % 3 == 2 and rest >= 5 else 3
                if rest - k in (1, 2):
                    k = rest
                parts.append(k)
                rest -= k
            fill = ["a%d" % bytes_for(k) for k in parts]
            big = "a%d" % bytes_for(max(3, N - M))
            for unread in (0, 1):
                fs = ["f"] * max(0, len(parts) - unread)
                for tail in (["f"] * 4, ["f", "a1", "f", "f", "f"], ["a1", "a1", "f", "f", "f", "f"]):
                    runs.append(seq_run(N, fill + fs + [big] + tail, "seq-reach"))
    ctx.cov["sequential_positions_targeted"] = reach_stats
    # (ii) long random histories biased to boundaries
    for i in range(300 if q else 6000):
        N = rng.choice([4, 8, 8, 16, 16, 32, 64])
        half = N // 2
        ops = []
        for _ in range(rng.randint(10, 60)):
            x = rng.random()
            if x < 0.45:
                k = rng.choice([3, 3, 4, 5, max(3, half - 1), max(3, half - 1), half, half + 1, N - 1,
                                rng.randint(3, max(3, N - 1))])
                ops.append("a%d" % bytes_for(max(3, k), rng))
            elif x < 0.5:
                ops.append("A%d" % bytes_for(rng.randint(3, max(3, half)), rng))
            else:
                ops.append("f")
        runs.append(seq_run(N, ops, "seq-rand"))
    # (iii) requested sizes that are NOT a power-of-two number of cache lines (and not a multiple of
    # the cache line): open rounds the ring up; the segment must be as large as the rounded ring.
    # Histories that fill the ring to its last cache line, so that a segment shorter than the ring is
    # written past its end (canary / ASan).
    odd = [5 * 64, 6 * 64 + 1, 7 * 64, 9 * 64, 12 * 64 - 3, 20 * 64, 24 * 64 + 7, 33 * 64, 40 * 64, 48 * 64, 100, 2500]
    for nbytes in odd:
        N = vlib_geometry(nbytes)
        for rep in range(2 if q else 12):
            ops = []
            while len(ops) < 56:          # (harness and driver accept 64 operations per thread)
                k = rng.choice([max(3, N // 2 - 1), max(3, N // 2 - 1), max(3, N // 4), max(3, N // 3), 3, 5])
                ops += ["a%d" % bytes_for(k, rng), "f"] if rng.random() < 0.7 else ["a%d" % bytes_for(k, rng)]
            ops = ops[:56] + ["f"] * 4
            r = seq_run(N, ops, "seq-odd-size")
            r["conf"][0] = "conf %d 0" % nbytes
            runs.append(r)
    return runs


def gen_malformed(ctx):
    """sizes outside the property's range: 0 (looks like the wrap marker), larger than the ring,
    2^32-1; only model == implementation and 'no crash / canary intact' are required"""
    rng, q = ctx.rng, ctx.quick
    runs = []
    for i in range(150 if q else 2000):
        N = rng.choice([4, 8, 16, 64])
        ops = []
        for _ in range(rng.randint(3, 30)):
            x = rng.random()
            if x < 0.2:
                ops.append(rng.choice(["a0", "A0", "a%d" % (N * 64), "a%d" % (N * 64 - 8), "a%d" % (N * 64 * 2),
                                       "a4294967295", "a4294967232", "a2147483648", "a67108864"]))
            elif x < 0.55:
                ops.append("a%d" % bytes_for(rng.randint(3, max(3, N // 2)), rng))
            else:
                ops.append("f")
        runs.append(seq_run(N, ops, "malformed", wf=not any(o in ("a0", "A0") for o in ops)))
    return runs


def gen_concurrent(ctx):
    rng, q = ctx.rng, ctx.quick
    runs = []

    def sizes(N, cnt):
        half = N // 2
        return ["a%d" % bytes_for(max(3, rng.choice([3, 3, 4, 5, half - 1, half - 1, half, rng.randint(3, max(3, N - 1))])), rng)
                for _ in range(cnt)]

    def sched():
        s = rng.randrange(1, 1 << 30)
        return ("random %d" % s) if rng.random() < 0.55 else ("pct %d %d" % (s, rng.choice([1, 2, 3, 5])))
    # one writer, one reader (with and without the write lock)
    for i in range(700 if q else 25000):
        N = rng.choice([4, 8, 8, 16, 16, 32, 64])
        nw = rng.randint(1, 9)
        conf = ["conf %d %d" % (N * 64, rng.choice([0, 0, 1])), "thr " + " ".join(sizes(N, nw)),
                "thr " + " ".join(["f"] * rng.randint(1, 14))]
        runs.append({"conf": conf, "sched": sched(), "kind": "spsc", "wf": True, "N": N})
    # several writers under the write lock, one reader
    for i in range(300 if q else 10000):
        N = rng.choice([8, 16, 16, 32, 64])
        k = rng.choice([2, 2, 3, 4])
        conf = ["conf %d 1" % (N * 64)] + ["thr " + " ".join(sizes(N, rng.randint(1, 5))) for _ in range(k)] + \
               ["thr " + " ".join(["f"] * rng.randint(1, 14))]
        # random only: under PCT a lock holder that the shim's spin heuristic mistakes for a spinner
        # (three equal loads of write_cursor in a row) is starved by a higher-priority real spinner
        runs.append({"conf": conf, "sched": "random %d" % rng.randrange(1, 1 << 30), "kind": "mpsc",
                     "wf": True, "N": N})
    return runs


def gen_crash(ctx, hcmd):
    """writer killed before each of its visible operations: for a few base programs, first measure
    how many steps the writer takes, then one run per kill point (times a few schedules)."""
    rng, q = ctx.rng, ctx.quick
    bases = []
    for N, prog in ((8, ["a1", "a57", "a1", "a1"]), (8, ["a50", "a50", "a50", "a50", "a50"]),
                    (16, ["a300", "a1", "a200", "a300"]), (4, ["a1", "a1"]), (64, ["a1900", "a1000", "a1900"])):
        for lock in (0, 1):
            bases.append((N, lock, prog))
    runs = []
    for N, lock, prog in bases:
        conf = ["conf %d %d" % (N * 64, lock), "thr " + " ".join(prog), "thr " + " ".join(["f"] * (len(prog) + 4))]
        # the writer running alone before the reader gives its maximal step count
        probe = vlib.run_one(hcmd, conf + ["sched prefix", "run"])
        sched = next((l.split()[1:] for l in probe["out"] if l.startswith("schedule")), [])
        wsteps = sum(1 for t in sched if t == "0")
        reps = 2 if q else 12
        for k in range(0, wsteps + 1):
            for r in range(reps):
                s = rng.randrange(1, 1 << 30)
                runs.append({"conf": conf + ["kill 0 %d" % k, "maxsteps 1500"],
                             "sched": ("random %d" % s) if r % 2 == 0 else ("pct %d 2" % s),
                             "kind": "crash", "wf": True, "N": N, "kill": k})
    # a dying writer among several (may die holding the lock: the others spin, the reader must not care)
    for i in range(40 if q else 1500):
        N = rng.choice([8, 16])
        conf = ["conf %d 1" % (N * 64), "thr a1 a%d a1" % bytes_for(4), "thr a%d a1" % bytes_for(3),
                "thr f f f f f f f", "kill 0 %d" % rng.randint(0, 70), "maxsteps 400"]
        runs.append({"conf": conf, "sched": "random %d" % rng.randrange(1, 1 << 30), "kind": "crash-mw",
                     "wf": True, "N": N, "kill": 1})
    return runs


# ---------------------------------------------------------------------------------------
# deep states: an operation-atomic history (several laps of the ring, stale headers of earlier laps
# in the slots) followed by the systematic exploration of the last writer operation against the
# next reader operations, and the writer dying at every step of that last operation
# ---------------------------------------------------------------------------------------

def gen_histories(ctx, count):
    """(N, writer program, reader program, operation-level order) — the reader mostly keeps up, so
    the writer turns around often, at many different slots, over slots that held headers before"""
    rng = ctx.rng
    res = []
    for _ in range(count):
        N = rng.choice([8, 8, 16, 16, 16, 32, 4])
        half = N // 2
        ks = [k for k in (3, 3, 4, 5, 6, 7, half - 1) if 3 <= k <= max(3, half - 1)]
        wprog, order, pending = [], [], 0
        nw = rng.randint(4, 22)
        while len(wprog) < nw:
            burst = rng.choice([1, 1, 2, 3])
            for _ in range(burst):
                wprog.append("a%d" % bytes_for(rng.choice(ks), rng))
                order.append(0)
                pending += 1
            take = pending if rng.random() < 0.75 else rng.randint(0, pending)
            order += [1] * take
            pending -= take
        # the tail: one more writer operation against two more reader operations
        last = rng.choice(ks + [half - 1, half - 1]) if half - 1 >= 3 else 3
        wprog.append("a%d" % bytes_for(max(3, last), rng))
        nreads = sum(1 for t in order if t == 1)
        rprog = ["f"] * (nreads + 2)
        res.append((N, wprog, rprog, order))
    return res


def deep_tail(ctx, hcmd, dcmd):
    from concurrent.futures import ThreadPoolExecutor
    q = ctx.quick
    hist = gen_histories(ctx, 120 if q else 500)
    confs = [["conf %d 0" % (N * 64), "thr " + " ".join(w), "thr " + " ".join(r)] for N, w, r, o in hist]
    first = vlib.run_cases(hcmd, [c + ["sched opseq " + " ".join(map(str, o)), "run"]
                                  for c, (N, w, r, o) in zip(confs, hist)])
    jobs = []
    for c, (N, w, r, o), a in zip(confs, hist, first):
        sched = next((l.split()[1:] for l in a["out"] if l.startswith("schedule ")), None)
        k = next((int(l.split()[1]) for l in a["out"] if l.startswith("#opseq-steps")), None)
        if a["crash"] or sched is None or k is None:
            continue
        jobs.append((c, N, sched[:k], sched))
    runs = []
    stats = {"histories": len(jobs), "tail_schedules": 0, "exhausted": 0, "writer_crash_points": 0}

    def explore(job):
        c, N, pre, full = job
        g = vlib.explore_schedules(hcmd, c, 2, max_runs=250 if q else 600, start_prefix=pre, workers=1)
        out = [{"conf": c, "sched": "replay " + " ".join(s), "kind": "deep-tail", "wf": True, "N": N} for s, _ in g]
        return out, g.exhausted
    with ThreadPoolExecutor(vlib.NPROC) as ex:
        for out, exh in ex.map(explore, jobs):
            runs += out
            stats["tail_schedules"] += len(out)
            stats["exhausted"] += bool(exh)
    # the writer dies before each step of its last operation; the reader then runs on alone
    for c, N, pre, full in jobs:
        w0 = sum(1 for t in pre if t == "0")
        wtail = sum(1 for t in full[len(pre):] if t == "0")
        for j in range(0, wtail + 1, 1 if q and wtail <= 12 or not q else 2):
            runs.append({"conf": c + ["kill 0 %d" % (w0 + j), "maxsteps 3000"],
                         "sched": "prefix " + " ".join(pre + ["0"] * j), "kind": "deep-crash", "wf": True,
                         "N": N, "kill": 1})
            stats["writer_crash_points"] += 1
    ctx.cov["deep_tail"] = stats
    vlib.conc_correspondence_batched(ctx, hcmd, dcmd, runs, judge=judge, label="tieC_deep_tail", escalate=False)


def load_corpus():
    d = os.path.join(vlib.VERIF, "corpus", "C08")
    runs = []
    if os.path.isdir(d):
        for f in sorted(os.listdir(d)):
            if f.endswith(".ops"):
                lines = [l.rstrip("\n") for l in open(os.path.join(d, f)) if l.strip() and not l.startswith("#")]
                conf = [l for l in lines if not l.startswith("sched ") and l != "run"]
                sched = next((l[len("sched "):] for l in lines if l.startswith("sched ")), "random 1")
                N = vlib_geometry(int(conf[0].split()[1]))
                runs.append({"conf": conf, "sched": sched, "kind": "corpus", "wf": True, "N": N,
                             "kill": 1 if any(l.startswith("kill") for l in conf) else None})
    return runs


def vlib_geometry(nbytes):
    n = (nbytes + 63) // 64
    p = 1
    while p < n:
        p *= 2
    return p


# ---------------------------------------------------------------------------------------
# property-level oracle on the implementation's own trace
# ---------------------------------------------------------------------------------------

RE_NOTE = re.compile(r"T(\d+) note (.*)")


def judge(run, out):
    end = next((l for l in out if l.startswith("end ")), None)
    oc = next((l for l in out if l.startswith("outcome ")), "")
    geo = next((l for l in out if l.startswith("geometry ")), "")
    if end is None or not oc or not geo:
        return "no end / outcome line"
    kv = dict(x.split("=") for x in oc.split()[1:])
    if kv.get("canary") != "ok":
        return "write outside the shared region (canary smashed)"
    N = int(geo.split()[1].split("=")[1])
    if N != run["N"]:
        return "geometry: n_cacheline=%d, expected %d" % (N, run["N"])
    if not run.get("wf", True):
        return None
    if not end.startswith("end ok") and not run.get("kill"):
        return "run did not complete: " + end
    committed, consumed = [], 0
    last_alloc, pend_at_load, drained_at, fetched_cur = {}, {}, {}, {}
    for l in out:
        m = re.match(r"T(\d+) ld write_cursor (-?\d+) acq", l)
        if m:
            pend_at_load[m.group(1)] = len(committed) - consumed
            continue
        m = re.match(r"T(\d+) xchg write_lock 0->1 acq", l)
        if m:
            drained_at[m.group(1)] = (len(committed) == consumed)
            continue
        m = RE_NOTE.match(l)
        if not m:
            continue
        t, txt = m.group(1), m.group(2)
        w = txt.split()
        f = dict(x.split("=") for x in w[1:] if "=" in x)
        if w[0] == "alloc-begin":
            drained_at[t] = (len(committed) == consumed)
        elif w[0] == "alloc":
            c, k = int(f["at"]), int(f["ncl"])
            if c < 0 or c + k > N:
                return "region handed to the writer leaves the ring: cells [%d,%d) of %d" % (c, c + k, N)
            for (mc, mn, mt, mk) in committed[consumed:]:
                if c < mc + mk and mc < c + k:
                    return ("region handed to the writer [%d,%d) overlaps the committed, unread message at "
                            "cells [%d,%d)" % (c, c + k, mc, mc + mk))
            last_alloc[t] = (c, k)
        elif w[0] == "alloc-fail":
            k = int(f["ncl"])
            if drained_at.get(t) and k + 1 <= N // 2:
                return "wedge: drained ring of %d cache lines refused a request of %d cache lines" % (N, k)
        elif w[0] == "commit":
            c, k = last_alloc.get(t, (None, None))
            if c != int(f["at"]):
                return "commit of a region that was not the one allocated"
            committed.append((c, int(f["n"]), int(f["tag"]), k))
        elif w[0] == "fetch" and w[1] == "none":
            if pend_at_load.get(t, 0) != 0:
                return "fetch reported nothing although %d committed message(s) were pending when it read the write cursor" % pend_at_load[t]
        elif w[0] == "fetch":
            if f.get("bytes") != "ok":
                return "payload bytes differ from the committed ones: " + l
            if consumed >= len(committed):
                return "fetch returned a message that was never committed (or twice): " + l
            mc, mn, mt, mk = committed[consumed]
            if (mc, mn, mt) != (int(f["at"]), int(f["n"]), int(f["tag"])):
                return "fetch returned %s, the next committed message is at=%d n=%d tag=%d" % (txt, mc, mn, mt)
            fetched_cur[t] = True
        elif w[0] == "consumed":
            consumed += 1
    for k in ("fifo_viol", "overlap_viol", "bounds_viol", "corrupt", "wedge"):
        if kv.get(k) != "0":
            return "harness ghost monitor: %s=%s" % (k, kv.get(k))
    if int(kv["committed"]) != len(committed) or int(kv["consumed"]) != consumed:
        return "harness counters disagree with the trace"
    return None


def positions(out):
    """(W, R, marker) positions visited by a trace (coverage statistic)"""
    W = R = 0
    mark = None
    lastz = None
    pos = set()
    for l in out:
        m = re.match(r"T\d+ w data\[(\d+)\] 0$", l)
        if m:
            lastz = int(m.group(1))
        m = re.match(r"T\d+ st write_cursor (-?\d+) rel", l)
        if m:
            W = int(m.group(1))
            if W == 0:
                mark = lastz
            pos.add((W, R, mark))
        m = re.match(r"T\d+ st read_cursor (-?\d+) (rel|rlx)", l)
        if m:
            R = int(m.group(1))
            if m.group(2) == "rlx":
                mark = None
            pos.add((W, R, mark))
    return pos


def signature_of(run, out, msg):
    return None


# ---------------------------------------------------------------------------------------
# the LITERAL no-wedge clause ("a drained ring always accepts a message of up to half its size")
# ---------------------------------------------------------------------------------------
LITERAL_SIG = "C08-no-wedge-literal-half-ring"


def gen_literal_probes():
    """For N = 4..64 and every cursor position p a drained ring can be at (0 and 3..N-1), reached
    directly and after one wrap (different cached_remain), a final request of at most half the ring's
    bytes whose cache-line count, overhead included, is above N/2-1 (the bound the code guarantees and
    the other generators test). Deterministic: the family is the same at every seed."""
    runs = []
    for N in (4, 8, 16, 32, 64):
        half_bytes = 32 * N
        probes = []
        for k in range(max(3, N // 2), N // 2 + 4):
            lo, hi = max(1, (k - 3) * 64 - 8 + 1), min((k - 2) * 64 - 8, half_bytes)
            if lo <= hi:
                probes += sorted({lo, hi})
        for p in [0] + list(range(3, N)):
            prefixes = [[] if p == 0 else ["a%d" % bytes_for(p), "f"]]
            if 3 <= p <= N - 3 and N - 2 >= 3:
                # go to N-2, drain, wrap to p (marker at N-2), drain across the marker
                prefixes.append(["a%d" % bytes_for(N - 2), "f", "a%d" % bytes_for(p), "f", "f"])
            for pre in prefixes:
                for n in probes:
                    r = seq_run(N, pre + ["a%d" % n], "seq-literal")
                    r.update(probe_n=n, probe_pos=p)
                    runs.append(r)
    return runs


def judge_literal(run, out):
    """('skip' | 'accepted' | 'refused', cursor position) for the final request of a literal probe."""
    n = run["probe_n"]
    committed = consumed = 0
    W = R = 0
    last_begin = None
    res = None
    for l in out:
        m = re.match(r"T\d+ st write_cursor (-?\d+) ", l)
        if m:
            W = int(m.group(1))
        m = re.match(r"T\d+ st read_cursor (-?\d+) ", l)
        if m:
            R = int(m.group(1))
        m = RE_NOTE.match(l)
        if not m:
            continue
        w = m.group(2).split()
        if w[0] == "commit":
            committed += 1
        elif w[0] == "consumed":
            consumed += 1
        elif w[0] == "alloc-begin":
            last_begin = (w[1] == "n=%d" % n, committed == consumed, W, R)
            res = None
        elif w[0] == "alloc-fail" and last_begin:
            res = "refused"
        elif w[0] == "alloc" and last_begin:
            res = "accepted"
    if not last_begin or not last_begin[0] or not last_begin[1] or last_begin[2] != last_begin[3] or res is None:
        return "skip", None      # the history did not bring the ring to a drained position (other code)
    return res, last_begin[2]


def literal_probes(ctx, hcmd, dcmd):
    runs = gen_literal_probes()
    # model == implementation and the ordinary oracle (which only knows the N/2-1 bound) on the same runs
    vlib.conc_correspondence(ctx, hcmd, dcmd, runs, judge=judge, label="tieB_literal_no_wedge_probes", escalate=False)
    outs = vlib.run_cases(hcmd, [r["conf"] + ["sched " + r["sched"], "run"] for r in runs])
    stats = {}
    first = None
    for r, o in zip(runs, outs):
        verdict, pos = judge_literal(r, o["out"])
        st = stats.setdefault(str(r["N"]), {"probes": 0, "refused": 0, "skipped": 0, "refused_positions": set()})
        if verdict == "skip":
            st["skipped"] += 1
            continue
        st["probes"] += 1
        if verdict == "refused":
            st["refused"] += 1
            st["refused_positions"].add(pos)
            if first is None:
                first = (r, o["out"], pos)
    for st in stats.values():
        st["refused_positions"] = sorted(st["refused_positions"])
    ctx.cov["literal_no_wedge_probes"] = {
        "what": "drained ring at every cursor position, request <= half the ring's bytes with more than N/2-1 cache "
                "lines (overhead included): the property's literal clause 3",
        "probes": sum(v["probes"] for v in stats.values()), "refused": sum(v["refused"] for v in stats.values()),
        "per_ring_size": stats}
    if first is not None:
        r, out, pos = first
        ncl = ncl_of(r["probe_n"])
        ctx.violation({"kind": "property-fails-on-implementation", "tie": "literal_no_wedge_probes",
                       "what": "drained ring of %d cache lines (both cursors at %d) refused a message of %d bytes "
                               "(%d cache lines with overhead), which is at most half the ring (%d bytes)"
                               % (r["N"], pos, r["probe_n"], ncl, 32 * r["N"]),
                       "conf": r["conf"], "ops": r["conf"] + ["sched " + r["sched"], "run"],
                       "implementation_trace": out[-40:],
                       "refused_of_probes": "%d of %d" % (ctx.cov["literal_no_wedge_probes"]["refused"],
                                                           ctx.cov["literal_no_wedge_probes"]["probes"])},
                      found_input=True, signature=LITERAL_SIG)


# ---------------------------------------------------------------------------------------

SYSTEMATIC = [
    # (N, lock, thread programs, preemption bound quick, thorough)
    (8, 0, ["a1 a1 a1", "f f f"], 2, 3),
    (8, 0, ["a57 a57", "f f"], 2, 3),
    (8, 0, ["a1 a1 a1 a1", "f f f f f"], 1, 2),
    (4, 0, ["a1 a1", "f f"], 2, 4),
    (16, 0, ["a300 a300 a200", "f f f f"], 1, 2),
    (8, 1, ["a1 a1", "a1", "f f f"], 1, 2),
]


def main(ctx):
    ctx.cov["trusted_base"] = TRUSTED
    ctx.assumptions += TRUSTED[2:]
    ctx.cov["rule"] = (
        "sequential histories (one thread issuing a<n>/A<n>/f): all histories over {3,4,5 cache lines, fetch} up to a "
        "length bound for N=4,8,16, one shortest history per reachable (write cursor, read cursor, wrap-marker slot) "
        "position for N=4..64 each followed by probing suffixes, long random histories biased to 56/57-byte and "
        "half-ring sizes; concurrent: one writer + one reader (with/without the write lock) and 2-4 writers under the "
        "lock + one reader under seeded random and PCT schedules, preemption-bounded systematic exploration of small "
        "configurations, and the writer killed before each of its visible operations; a separate malformed stream "
        "(n=0, n>ring, n=2^32-1) for model==implementation only; every schedule is replayed on the Lean model and "
        "the traces compared event for event; distinct = distinct implementation traces")
    ctx.lean_obligations("drv_c08", PROOFS, GREP, leanchecker=["MgProof.C08.Props"])
    if not getattr(ctx, "driver_ok", False):
        return
    static_inventory(ctx)
    try:
        hcmd, dcmd = build(ctx)
    except vlib.BuildError as e:
        ctx.broken.append("harness-build: " + str(e)[:500])
        return
    # (the families that escalate into a long search when only the trace tie breaks come after the
    # directed ones: the search is skipped once a concrete failing input is known)
    seq = gen_sequential(ctx)
    vlib.conc_correspondence(ctx, hcmd, dcmd, seq, judge=judge, label="tieB_sequential", escalate=False)
    # measured (not planned) coverage: (write cursor, read cursor, marker slot) positions the real code
    # went through in the position-directed histories
    reach = [r for r in seq if r["kind"] == "seq-reach"]
    outs = vlib.run_cases(hcmd, [r["conf"] + ["sched " + r["sched"], "run"] for r in reach])
    visited = {}
    for r, o in zip(reach, outs):
        visited.setdefault(r["N"], set()).update(positions(o["out"]))
    ctx.cov["sequential_positions_visited"] = {str(n): len(v) for n, v in sorted(visited.items())}
    ctx.cov["sequential_marker_slots_visited"] = {
        str(n): sorted({p[2] for p in v if p[2] is not None}) for n, v in sorted(visited.items())}
    vlib.conc_correspondence(ctx, hcmd, dcmd, gen_malformed(ctx), judge=judge, label="tieB_malformed", escalate=False)
    literal_probes(ctx, hcmd, dcmd)
    deep_tail(ctx, hcmd, dcmd)
    corpus = load_corpus()
    if corpus:
        vlib.conc_correspondence(ctx, hcmd, dcmd, corpus, judge=judge, label="corpus")
    vlib.conc_correspondence(ctx, hcmd, dcmd, gen_concurrent(ctx), judge=judge, label="tieC_random")
    vlib.conc_correspondence(ctx, hcmd, dcmd, gen_crash(ctx, hcmd), judge=judge, label="tieC_writer_crash")
    sys_runs, exh = [], {}
    for N, lock, progs, bq, bt in SYSTEMATIC:
        conf = ["conf %d %d" % (N * 64, lock)] + ["thr " + p for p in progs]
        bound = bq if ctx.quick else bt
        g = vlib.explore_schedules(hcmd, conf, bound, max_runs=2500 if ctx.quick else 60000)
        n = 0
        for sched, out in g:
            n += 1
            sys_runs.append({"conf": conf, "sched": "replay " + " ".join(sched), "kind": "systematic",
                             "wf": True, "N": N})
        exh[" | ".join(conf)] = {"preemption_bound": bound, "schedules": n, "exhausted": g.exhausted}
    ctx.cov["systematic"] = exh
    ctx.cov["exhaustive"] = all(v["exhausted"] for v in exh.values())
    vlib.conc_correspondence(ctx, hcmd, dcmd, sys_runs, judge=judge, label="tieC_systematic")


def replay(ctx, path):
    hcmd, dcmd = build(ctx)
    vlib.lake_build(["drv_c08"])
    r = json.load(open(path))
    ops = r.get("ops") or (r.get("model_difference") or {}).get("ops")
    if not ops:
        print("replay names a broken obligation only:", r.get("broken"))
        return 2
    a = vlib.run_one(hcmd, ops)
    # the model replays the schedule the implementation actually executed on THIS tree (a schedule
    # recorded on another tree may be longer or shorter than what this tree needs)
    sched = next((l[len("schedule "):] for l in a["out"] if l.startswith("schedule ")), "")
    mops = [l for l in ops if not l.startswith("sched ") and l != "run"] + ["sched replay " + sched, "run"]
    b = vlib.run_one(dcmd, mops)
    print("\n".join(a["out"]))
    nb = int(ops[0].split()[1])
    wf = not any(re.search(r"\b[aA]0\b", l) for l in ops if l.startswith("thr"))
    run = {"conf": ops[:-2], "wf": wf, "N": vlib_geometry(nb),
           "kill": 1 if any(l.startswith("kill") or l.startswith("maxsteps") for l in ops) else None}
    if a["crash"]:
        print("VIOLATION property=C08 replay=%s" % path)
        print("crash: " + a["crash"][:1000])
        return 1
    if any(l.startswith("end replay-diverged") for l in a["out"]):
        # the recorded schedule does not fit this tree (it was recorded on different code): only the
        # part that could be replayed is judged
        print("# the recorded schedule diverges on this tree after the steps shown; judging the prefix")
        run["kill"] = 1
    msg = judge(run, a["out"])
    if msg:
        print("VIOLATION property=C08 replay=%s" % path)
        print(msg)
        return 1
    ao = [l for l in a["out"] if not l.startswith("#")]
    bo = [l for l in b["out"] if not l.startswith("#")]
    if ao != bo and not any(l.startswith("end replay-diverged") for l in ao):
        print("model and implementation traces differ")
        return 1
    print("replay passes on the current tree")
    return 0
