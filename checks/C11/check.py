"""C11 — sequence containers (array list, stack, linked list, queue) and pointer slot.
Theorems: lean/MgProof/C11/Props.lean; models: lean/MgModel/C11/*.lean;
tie B: harness/c11/seq_containers.c against the real array_list.c, stack.c,
linked_list.c, queue.c, pointer_slot.c (+ memory_pool.c, utils.c)."""
import itertools
import json
import vlib

PROOFS = ["MgProof.C11.LemmasStore", "MgProof.C11.LemmasAL", "MgProof.C11.LemmasStack",
          "MgProof.C11.LemmasLink", "MgProof.C11.LemmasDMem", "MgProof.C11.LemmasSurgery",
          "MgProof.C11.LemmasLL", "MgProof.C11.LemmasLLOps", "MgProof.C11.LemmasQueue",
          "MgProof.C11.LemmasPS", "MgProof.C11.LemmasPSOps", "MgProof.C11.Props"]
GREP = ["MgModel/C11", "MgProof/C11", "MgModel/Common", "Drv/C11.lean"]
REPO_SRCS = ["muggle/c/dsaa/array_list.c", "muggle/c/dsaa/linked_list.c", "muggle/c/dsaa/queue.c",
             "muggle/c/dsaa/stack.c", "muggle/c/memory/pointer_slot.c",
             "muggle/c/memory/memory_pool.c", "muggle/c/base/utils.c"]

TRUSTED = [
    "Lean 4.33 kernel; axioms as printed by the audit (subset of propext, Classical.choice, Quot.sound)",
    "tie B: harness/c11/seq_containers.c + lib/vlib.py comparison (node handles numbered by the harness in "
    "allocation order; data pointers are small integers; free callback logged by the harness)",
    "pointer_slot.c is compiled with -DNDEBUG (release configuration): in a debug build MUGGLE_ASSERT aborts "
    "on exactly the refusals the property asks for (insert when full, double remove)",
    "malloc failure is not modelled (C18); the node pool of linked list / queue is modelled by its used/capacity "
    "counters only (its ring is C06); the memory a freed node occupied is not modelled (handles of freed nodes are "
    "never passed to the API: the API cannot validate them)",
    "capacities stay below 2^30 (the C code refuses growth at 2^31 nodes); pointer-slot requests <= 2^31",
    "array-list indices are C ints (-2^31 <= index < 2^31)",
]

FAST_ENV = {"ASAN_OPTIONS": vlib.ASAN_ENV["ASAN_OPTIONS"] + ":symbolize=0"}
INT_MIN, INT_MAX = -2 ** 31, 2 ** 31 - 1
U32 = 2 ** 32


def build(ctx):
    def pff(rel):
        return ["-DNDEBUG"] if rel.endswith("pointer_slot.c") else []
    exe = vlib.build_harness("C11", "seq_containers", ["harness/c11/seq_containers.c"], REPO_SRCS,
                             per_file_flags=pff)
    return [exe], ctx.driver_cmd("drv_c11")


# --------------------------------------------------------------------------
# array list
# --------------------------------------------------------------------------

def al_norm(n, i):
    if i >= 0:
        return i if i < n else None
    return n + i if -i <= n else None


def al_probe(n):
    """read back every position in [-n-1, n] (and the size)"""
    return ["al_get %d" % i for i in range(-n - 1, n + 1)] + ["al_size"]


def al_exhaustive(cap, prefix_vals, depth, fr_mode):
    """every history of `depth` ops (insert/append/remove at every index in
    [-size-1, size], clear) after a prefix that appends prefix_vals; the list is
    dumped after every op and every position is read back at the end."""
    cases = []
    pre = ["al_init %d" % cap] + ["al_append -1 %d" % v for v in prefix_vals]

    def rec(ops, n, d, nextv):
        if d == 0:
            cases.append(pre + ops + al_probe(n) + ["al_cap"])
            return
        for i in range(-n - 1, n + 1):
            ok = al_norm(n, i) is not None or (n == 0 and i in (0, -1))
            for kind in ("insert", "append"):
                v = 0 if (nextv % 5 == 4) else nextv
                rec(ops + ["al_%s %d %d" % (kind, i, v), "al_dump"], n + 1 if ok else n, d - 1, nextv + 1)
            okr = al_norm(n, i) is not None
            fr = fr_mode if fr_mode in (0, 1) else (d + i) % 2
            rec(ops + ["al_remove %d %d" % (i, fr), "al_dump"], n - 1 if okr else n, d - 1, nextv)
        rec(ops + ["al_clear %d" % (1 if fr_mode else 0), "al_dump"], 0, d - 1, nextv)

    rec([], len(prefix_vals), depth, 100)
    return cases


def al_random(rng, nops):
    cap = rng.choice([0, 1, 2, 3, 8, 16])
    ops = ["al_init %d" % cap]
    n = 0
    for k in range(nops):
        r = rng.random()
        if r < 0.55 or n == 0:
            bias = rng.random()
            if bias < 0.7 and n > 0:
                i = rng.choice([0, -1, n - 1, -n, rng.randrange(-n, n)])
            elif n == 0:
                i = rng.choice([0, -1, 1, -2])
            else:
                i = rng.choice([n, -n - 1, n + 1, -n - 2])
            ok = al_norm(n, i) is not None or (n == 0 and i in (0, -1))
            kind = rng.choice(["insert", "append", "append"])
            v = rng.choice([0, 1, 2, 3, k + 10])
            ops.append("al_%s %d %d" % (kind, i, v))
            n += 1 if ok else 0
        elif r < 0.8:
            i = rng.choice([0, -1, n - 1, -n, n, -n - 1, rng.randrange(-n - 1, n + 1)])
            ops.append("al_remove %d %d" % (i, rng.randrange(2)))
            n -= 1 if al_norm(n, i) is not None else 0
        elif r < 0.84:
            ops.append("al_clear %d" % rng.randrange(2))
            n = 0
        elif r < 0.9:
            ops.append("al_find %d %d" % (rng.randrange(-n - 1, n + 1), rng.choice([0, 1, 2, 3, 11])))
        elif r < 0.95:
            ops.append("al_get %d" % rng.randrange(-n - 2, n + 2))
        elif r < 0.97:
            ops.append("al_ensure %d" % rng.choice([0, 1, n, 2 * n + 1, 64, 200]))
        else:
            ops.append("al_dump")
        if k % 16 == 15:
            ops.append("al_dump")
    ops += ["al_dump", "al_size", "al_cap"] + ["al_get %d" % i for i in (0, -1, n - 1, -n, n, -n - 1)]
    return ops


# --------------------------------------------------------------------------
# stack / queue
# --------------------------------------------------------------------------

def st_exhaustive(cap, depth):
    cases = []
    alphabet = ["push", "pop 0", "pop 1", "clear 1", "top"]
    for seq in itertools.product(alphabet, repeat=depth):
        ops = ["st_init %d" % cap]
        v = 1
        for k, a in enumerate(seq):
            if a == "push":
                ops.append("st_push %d" % (0 if k == 2 else v))
                v += 1
            else:
                ops.append("st_" + a)
            ops.append("st_dump")
        ops += ["st_top", "st_size", "st_cap"]
        cases.append(ops)
    return cases


def q_exhaustive(cap, depth):
    cases = []
    alphabet = ["enq", "deq 0", "deq 1", "clear 1", "front"]
    for seq in itertools.product(alphabet, repeat=depth):
        ops = ["q_init %d" % cap]
        v = 1
        for k, a in enumerate(seq):
            if a == "enq":
                ops.append("q_enq %d" % (0 if k == 2 else v))
                v += 1
            else:
                ops.append("q_" + a)
            ops.append("q_dump")
        ops += ["q_front", "q_size", "q_pool"]
        cases.append(ops)
    return cases


def st_random(rng, nops):
    ops = ["st_init %d" % rng.choice([0, 1, 2, 3, 8])]
    for k in range(nops):
        r = rng.random()
        burst = rng.random() < 0.05
        if r < 0.55:
            for _ in range(rng.choice([1, 1, 1, 9, 33]) if burst else 1):
                ops.append("st_push %d" % rng.choice([0, 1, 2, k + 5]))
        elif r < 0.85:
            ops.append("st_pop %d" % rng.randrange(2))
        elif r < 0.88:
            ops.append("st_clear %d" % rng.randrange(2))
        elif r < 0.92:
            ops.append("st_ensure %d" % rng.choice([0, 1, 5, 64, 100]))
        elif r < 0.97:
            ops.append("st_top")
        else:
            ops.append("st_dump")
    ops += ["st_dump", "st_size", "st_cap", "st_top"]
    return ops


def q_random(rng, nops):
    ops = ["q_init %d" % rng.choice([0, 0, 1, 2, 3, 8])]
    for k in range(nops):
        r = rng.random()
        burst = rng.random() < 0.05
        if r < 0.5:
            for _ in range(rng.choice([1, 9, 33]) if burst else 1):
                ops.append("q_enq %d" % rng.choice([0, 1, 2, k + 5]))
        elif r < 0.85:
            for _ in range(rng.choice([1, 9, 33]) if burst else 1):
                ops.append("q_deq %d" % rng.randrange(2))
        elif r < 0.88:
            ops.append("q_clear %d" % rng.randrange(2))
        elif r < 0.94:
            ops.append("q_front")
        elif r < 0.97:
            ops.append("q_pool")
        else:
            ops.append("q_dump")
    ops += ["q_dump", "q_size", "q_pool", "q_front"]
    return ops


# --------------------------------------------------------------------------
# linked list
# --------------------------------------------------------------------------

def ll_probe(live):
    ops = ["ll_dump", "ll_size", "ll_first", "ll_last", "ll_pool"]
    for n in live:
        ops += ["ll_next n%d" % n, "ll_prev n%d" % n]
    return ops


def ll_exhaustive(cap, depth):
    """every history of `depth` ops: insert-before / append-after every live node
    and NULL, remove of every live node, clear; dump after every op."""
    cases = []

    def rec(ops, live, d, nid):
        if d == 0:
            cases.append(["ll_init %d" % cap] + ops + ll_probe(live) +
                         ["ll_find - %d" % 7, "ll_find - 0"])
            return
        for at in [None] + live:
            tok = "-" if at is None else "n%d" % at
            for kind in ("insert", "append"):
                v = 0 if nid == 1 else 5 + (nid % 3)
                rec(ops + ["ll_%s %s %d" % (kind, tok, v), "ll_dump"], live + [nid], d - 1, nid + 1)
        for n in live:
            rec(ops + ["ll_remove n%d %d" % (n, (d + n) % 2), "ll_dump"],
                [x for x in live if x != n], d - 1, nid)
        if live:
            rec(ops + ["ll_clear 1", "ll_dump"], [], d - 1, nid)

    rec([], [], depth, 0)
    return cases


def ll_random(rng, nops):
    ops = ["ll_init %d" % rng.choice([0, 0, 1, 2, 3, 8])]
    live = []
    nid = 0
    for k in range(nops):
        r = rng.random()
        if r < 0.5 or not live:
            at = rng.choice([None] + live[-3:] + live[:2] + ([rng.choice(live)] if live else []))
            tok = "-" if at is None else "n%d" % at
            ops.append("ll_%s %s %d" % (rng.choice(["insert", "append"]), tok, rng.choice([0, 1, 2, 3, k + 5])))
            live.append(nid)
            nid += 1
        elif r < 0.8:
            n = rng.choice(live)
            ops.append("ll_remove n%d %d" % (n, rng.randrange(2)))
            live.remove(n)
        elif r < 0.83:
            ops.append("ll_clear %d" % rng.randrange(2))
            live = []
        elif r < 0.9:
            at = rng.choice([None] + live)
            ops.append("ll_find %s %d" % ("-" if at is None else "n%d" % at, rng.choice([0, 1, 2, 3])))
        elif r < 0.95:
            ops.append("ll_%s n%d" % (rng.choice(["next", "prev"]), rng.choice(live)))
        elif r < 0.97:
            ops.append("ll_pool")
        else:
            ops.append("ll_dump")
        if k % 16 == 15:
            ops.append("ll_dump")
    ops += ["ll_dump", "ll_size", "ll_pool", "ll_first", "ll_last"]
    return ops


# --------------------------------------------------------------------------
# pointer slot
# --------------------------------------------------------------------------

def rounded(req):
    c = max(req, 1)
    p = 1
    while p < c:
        p *= 2
    return p


def ps_script(req, start):
    """fill to full + 1, iterate, remove every other entry, double remove, read
    every index, refill + 1, iterate, drain in reverse, iterate."""
    cap = rounded(req)
    ops = ["ps_init %d %d" % (req, start % U32)]
    for k in range(cap + 1):
        ops.append("ps_insert %d" % (100 + k))
    ops += ["ps_iter", "ps_dump"]
    for i in range(0, cap, 2):
        ops.append("ps_remove %d" % i)
    for i in range(0, cap, 2):
        ops.append("ps_remove %d" % i)
    ops += ["ps_iter"] + ["ps_get %d" % i for i in range(cap + 2)]
    for k in range((cap + 1) // 2 + 1):
        ops.append("ps_insert %d" % (200 + k))
    ops += ["ps_iter", "ps_dump"]
    for i in reversed(range(cap)):
        ops.append("ps_remove %d" % i)
    ops += ["ps_iter", "ps_insert 7", "ps_iter", "ps_dump"]
    return ops


def ps_exhaustive(req, start, depth):
    cap = rounded(req)
    cases = []
    alphabet = ["ps_insert"] + ["ps_remove %d" % i for i in range(cap + 1)]
    for seq in itertools.product(alphabet, repeat=depth):
        ops = ["ps_init %d %d" % (req, start % U32)]
        for k, a in enumerate(seq):
            ops.append(a + (" %d" % (k + 1) if a == "ps_insert" else ""))
        ops += ["ps_iter"] + ["ps_get %d" % i for i in range(cap + 1)] + ["ps_dump"]
        cases.append(ops)
    return cases


def ps_random(rng, nops):
    req = rng.choice(list(range(0, 34)) + [63, 64, 65, 100])
    cap = rounded(req)
    start = rng.choice([0, U32 - 1, U32 - 2, U32 - cap, U32 - cap - 1, U32 - 3 * cap + 1, rng.randrange(U32)])
    ops = ["ps_init %d %d" % (req, start % U32)]
    for k in range(nops):
        r = rng.random()
        burst = rng.random() < 0.06
        if r < 0.5:
            for _ in range(cap + 1 if burst else 1):
                ops.append("ps_insert %d" % rng.choice([0, 1, 2, k + 5]))
        elif r < 0.85:
            for _ in range(cap if burst else 1):
                ops.append("ps_remove %d" % rng.choice([0, cap - 1, cap, rng.randrange(cap + 1)]))
        elif r < 0.93:
            ops.append("ps_get %d" % rng.randrange(cap + 2))
        elif r < 0.98:
            ops.append("ps_iter")
        else:
            ops.append("ps_dump")
    ops += ["ps_iter", "ps_dump"] + ["ps_get %d" % i for i in range(min(cap, 40) + 1)]
    return ops


# --------------------------------------------------------------------------
# malformed / outside the valid domain
# --------------------------------------------------------------------------

def malformed(rng, quick):
    cases = []
    big = [2 ** 31, 2 ** 31 + 1, 2 ** 32, 2 ** 63, 2 ** 63 + 5]
    for c in big:
        cases.append(["al_init %d" % c, "al_size"])
        cases.append(["st_init %d" % c, "st_size"])
        cases.append(["ll_init %d" % c, "ll_size"])
        cases.append(["q_init %d" % c, "q_size"])
        cases.append(["al_init 2", "al_ensure %d" % c, "al_cap", "al_append -1 3", "al_dump"])
        cases.append(["st_init 2", "st_ensure %d" % c, "st_cap", "st_push 3", "st_dump"])
    far = [INT_MIN, INT_MIN + 1, INT_MAX, INT_MAX - 1, 2 ** 30, -2 ** 30, 1000, -1000]
    for n in (0, 1, 3):
        pre = ["al_init 2"] + ["al_append -1 %d" % (v + 1) for v in range(n)]
        for i in far + [n, n + 1, -n - 1, -n - 2]:
            if n == 0 and i in (0, -1):
                continue
            cases.append(pre + ["al_insert %d 9" % i, "al_dump", "al_append %d 9" % i, "al_dump",
                                "al_remove %d 1" % i, "al_dump", "al_get %d" % i, "al_find %d 1" % i,
                                "al_size", "al_cap"])
    # invalid position on a FULL list: the growth happens, contents must not change
    for cap in (1, 2, 4):
        pre = ["al_init %d" % cap] + ["al_append -1 %d" % (v + 1) for v in range(cap)]
        for i in (cap, -cap - 1, INT_MAX, INT_MIN):
            cases.append(pre + ["al_insert %d 9" % i, "al_dump", "al_cap", "al_append %d 9" % i,
                                "al_dump", "al_cap"])
    # operations on empty containers, before init, dead node handles
    cases.append(["al_dump", "st_pop 1", "q_deq 1", "ll_dump", "ps_insert 1"])
    cases.append(["st_init 1", "st_pop 1", "st_pop 0", "st_top", "st_clear 1", "st_dump"])
    cases.append(["q_init 1", "q_deq 1", "q_deq 0", "q_front", "q_clear 1", "q_dump", "q_pool"])
    cases.append(["ll_init 1", "ll_first", "ll_last", "ll_clear 1", "ll_find - 0", "ll_dump",
                  "ll_next n0", "ll_remove n0 1", "ll_insert n3 1"])
    cases.append(["ll_init 0", "ll_insert - 1", "ll_remove n0 1", "ll_remove n0 1", "ll_next n0",
                  "ll_insert n0 2", "ll_append n0 2", "ll_find n0 1", "ll_dump"])
    # pointer slot: indices at / beyond the capacity, double removes, full
    for req in (0, 1, 2, 3, 4, 5, 8, 33):
        cap = rounded(req)
        ops = ["ps_init %d %d" % (req, U32 - 1)]
        for i in (cap, cap + 1, U32 - 1, 2 ** 31, 0):
            ops += ["ps_remove %d" % i, "ps_get %d" % i]
        ops += ["ps_insert 5", "ps_remove 0", "ps_remove 0", "ps_get 0", "ps_iter"]
        for i in range(cap + 2):
            ops.append("ps_insert %d" % i)
        ops += ["ps_iter", "ps_remove %d" % cap, "ps_get %d" % cap, "ps_dump"]
        cases.append(ops)
    for _ in range(30 if quick else 300):
        n = rng.randrange(0, 6)
        pre = ["al_init %d" % rng.choice([1, 2, 8])] + ["al_append -1 %d" % (v + 1) for v in range(n)]
        ops = list(pre)
        for _ in range(20):
            i = rng.choice(far + [n, n + 1, -n - 1, -n - 2, rng.randrange(-2 ** 31, 2 ** 31)])
            ops.append(rng.choice(["al_insert %d 9", "al_append %d 9", "al_remove %d 1", "al_get %d",
                                   "al_find %d 1"]) % i)
        ops += ["al_dump", "al_size"]
        cases.append(ops)
    return cases


def gen_cases(ctx):
    quick = ctx.quick
    rng = ctx.rng
    cases = []
    # (i) bounded-exhaustive
    for cap in (1, 2):
        cases += al_exhaustive(cap, [], 3 if quick else 4, 2)
    cases += al_exhaustive(2, [1, 2], 2 if quick else 3, 1)       # starts full: growth on the next op
    cases += al_exhaustive(3, [1, 0, 3], 2 if quick else 3, 0)
    if not quick:
        cases += al_exhaustive(4, [1, 2, 3, 4], 2, 2)
    for cap in (1, 2):
        cases += st_exhaustive(cap, 5 if quick else 7)
    for cap in (0, 1, 2):
        cases += q_exhaustive(cap, 5 if quick else 7)
    for cap in (0, 1, 2):
        cases += ll_exhaustive(cap, 4 if quick else 5)
    for req in range(0, 34):
        cap = rounded(req)
        for start in (0, U32 - 1, U32 - cap, U32 - cap // 2 - 1, U32 - 2 * cap + 1):
            cases.append(ps_script(req, start))
    for req in (0, 1, 2, 3, 4):
        for start in (0, U32 - 1, U32 - 2):
            cases += ps_exhaustive(req, start, 5 if quick else (7 if req < 3 else 6))
    # (ii) random long histories crossing several growths
    nrand = 60 if quick else 600
    for _ in range(nrand):
        n = rng.choice([60, 300, 1200])
        cases.append(al_random(rng, n))
        cases.append(st_random(rng, n))
        cases.append(q_random(rng, n))
        cases.append(ll_random(rng, n))
        cases.append(ps_random(rng, n))
    # (iii) malformed stream
    cases += malformed(rng, quick)
    return cases


MUT = ("al_insert", "al_append", "st_push", "q_enq", "ll_insert", "ll_append", "ps_insert")
REFUSED = ("null", "full", "bad-op", "bad-node", "dead")


def nontrivial(ops, out):
    """at least one element was actually stored by the implementation"""
    for o, r in zip(ops[1:], out[1:]):
        if o.startswith(MUT) and r not in REFUSED and not r.startswith("err"):
            return True
    return False


def signature_of(ops, res):
    """identity of a failure for known-findings matching"""
    crash = res.get("crash") or ""
    if ops and ops[0].startswith("ps_init") and "heap-buffer-overflow" in crash:
        return "pointer_slot-npot-capacity-oob"
    if "array_list.c" in crash and "negation of -2147483648" in crash:
        return "array_list-get_index-int-min-ub"
    return None


def main(ctx):
    ctx.cov["trusted_base"] = TRUSTED
    ctx.assumptions += TRUSTED[2:]
    ctx.cov["rule"] = (
        "bounded-exhaustive: array list — every history of d ops (insert/append/remove at EVERY index in "
        "[-size-1,size], clear) from empty (cap 1,2) and from full prefilled lists, dump after every op and "
        "every position read back; stack/queue — every word of length d over {push/enq, pop/deq with and "
        "without callback, clear, top/front}; linked list — every history of d ops over insert-before/"
        "append-after every live node and NULL, remove of every live node, clear, with node pool (cap 1,2) and "
        "without (cap 0); pointer slot — fill/refuse/remove/double-remove/iterate script for EVERY requested "
        "capacity 0..33 x 5 counter presets around 2^32, plus every word of length d over {insert, remove i} "
        "for requests 0..4 x 3 presets. + seeded random long histories (60..1200 ops) per container crossing "
        "several growths + malformed stream (invalid capacities, far/INT_MIN/INT_MAX indices, invalid position "
        "on a full list, dead node handles, slot indices >= capacity). distinct = distinct op lists; "
        "non-trivial = the implementation stored at least one element")
    ctx.lean_obligations("drv_c11", PROOFS, GREP, leanchecker=["MgProof.C11.Props"])
    if not getattr(ctx, "driver_ok", False):
        return
    try:
        hcmd, dcmd = build(ctx)
    except vlib.BuildError as e:
        ctx.broken.append("harness-build: " + str(e)[:500])
        return
    cases = gen_cases(ctx)
    # A broken tree can crash thousands of cases; symbolising every sanitizer report costs
    # ~0.4 s each, so the bulk run is unsymbolised and the (few) replays are re-run afterwards
    # with symbolisation to carry a readable stack.
    vlib.seq_correspondence(ctx, hcmd, dcmd, cases, nontrivial=nontrivial, keep_prefix=1,
                            signature_of=signature_of if ctx.known else None, env=FAST_ENV,
                            timeout=180)
    for path, found in ctx.violations:
        try:
            r = json.load(open(path))
            if found and r.get("ops") and r.get("impl_crash"):
                r["impl_crash_symbolized"] = (vlib.run_one(hcmd, r["ops"])["crash"] or "")[:3000]
                with open(path, "w") as f:
                    f.write(json.dumps(r, indent=1, sort_keys=True, default=str))
        except (OSError, ValueError):
            pass
    ctx.cov["exhaustive"] = True
    ctx.cov["explanation"] = ("exhaustive=true refers to the bounded history spaces described in rule "
                              "(depths: quick 3-5, thorough 4-7); the theorems are unbounded")


def replay(ctx, path):
    hcmd, dcmd = build(ctx)
    vlib.lake_build(["drv_c11"])
    return vlib.replay_file(ctx, path, hcmd, dcmd)
