"""C07 — bytes buffer is a lossless byte FIFO. Theorems: lean/MgProof/C07/Props.lean;
model: lean/MgModel/C07/BytesBuffer.lean; tie B: harness/c07/seq_bytesbuf.c against the
real muggle/c/memory/bytes_buffer.c.

Case generation is driven by an explicit-state exploration: `Mirror` below is a
planning copy of the cursor arithmetic (w, r, t) used ONLY to enumerate the reachable
states of a capacity, a shortest history reaching each of them and which operations
change the state there. Every (state, operation, size) pair is then executed on the
real implementation and on the Lean model from `init`, and the set of states the
implementation really visited is compared with the planned set afterwards."""
import os
import vlib

PROOFS = ["MgProof.Tie.Bits", "MgProof.C07.Lemmas", "MgProof.C07.LemmasOps", "MgProof.C07.Props"]
GREP = ["MgProof/Tie", "MgModel/Generated", "MgModel/C07", "MgProof/C07", "MgModel/Common", "Drv/C07.lean"]
REPO_SRCS = ["muggle/c/memory/bytes_buffer.c"]

TRUSTED = [
    "Lean 4.33 kernel; axioms as printed by the audit (subset of propext, Classical.choice, Quot.sound)",
    "tie B: harness/c07/seq_bytesbuf.c + lib/vlib.py comparison (implementation line == model line == "
    "specification line); clang-14 ASan+UBSan; the harness zero-fills the block after init so dumps are canonical",
    "C int cursors modelled on unbounded Int (theorem cursors_bounded: all values stay in [0, c], c <= INT_MAX)",
    "contract of the zero-copy pairs assumed by the theorems: sizes >= 0; writer_move_n(p, k) is called with "
    "the pointer of the immediately preceding writer_fc(n) and 0 <= k <= n; the deprecated writer_move only "
    "with k == n (its header documents partial advances as wrong); reader_move(k) with k <= n of reader_fc(n)",
    "reader_move does not wrap r at t (zero-copy reader then needs one copying read): modelled as is, "
    "reader_fc's failure is specified by the file's own contiguous-readable accounting",
]


def build(ctx):
    exe = vlib.build_harness("C07", "seq_bytesbuf", ["harness/c07/seq_bytesbuf.c"], REPO_SRCS)
    return [exe], ctx.driver_cmd("drv_c07")


# ---------------------------------------------------------------------------
# planning mirror of the cursor arithmetic (fixed code); states are (w, r, t)
# ---------------------------------------------------------------------------

class Mirror:
    def __init__(self, c):
        self.c = c

    def cw(self, s):
        w, r, t = s
        if w >= r:
            return self.c - w if r != 0 else self.c - w - 1
        return r - w - 1

    def jw(self, s):
        w, r, t = s
        return r - 1 if (w >= r and r != 0) else 0

    def cr(self, s):
        w, r, t = s
        return w - r if w >= r else t - r

    def jr(self, s):
        w, r, t = s
        return 0 if w >= r else w

    def readable(self, s):
        return self.cr(s) + self.jr(s)

    def writable(self, s):
        return self.cw(s) + self.jw(s)

    def refresh(self, s):
        w, r, t = s
        return (0, 0, self.c) if w == r else s

    def adv(self, s, n):
        w, r, t = s
        w += n
        if t < w:
            t = self.c
        if w == self.c:
            w = 0
        return (w, r, t)

    def apply(self, s, op):
        """returns (state', ok)"""
        w, r, t = s
        c = self.c
        kind = op[0]
        if kind == "w":
            n = op[1]
            cw, jw = self.cw(s), self.jw(s)
            if cw >= n:
                return self.adv(s, n), True
            if cw + jw < n:
                return s, False
            if jw >= n:
                return (n, r, w), True
            return (n - cw, r, c), True
        if kind == "r":
            n = op[1]
            cr, jr = self.cr(s), self.jr(s)
            if cr >= n:
                r += n
                if r == t and r > w:
                    r = 0
                return self.refresh((w, r, t)), True
            if cr + jr < n:
                return s, False
            return self.refresh((w, n - cr, t)), True
        if kind == "f":
            return s, self.readable(s) >= op[1]
        if kind in ("wz", "wd"):
            n = op[1]
            k = op[2] if kind == "wz" else n
            cw, jw = self.cw(s), self.jw(s)
            if cw >= n:
                off = w
            elif jw >= n:
                off = 0
            else:
                return s, False
            if kind == "wd":
                if cw >= k:
                    return self.adv(s, k), True
                return (k, r, w), True
            if off == 0:
                if w > 0:
                    t = w
                return (k, r, t), True
            return self.adv(s, k), True
        if kind == "rz":
            n, k = op[1], op[2]
            cr = self.cr(s)
            if cr < n:
                return s, False
            if cr >= k:
                return self.refresh((w, r + k, t)), True
            return s, True
        if kind == "cl":
            return (0, 0, c), True
        raise ValueError(op)


def op_str(op):
    return " ".join(str(x) for x in op)


def all_ops(c):
    ops = []
    for n in range(0, c + 1):
        ops.append(("w", n))
        ops.append(("r", n))
        ops.append(("f", n))
        ops.append(("wd", n))
        for k in range(0, n + 1):
            ops.append(("wz", n, k))
            ops.append(("rz", n, k))
    ops.append(("cl",))
    return ops


def explore(c):
    """BFS over (w, r, t). Returns {state: shortest op path}."""
    m = Mirror(c)
    ops = all_ops(c)
    init = (0, 0, c)
    paths = {init: []}
    frontier = [init]
    while frontier:
        nxt = []
        for s in frontier:
            for op in ops:
                s2, _ = m.apply(s, op)
                if s2 not in paths:
                    paths[s2] = paths[s] + [op]
                    nxt.append(s2)
        frontier = nxt
    return paths


def exploration_cases(c, dump_block):
    """every reachable state x every operation/size. Operations that leave the state
    unchanged are chained in one case per state (with `st` after each: 'changes
    nothing'); every state-changing operation gets its own case, followed by the
    state, the block, and a full drain that exposes the whole remaining stream."""
    m = Mirror(c)
    paths = explore(c)
    ops = all_ops(c) + [("rz", 0, 1), ("rz", 1, 2), ("rz", 0, c)]
    cases = []
    planned = set()
    for s in sorted(paths):
        head = ["init %d" % c] + [op_str(o) for o in paths[s]]
        planned.add((c,) + s)
        same = head + ["st"] + (["bd"] if dump_block else [])
        for n in (0, 1, c - 1, c):
            same += ["wq %d" % n, "rq %d" % n]
        for op in ops:
            s2, ok = m.apply(s, op)
            if s2 == s:
                same += [op_str(op), "st"]
            else:
                planned.add((c,) + s2)
                tail = [op_str(op), "st"] + (["bd"] if dump_block else [])
                tail += ["f %d" % m.readable(s2), "r %d" % m.readable(s2), "st"]
                cases.append(head + tail)
        same += ["r %d" % m.readable(s), "st"]
        cases.append(same)
    return cases, planned


# ---------------------------------------------------------------------------
# random long histories, sizes biased to the boundaries of the current layout
# ---------------------------------------------------------------------------

def random_history(rng, c, length):
    m = Mirror(c)
    s = (0, 0, c)
    ops = ["init %d" % c]
    for _ in range(length):
        cw, jw, cr, rd, wr = m.cw(s), m.jw(s), m.cr(s), m.readable(s), m.writable(s)
        p = rng.random()
        if p < 0.30:
            n = rng.choice([cw, cw + 1, jw, jw + 1, wr, wr + 1, 1, 0, rng.randrange(0, c + 1),
                            rng.randrange(0, max(1, wr) + 1), max(0, cw - 1), max(0, jw - 1)])
            op = ("w", max(0, n))
        elif p < 0.50:
            n = max(0, rng.choice([cw, jw, jw, cw + 1, jw + 1, 1, rng.randrange(0, c + 1), max(0, jw - 1)]))
            k = rng.choice([n, n, 0, rng.randrange(0, n + 1), max(0, n - 1)])
            op = ("wz", n, k)
        elif p < 0.55:
            op = ("wd", max(0, rng.choice([cw, jw, jw + 1, cw + 1, rng.randrange(0, c + 1)])))
        elif p < 0.75:
            n = rng.choice([cr, cr + 1, rd, rd + 1, 1, 0, rng.randrange(0, c + 1), rng.randrange(0, max(1, rd) + 1),
                            max(0, cr - 1), max(0, rd - 1)])
            op = ("r", max(0, n))
        elif p < 0.80:
            op = ("f", max(0, rng.choice([cr, cr + 1, rd, rd + 1, rng.randrange(0, c + 1)])))
        elif p < 0.97:
            n = max(0, rng.choice([cr, cr, cr + 1, 1, rng.randrange(0, max(1, cr) + 1)]))
            k = rng.choice([n, n, 0, rng.randrange(0, n + 1)])
            op = ("rz", n, k)
        elif p < 0.98:
            op = ("cl",)
        else:
            ops.append("st")
            continue
        s, _ = m.apply(s, op)
        ops.append(op_str(op))
    ops += ["st", "r %d" % m.readable(s), "st"]
    return ops


def malformed_cases(rng, quick):
    cases = [
        ["w 1", "st", "r 1"],                                   # before init
        ["init 0", "st", "w 0", "w 1", "r 0", "f 0", "r 1", "wz 0 0", "rz 0 0", "st", "cl", "st"],
        ["init -1", "w 1", "st"],
        ["init -5", "st"],
        ["init 1", "st", "w 0", "st", "w 1", "r 0", "r 1", "wz 0 0", "wz 1 0", "wd 1", "rz 0 0", "rz 1 0", "cl", "st"],
        ["init 4", "w -1", "r -1", "f -3", "wz -1 0", "wz 2 -1", "wz 1 2", "wd -2", "rz -1 0", "rz 1 -1",
         "st", "bogus", "w", "r 1 2 3", "st x", "w 2", "st", "r 2147483647", "f 2147483647",
         "rz 2147483647 0", "w 2000000", "st"],
        ["init 8", "w 3", "rz 1 3", "st", "rz 1 4", "st", "rz 0 7", "st", "w 2", "rz 2 2", "r 9", "st"],
    ]
    for _ in range(20 if quick else 200):
        c = rng.choice([1, 2, 3, 5, 8])
        ops = ["init %d" % c]
        for _ in range(40):
            kind = rng.choice(["w", "r", "f", "wz", "wd", "rz", "cl", "st", "wq", "rq", "zz"])
            a = rng.choice([-2, -1, 0, 1, 2, c - 1, c, c + 1, 3 * c, 2147483647])
            b = rng.choice([-1, 0, 1, 2, c, c + 1, a, a + 1, a - 1]) if isinstance(a, int) else 0
            if kind in ("w", "wd", "wz") and a > 100000:
                a = c + 2
            if kind in ("wz", "rz"):
                ops.append("%s %d %d" % (kind, a, b))
            elif kind in ("cl", "st"):
                ops.append(kind)
            else:
                ops.append("%s %d" % (kind, a))
        ops.append("st")
        cases.append(ops)
    return cases


def gen_cases(ctx):
    quick = ctx.quick
    rng = ctx.rng
    cases = []
    planned = set()
    caps = range(2, 9) if quick else range(2, 17)
    for c in caps:
        cs, pl = exploration_cases(c, dump_block=True)
        cases += cs
        planned |= pl
    n_explore = len(cases)
    # random long histories
    for _ in range(200 if quick else 3000):
        c = rng.choice([2, 3, 4, 5, 7, 8, 13, 16, 17, 31, 64, 100, 255, 256, 1000, 4096])
        if quick and c > 256:
            c = rng.choice([13, 16, 64])
        cases.append(random_history(rng, c, rng.choice([40, 200, 600] if quick else [40, 200, 1000, 3000])))
    n_random = len(cases) - n_explore
    cases += malformed_cases(rng, quick)
    return cases, planned, n_explore, n_random


def nontrivial(ops, out):
    # at least one successful and one refused operation, or a state-changing success
    return any(l.startswith("1") for l in out)


def visited_states(cases, results):
    seen = set()
    for ops, res in zip(cases, results):
        if not ops or not ops[0].startswith("init "):
            continue
        try:
            c = int(ops[0].split()[1])
        except ValueError:
            continue
        for o, line in zip(ops, res["out"]):
            if o == "st":
                f = line.split()
                if len(f) == 7:
                    seen.add((c, int(f[0]), int(f[1]), int(f[2])))
    return seen


def main(ctx):
    ctx.cov["trusted_base"] = TRUSTED
    ctx.assumptions += TRUSTED[2:]
    ctx.cov["rule"] = (
        "explicit-state exploration per capacity (2..8 quick, 2..16 thorough): every (w,r,t) reachable from init "
        "x every operation write/read/fetch/writer_fc+writer_move_n (all partial advances k<=n)/writer_fc+"
        "writer_move/reader_fc+reader_move (all k<=n)/clear x every size 0..c, each executed on the real code from "
        "init by a shortest history, followed by state, block dump and a full drain; + seeded random long "
        "histories on capacities up to 4096 with sizes biased to cw/jw/cr/readable/writable +-1; + malformed "
        "stream (negative/huge sizes, ops before init, capacity 0/1/negative, contract-breaking k); + corpus. "
        "distinct = distinct op lists; non-trivial = at least one successful operation")
    ctx.lean_obligations("drv_c07", PROOFS, GREP, leanchecker=["MgProof.C07.Props"])
    vlib.tie_a_generated(ctx)
    if not getattr(ctx, "driver_ok", False):
        return
    try:
        hcmd, dcmd = build(ctx)
    except vlib.BuildError as e:
        ctx.broken.append("harness-build: " + str(e)[:500])
        return
    cases, planned, n_explore, n_random = gen_cases(ctx)
    ndiff = vlib.seq_correspondence(ctx, hcmd, dcmd, cases, nontrivial=nontrivial, keep_prefix=1)
    ctx.cov["exploration"] = {"cases": n_explore, "planned_states": len(planned), "random_histories": n_random}
    if ndiff == 0:
        # the implementation really visited exactly the planned states of the explored capacities
        impl = vlib.run_cases(hcmd, cases[:n_explore])
        seen = visited_states(cases[:n_explore], impl)
        ctx.cov["exploration"]["visited_states"] = len(seen)
        if seen != planned:
            ctx.broken.append("exploration: implementation visited %d states, plan has %d (missing %s, extra %s)" % (
                len(seen), len(planned), sorted(planned - seen)[:3], sorted(seen - planned)[:3]))
    ctx.cov["exhaustive"] = True
    ctx.cov["explanation"] = ("exhaustive=true refers to the explored space described in rule (all reachable cursor "
                              "states x all operations x all sizes for the listed capacities); the theorems are "
                              "unbounded (every capacity >= 1, every history)")


def replay(ctx, path):
    hcmd, dcmd = build(ctx)
    vlib.lake_build(["drv_c07"])
    return vlib.replay_file(ctx, path, hcmd, dcmd)
