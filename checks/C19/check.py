"""C19 — flow controller. Theorems: lean/MgProof/C19/Props.lean; model:
lean/MgModel/C19/FlowCtl.lean; tie B: harness/c19/seq_flowctl.c against the real
flow_controller.c / fast_flow_controller.c / time_counter.c."""
import itertools
import json
import vlib

PROOFS = ["MgProof.C19.Lemmas", "MgProof.C19.Props"]
GREP = ["MgModel/C19", "MgProof/C19", "MgModel/Common", "Drv/C19.lean"]
REPO_SRCS = ["muggle/c/time/flow_controller.c", "muggle/c/time/fast_flow_controller.c",
             "muggle/c/time/time_counter.c"]

TRUSTED = [
    "Lean 4.33 kernel; axioms as printed by the audit (subset of propext, Classical.choice, Quot.sound)",
    "tie B: harness/c19/seq_flowctl.c + lib/vlib.py comparison; clock reads replaced by a scripted clock "
    "(time_counter.c compiled with -Dclock_gettime=vh_clock_gettime; muggle_rdtscp provided by the harness)",
    "int64 arithmetic modelled on unbounded Int: inputs kept below 2^62; overflow of sec*10^9 not modelled",
    "hypothesis of the theorems: timeline non-decreasing and not earlier than the virtual initial admissions",
]


def build(ctx):
    def pff(rel):
        return ["-Dclock_gettime=vh_clock_gettime"] if rel.endswith("time_counter.c") else []
    exe = vlib.build_harness("C19", "seq_flowctl", ["harness/c19/seq_flowctl.c"], REPO_SRCS,
                             per_file_flags=pff)
    return [exe], ctx.driver_cmd("drv_c19")


def gaps_for(t_units):
    t = t_units
    return sorted({0, 1, t // 2, t - 1, t, t + 1, 2 * t})


def gen_cases(ctx):
    quick = ctx.quick
    L = 4 if quick else 6
    units = [("ns", 10 ** 9), ("7", 7)]
    cfgs = [(1, 0), (2, 1), (1, 1)] if quick else [(1, 0), (2, 1), (1, 1), (3, 0), (2, 5)]
    ns = [1, 2, 3] if quick else [1, 2, 3, 4]
    patterns = ["cau", "cfu", "mix"]
    # (i) bounded-exhaustive timelines
    # a tick frequency above 10^9 (any real TSC): ticks and nanoseconds differ in the other direction
    fast = [("2400000000", 2400000000)]
    for (uname, u), (tsec, fwd), n in itertools.product(units + fast, cfgs, ns):
        gs = gaps_for(tsec * u)
        for pat in patterns:
            if (uname, u) in fast and (pat != "cau" or n > 2):
                continue
            if not quick or pat != "mix" or n <= 2:
                for gaps in itertools.product(gs, repeat=L):
                    ops = ["init %s %d %d %d" % (uname, tsec, n, fwd)]
                    now = 0
                    for k, g in enumerate(gaps):
                        now += g
                        kind = pat if pat != "mix" else ("cau" if k % 2 == 0 else "cfu")
                        ops.append("%s %d" % (kind, now))
                    ops.append("dump")
                    yield ops
    # (ii) random long timelines, biased to window boundaries
    rng = ctx.rng
    nrand = 150 if quick else 2000
    for _ in range(nrand):
        uname, u = rng.choice(units + [("2400000000", 2400000000)])
        tsec = rng.choice([1, 1, 2, 3, 10])
        n = rng.choice([1, 2, 3, 4, 5, 8, 16])
        fwd = rng.choice([0, 0, 1, tsec, 2 * tsec])
        ops = ["init %s %d %d %d" % (uname, tsec, n, fwd)]
        now = 0
        t = tsec * u
        for k in range(rng.choice([50, 300, 1500])):
            r = rng.random()
            if r < 0.45:
                g = rng.choice([0, 0, 1, 2])
            elif r < 0.8:
                g = rng.choice([t // 2, t - 1, t, t + 1, t // n if n else 1, t // n + 1])
            else:
                g = rng.randrange(0, 2 * t + 1)
            now += max(0, g)
            p = rng.random()
            if p < 0.6:
                ops.append("cau %d" % now)
            elif p < 0.9:
                ops.append("cfu %d" % now)
            elif p < 0.95:
                ops.append("check %d" % now)
            else:
                ops.append("dump")
        ops.append("dump")
        yield ops
    # (iii) malformed / outside-the-hypothesis stream (model-vs-implementation only)
    for n, tsec in [(0, 1), (1, 0), (1, -1), (0, 0)]:
        yield ["init ns %d %d 0" % (tsec, n), "cau 5", "dump"]
    for _ in range(40 if quick else 400):
        uname, u = rng.choice(units)
        tsec = rng.choice([1, 2])
        n = rng.choice([1, 2, 3])
        fwd = rng.choice([-1, -2, 0, 1])          # virtual admissions in the future
        ops = ["init %s %d %d %d" % (uname, tsec, n, fwd)]
        for k in range(30):                         # not monotone
            ops.append("%s %d" % (rng.choice(["cau", "cfu", "check", "update"]),
                                   rng.randrange(-2 * tsec * u, 4 * tsec * u)))
        ops.append("dump")
        yield ops


def nontrivial(ops, out):
    # at least one admitted and one refused request
    return "1" in out and "0" in out


def main(ctx):
    ctx.cov["trusted_base"] = TRUSTED
    ctx.assumptions += TRUSTED[2:]
    ctx.cov["rule"] = ("bounded-exhaustive timelines (all gap tuples from {0,1,t/2,t-1,t,t+1,2t}, length L, "
                       "n, (t,fwd), unit ns/ticks, call-kind patterns) + seeded random long timelines + "
                       "malformed stream; distinct = distinct op lists; non-trivial = at least one admitted "
                       "and one refused request in the implementation's answers")
    ctx.lean_obligations("drv_c19", PROOFS, GREP, leanchecker=["MgProof.C19.Props"])
    if not getattr(ctx, "driver_ok", False):
        return
    try:
        hcmd, dcmd = build(ctx)
    except vlib.BuildError as e:
        ctx.broken.append("harness-build: " + str(e)[:500])
        return
    vlib.seq_correspondence_batched(ctx, hcmd, dcmd, gen_cases(ctx), batch=500000, nontrivial=nontrivial, keep_prefix=1)
    if (ctx.broken and not any(f for _, f in ctx.violations)) or not ctx.quick:
        long_history_search(ctx, hcmd)
    ctx.cov["exhaustive"] = True
    ctx.cov["explanation"] = ("exhaustive=true refers to the bounded timeline space described in rule; "
                              "the theorems are unbounded")


# --------------------------------------------------------------------------- long-history search
def spec_judge(ops, out):
    """Spec-level monitor in Python (mirrors MgModel.C19.specVerdict) for op lists containing the
    search-only `ff` operation, which the Lean driver does not model: the verdict of every request
    must be `fewer than n recorded requests a with now - a < t`."""
    it = ops[0].split()
    unit = 10 ** 9 if it[1] == "ns" else int(it[1])
    t, n, fwd = int(it[2]) * unit, int(it[3]), int(it[4])
    hist = [-fwd * unit] * n
    for o, r in zip(ops[1:], out[1:]):
        a = o.split()
        if a[0] == "ff":
            cnt, start, step = int(a[1]), int(a[2]), int(a[3])
            if step < t or cnt < 1:
                return None                      # closed form below needs every request admitted
            if r != "ok %d" % cnt:
                return "fast-forward of %d requests spaced >= t apart admitted %s" % (cnt, r)
            k = min(cnt, n + 1)
            hist = hist[-(n + 1):] + [start + (cnt - k + i) * step for i in range(k)]
            continue
        if a[0] == "dump":
            continue
        now = int(a[1])
        want = sum(1 for x in hist if now - x < t) < n
        if a[0] in ("cau", "cfu", "check"):
            if r not in ("0", "1"):
                return "unexpected answer %r to %s" % (r, o)
            if (r == "1") != want:
                return ("request at %d: controller says %s, the sliding window (%d of %d recorded requests "
                        "within t) says %s" % (now, "ADMIT" if r == "1" else "REFUSE",
                                               sum(1 for x in hist if now - x < t), n,
                                               "ADMIT" if want else "REFUSE"))
        if a[0] == "cfu" or a[0] == "update" or (a[0] == "cau" and want):
            hist = (hist + [now])[-(4 * n + 8):]
    return None


def long_history_search(ctx, hcmd):
    """SEARCH (DESIGN §2.6), run when the tie is broken without a concrete failing input (and in the
    thorough tier): states that only ~2^32 recorded requests reach. The harness fast-forwards the
    real code through 2^32 - j requests spaced t apart (all admitted), then short timelines with every
    call kind are judged by the sliding-window specification."""
    rng = ctx.rng
    cases = []
    for uname, unit in (("ns", 10 ** 9), ("1000", 1000)):
        for n in ((3, 5, 6) if uname == "ns" else (3,)):
            for j in (2, n + 1):
                t = unit
                cnt = (1 << 32) - j
                ops = ["init %s 1 %d 0" % (uname, n), "ff %d %d %d" % (cnt, t, t)]
                now = t + cnt * t
                for k in range(4 * n + 4):
                    now += rng.choice([t // 2, t // 2, t // 3, t, 0]) if k else t
                    ops.append("%s %d" % (rng.choice(["cfu", "cau", "cfu"]), now))
                ops.append("dump")
                cases.append(ops)
    res = vlib.run_cases(hcmd, cases, timeout=1600, chunk=1)
    nbad = 0
    for ops, a in zip(cases, res):
        msg = ("crash: " + a["crash"][:800]) if a["crash"] else spec_judge(ops, a["out"])
        if msg:
            nbad += 1
            if nbad <= 2:
                ctx.violation({"kind": "property-fails-on-implementation", "tie": "long-history-search",
                               "ops": ops, "what": msg, "implementation": a["out"],
                               "broken_obligations": ctx.broken}, found_input=True)
    ctx.cov["ties"]["long_history_search"] = {"cases": len(cases), "requests_each": "2^32 - j, then 4n+4",
                                              "property_failures": nbad}
    ctx.cov["evaluations"] += len(cases)


def replay(ctx, path):
    hcmd, dcmd = build(ctx)
    vlib.lake_build(["drv_c19"])
    r = json.load(open(path))
    ops = r.get("ops") or []
    if any(o.startswith("ff ") for o in ops):
        a = vlib.run_one(hcmd, ops, timeout=1600)
        print("ops:", ops)
        print("implementation:", a["out"], "crash:", a["crash"])
        msg = ("crash: " + a["crash"][:800]) if a["crash"] else spec_judge(ops, a["out"])
        if msg:
            print(msg)
            print("VIOLATION property=C19 replay=%s" % path)
            return 1
        print("replay passes on the current tree")
        return 0
    return vlib.replay_file(ctx, path, hcmd, dcmd)
