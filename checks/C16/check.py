"""C16 — logging: exactly one whole line per accepted call per handler, any size or load.
Theorems: lean/MgProof/C16/Props.lean; models: lean/MgModel/C16/{Fmt,Logger,Async,SyncConc}.lean;
tie B: harness/c16/seq_log.c against the real loggers, handlers and formatters of /repo
(real FILEs, real writer thread; ASan+UBSan; allocation accounting of the async logger)."""
import itertools
import os
import vlib

PROOFS = ["MgProof.C16.Lemmas", "MgProof.C16.LemmasAsync", "MgProof.C16.LemmasSync", "MgProof.C16.Props"]
GREP = ["MgModel/C16", "MgProof/C16", "MgModel/Common", "Drv/C16.lean"]

HANDLER_FILES = ("log_file_handler.c", "log_file_rotate_handler.c", "log_file_time_rot_handler.c",
                 "log_console_handler.c")

TRUSTED = [
    "Lean 4.33 kernel; axioms as printed by the audit (subset of propext, Classical.choice, Quot.sound)",
    "tie B: harness/c16/seq_log.c + lib/vlib.py comparison. The harness wraps handler->write pointers "
    "(trampoline) and compiles the handler files with -Dfwrite=vh_fwrite -Dfflush=vh_fflush, the logger "
    "files with a scripted clock / thread id, log_async_logger.c with counting malloc/free and a "
    "result-recording muggle_channel_write; every hook calls the real function",
    "libc: vsnprintf / snprintf / fwrite / gmtime_r are trusted; a call is modelled by the expansion of its "
    "format and arguments (no NUL byte inside), the model decides what is kept of it",
    "interleaving models (Async.lean, SyncConc.lean): tied to the code through the functions they are built from "
    "(writeAll / handlerWrite / mkMsg, compared on every op), by the driver executing the async model under the "
    "harness's canonical schedule (gated writer) and the sync model single-threaded on every log op, and by "
    "harness-judged runs with real threads; there is no step-level schedule replay under the tsan shim",
    "the channel is modelled by its specification (bounded FIFO, atomic enqueue/dequeue, capacity-2 usable "
    "slots): that muggle_channel_write/read refine it is property C01's theorem",
    "console handler: the three fwrite calls of a coloured line are modelled, the Windows console API is not",
    "hypotheses of the theorems: handler levels are set before add_handler (lowest_log_level <= every handler "
    "level); src_loc strings outlive the call; no I/O errors (fwrite writes everything); built with NDEBUG "
    "(a FATAL call aborts by design in debug builds); async channel capacity >= 3 (a channel of capacity "
    "<= 2 can hold nothing, not even the sentinel); destroy is called after the producers have returned",
]


def pff(rel):
    b = os.path.basename(rel)
    f = []
    if b in HANDLER_FILES:
        f += ["-Dfwrite=vh_fwrite", "-Dfflush=vh_fflush"]
    if b == "log_file_time_rot_handler.c":
        f += ["-Dtime=vh_time"]
    if b in ("log_sync_logger.c", "log_async_logger.c"):
        f += ["-Dtimespec_get=vh_timespec_get", "-Dmuggle_thread_current_readable_id=vh_tid"]
    if b == "log_async_logger.c":
        f += ["-Dmalloc=vh_malloc", "-Dfree=vh_free", "-Dmuggle_channel_write=vh_channel_write"]
    return f


def build(ctx):
    exe = vlib.build_harness("C16", "seq_log", ["harness/c16/seq_log.c"], "ALL",
                             cflags=["-DNDEBUG"], per_file_flags=pff)
    return [exe], ctx.driver_cmd("drv_c16")


# ---------------------------------------------------------------------------
# generators
# ---------------------------------------------------------------------------
MAX = 4096
LEVELS = [0, 256, 512, 768, 1024, 1280]
ODD_LEVELS = [-1, 255, 257, 1279, 1281, 1536, 100000, -300]
KINDS = ["file", "rot", "rots", "trot", "con0", "con1", "cap"]
FILES = ["a.c", "main.cpp", "x", "very_long_source_file_name_for_the_prefix.c", "%s.c"]
FUNCS = ["f", "main", "do_work_with_a_long_function_name", "%n"]
FORMATLIKE = ["%s", "%n", "%d%d%d%d", "%%", "%", "%5000s", "%.0s%s%s%s%s", "%lu%c%p", "\\n", "%hhn%ln"]

# prefix lengths of the two formatters for (level name, file, line, func, tid) — used to aim at the
# boundary: simple "LEVEL|file:line - ", complicated "LEVEL|YYYY-MM-DDThh:mm:ss.mmm|file:line|func|tid - "
LEVEL_NAME = {0: "TRACE", 1: "DEBUG", 2: "INFO", 3: "WARNING", 4: "ERROR", 5: "FATAL"}


def level_name(level):
    return LEVEL_NAME.get(level >> 8, "UNKNOWN")


def prefix_len(fmt, level, file, line, func, tid):
    if fmt == "s":
        return len("%s|%s:%u - " % (level_name(level), file, line))
    return len("%s|2023-11-14T22:13:20.123|%s:%u|%s|%u - " % (level_name(level), file, line, func, tid))


def hexs(s):
    return "".join("%02x" % (ord(c) & 255) for c in s)


def msg_repeat(n, unit="A"):
    return "r:%d:%s" % (n, hexs(unit))


def rand_printable(rng, n):
    alpha = "abcdefghijklmnopqrstuvwxyzABCDEFGHIJKLMNOPQRSTUVWXYZ0123456789 %%%%$#{}[]|-:;.,<>\\'\"~"
    alpha = alpha.replace(" ", "")  # tokens are blank-separated only on the wire; a blank is sent as hex 20
    s = "".join(rng.choice(alpha + " ") for _ in range(n))
    return "h:" + hexs(s)


def boundary_lengths(pre):
    """payload lengths around every boundary: empty, the payload buffer (4095/4096), the line buffer
    (line = pre + payload + 1 reaching 4094..4098), 2x and 3x the maximum"""
    ls = {0, 1, 2, 100, MAX - 2, MAX - 1, MAX, MAX + 1, 2 * MAX - 1, 2 * MAX, 2 * MAX + 1, 3 * MAX}
    for total in (MAX - 3, MAX - 2, MAX - 1, MAX, MAX + 1, MAX + 2):
        p = total - pre - 1
        if p >= 0:
            ls.add(p)
    return sorted(ls)


def log_op(level, file, line, func, mode, spec):
    return "log %d %s %d %s %s %s" % (level, file, line, func, mode, spec)


def gen_exhaustive(ctx):
    cases = []
    quick = ctx.quick
    # (i-a) all handler-level x call-level pairs, every handler kind, both formatters + none, sync and async
    for logger in ["logger sync", "logger async 8"]:
        for fmt in ["s", "c", "n"]:
            for kind in KINDS:
                if quick and logger != "logger sync" and kind in ("rot", "rots", "con0"):
                    continue
                ops = [logger, "clock 1700000000 123456789", "tid 4242"]
                hl = LEVELS + ([255, 257, -1, 1536] if not quick else [257])
                hl = hl[:8]
                for l in hl:
                    ops.append("handler %s %d %s" % (kind, l, fmt))
                for cl in LEVELS + ODD_LEVELS:
                    ops.append(log_op(cl, "a.c", 7, "fn", "s", "h:" + hexs("m%d" % (cl & 0xffff))))
                ops.append("destroy")
                cases.append(ops)
    # (i-b) every boundary length x formatter x handler kind x mode, sync and async
    for logger in ["logger sync", "logger async 4"]:
        for fmt in ["s", "c"]:
            for kind in (["file", "con1", "cap", "trot"] if quick else KINDS):
                for mode in ["s", "l", "d"]:
                    if quick and mode != "s" and kind not in ("file",):
                        continue
                    ops = [logger, "clock 1700000000 123456789", "tid 4242",
                           "handler %s 0 %s" % (kind, fmt)]
                    pre = prefix_len(fmt, 1024, "a.c", 7, "fn", 4242)
                    extra = len("|-42|ff|z") if mode == "d" else 0
                    for n in boundary_lengths(pre + extra):
                        ops.append(log_op(1024, "a.c", 7, "fn", mode, msg_repeat(n, "Ab%")))
                    ops.append("destroy")
                    cases.append(ops)
    # (i-c) format-like content through every mode and both formatters
    for logger in ["logger sync", "logger async 16"]:
        for fmt in ["s", "c"]:
            ops = [logger, "clock 86399 999999999", "tid 1", "handler file 0 %s" % fmt, "handler cap 0 %s" % fmt]
            for txt in FORMATLIKE:
                for mode in ["s", "l", "d"]:
                    ops.append(log_op(512, "%s.c", 1, "%n", mode, "h:" + hexs(txt)))
                    ops.append(log_op(512, "a.c", 1, "f", mode, msg_repeat(5000, txt)))
            ops.append("destroy")
            cases.append(ops)
    # (i-d) async queue: every capacity x burst size around the capacity, gate closed; destroy with the
    # queue in every fill state (incl. full: the sentinel does not fit at the first attempt)
    caps = [3, 4, 5, 8] if quick else [3, 4, 5, 7, 8, 9, 16, 17, 32]
    for cap in caps:
        p2 = 1
        while p2 < cap:
            p2 *= 2
        slots = p2 - 2
        for burst in sorted({0, 1, slots - 1, slots, slots + 1, slots + 2, slots + 5, 2 * slots + 3}):
            if burst < 0:
                continue
            for reopen in [False, True]:
                ops = ["logger async %d" % cap, "handler file 256 s", "handler cap 512 c",
                       log_op(512, "a.c", 1, "f", "s", "h:" + hexs("first")), "gate 0"]
                for k in range(burst):
                    lvl = [512, 256, 1024, 0][k % 4] if k % 5 == 4 else 512
                    ops.append(log_op(lvl, "a.c", k, "f", "s", "h:" + hexs("b%d" % k)))
                if reopen:
                    ops.append("gate 1")
                    ops.append(log_op(512, "a.c", 99, "f", "s", "h:" + hexs("after")))
                ops.append("destroy")
                cases.append(ops)
    return cases


def gen_random(ctx):
    rng = ctx.rng
    cases = []
    n = 400 if ctx.quick else 4000
    for _ in range(n):
        is_async = rng.random() < 0.5
        ops = ["logger async %d" % rng.choice([3, 4, 5, 8, 9, 16, 64])] if is_async else ["logger sync"]
        ops.append("clock %d %d" % (rng.choice([0, 1, 86399, 86400, 951782400, 1700000000, 4102444799]),
                                    rng.choice([0, 999999, 1000000, 123456789, 999999999])))
        ops.append("tid %d" % rng.choice([0, 1, 4242, 2 ** 32 + 5, 2 ** 63]))
        nh = rng.choice([1, 1, 2, 3, 4, 8, 9])
        for _h in range(nh):
            ops.append("handler %s %d %s" % (rng.choice(KINDS), rng.choice(LEVELS + [257, 1279]),
                                             rng.choice(["s", "s", "c", "c", "n"])))
        gate_open = True
        for _k in range(rng.choice([5, 20, 60])):
            r = rng.random()
            if r < 0.72:
                level = rng.choice(LEVELS * 3 + ODD_LEVELS)
                file = rng.choice(FILES)
                func = rng.choice(FUNCS)
                line = rng.choice([0, 1, 77, 65535, 2 ** 31, 2 ** 32 - 1])
                fmt = rng.choice(["s", "c"])
                pre = prefix_len(fmt, level, file, line, func, 4242)
                q = rng.random()
                if q < 0.35:
                    ln = rng.choice(boundary_lengths(pre))
                elif q < 0.7:
                    ln = rng.randrange(0, 200)
                else:
                    ln = rng.randrange(0, 3 * MAX + 1)
                mode = rng.choice(["s", "s", "l", "d"])
                if rng.random() < 0.5:
                    spec = msg_repeat(ln, rng.choice(["A", "xyz", "%s", "%", "%d%n", "ab cd"]))
                else:
                    spec = rand_printable(rng, min(ln, 600))
                ops.append(log_op(level, file, line, func, mode, spec))
            elif r < 0.80 and is_async:
                gate_open = not gate_open
                ops.append("gate %d" % (1 if gate_open else 0))
            elif r < 0.86:
                ops.append("clock %d %d" % (rng.randrange(0, 4102444800), rng.randrange(0, 10 ** 9)))
            elif r < 0.9:
                ops.append("tid %d" % rng.randrange(0, 2 ** 40))
            elif r < 0.94 and nh < 8 and (gate_open or not is_async):
                ops.append("handler %s %d %s" % (rng.choice(KINDS), rng.choice(LEVELS), rng.choice(["s", "c"])))
                nh += 1
            else:
                ops.append("clock %d 0" % rng.choice([3599, 3600, 7200, 90000]))
        ops.append("destroy")
        cases.append(ops)
    return cases


def gen_threads(ctx):
    """real threads (1..16 producers, bursts below and above the async queue capacity): the harness
    itself judges whole lines / per-thread order / counts; the model predicts the verdict line"""
    rng = ctx.rng
    cases = []
    combos = [(1, 50), (2, 200), (4, 300), (8, 150), (16, 100)]
    if not ctx.quick:
        combos += [(3, 2000), (16, 600), (12, 1000)]
    for logger in ["logger sync", "logger async 4", "logger async 64", "logger async 1024"]:
        for t, k in combos:
            # the small size-rotating handler renames every backup at every rotation: keep it to
            # the short runs (rotation itself is C17's subject)
            rot = "rots" if t * k <= 400 else "rot"
            ops = [logger, "clock 1700000000 5000000", "handler file 512 s", "handler con1 768 c",
                   "handler cap 0 n", "handler %s 256 c" % rot, "handler trot 1024 s"]
            ops.append("mt %d %d %d %d" % (t, k, rng.choice([0, 10, 60]), rng.choice([512, 768])))
            ops.append("mt %d %d %d 1024" % (t, max(1, k // 10), rng.choice([3000, 4000])))
            ops.append("mt %d %d 20 0" % (t, k))
            ops.append(log_op(1024, "a.c", 1, "f", "s", "h:" + hexs("tail")))
            ops.append("destroy")
            cases.append(ops)
    return cases


def gen_malformed(ctx):
    rng = ctx.rng
    cases = [
        ["log 0 a.c 1 f s h:41", "destroy", "handler file 0 s"],
        ["logger sync", "logger sync", "logger async 4", "destroy", "destroy"],
        ["logger async 0"], ["logger async 1"], ["logger async 2"], ["logger async 5000"],
        ["logger sync", "handler nope 0 s", "handler file 0 x", "handler file 0", "log 0 a.c 1 f s h:4",
         "log 0 a.c 1 f s h:00", "log 0 a.c 1 f q h:41", "log 0 a.c 1 f s z:41", "log 0 a.c 1 f s r:5:",
         "log 0 a.c 1 f s r:200000:41", "setlevel 3 0", "mt 0 1 1 0", "mt 65 1 1 0", "gate 1", "destroy"],
        # more handlers than the logger has room for
        ["logger sync"] + ["handler cap %d s" % (256 * (i % 6)) for i in range(11)] +
        [log_op(512, "a.c", 1, "f", "s", "h:41"), "destroy"],
        ["logger async 8"] + ["handler file %d c" % (256 * (i % 6)) for i in range(11)] +
        [log_op(512, "a.c", 1, "f", "s", "h:41"), "destroy"],
        # no handler at all
        ["logger sync", log_op(1280, "a.c", 1, "f", "s", "h:41"), log_op(1281, "a.c", 1, "f", "s", "h:41"), "destroy"],
        ["logger async 4", log_op(1280, "a.c", 1, "f", "s", "h:41"), log_op(5000, "a.c", 1, "f", "s", "h:41"),
         "gate 0", log_op(1280, "a.c", 1, "f", "s", "h:41"), log_op(1280, "a.c", 1, "f", "s", "h:41"),
         log_op(1280, "a.c", 1, "f", "s", "h:41"), "destroy"],
        # level changed after add_handler (outside the theorems' hypothesis: model == implementation only)
        ["logger sync", "handler file 512 s", "handler cap 768 c", "setlevel 0 0", "setlevel 1 1280",
         log_op(256, "a.c", 1, "f", "s", "h:41"), log_op(512, "a.c", 1, "f", "s", "h:41"),
         log_op(768, "a.c", 1, "f", "s", "h:41"), log_op(1280, "a.c", 1, "f", "s", "h:41"), "destroy"],
        # a case that ends without destroy, gate closed and queue full
        ["logger async 4", "handler file 0 s", "gate 0"] +
        [log_op(512, "a.c", k, "f", "s", "h:41") for k in range(6)],
    ]
    for _ in range(100 if ctx.quick else 1500):
        ops = [rng.choice(["logger sync", "logger async 4", "logger async 3"])]
        for _k in range(rng.randrange(1, 25)):
            ops.append(rng.choice([
                "handler %s %d %s" % (rng.choice(KINDS), rng.choice(LEVELS + ODD_LEVELS), rng.choice("scn")),
                "setlevel %d %d" % (rng.randrange(0, 4), rng.choice(LEVELS + ODD_LEVELS)),
                log_op(rng.choice(LEVELS + ODD_LEVELS), rng.choice(FILES), rng.randrange(0, 100),
                       rng.choice(FUNCS), rng.choice("sld"), msg_repeat(rng.choice([0, 3, 4090, 4096, 9000]), "q%")),
                "gate %d" % rng.randrange(0, 2), "clock 5 5", "tid 9", "destroy" if rng.random() < 0.1 else "tid 3",
            ]))
        cases.append(ops)
    return cases


def gen_cases(ctx):
    return gen_exhaustive(ctx) + gen_random(ctx) + gen_threads(ctx) + gen_malformed(ctx)


def nontrivial(ops, out):
    # at least one emitted line and, for async cases, at least one accepted message
    return any(("[w" in l or "[c" in l or l.startswith("mt ok")) for l in out)


def signature_of(ops, res):
    """one report per defect class (the classes found on the pinned tree, see fixes/C16-*.patch)"""
    crash = res.get("crash") or ""
    lines = res.get("out") or []
    out = " ".join(lines)
    if "stack-buffer-overflow" in crash or "stack-buffer-underflow" in crash:
        return "C16:handler-write-overread"
    if "destroy-hang" in crash or "destroy-hang" in out:
        return "C16:async-destroy-sentinel-lost"
    if "LeakSanitizer" in crash and "muggle_async_logger_log" in crash:
        return "C16:async-full-queue-leak"
    if crash:
        return None
    if ".4096." in out and "r4096" in out:
        return "C16:handler-write-overread"          # the 4096-byte line: NUL written, no redzone hit
    if "-4702111234474983746" in out:                 # ASan's malloc fill pattern 0xbe.. read back as a field
        return "C16:async-msg-uninitialised"
    for op, l in zip(ops, lines):
        if l.startswith("mt ok live=") and l != "mt ok live=0":
            return "C16:async-full-queue-leak"
        if op == "destroy" and " live=" in l and " live=0 " not in l + " ":
            return "C16:async-full-queue-leak"
    return None


def judge(ops, out):
    for l in out:
        if l.startswith("mt bad"):
            return "concurrent logging: " + l
        if "files=bad" in l:
            return "file contents differ from what was passed to fwrite: " + l
    return None


def main(ctx):
    ctx.cov["trusted_base"] = TRUSTED
    ctx.assumptions += TRUSTED[2:]
    ctx.cov["rule"] = (
        "bounded-exhaustive: {sync, async} x {file, size-rotating, time-rotating, console plain/coloured, custom} x "
        "{simple, complicated, no formatter} x all handler-level x call-level pairs (6 levels + off-grid values); payload "
        "lengths at every boundary (0, payload buffer 4095/4096, formatted line 4093..4098, 2x, 3x the maximum) x call "
        "mode (\"%s\", message as format, extra arguments); format-like content; async capacities x bursts "
        "0..2*slots+3 with the writer gated, destroy in every fill state. Random: mixed histories (levels, lengths 0..3x max, "
        "clock, thread id, gate, handlers added late). Threads: 1..16 real producer threads, sync and async with "
        "capacity 4/64/1024, judged by the harness (whole lines, per-thread order, counts, no leak). Malformed stream. "
        "distinct = distinct op lists; non-trivial = at least one line emitted")
    ctx.lean_obligations("drv_c16", PROOFS, GREP, leanchecker=["MgProof.C16.Props"])
    if not getattr(ctx, "driver_ok", False):
        return
    try:
        hcmd, dcmd = build(ctx)
    except vlib.BuildError as e:
        ctx.broken.append("harness-build: " + str(e)[:500])
        return
    cases = gen_cases(ctx)
    vlib.seq_correspondence(ctx, hcmd, dcmd, cases, nontrivial=nontrivial, keep_prefix=1,
                            signature_of=signature_of, judge=judge, timeout=900, max_reports=3)
    ctx.cov["exhaustive"] = True
    ctx.cov["explanation"] = ("exhaustive=true refers to the bounded spaces described in rule; the theorems are "
                              "unbounded (any message length, any number of handlers/threads/calls, any schedule)")


def replay(ctx, path):
    hcmd, dcmd = build(ctx)
    vlib.lake_build(["drv_c16"])
    return vlib.replay_file(ctx, path, hcmd, dcmd, judge=judge, repeat=10)
