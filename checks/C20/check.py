"""C20 — pure utilities (str.c parsers/helpers, path.c, utils.c next_pow_of_2, hex.c,
endian.h). Theorems: lean/MgProof/C20/Props.lean; models: lean/MgModel/C20/*.lean;
tie B: harness/c20/seq_utils.c against the real code under ASan/UBSan with exact-size
heap buffers. The models mirror the code AFTER fixes/C20-*.patch (see the final report):
on a tree without those fixes this check reports the violations with replays."""
import itertools
import vlib

PROOFS = ["MgProof.Tie.Bits", "MgProof.C20.BitsLemmas", "MgProof.C20.SwapLemmas", "MgProof.C20.HexLemmas",
          "MgProof.C20.StrLemmas", "MgProof.C20.NumLemmas", "MgProof.C20.PathLemmas",
          "MgProof.C20.NormLemmas", "MgProof.C20.NormRef", "MgProof.C20.NormRef2", "MgProof.C20.FloatLemmas",
          "MgProof.C20.Props"]
GREP = ["MgProof/Tie", "MgModel/Generated", "MgModel/C20", "MgProof/C20", "MgModel/Common", "Drv/C20.lean"]
REPO_SRCS = ["muggle/c/base/str.c", "muggle/c/os/path.c", "muggle/c/base/utils.c",
             "muggle/c/encoding/hex.c"]

TRUSTED = [
    "Lean 4.33 kernel; axioms as printed by the audit (subset of propext, Classical.choice, Quot.sound)",
    "tie B: harness/c20/seq_utils.c + lib/vlib.py comparison; clang-14 ASan+UBSan with exact-size heap "
    "blocks as the observer of out-of-bounds accesses; muggle_os_curdir replaced by a scripted cwd",
    "libc specified, not verified: strtol/strtoul/strtoll/strtoull (MgModel.C20.Num.strtoScan/strtolVal/"
    "strtoulVal), strtof/strtod/strtold (MgModel.C20.Float), strstr, strlen, strncpy, memcpy, isspace in the "
    "\"C\" locale; the strto* specifications are themselves compared with glibc on every run",
    "LP64 target: long = long long = 64 bits, int = 32 bits; string lengths fit an int",
    "numeric base in {0, 2..36}: any other base makes strtol leave endptr unset, which the wrappers read "
    "(undefined behaviour; model outcome Err.ub, excluded by hypothesis)",
]


def build(ctx):
    exe = vlib.build_harness("C20", "seq_utils", ["harness/c20/seq_utils.c"], REPO_SRCS)
    return [exe], ctx.driver_cmd("drv_c20")


def hx(s):
    if isinstance(s, str):
        s = s.encode("latin-1")
    return s.hex() if s else "-"


# --------------------------------------------------------------------------
# generators; each returns a list of cases (lists of op lines)
# --------------------------------------------------------------------------

def chunked(ops, n=1):
    """every op is independent of the others (only `buf` refers to the op before it), so a case
    is one op (+ its `buf`): a failing case is already minimal and a crash costs one case"""
    cases = []
    for op in ops:
        if op == "buf" and cases:
            cases[-1].append(op)
        else:
            cases.append([op])
    return cases


def gen_bits(ctx):
    rng = ctx.rng
    ops = []
    xs = {0, 1, 2, 3, 2 ** 64 - 1, 2 ** 63, 2 ** 63 + 1, 2 ** 63 - 1}
    for k in range(64):
        for d in (-1, 0, 1):
            xs.add((2 ** k + d) % 2 ** 64)
    for k in range(64):            # 2^k + 2^j
        for j in range(0, k, 5):
            xs.add(2 ** k + 2 ** j)
    n32 = 3000 if ctx.quick else 40000
    for _ in range(n32):
        xs.add(rng.randrange(2 ** 32))
        xs.add(rng.randrange(2 ** 64))
        k = rng.randrange(1, 64)
        xs.add(rng.randrange(2 ** (k - 1), 2 ** k))
    for x in sorted(xs):
        ops.append("np2 %d" % x)
    # every 16-bit value for swap16 (exhaustive), structured + random for 32/64
    for v in range(0, 2 ** 16, 1 if not ctx.quick else 7):
        ops.append("swap16 %d" % v)
    vs = set()
    for k in range(64):
        vs.add(2 ** k)
        vs.add(0xFF << (8 * (k % 8)))
    for _ in range(500 if ctx.quick else 20000):
        vs.add(rng.randrange(2 ** 64))
    for v in sorted(vs):
        ops.append("swap32 %d" % (v % 2 ** 32))
        ops.append("swap64 %d" % v)
    return chunked(ops, 200)


def gen_hex(ctx):
    rng = ctx.rng
    ops = []
    for b in range(256):                       # all byte values
        ops.append("hexenc %02x" % b)
        ops.append("hexrt %02x" % b)
    ops.append("hexenc -")
    ops.append("hexrt -")
    ops.append("hexdec -")
    for a in range(256):                       # all characters in both digit positions
        ops.append("hexdec %s" % hx(bytes([a, ord('7')])))
        ops.append("hexdec %s" % hx(bytes([ord('c'), a])))
        ops.append("hexdec %s" % hx(bytes([ord('0'), ord('1'), a])))   # odd length: ignored tail
    digits = b"0123456789abcdefABCDEF"
    for _ in range(300 if ctx.quick else 5000):
        n = rng.choice([0, 1, 2, 3, 8, 31, 64])
        bs = bytes(rng.randrange(256) for _ in range(n))
        ops.append("hexenc %s" % hx(bs))
        ops.append("hexrt %s" % hx(bs))
        t = bytearray(rng.choice(digits) for _ in range(rng.choice([0, 1, 2, 3, 4, 9, 16, 40])))
        if t and rng.random() < 0.4:
            t[rng.randrange(len(t))] = rng.choice(b"gG/:@`{ \x00\xff\x80")
        ops.append("hexdec %s" % hx(bytes(t)))
    return chunked(ops, 100)


BLANKS = [" ", "\t", "\n", "\v", "\f", "\r"]


def gen_str(ctx):
    rng = ctx.rng
    ops = []
    # (i) bounded-exhaustive: all strings over {a, b} up to length 4 x all subs up to length 2
    alpha = ["a", "b"]
    strs = [""] + ["".join(t) for n in range(1, 5 if ctx.quick else 6) for t in itertools.product(alpha, repeat=n)]
    subs = [""] + ["".join(t) for n in range(1, 3) for t in itertools.product(alpha, repeat=n)]
    for s in strs:
        for p in subs:
            ops.append("starts %s %s" % (hx(s), hx(p)))
            ops.append("ends %s %s" % (hx(s), hx(p)))
            for st in range(-1, len(s) + 2):
                for en in range(-1, len(s) + 2):
                    ops.append("find %s %s %d %d" % (hx(s), hx(p), st, en))
                    ops.append("count %s %s %d %d" % (hx(s), hx(p), st, en))
    # strip: all strings over {blank, tab, x} up to length 5, and every byte value alone / in the middle
    for n in range(0, 6):
        for t in itertools.product([" ", "\t", "x"], repeat=n):
            s = "".join(t)
            ops.append("lstrip %s" % hx(s))
            ops.append("rstrip %s" % hx(s))
    for b in range(1, 256):
        for s in (bytes([b]), bytes([b, 120]), bytes([120, b]), bytes([32, b, 32])):
            ops.append("lstrip %s" % hx(s))
            ops.append("rstrip %s" % hx(s))
        ops.append("starts %s %s" % (hx(bytes([b, 97])), hx(bytes([b]))))
        ops.append("ends %s %s" % (hx(bytes([97, b])), hx(bytes([b]))))
        ops.append("find %s %s 0 0" % (hx(bytes([97, b, 97])), hx(bytes([b]))))
    # (ii) random
    for _ in range(400 if ctx.quick else 8000):
        al = rng.choice(["ab", "abc", "o", "a b\t"])
        s = "".join(rng.choice(al) for _ in range(rng.randrange(0, 14)))
        p = "".join(rng.choice(al) for _ in range(rng.choice([0, 1, 1, 2, 2, 3, 5])))
        st = rng.randrange(-1, len(s) + 3)
        en = rng.choice([0, rng.randrange(-1, len(s) + 3), len(s), len(s) + 1])
        ops.append("find %s %s %d %d" % (hx(s), hx(p), st, en))
        ops.append("count %s %s %d %d" % (hx(s), hx(p), st, en))
        ops.append("starts %s %s" % (hx(s), hx(p)))
        ops.append("ends %s %s" % (hx(s), hx(p)))
        ops.append("lstrip %s" % hx(s))
        ops.append("rstrip %s" % hx(s))
    # (iii) malformed: huge / negative indices
    for st, en in [(-5, 3), (3, -5), (2 ** 31 - 1, 0), (0, 2 ** 31 - 1), (-2 ** 31, 0), (5, 2)]:
        ops.append("find %s %s %d %d" % (hx("hello"), hx("l"), st, en))
        ops.append("count %s %s %d %d" % (hx("hello"), hx("l"), st, en))
    return chunked(ops, 150)


DIG = "0123456789abcdefghijklmnopqrstuvwxyz"


def to_base(n, b):
    if n == 0:
        return "0"
    out = []
    while n:
        out.append(DIG[n % b])
        n //= b
    return "".join(reversed(out))


LIMITS = [2 ** 31 - 1, 2 ** 31, 2 ** 32 - 1, 2 ** 32, 2 ** 63 - 1, 2 ** 63, 2 ** 64 - 1, 2 ** 64,
          2 ** 15, 2 ** 16, 0, 1, 7, 8, 9, 10, 15, 16, 255]
PARSERS = ["toi", "tou", "tol", "toul", "toll", "toull"]


def numeral_variants(rng, body, exhaustive):
    """surround a numeral body with signs, blanks and junk"""
    signs = ["", "-", "+"]
    leads = ["", " ", "\t \n"]
    trails = ["", " ", " \t", "x", " x", " 1", "\n", "\v\f\r "]
    if exhaustive:
        for sg in signs:
            for ld in leads:
                for tr in trails:
                    yield ld + sg + body + tr
    else:
        yield rng.choice(leads) + rng.choice(signs) + body + rng.choice(trails)


def gen_num(ctx):
    rng = ctx.rng
    ops = []

    def emit(s, base, which=None):
        h = hx(s)
        for p in (which or PARSERS):
            ops.append("%s %s %d" % (p, h, base))
        ops.append("strtol %s %d" % (h, base))
        ops.append("strtoul %s %d" % (h, base))

    # (i) exhaustive decoration of numerals around every type's limits, in the main bases
    for lim in LIMITS:
        for d in (-2, -1, 0, 1, 2):
            v = lim + d
            if v < 0:
                continue
            for base, pref in [(10, ""), (16, ""), (16, "0x"), (0, ""), (0, "0x"), (0, "0"), (8, ""), (2, ""),
                               (36, "")]:
                eb = {0: 10}.get(base, base) if pref == "" else (16 if pref == "0x" else 8)
                body = pref + to_base(v, eb)
                if base == 0 and pref == "" and body.startswith("0") and body != "0":
                    continue
                for s in numeral_variants(rng, body, True):
                    emit(s, base)
    # every base 2..36 with its own largest digit, one past it, and upper case
    for base in list(range(2, 37)) + [0]:
        eb = base or 10
        for body in ["0", "1", DIG[eb - 1], DIG[eb - 1].upper() * 3, (DIG[eb] if eb < 36 else "@"),
                     "1" + (DIG[eb] if eb < 36 else "["), "10", to_base(2 ** 64 - 1, eb), to_base(2 ** 64, eb),
                     to_base(2 ** 63, eb), to_base(2 ** 31, eb), to_base(2 ** 32, eb)]:
            for s in [body, "-" + body, body + " ", " " + body + "\t"]:
                emit(s, base)
    # (iii) malformed shapes
    for base in (0, 10, 16, 8):
        for s in ["", " ", "-", "+", "+-1", "--1", "- 1", "0x", "0X", "0xg", "-0x", " 0x ", "0x 1", "x1", "1x",
                  "0x1", "0X1f", "-0X1F", "00x1", "0 x1", "08", "09", "078", "1 2", "1\x0b", "\x0b1", "1\xa0",
                  "\xa01", "1e5", "1.0", ".", "0b1", "٣", "1_000", "１", "-0", "+0", "-00", "0000000000000000000001",
                  "-18446744073709551615", "-18446744073709551614", "-18446744073709551616",
                  "-9223372036854775808", "-9223372036854775809", "-4294967295", "-4294967296", "-2147483649",
                  "99999999999999999999999999999", "-99999999999999999999999999999",
                  "99999999999999999999999999999 ", "7fffffffffffffff", "ffffffffffffffff", "0xffffffffffffffff",
                  "0x10000000000000000", "-0x8000000000000000", "-0x8000000000000001", "01777777777777777777777",
                  "02000000000000000000000"]:
            emit(s.encode("utf-8") if any(ord(c) > 255 for c in s) else s, base)
    # (ii) random numerals
    for _ in range(1500 if ctx.quick else 40000):
        base = rng.choice([0, 10, 10, 16, 8, 2, 36, rng.randrange(2, 37)])
        eb = base or rng.choice([8, 10, 16])
        r = rng.random()
        if r < 0.5:
            v = max(0, rng.choice(LIMITS) + rng.randrange(-3, 4))
        elif r < 0.8:
            v = rng.randrange(2 ** rng.randrange(1, 70))
        else:
            v = rng.randrange(2 ** 64 - 5, 2 ** 64 + 5) * rng.choice([1, 1, base or 10])
        pref = ""
        if base == 0:
            pref = {8: "0", 10: "", 16: rng.choice(["0x", "0X"])}[eb]
        elif base == 16 and rng.random() < 0.3:
            pref = "0x"
        body = pref + to_base(v, eb)
        if rng.random() < 0.2:
            body = body.upper() if rng.random() < 0.5 else "000" + body
        if rng.random() < 0.08:
            body = body[:rng.randrange(len(body) + 1)] + rng.choice("gz_. -+xX:/@`{") + body[rng.randrange(len(body) + 1):]
        for s in numeral_variants(rng, body, False):
            emit(s, base, which=[rng.choice(PARSERS), rng.choice(PARSERS)])
    return chunked(ops, 200)


def gen_path_strings(ctx):
    rng = ctx.rng
    comps = ["a", "bc", "..", ".", "", "x.y", "c:", "...", "a..", "..b", "d"]
    seps = ["/", "\\"]
    paths = set()
    # (i) bounded-exhaustive: up to 3 components from a small alphabet with every separator choice
    small = ["a", "..", ".", ""]
    for n in range(0, 4):
        for cs in itertools.product(small, repeat=n):
            for lead in ["", "/", "./", ".\\", "c:/", "c:\\", "../"]:
                for trail in ["", "/"]:
                    paths.add(lead + "/".join(cs) + trail)
    for p in list(paths)[:0]:
        pass
    extra = ["", "/", "\\", ".", "..", "../..", "../../hello", "./", ".\\", "./hello/xxx/../", "./hello/xxx/..",
             "hello/xxx/../../", "hello/xxx/../../world", "/tmp/hello world.txt", "f:\\tmp\\hello world.txt",
             "f:/", "f:", "c:/..", "/..", "/a/..", "/a/../..", "a/../..", "a/../../..", "a//..", "//", "//..",
             "a\\..\\b", "a/..b", "a/b../c", "a/.../b", "a..", "..a", "...", "a/..", "a/../", "a/b/../../..", "x:",
             "x:/y", "1:/y", "ab:/c", "/:", "/:/", "a:/b:/c", "a/:/b", ":/"]
    paths.update(extra)
    n_rand = 300 if ctx.quick else 4000
    for _ in range(n_rand):
        k = rng.randrange(0, 6)
        p = rng.choice(["", "", "/", "./", "c:/", "../", ".\\"])
        for i in range(k):
            p += rng.choice(comps) + (rng.choice(seps) if (i < k - 1 or rng.random() < 0.3) else "")
        paths.add(p)
    for b in range(1, 256):            # all byte values as a name character
        paths.add(("a/" + chr(b) + "/b"))
    return sorted(paths)


def gen_path(ctx):
    rng = ctx.rng
    ops = []
    paths = gen_path_strings(ctx)
    cwds = ["/", "/home/u", "/home/u/", "c:\\w", "/a/..", "x"]

    def sizes_for(n):
        return list(range(0, n + 3))

    for p in paths:
        h = hx(p)
        L = len(p.encode("latin-1"))
        ops.append("isabs %s" % h)
        for fn in ("basename", "dirname", "normpath"):
            for size in sizes_for(L):                 # every (path, size) pair, size 0 .. len+2
                ops.append("%s %s %d" % (fn, h, size))
                ops.append("buf")
            ops.append("%s %s %d" % (fn, h, 1024))
    # abspath: absolute paths with every size; relative ones against several cwds
    sub = paths if not ctx.quick else paths[::3]
    for p in sub:
        h = hx(p)
        L = len(p.encode("latin-1"))
        for cwd in cwds[:2] if ctx.quick else cwds:
            tot = L + len(cwd) + 1
            for size in sorted(set(list(range(0, 4)) + list(range(max(0, L - 1), L + 3)) +
                                   list(range(max(0, tot - 2), tot + 3)))):
                ops.append("abspath %s %s %d" % (hx(cwd), h, size))
                ops.append("buf")
    # join: pairs
    p1s = ["", "/", "a", "a/", "a\\", "/xxx", "./hello", ".", "c:", "ab/cd"]
    p2s = ["", "/", "b", "/b", "//b", "\\b", "../xxx.txt", "yy", "yyy", "b/"]
    for p1 in p1s:
        for p2 in p2s:
            tot = len(p1) + len(p2) + 1
            for size in range(0, tot + 3):
                ops.append("join %s %s %d" % (hx(p1), hx(p2), size))
                ops.append("buf")
    for _ in range(200 if ctx.quick else 4000):
        p1, p2 = rng.choice(paths), rng.choice(paths)
        tot = len(p1) + len(p2) + 1
        size = rng.choice([0, 1, 2, len(p1), len(p1) + 1, tot - 1, tot, tot + 1, tot + 2, 1024])
        ops.append("join %s %s %d" % (hx(p1), hx(p2), max(0, size)))
        ops.append("buf")
    # long paths against the internal MUGGLE_MAX_PATH buffers of abspath
    for n in (1000, 1015, 1016, 1017, 1018, 1022, 1023, 1024, 1030):
        p = "a" * n
        ops.append("abspath %s %s %d" % (hx("/home/u"), hx(p), 2048))
        ops.append("abspath %s %s %d" % (hx("/" + "w" * n), hx("b"), 2048))
        ops.append("normpath %s %d" % (hx(p), n + 1))
        ops.append("normpath %s %d" % (hx(p), n))
    return chunked(ops, 120)


FPARSERS = ["tof", "tod", "told"]


def gen_float(ctx):
    rng = ctx.rng
    ops = []

    def emit(s, which=None):
        h = hx(s)
        for p in (which or FPARSERS):
            ops.append("%s %s" % (p, h))
            ops.append("str%s %s" % (p, h))

    # limits of the three formats: largest finite, overflow threshold, smallest normal/subnormal
    edge = [
        "3.4028234e38", "3.4028235e38", "3.4028235677973366e38", "3.40282357e38", "3.4028236e38", "3.5e38", "1e39",
        "340282346638528859811704183484516925440", "340282356779733661637539395458142568447",
        "340282356779733661637539395458142568448", "340282356779733661637539395458142568449",
        "1.17549435e-38", "1.17549421e-38", "1.4e-45", "7.006492321624085e-46", "7.0064923216240853546186479164495806564013097093825788587853e-46",
        "7.1e-46", "7e-46", "1e-46",
        "1.7976931348623157e308", "1.7976931348623158e308", "1.7976931348623159e308", "1.797693134862315807e308",
        "1.8e308", "1e309", "179769313486231580793728971405303415079934132710037826936173778980444968292764750946649017977587207096330286416692887910946555547851940402630657488671505820681908902000708383676273854845817711531764475730270069855571366959622842914819860834936475292719074168444365510704342711559699508093042880177904174497791",
        "179769313486231580793728971405303415079934132710037826936173778980444968292764750946649017977587207096330286416692887910946555547851940402630657488671505820681908902000708383676273854845817711531764475730270069855571366959622842914819860834936475292719074168444365510704342711559699508093042880177904174497792",
        "2.2250738585072014e-308", "2.2250738585072011e-308", "2.225073858507201e-308", "4.9406564584124654e-324", "5e-324",
        "2.4703282292062327e-324", "2.4703282292062328e-324", "2.47032822920623272088284396434110686182e-324",
        "2.47032822920623272088284396434110686183e-324", "2e-324", "1e-400",
        "1.18973149535723176502e4932", "1.18973149535723176506e4932", "1.2e4932", "1e4933", "3.3621031431120935063e-4932",
        "3.6451995318824746025e-4951", "1.8e-4951", "1e-4951", "1e-5000", "1e999", "1e-999", "10e300", "10e10000",
        "9007199254740993", "9007199254740992", "9007199254740991", "9007199254740995", "16777217", "16777216", "16777219",
        "18446744073709551615", "18446744073709551616", "18446744073709551617", "36893488147419103233",
        "0.1", "0.2", "0.3", "1.1", "11.0", "1e23", "8.5e22", "123456789012345678901234567890", "0.000001", "5e-1", "5.e-1",
        ".5", "5.", "0", "0.0", "00", "0e0", "0e99999", "1e0", "1E+2", "1e-2", "1e+", "1e", "1e-", "1ex", "1.5e3x",
        "0x1p0", "0x1.8p1", "0X1.8P-1", "0x.8", "0x.8p1", "0x8.", "0x", "0x.", "0xp1", "0x1p", "0x1p+", "0x1pz", "0xg",
        "0x1.fffffep127", "0x1.ffffffp127", "0x1.fffffefp127", "0x1p128", "0x1p-149", "0x1p-150", "0x1.8p-150", "0x1.000002p-150",
        "0x1.fffffffffffffp1023", "0x1.fffffffffffff8p1023", "0x1.fffffffffffff7p1023", "0x1p1024", "0x1p-1074",
        "0x1p-1075", "0x1.000000000000001p-1075", "0x1.8p-1075", "0x1p16383", "0x1.fffffffffffffffep16383",
        "0x1.ffffffffffffffffp16383", "0x1p16384", "0x1p-16445", "0x1p-16446", "0x1.8p-16446",
        "0x1.00000000000008p0", "0x1.000000000000080000001p0", "0x1.00000000000018p0", "0x1.0000010p0", "0x1.000003p0",
        "inf", "INF", "Infinity", "infinit", "infinityx", "infx", "in", "i", "nan", "NaN", "nan()", "nan(1)", "nan(abc_9)",
        "nan(", "nan(1", "nan(-)", "nanx", "na", "n", "nan(1)x", "", " ", ".", "-", "+", "+-1", "-.", ".e1", "e1", "-e1",
        "1 2", "1,5", "1_0", "0x1.8p1.5", "1e5.5", "1..2", "1.2.3", "--1", "1d5", "1f", "1L", "0b1", "1e1e1",
    ]
    for e in edge:
        for sg in ("", "-", "+"):
            for ld, tr in (("", ""), (" ", ""), ("", " "), ("\t", " \n"), ("", "x"), ("", " x")):
                emit(ld + sg + e + tr)
    # random decimal and hexadecimal numerals around the three formats' ranges
    for _ in range(800 if ctx.quick else 30000):
        r = rng.random()
        nd = rng.choice([1, 2, 7, 9, 17, 18, 21, 25, 40])
        digs = "".join(rng.choice("0123456789") for _ in range(nd))
        if r < 0.7:
            dot = rng.randrange(0, nd + 1)
            body = digs[:dot] + (("." + digs[dot:]) if rng.random() < 0.8 else digs[dot:])
            if body in ("", "."):
                body = "1"
            if rng.random() < 0.8:
                ex = rng.choice([0, 1, -1, 37, 38, 39, -37, -38, -45, -46, 307, 308, 309, -307, -308, -323, -324,
                                 -325, 4931, 4932, 4933, -4931, -4932, -4950, -4951, -4952,
                                 rng.randrange(-5100, 5100), rng.randrange(-60, 60)])
                ex -= max(0, dot - 1) if rng.random() < 0.5 else 0
                body += rng.choice("eE") + rng.choice(["", "+"] if ex >= 0 else [""]) + str(ex)
        else:
            # hexadecimal numerals. glibc 2.36 mis-rounds some hexadecimal numerals in the subnormal
            # range (sticky bit exactly MANT_DIG places below the rounding position is dropped, e.g.
            # strtof("0x1.000001p-150") == 0): long mantissas are kept in the normal range of the
            # parser they are sent to, subnormal ones get at most 4 hex digits.
            which = rng.choice(FPARSERS)
            lo, hi, sub = {"tof": (-126, 128, -150), "tod": (-1022, 1024, -1075),
                           "told": (-16382, 16384, -16446)}[which]
            if rng.random() < 0.75:
                hd = "".join(rng.choice("0123456789abcdefABCDEF")
                             for _ in range(rng.choice([1, 2, 6, 7, 13, 14, 15, 16, 17, 20])))
                hd = rng.choice("123456789abcdef") + hd[1:]
                ex = rng.choice([lo, lo + 1, hi - 2, hi - 1, hi, hi + 1, 0, 1, rng.randrange(lo, hi + 3),
                                 rng.randrange(-100, 100) if which != "tof" else rng.randrange(-60, 60)])
                ex = max(ex, lo)
            else:
                hd = "".join(rng.choice("0123456789abcdef") for _ in range(rng.choice([1, 2, 3, 4])))
                ex = rng.choice([sub - 20, sub - 1, sub, sub + 1, sub + 2, lo - 1, lo - 2, rng.randrange(sub - 5, lo)])
            dot = rng.randrange(1, len(hd) + 1)
            # value = 0x hd[:dot] . hd[dot:] * 2^pe with leading bit exponent about ex
            pe = ex - 4 * (dot - 1)
            body = rng.choice(["0x", "0X"]) + hd[:dot] + rng.choice([".", "."]) + hd[dot:] + rng.choice("pP") + str(pe)
            s = rng.choice(["", "", " ", "\n "]) + rng.choice(["", "", "-", "+"]) + body + \
                rng.choice(["", "", "", " ", "\t", "x", " 1", "e", "p"])
            emit(s, which=[which])
            continue
        s = rng.choice(["", "", " ", "\n "]) + rng.choice(["", "", "-", "+"]) + body + \
            rng.choice(["", "", "", " ", "\t", "x", " 1", "e", "p"])
        emit(s, which=[rng.choice(FPARSERS)])
    return chunked(ops, 150)


GROUPS = [("bits", gen_bits), ("hex", gen_hex), ("str", gen_str), ("num", gen_num), ("float", gen_float), ("path", gen_path)]


def nontrivial(ops, out):
    # at least one op with a non-error, non-zero answer
    return any(o not in ("0", "err", "-1", "bad-op", "none") for o in out)




def main(ctx):
    ctx.cov["trusted_base"] = TRUSTED
    ctx.assumptions += TRUSTED[2:]
    ctx.cov["rule"] = (
        "per group (bits, hex, str, num, path) bounded-exhaustive + seeded random + malformed cases: "
        "next_pow_of_2 on every 2^k, 2^k+-1, 2^k+2^j and random 32/64-bit arguments; swap16 on every 16-bit "
        "value, swap32/64 structured+random; hex on all 256 byte values in every position; strip/find/count on "
        "all strings over a 2-3 letter alphabet up to length 4-5 with every (start,end) in -1..len+1; numerals at "
        "every type limit +-2 in bases 0,2,8,10,16,36 (and all bases 2..36) with every sign/blank/junk decoration; "
        "every generated path with every buffer size 0..len+2 for basename/dirname/normpath/abspath/join with "
        "a full dump of the exact-size heap buffer; distinct = distinct op lists; non-trivial = some op returns "
        "a non-error non-zero answer")
    ctx.lean_obligations("drv_c20", PROOFS, GREP, leanchecker=["MgProof.C20.Props"])
    vlib.tie_a_generated(ctx)
    if not getattr(ctx, "driver_ok", False):
        return
    try:
        hcmd, dcmd = build(ctx)
    except vlib.BuildError as e:
        ctx.broken.append("harness-build: " + str(e)[:500])
        return
    # one correspondence run per operation kind, so that every kind of failure gets its own
    # (already minimal) replay and a broken tree is reported quickly
    by_kind = {}
    for name, gen in GROUPS:
        for case in gen(ctx):
            by_kind.setdefault((name, case[0].split()[0]), []).append(case)
    # the corpus of minimised past failures (corpus/C20/*.ops) runs first, on its own
    vlib.seq_correspondence(ctx, hcmd, dcmd, [], nontrivial=nontrivial, keep_prefix=0,
                            label="tieB-corpus", max_reports=8)
    for (name, kind), cases in by_kind.items():
        vlib.seq_correspondence(ctx, hcmd, dcmd, cases, nontrivial=nontrivial, keep_prefix=0,
                                label="tieB-%s-%s" % (name, kind), max_reports=2,
                                corpus_dir="/nonexistent")
    ctx.cov["exhaustive"] = True
    ctx.cov["explanation"] = ("exhaustive=true refers to the bounded spaces described in rule "
                              "(e.g. every (path,size) pair of the generated paths, all byte values); "
                              "the theorems are unbounded")


def replay(ctx, path):
    hcmd, dcmd = build(ctx)
    vlib.lake_build(["drv_c20"])
    return vlib.replay_file(ctx, path, hcmd, dcmd)
