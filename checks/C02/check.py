"""C02 — ring buffer: one total write order, read i = i-th message, read-once exactly once, HB;
plus the ring-buffer part of C03 (no lost wake-up) exported as c03_runs / c03_judge.
Model: lean/MgModel/C02/Ring.lean; theorems: lean/MgProof/C02/Props.lean and
lean/MgProof/C03/RingBuffer.lean; tie C: the real object code of ring_buffer.c / spinlock.c /
sync_obj_futex.c / mutex.c under the deterministic scheduler (harness/tsanshim, harness/c02),
the schedule chosen there is replayed on the Lean model and the traces must be equal event for
event (location, value, memory order, woke counts); tie B: muggle_ring_buffer_init's flag
decoding and capacity rounding on a sequential op stream."""
import json
import os
import re
import vlib

PROOFS = ["MgProof.Tie.Bits", "MgProof.C02.Arith", "MgProof.C02.Lemmas", "MgProof.C02.LemmasB", "MgProof.C02.LemmasC",
          "MgProof.C02.LemmasD", "MgProof.C02.LemmasE", "MgProof.C02.LemmasG", "MgProof.C02.Assemble", "MgProof.C02.LemmasH",
          "MgProof.C02.Props",
          "MgProof.C03.RingBuffer"]
GREP = ["MgProof/Tie", "MgModel/Generated", "MgModel/C02", "MgProof/C02", "MgProof/C03/RingBuffer.lean", "MgModel/Common", "Drv/C02.lean"]
REPO_SRCS = ["muggle/c/sync/ring_buffer.c", "muggle/c/sync/spinlock.c", "muggle/c/sync/mutex.c",
             "muggle/c/sync/condition_variable.c", "muggle/c/sync/sync_obj_futex.c",
             "muggle/c/base/thread.c", "muggle/c/base/utils.c"]

TRUSTED = [
    "Lean 4.33 kernel; axioms printed by the audit (subset of propext, Classical.choice, Quot.sound)",
    "tie C: harness/tsanshim (own __tsan_* runtime + deterministic scheduler), clang's TSan instrumentation "
    "pass as the source of 'every shared access', harness/c02/conc_ring.c (thread programs, throttle, "
    "ghost counters), lib/vlib.py comparison",
    "memory model: sequentially consistent values + release/acquire knowledge sets (stale atomic reads "
    "allowed by C11 are not exhibited); futex / pthread mutex semantics are the scheduler's (POSIX), trusted",
    "the writers are throttled by the harness (never more than lim <= cap-1 messages ahead of the slowest "
    "unfinished reader): the documented no-lapping precondition; the theorems carry it as lim + 1 <= cap",
    "MUGGLE_RING_BUFFER_USE_SYNC (futex) branch only: the condition-variable fallback is not compiled on this platform",
    "re-use of a slot by a writer after a reader consumed it is ordered by the client's own synchronisation "
    "(here: the scheduler), not by ring_buffer.c; the theorems are value-level in that direction",
]

F_SINGLE_W, F_SINGLE_R, F_BUSY, F_ONCE = 0x01, 0x02, 0x08, 0x10
RMODE_FLAGS = {"wait": [0], "single": [F_SINGLE_R, F_SINGLE_R | F_ONCE], "busy": [F_BUSY, F_BUSY | F_SINGLE_R],
               "once": [F_ONCE]}


def next_pow2(x):
    p = 1
    while p < x:
        p *= 2
    return p


def decode(flag):
    """(single_writer, rmode) as muggle_ring_buffer_get_mode decides; None = invalid."""
    sw = bool(flag & F_SINGLE_W)
    if flag & F_SINGLE_R:
        return sw, ("busy" if flag & F_BUSY else "single")
    if flag & F_ONCE:
        return None if flag & F_BUSY else (sw, "once")
    return sw, ("busy" if flag & F_BUSY else "wait")


def mk_run(capreq, flag, W, R, nw, nr, base, lim, sched, fx=0):
    """fx > 0: a parked futex wait returns -1/EINTR (nobody woke it) with probability fx/1000 per
    scheduling decision — legal Linux behaviour (signal without SA_RESTART) that real hardware runs
    almost never show; the code must re-check the cursor and go back to sleep."""
    sw, rmode = decode(flag)
    cap = next_pow2(capreq)
    return {"conf": ["conf %d %d %d %d %d %d %d %d" % (capreq, flag, W, R, nw, nr, base, lim)] +
                    (["spurious-futex %d" % fx] if fx else []),
            "sched": sched, "cap": cap, "flag": flag, "rmode": rmode, "single_writer": sw,
            "W": W, "R": R, "nw": nw, "nr": nr, "base": base, "lim": lim,
            "pre": 0 if rmode == "once" else base % cap}


def run_from_conf(conf_line, sched):
    t = conf_line.split()
    return mk_run(*[int(x) for x in t[1:9]], sched)


def completable(run):
    M = run["W"] * run["nw"]
    if run["R"] == 0 or run["nr"] == 0:
        return True
    if run["lim"] < 1:
        return False
    if run["rmode"] == "once":
        return run["R"] * run["nr"] <= M + run["pre"]
    return run["nr"] <= M


def in_contract(run):
    """documented usage: no lapping, single-writer / single-reader flags respected"""
    if run["lim"] > run["cap"] - 1:
        return False
    if run["single_writer"] and run["W"] > 1:
        return False
    if run["rmode"] == "single" and run["R"] > 1:
        return False
    return True


def judge(run, out):
    """Property-level oracle (C02 + ring-buffer part of C03) on the implementation's own trace."""
    if not in_contract(run):
        return None
    end = next((l for l in out if l.startswith("end ")), None)
    if end is None:
        return "no end line"
    cap, pre, W = run["cap"], run["pre"], run["W"]
    written = list(range(1, pre + 1))
    pending = {}
    delivered = 0
    got = {}
    for l in out:
        m = re.match(r"T(\d+) w blocks\[(\d+)\] (\S+)$", l)
        if m:
            t, i, v = int(m.group(1)), int(m.group(2)), m.group(3)
            if i != len(written) % cap:
                return "slot store outside the write position: " + l
            pending[t] = v
            continue
        m = re.match(r"T(\d+) st cursor (-?\d+) (\w+)$", l)
        if m:
            t, v, mo = int(m.group(1)), int(m.group(2)), m.group(3)
            if t not in pending:
                return "cursor published without a slot store: " + l
            if mo not in ("rel", "ar", "sc"):
                return "cursor published without release order: " + l
            written.append(int(pending.pop(t)[1:]))
            if v != len(written) % cap:
                return "cursor value is not the number of messages modulo capacity: " + l
            continue
        m = re.match(r"T(\d+) ld cursor (-?\d+) (\w+)$", l)
        if m and m.group(3) not in ("acq", "ar", "sc", "con"):
            return "cursor read without acquire order: " + l
        m = re.match(r"T(\d+) note got (\d+) (\S+) (\w+)$", l)
        if m:
            t, j, v, ok = int(m.group(1)), int(m.group(2)), m.group(3), m.group(4)
            if ok != "ok" or not v.startswith("m"):
                return "reader was handed something that is not a stored message: " + l
            mid = int(v[1:])
            if run["rmode"] == "once":
                pos = delivered
                delivered += 1
            else:
                pos = pre + j
            if pos >= len(written):
                return "read returned before message number %d of the write order existed: %s" % (pos, l)
            if written[pos] != mid:
                return "read number %d returned m%d, the write order has m%d there: %s" % (pos, mid, written[pos], l)
            got.setdefault(t, []).append(mid)
    oc = next((l for l in out if l.startswith("outcome ")), "")
    if not oc.endswith(" bad=0"):
        return "payload check failed: " + oc
    if len(set(written)) != len(written):
        return "a message appears twice in the write order"
    # C03: the documented usage never ends asleep / spinning while messages remain
    if completable(run) and not end.startswith("end ok"):
        return "run did not complete although every read can be served: " + end
    if end.startswith("end ok"):
        if len(written) != pre + W * run["nw"]:
            return "finished with %d messages in the write order, expected %d" % (len(written), pre + W * run["nw"])
        for r in range(run["R"]):
            if len(got.get(W + r, [])) != run["nr"]:
                return "reader %d finished with %d results, expected %d" % (r, len(got.get(W + r, [])), run["nr"])
    return None


def c03_judge(run, out):
    """No lost wake-up on the ring buffer: every completable run under the documented usage ends `ok`."""
    if not in_contract(run):
        return None
    end = next((l for l in out if l.startswith("end ")), None)
    if end is None:
        return "no end line"
    if completable(run) and not end.startswith("end ok"):
        st = [l for l in out if l.startswith("state ")]
        return "ring buffer: every participant asleep or spinning while messages remain: %s %s" % (end, st)
    return judge(run, out)


def sched_of(rng, pct_share=0.4):
    s = rng.randrange(1, 1 << 30)
    return "random %d" % s if rng.random() > pct_share else "pct %d %d" % (s, rng.choice([1, 2, 3, 4]))


def flags_for(rmode, single_writer, rng=None):
    fs = RMODE_FLAGS[rmode]
    f = fs[0] if rng is None else rng.choice(fs)
    return f | (F_SINGLE_W if single_writer else 0)


BASES = [0, (1 << 32) - 3, (1 << 32) - 1, 5, (1 << 32) - 8, 1 << 31]


def gen_runs(ctx):
    rng = ctx.rng
    q = ctx.quick
    runs = []
    # (i) bounded-exhaustive over configurations: 2 writer modes x 4 reader modes x requested capacities 2..8
    per = 24 if q else 300
    for capreq in range(2, 9):
        cap = next_pow2(capreq)
        for sw in (False, True):
            for rmode in ("wait", "single", "busy", "once"):
                for W in ([1] if sw else [1, 2, 3]):
                    for R in ([1] if rmode == "single" else [1, 2, 3]):
                        for i in range(per if (W, R) in ((1, 1), (2, 2)) else max(1, per // 3)):
                            total = rng.choice([cap, 2 * cap, 2 * cap + 1, 3 * cap])
                            nw = max(1, total // W)
                            M = nw * W
                            if rmode == "once":
                                nr = M // R
                            else:
                                nr = M if rng.random() < 0.8 else rng.randrange(0, M + 1)
                            base = rng.choice(BASES) if rng.random() < 0.8 else rng.randrange(0, 1 << 32)
                            lim = cap - 1 if rng.random() < 0.7 else rng.randrange(1, cap)
                            runs.append(mk_run(capreq, flags_for(rmode, sw, rng), W, R, nw, nr, base, lim,
                                               sched_of(rng)))
    # (ii) longer random histories, biased to small capacities (many wraps) and index wrap
    for i in range(400 if q else 6000):
        capreq = rng.choice([2, 2, 3, 4, 4, 5, 8])
        cap = next_pow2(capreq)
        sw = rng.random() < 0.3
        rmode = rng.choice(["wait", "wait", "single", "busy", "once", "once"])
        W = 1 if sw else rng.choice([1, 2, 3, 4])
        R = 1 if rmode == "single" else rng.choice([1, 2, 3, 4])
        nw = rng.choice([3, 5, 8, 12])
        M = nw * W
        nr = M // R if rmode == "once" else min(M, 128)
        fx = rng.choice([0, 0, 0, 200, 500]) if rmode != "busy" else 0
        runs.append(mk_run(capreq, flags_for(rmode, sw, rng), W, R, nw, nr,
                           rng.choice(BASES + [rng.randrange(0, 1 << 32)]),
                           rng.choice([cap - 1, cap - 1, 1, max(1, cap // 2)]), sched_of(rng, 0.3), fx=fx))
    return runs


def gen_out_of_contract(ctx):
    """Outside the documented usage (lapping allowed, readers asking for more than is ever written,
    several readers on a single-reader ring): no property verdict, but the model must still predict
    the real code's trace exactly — including deadlocks and garbled reads."""
    rng = ctx.rng
    runs = []
    for i in range(200 if ctx.quick else 3000):
        capreq = rng.choice([2, 3, 4, 8])
        cap = next_pow2(capreq)
        sw = rng.random() < 0.3
        rmode = rng.choice(["wait", "single", "busy", "once"])
        W = rng.choice([1, 2, 3])
        R = rng.choice([1, 2, 3])
        nw = rng.choice([2, 4, 6])
        M = nw * W
        kind = rng.choice(["lap", "starve", "free"])
        lim = cap - 1
        nr = M // R if rmode == "once" else M
        if kind == "lap":
            lim = rng.choice([cap, cap + 1, 2 * cap, 1000])
        elif kind == "starve":
            nr = nr + rng.choice([1, 2])
            if rmode == "busy":
                nr = M // R if rmode == "once" else M
        runs.append(mk_run(capreq, flags_for(rmode, sw, rng), W, R, nw, nr, rng.choice(BASES), lim,
                           sched_of(rng)))
    return runs


def c03_runs(ctx):
    """Runs designed to expose lost wake-ups on the ring buffer: blocking reader modes only, readers
    that outrun the writers (small lim, many readers), PCT schedules that park a reader between its
    cursor check and its futex wait while the writer publishes and wakes."""
    rng = ctx.rng
    runs = []
    n = 600 if ctx.quick else 10000
    for i in range(n):
        capreq = rng.choice([2, 2, 3, 4, 8])
        cap = next_pow2(capreq)
        rmode = rng.choice(["wait", "wait", "single", "once", "once"])
        sw = rng.random() < 0.4
        W = 1 if sw else rng.choice([1, 2, 3])
        R = 1 if rmode == "single" else rng.choice([1, 2, 3])
        nw = rng.choice([2, 3, 4, 6])
        M = nw * W
        nr = M // R if rmode == "once" else M
        lim = rng.choice([1, 1, 2, cap - 1])
        lim = max(1, min(lim, cap - 1))
        fx = rng.choice([0, 0, 100, 300, 600]) if rmode != "busy" else 0
        runs.append(mk_run(capreq, flags_for(rmode, sw, rng), W, R, nw, nr, rng.choice(BASES[:4]), lim,
                           sched_of(rng, 0.6), fx=fx))
    return runs


def systematic(ctx, hcmd, dcmd):
    """Preemption-bounded systematic exploration of the real code (CHESS-style) on the smallest
    configurations of every writer mode x reader mode; every schedule found is judged and replayed
    on the Lean model."""
    q = ctx.quick
    small = []
    for sw in (False, True):
        for rmode in ("wait", "single", "busy", "once"):
            f = flags_for(rmode, sw)
            # capacity 2, one message ahead at most: every read races with the next write
            small.append(("conf 2 %d 1 1 2 2 0 1" % f, 2 if q else 4))
            if rmode != "single":
                small.append(("conf 2 %d 1 2 2 %d %d 1" % (f, 1 if rmode == "once" else 2,
                                                         0 if rmode == "once" else (1 << 32) - 1), 1 if q else 2))
            if not sw:
                small.append(("conf 2 %d 2 1 1 2 0 1" % f, 1 if q else 2))
            if not q:
                small.append(("conf 4 %d %d 2 2 %d 4294967294 3" % (f, 1 if sw else 2, (2 if sw else 4) // (2 if rmode == "once" else 1)
                                                                  if rmode != "single" else 2, ), 1))
    runs, exh = [], {}
    for conf, bound in small:
        t = conf.split()
        if decode(int(t[2]))[1] == "single" and int(t[4]) > 1:
            continue
        g = vlib.explore_schedules(hcmd, [conf], bound, max_runs=1500 if q else 60000)
        n = 0
        for sched, out in g:
            n += 1
            runs.append(run_from_conf(conf, "prefix " + " ".join(sched)))
        exh["%s bound=%d" % (conf, bound)] = {"schedules": n, "exhausted": g.exhausted}
    ctx.cov["systematic"] = exh
    ctx.cov["exhaustive"] = all(v["exhausted"] for v in exh.values())
    vlib.conc_correspondence(ctx, hcmd, dcmd, runs, judge=c03_judge, label="tieC_systematic")


def corpus_runs():
    d = os.path.join(vlib.VERIF, "corpus", "C02")
    runs = []
    if os.path.isdir(d):
        for f in sorted(os.listdir(d)):
            if f.endswith(".ops"):
                ls = [l.strip() for l in open(os.path.join(d, f)) if l.strip() and not l.startswith("#")]
                conf = next(l for l in ls if l.startswith("conf "))
                sched = next(l for l in ls if l.startswith("sched "))[len("sched "):]
                runs.append(run_from_conf(conf, sched))
    return runs


def gen_init_cases(ctx):
    """tie B for muggle_ring_buffer_init: flag decoding (all 64 combinations of the defined bits and
    the deprecated 0x04) x capacities incl. 0, non-powers of two, int overflow edge; malformed ops."""
    rng = ctx.rng
    caps = [0, 1, 2, 3, 4, 5, 7, 8, 9, 1000, 1024, 1025, 4096, (1 << 30) + 1, 1 << 31, (1 << 32) - 1]
    cases = []
    for c in caps:
        cases.append(["init %d %d" % (c, f) for f in range(64)])
    for _ in range(20 if ctx.quick else 300):
        cases.append(["init %d %d" % (rng.choice(caps[:13] + [rng.randrange(1, 5000)]), rng.randrange(0, 256))
                      for _ in range(20)])
    # malformed stream: refused configurations and garbage lines must be refused by both sides
    cases.append(["conf 4 24 1 1 1 1 0 3", "run", "conf 0 0 1 1 1 1 0 1", "run", "conf 4 0 9 1 1 1 0 3", "run",
                  "conf 4 0 1", "run", "frobnicate", "init", "init 4", "sched bogus 1", "run"])
    return cases


def build(ctx):
    exe = vlib.build_conc_harness("C02", "conc_ring", ["harness/c02/conc_ring.c"], REPO_SRCS)
    return [exe], ctx.driver_cmd("drv_c02")


def signature_of(run, out, msg):
    return None


def main(ctx):
    ctx.cov["trusted_base"] = TRUSTED
    ctx.assumptions += TRUSTED[2:]
    ctx.cov["rule"] = ("seeded random and PCT schedules of the real ring_buffer.c object code under the "
                       "deterministic scheduler: 2 writer modes x 4 reader modes x requested capacities 2..8 x "
                       "writers 1..3(4) x readers 1..3(4), 1..3 capacities worth of messages (cursor wraps), reader "
                       "indices started at 0, 2^32-3, 2^32-1, 2^31, random (32-bit index wrap), throttle limits "
                       "1..cap-1; plus out-of-contract runs (lapping, starving readers) for the trace tie only; "
                       "every schedule is replayed on the Lean model and the traces compared event for event; "
                       "the property oracle (write order from the release stores, read i = i-th message, read-once "
                       "in mutex order, payload visible, completion) judges the implementation's own trace; "
                       "distinct = distinct implementation traces")
    ctx.lean_obligations("drv_c02", PROOFS, GREP, leanchecker=["MgProof.C02.Props", "MgProof.C03.RingBuffer"])
    vlib.tie_a_generated(ctx)
    if not getattr(ctx, "driver_ok", False):
        return
    try:
        hcmd, dcmd = build(ctx)
    except vlib.BuildError as e:
        ctx.broken.append("harness-build: " + str(e)[:500])
        return
    vlib.seq_correspondence(ctx, hcmd, dcmd, gen_init_cases(ctx), keep_prefix=0, label="tieB_init",
                            corpus_dir=os.path.join(vlib.VERIF, "corpus", "C02", "none"))
    cr = corpus_runs()
    if cr:
        vlib.conc_correspondence(ctx, hcmd, dcmd, cr, judge=judge, label="tieC_corpus")
    vlib.conc_correspondence(ctx, hcmd, dcmd, gen_runs(ctx), judge=judge, signature_of=signature_of)
    vlib.conc_correspondence(ctx, hcmd, dcmd, c03_runs(ctx), judge=c03_judge, label="tieC_c03_wakeups")
    vlib.conc_correspondence(ctx, hcmd, dcmd, gen_out_of_contract(ctx), judge=None, label="tieC_out_of_contract")
    systematic(ctx, hcmd, dcmd)


def _run_for_replay(hcmd, ops):
    """A recorded schedule may end in a deadlock (nothing left to schedule) or may not fit the current
    tree (after a fix other threads are enabled): replay it as a prefix and let the scheduler continue
    non-preemptively; if the prefix itself no longer applies, keep the part that does."""
    conf = [l for l in ops if not l.startswith("sched ") and l != "run"]
    sched = next((l for l in ops if l.startswith("sched ")), "sched random 1")
    toks = sched.split()[2:] if sched.split()[1] in ("replay", "prefix") else None
    if toks is None:
        return vlib.run_one(hcmd, ops), ops
    cur = toks
    for _ in range(3):
        ops2 = conf + ["sched prefix " + " ".join(cur), "run"]
        a = vlib.run_one(hcmd, ops2)
        end = next((l for l in a["out"] if l.startswith("end ")), "")
        if a["crash"] or "replay-diverged" not in end:
            return a, ops2
        try:
            n = int(end.split("steps=")[1])
        except (IndexError, ValueError):
            n = 0
        cur = cur[:max(0, min(n, len(cur) - 1))]
    return a, ops2


def replay(ctx, path):
    hcmd, dcmd = build(ctx)
    vlib.lake_build(["drv_c02"])
    r = json.load(open(path))
    ops = r.get("ops") or (r.get("model_difference") or {}).get("ops")
    if not ops:
        print("replay names a broken obligation only:", r.get("broken"))
        return 2
    if not any(l.startswith("conf ") for l in ops):
        return vlib.replay_file(ctx, path, hcmd, dcmd)
    a, ops_used = _run_for_replay(hcmd, ops)
    print("\n".join(a["out"]))
    if a["crash"]:
        print("VIOLATION property=C02 replay=%s" % path)
        print("crash: " + a["crash"][:1000])
        return 1
    conf = next(l for l in ops if l.startswith("conf "))
    run = run_from_conf(conf, "")
    msg = c03_judge(run, a["out"])
    if msg:
        print("VIOLATION property=C02 replay=%s" % path)
        print(msg)
        return 1
    sched = next((l[len("schedule "):] for l in a["out"] if l.startswith("schedule ")), "")
    b = vlib.run_one(dcmd, [l for l in ops if not l.startswith("sched ") and l != "run"] +
                     ["sched replay " + sched, "run"])
    strip = lambda ls: [l for l in ls if not l.startswith("#")]
    if strip(a["out"]) != strip(b["out"]):
        print("model and implementation traces differ")
        return 1
    print("replay passes on the current tree")
    return 0
