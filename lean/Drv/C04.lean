import MgModel.Common.Conc
import MgModel.Common.Driver
import MgModel.C04.Locks
import MgModel.C04.Once
import MgModel.C04.RefCnt
/-! Driver for the C04 concurrent models: same line protocol as harness/c04/conc_locks.c,
schedules are always replayed (`sched replay ...`). -/
open MgModel MgModel.Conc

inductive Conf where
  | none
  | locks (k : C04.Kind) (n r : Nat)
  | once (n : Nat)
  | refcnt (init : Nat) (progs : List (List C04.RefCnt.Op))

structure DSt where
  conf  : Conf := .none
  sched : List Tok := []

def parseProg (s : String) : List C04.RefCnt.Op :=
  s.toList.map fun c => if c = 'r' then .retain else .release

def finish {σ : Type} (sched : List String) (r : σ × List String × Bool) (steps : Nat)
    (allDone anyEn : σ → Bool) (stateLines : σ → List String) (outcome : σ → String) : List String :=
  let (s, evs, ok) := r
  let status := if !ok then "replay-diverged" else if allDone s then "ok"
                else if !anyEn s then "deadlock" else "step-limit"
  let st := if status = "deadlock" then stateLines s else []
  [s!"schedule {" ".intercalate sched}"] ++ evs ++ st ++ [s!"end {status} steps={steps}", outcome s]

def runConf (d : DSt) (schedToks : List String) : List String :=
  let steps := d.sched.length
  match d.conf with
  | .none => ["bad-op"]
  | .locks k n r =>
    finish schedToks (runSched C04.step (C04.mkInit k n r) d.sched) steps
      C04.allDone C04.anyEnabled C04.stateLines C04.outcome
  | .once n =>
    finish schedToks (runSched C04.Once.step (C04.Once.mkInit n) d.sched) steps
      C04.Once.allDone C04.Once.anyEnabled C04.Once.stateLines C04.Once.outcome
  | .refcnt i ps =>
    finish schedToks (runSched C04.RefCnt.step (C04.RefCnt.mkInit i ps) d.sched) steps
      C04.RefCnt.allDone C04.RefCnt.anyEnabled C04.RefCnt.stateLines C04.RefCnt.outcome

structure Top where
  d : DSt := {}
  toks : List String := []
  weak : Bool := false

def stepLine (st : Top) : List String → Top × String
  | "conf" :: "refcnt" :: i :: progs =>
    match i.toNat? with
    | some i => ({ st with d := { conf := .refcnt i (progs.map parseProg) } }, "ok")
    | none => (st, "bad-op")
  | ["conf", "once", n] =>
    match n.toNat? with
    | some n => ({ st with d := { conf := .once n } }, "ok")
    | none => (st, "bad-op")
  | ["conf", k, n, r] =>
    match n.toNat?, r.toNat? with
    | some n, some r =>
      if k = "spinlock" then ({ st with d := { conf := .locks .spin n r } }, "ok")
      else if k = "synclock" then ({ st with d := { conf := .locks (.sync false) n r } }, "ok")
      else if k = "synclock-weak" then ({ st with d := { conf := .locks (.sync true) n r } }, "ok")
      else if k = "mutex" then ({ st with d := { conf := .locks .mutex n r } }, "ok")
      else (st, "bad-op")
    | _, _ => (st, "bad-op")
  | "sched" :: "replay" :: toks =>
    match parseSchedule toks with
    | some s => ({ st with d := { st.d with sched := s }, toks := toks }, "ok")
    | none => (st, "bad-op")
  | ["spurious", _, _] => (st, "ok")
  | ["spurious", _, _, _] => (st, "ok")
  | ["run"] => (st, "\n".intercalate (runConf st.d st.toks))
  | _ => (st, "bad-op")

def main : IO Unit := MgModel.Driver.main ({} : Top) stepLine
