import MgModel.Common.Conc
import MgModel.Common.Driver
import MgModel.C05.Client
import MgModel.C05.TsPool
import MgModel.C05.TsOrig
import MgModel.C05.SowrPool
import MgModel.C05.RingPool
/-! Driver for the C05 pool models: same line protocol as harness/c05/conc_pools.c;
schedules are always replayed (`sched replay ...`). -/
open MgModel MgModel.Conc MgModel.C05

inductive Kind where
  | ts | tsorig | sowr | ring | ringts
  deriving DecidableEq

structure Conf where
  kind : Kind
  cap  : Nat
  opt  : Nat
  progs : List (List Op)

structure Top where
  conf : Option Conf := none
  sched : List Tok := []
  toks : List String := []

/-- `muggle_next_pow_of_2` for the small capacities used here -/
def nextPow2 (n : Nat) : Nat := Id.run do
  let mut p := 1
  for _ in [0:32] do
    if p < n then p := p * 2
  return p

/-- capacity after `*_init` (none: init fails) -/
def realCap (k : Kind) (c : Nat) : Option Nat :=
  match k with
  | .ts | .tsorig => if c = 0 then none else some (nextPow2 c)
  | .sowr => some (nextPow2 (if c = 0 then 8 else c))
  | .ring | .ringts => some (nextPow2 (if c < 2 then 2 else c))

def finish {σ : Type} (sched : List String) (r : σ × List String × Bool) (steps : Nat)
    (allDone anyEn : σ → Bool) (outcome : σ → String) : List String :=
  let (s, evs, ok) := r
  let status := if !ok then "replay-diverged" else if allDone s then "ok"
                else if !anyEn s then "deadlock" else "step-limit"
  [s!"schedule {" ".intercalate sched}"] ++ evs ++ [s!"end {status} steps={steps}", outcome s]

def runConf (c : Conf) (sched : List Tok) (toks : List String) : List String :=
  let n := c.progs.length
  match realCap c.kind c.cap with
  | none => ["init-failed"]
  | some cap =>
    if cap > 64 then ["init-failed"] else
    match c.kind with
    | .ts => finish toks (runSched Ts.step (Ts.mkInit cap n c.progs) sched) sched.length Ts.allDone Ts.anyEnabled Ts.outcome
    | .tsorig => finish toks (runSched TsOrig.step (TsOrig.mkInit cap n c.progs) sched) sched.length
        TsOrig.allDone TsOrig.anyEnabled TsOrig.outcome
    | .sowr => finish toks (runSched Sowr.step (Sowr.mkInit cap c.opt n c.progs) sched) sched.length
        Sowr.allDone Sowr.anyEnabled Sowr.outcome
    | .ring => finish toks (runSched Ring.step (Ring.mkInit cap n false c.progs) sched) sched.length
        Ring.allDone Ring.anyEnabled Ring.outcome
    | .ringts => finish toks (runSched Ring.step (Ring.mkInit cap n true c.progs) sched) sched.length
        Ring.allDone Ring.anyEnabled Ring.outcome

def parseKind (s : String) : Option Kind :=
  if s = "ts" then some .ts else if s = "tsorig" then some .tsorig else if s = "sowr" then some .sowr
  else if s = "ring" then some .ring else if s = "ringts" then some .ringts else none

def stepLine (st : Top) : List String → Top × String
  | "conf" :: k :: cap :: opt :: progs =>
    match parseKind k, cap.toNat?, opt.toNat? with
    | some k, some cap, some opt =>
      if progs.isEmpty || progs.length > 8 || progs.any (fun p => p.length ≥ 256) then ({ st with conf := none }, "bad-op")
      else ({ st with conf := some { kind := k, cap := cap, opt := opt, progs := progs.map parseProg }, sched := [], toks := [] }, "ok")
    | _, _, _ => ({ st with conf := none }, "bad-op")
  | "sched" :: "replay" :: toks =>
    match parseSchedule toks with
    | some s => ({ st with sched := s, toks := toks }, "ok")
    | none => (st, "bad-op")
  | ["spurious", _, _] => (st, "ok")
  | ["run"] =>
    match st.conf with
    | some c => (st, "\n".intercalate (runConf c st.sched st.toks))
    | none => (st, "bad-op")
  | _ => (st, "bad-op")

def main : IO Unit := MgModel.Driver.main ({} : Top) stepLine
