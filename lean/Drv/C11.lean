import MgModel.Common.Driver
import MgModel.C11.ArrayList
import MgModel.C11.Stack
import MgModel.C11.LinkedList
import MgModel.C11.Queue
import MgModel.C11.PointerSlot
/-!
Line-protocol driver for C11 (array list, stack, linked list, queue, pointer slot).
Every line is answered with `"<model answer> | <spec answer>"`; the spec column is
left out where the answer is not determined by the abstract sequence (capacities,
pool counters, raw ring dumps). A model error (`Err`) is printed as `err-…` and
poisons the case.
-/
open MgModel MgModel.C11 MgModel.Driver

structure St where
  dead : Bool := false
  al : Option (AL.AL × List Val) := none
  sk : Option (Stk.Stack × List Val) := none
  ll : Option (LL.LL × LL.Spec) := none
  q  : Option (Q.Queue × Q.Spec) := none
  ps : Option (PS.PS × PS.Spec) := none

def showErr : Err → String
  | .oob => "err-oob" | .null => "err-null" | .uaf => "err-uaf"
  | .uninit => "err-uninit" | .ub => "err-ub"

def showOptNat : Option Nat → String
  | some n => toString n
  | none => "null"

def showVals (l : List Val) : String := ",".intercalate (l.map toString)
def showFreed (l : List Val) : String := "f:" ++ showVals l

def showRef : Ref → String
  | .head => "head" | .tail => "tail" | .node k => s!"n{k}"
def showOptRef : Option Ref → String
  | some r => showRef r
  | none => "null"

def showOffVal : Option (Nat × Val) → String
  | some (i, v) => s!"{i}:{v}"
  | none => "null"

/- space separated lists are printed with a leading blank per item (no trailing blanks) -/
def showRV (l : List (Ref × Val)) : String :=
  String.join (l.map fun (r, v) => s!" {showRef r}:{v}")
def showRefs (l : List Ref) : String := String.join (l.map fun r => " " ++ showRef r)
def showValsSp (l : List Val) : String := String.join (l.map fun v => s!" {v}")

def parseBool (s : String) : Option Bool :=
  if s = "1" then some true else if s = "0" then some false else none

def parseInt32 (s : String) : Option Int :=
  match s.toInt? with
  | some i => if -(2:Int)^31 ≤ i ∧ i < (2:Int)^31 then some i else none
  | none => none

/-- `"-"` = NULL, `"n<k>"` = node k -/
def parseNode (s : String) : Option (Option Ref) :=
  if s = "-" then some none
  else if s.startsWith "n" then (s.drop 1).toString.toNat?.map (fun k => some (Ref.node k))
  else none

def ms (m s : String) : String := s!"{m} | {s}"

/-- run a model step; on `Err` the case is poisoned -/
def guardE {α : Type} (st : St) (r : Except Err α) (k : α → St × String) : St × String :=
  match r with
  | .ok a => k a
  | .error e => ({ st with dead := true }, showErr e)

/-! ### array list -/
def stepAL (st : St) (s : AL.AL) (l : List Val) : List String → St × String
  | ["al_insert", i, v] =>
    match parseInt32 i, v.toNat? with
    | some i, some v =>
      guardE st (AL.insert s i v) fun (s', r) =>
        let (l', r') := AL.specInsert l i v
        ({ st with al := some (s', l') },
          if s.capacity * 2 < 2 ^ 31 then ms (showOptNat r) (showOptNat r') else showOptNat r)
    | _, _ => (st, "bad-op")
  | ["al_append", i, v] =>
    match parseInt32 i, v.toNat? with
    | some i, some v =>
      guardE st (AL.append s i v) fun (s', r) =>
        let (l', r') := AL.specAppend l i v
        ({ st with al := some (s', l') },
          if s.capacity * 2 < 2 ^ 31 then ms (showOptNat r) (showOptNat r') else showOptNat r)
    | _, _ => (st, "bad-op")
  | ["al_remove", i, f] =>
    match parseInt32 i, parseBool f with
    | some i, some f =>
      guardE st (AL.remove s i f) fun (s', ok, fr) =>
        let (l', ok', fr') := AL.specRemove l i f
        ({ st with al := some (s', l') },
          ms s!"{showBool ok} {showFreed fr}" s!"{showBool ok'} {showFreed fr'}")
    | _, _ => (st, "bad-op")
  | ["al_get", i] =>
    match parseInt32 i with
    | some i =>
      guardE st (AL.index s i) fun r => (st, ms (showOffVal r) (showOffVal (AL.specIndex l i)))
    | _ => (st, "bad-op")
  | ["al_find", i, v] =>
    match parseInt32 i, v.toNat? with
    | some i, some v =>
      guardE st (AL.find s i v) fun r =>
        let sh (o : Option Nat) := match o with | some k => toString k | none => "-1"
        (st, ms (sh r) (sh (AL.specFind l i v)))
    | _, _ => (st, "bad-op")
  | ["al_clear", f] =>
    match parseBool f with
    | some f =>
      guardE st (AL.clear s f) fun (s', fr) =>
        let (l', fr') := AL.specClear l f
        ({ st with al := some (s', l') }, ms s!"ok {showFreed fr}" s!"ok {showFreed fr'}")
    | _ => (st, "bad-op")
  | ["al_size"] =>
    (st, ms s!"{AL.size s} {showBool (AL.isEmpty s)}" s!"{l.length} {showBool l.isEmpty}")
  | ["al_ensure", c] =>
    match c.toNat? with
    | some c =>
      guardE st (AL.ensureCapacity s c) fun (s', ok) =>
        ({ st with al := some (s', l) }, showBool ok)
    | _ => (st, "bad-op")
  | ["al_cap"] => (st, toString s.capacity)
  | ["al_dump"] =>
    guardE st (AL.contents s) fun c =>
      (st, ms s!"{s.size} :{showValsSp c}" s!"{l.length} :{showValsSp l}")
  | _ => (st, "bad-op")

/-! ### stack -/
def stepSK (st : St) (s : Stk.Stack) (l : List Val) : List String → St × String
  | ["st_push", v] =>
    match v.toNat? with
    | some v =>
      guardE st (Stk.push s v) fun (s', r) =>
        let (l', r') := Stk.specPush l v
        ({ st with sk := some (s', l') },
          if s.capacity * 2 < 2 ^ 31 then ms (showOptNat r) (showOptNat r') else showOptNat r)
    | _ => (st, "bad-op")
  | ["st_top"] =>
    guardE st (Stk.top s) fun r => (st, ms (showOffVal r) (showOffVal (Stk.specTop l)))
  | ["st_pop", f] =>
    match parseBool f with
    | some f =>
      guardE st (Stk.pop s f) fun (s', fr) =>
        let (l', fr') := Stk.specPop l f
        ({ st with sk := some (s', l') }, ms s!"ok {showFreed fr}" s!"ok {showFreed fr'}")
    | _ => (st, "bad-op")
  | ["st_clear", f] =>
    match parseBool f with
    | some f =>
      guardE st (Stk.clear s f) fun (s', fr) =>
        let (l', fr') := Stk.specClear l f
        ({ st with sk := some (s', l') }, ms s!"ok {showFreed fr}" s!"ok {showFreed fr'}")
    | _ => (st, "bad-op")
  | ["st_size"] =>
    (st, ms s!"{Stk.size s} {showBool (Stk.isEmpty s)}" s!"{l.length} {showBool l.isEmpty}")
  | ["st_ensure", c] =>
    match c.toNat? with
    | some c =>
      guardE st (Stk.ensureCapacity s c) fun (s', ok) =>
        ({ st with sk := some (s', l) }, showBool ok)
    | _ => (st, "bad-op")
  | ["st_cap"] => (st, toString s.capacity)
  | ["st_dump"] =>
    guardE st (Stk.contents s) fun c =>
      (st, ms s!"{s.top} :{showValsSp c}" s!"{l.length} :{showValsSp l}")
  | _ => (st, "bad-op")

/-! ### linked list -/
def liveIn (l : List (Ref × Val)) : Option Ref → Bool
  | none => true
  | some r => (l.map (·.1)).contains r

def showPool : Option Pool → String
  | none => "none"
  | some p => s!"{p.used} {p.capacity}"

def stepLL (st : St) (s : LL.LL) (l : LL.Spec) : List String → St × String
  | ["ll_insert", n, v] =>
    match parseNode n, v.toNat? with
    | some n, some v =>
      if !liveIn l n then (st, "bad-node") else
      guardE st (LL.insert s n v) fun (s', nw) =>
        ({ st with ll := some (s', LL.specInsert l n nw v) }, ms (showRef nw) (showRef nw))
    | _, _ => (st, "bad-op")
  | ["ll_append", n, v] =>
    match parseNode n, v.toNat? with
    | some n, some v =>
      if !liveIn l n then (st, "bad-node") else
      guardE st (LL.append s n v) fun (s', nw) =>
        ({ st with ll := some (s', LL.specAppend l n nw v) }, ms (showRef nw) (showRef nw))
    | _, _ => (st, "bad-op")
  | ["ll_remove", n, f] =>
    match parseNode n, parseBool f with
    | some (some n), some f =>
      if !liveIn l (some n) then (st, "bad-node") else
      guardE st (LL.remove s n f) fun (s', nx, fr) =>
        let (l', nx', fr') := LL.specRemove l n f
        ({ st with ll := some (s', l') },
          ms s!"{showOptRef nx} {showFreed fr}" s!"{showOptRef nx'} {showFreed fr'}")
    | _, _ => (st, "bad-op")
  | ["ll_next", n] =>
    match parseNode n with
    | some (some n) =>
      if !liveIn l (some n) then (st, "bad-node") else
      guardE st (LL.next s n) fun r =>
        (st, ms (showOptRef r) (showOptRef (LL.specNext l n)))
    | _ => (st, "bad-op")
  | ["ll_prev", n] =>
    match parseNode n with
    | some (some n) =>
      if !liveIn l (some n) then (st, "bad-node") else
      guardE st (LL.prev s n) fun r =>
        (st, ms (showOptRef r) (showOptRef (LL.specPrev l n)))
    | _ => (st, "bad-op")
  | ["ll_first"] => (st, ms (showOptRef (LL.first s)) (showOptRef (l.head?.map (·.1))))
  | ["ll_last"] => (st, ms (showOptRef (LL.last s)) (showOptRef (l.getLast?.map (·.1))))
  | ["ll_find", n, v] =>
    match parseNode n, v.toNat? with
    | some n, some v =>
      if !liveIn l n then (st, "bad-node") else
      guardE st (LL.find s n v) fun r =>
        (st, ms (showOptRef r) (showOptRef (LL.specFind l n v)))
    | _, _ => (st, "bad-op")
  | ["ll_clear", f] =>
    match parseBool f with
    | some f =>
      guardE st (LL.clear s f) fun (s', fr) =>
        let (l', fr') := LL.specClear l f
        ({ st with ll := some (s', l') }, ms s!"ok {showFreed fr}" s!"ok {showFreed fr'}")
    | _ => (st, "bad-op")
  | ["ll_size"] =>
    (st, ms s!"{LL.size s} {showBool (LL.isEmpty s)}" s!"{l.length} {showBool l.isEmpty}")
  | ["ll_pool"] => (st, showPool s.pool)
  | ["ll_dump"] =>
    guardE st (LL.toList s) fun fw =>
      guardE st (LL.toListRev s) fun bw =>
        (st, ms s!"{s.size} :{showRV fw} ;{showRefs bw}"
                s!"{l.length} :{showRV l} ;{showRefs (l.map (·.1)).reverse}")
  | _ => (st, "bad-op")

/-! ### queue -/
def stepQ (st : St) (s : Q.Queue) (l : Q.Spec) : List String → St × String
  | ["q_enq", v] =>
    match v.toNat? with
    | some v =>
      guardE st (Q.enqueue s v) fun (s', nw) =>
        ({ st with q := some (s', Q.specEnqueue l nw v) }, ms (showRef nw) (showRef nw))
    | _ => (st, "bad-op")
  | ["q_deq", f] =>
    match parseBool f with
    | some f =>
      guardE st (Q.dequeue s f) fun (s', fr) =>
        let (l', fr') := Q.specDequeue l f
        ({ st with q := some (s', l') }, ms s!"ok {showFreed fr}" s!"ok {showFreed fr'}")
    | _ => (st, "bad-op")
  | ["q_front"] =>
    guardE st (Q.front s) fun r =>
      let sh (o : Option (Ref × Val)) := match o with
        | some (r, v) => s!"{showRef r}:{v}" | none => "null"
      (st, ms (sh r) (sh (Q.specFront l)))
  | ["q_clear", f] =>
    match parseBool f with
    | some f =>
      guardE st (Q.clear s f) fun (s', fr) =>
        let (l', fr') := Q.specClear l f
        ({ st with q := some (s', l') }, ms s!"ok {showFreed fr}" s!"ok {showFreed fr'}")
    | _ => (st, "bad-op")
  | ["q_size"] =>
    (st, ms s!"{Q.size s} {showBool (Q.isEmpty s)}" s!"{l.length} {showBool l.isEmpty}")
  | ["q_pool"] => (st, showPool s.pool)
  | ["q_dump"] =>
    guardE st (Q.toList s) fun fw =>
      guardE st (Q.toListRev s) fun bw =>
        (st, ms s!"{s.size} :{showRV fw} ;{showRefs bw}"
                s!"{l.length} :{showRV l} ;{showRefs (l.map (·.1)).reverse}")
  | _ => (st, "bad-op")

/-! ### pointer slot -/
def showKV (l : List (Nat × Val)) : String :=
  String.join (l.map fun (k, v) => s!" {k}:{v}")

def stepPS (st : St) (s : PS.PS) (l : PS.Spec) : List String → St × String
  | ["ps_insert", v] =>
    match v.toNat? with
    | some v =>
      guardE st (PS.insert s v) fun (s', r) =>
        let sh (o : Option Nat) := match o with | some k => toString k | none => "full"
        ({ st with ps := some (s', PS.specInsert l r v) },
          ms (sh r) (if PS.specInsertOk s.capacity l r then sh r else "spec-violated"))
    | _ => (st, "bad-op")
  | ["ps_remove", i] =>
    match i.toNat? with
    | some i =>
      if i ≥ 2 ^ 32 then (st, "bad-op") else
      guardE st (PS.remove s i) fun (s', r) =>
        let sh : PS.RmResult → String
          | .ok => "ok" | .beyondRange => "range" | .dupFree => "dup"
        let (l', r') := PS.specRemove s.capacity l i
        ({ st with ps := some (s', l') }, ms (sh r) (sh r'))
    | _ => (st, "bad-op")
  | ["ps_get", i] =>
    match i.toNat? with
    | some i =>
      if i ≥ 2 ^ 32 then (st, "bad-op") else
      guardE st (PS.get s i) fun r => (st, ms (toString r) (toString (PS.specGet l i)))
    | _ => (st, "bad-op")
  | ["ps_iter"] =>
    guardE st (PS.iterate s) fun r => (st, ms s!"it{showKV r}" s!"it{showKV l}")
  | ["ps_dump"] =>
    let used := s.mem.cells.map fun c => match c with
      | some c => c.val.inUsed | none => 9
    (st, s!"{s.capacity} {s.allocIndex.toNat} {s.freeIndex.toNat} :{showValsSp s.ppSlots} :{showValsSp used}")
  | _ => (st, "bad-op")

def stepLine (st : St) (toks : List String) : St × String :=
  if st.dead then (st, "dead") else
  match toks with
  | ["al_init", c] =>
    match c.toNat? with
    | some c => match AL.init c with
      | some s => ({ al := some (s, []) }, "ok | ok")
      | none => ({}, "fail | fail")
    | none => (st, "bad-op")
  | ["st_init", c] =>
    match c.toNat? with
    | some c => match Stk.init c with
      | some s => ({ sk := some (s, []) }, "ok | ok")
      | none => ({}, "fail | fail")
    | none => (st, "bad-op")
  | ["ll_init", c] =>
    match c.toNat? with
    | some c => match LL.init c with
      | some s => ({ ll := some (s, []) }, "ok | ok")
      | none => ({}, "fail | fail")
    | none => (st, "bad-op")
  | ["q_init", c] =>
    match c.toNat? with
    | some c => match Q.init c with
      | some s => ({ q := some (s, []) }, "ok | ok")
      | none => ({}, "fail | fail")
    | none => (st, "bad-op")
  | ["ps_init", c, a] =>
    match c.toNat?, a.toNat? with
    | some c, some a =>
      if c ≥ 2 ^ 32 ∨ a ≥ 2 ^ 32 then (st, "bad-op") else
      let s := PS.init c (BitVec.ofNat 32 a)
      ({ ps := some (s, []) }, s!"ok {s.capacity}")
    | _, _ => (st, "bad-op")
  | op :: _ =>
    if op.startsWith "al_" then
      match st.al with | some (s, l) => stepAL st s l toks | none => (st, "bad-op")
    else if op.startsWith "st_" then
      match st.sk with | some (s, l) => stepSK st s l toks | none => (st, "bad-op")
    else if op.startsWith "ll_" then
      match st.ll with | some (s, l) => stepLL st s l toks | none => (st, "bad-op")
    else if op.startsWith "q_" then
      match st.q with | some (s, l) => stepQ st s l toks | none => (st, "bad-op")
    else if op.startsWith "ps_" then
      match st.ps with | some (s, l) => stepPS st s l toks | none => (st, "bad-op")
    else (st, "bad-op")
  | [] => (st, "bad-op")

def main : IO Unit := MgModel.Driver.main ({} : St) stepLine
