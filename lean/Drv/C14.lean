import MgModel.Common.Conc
import MgModel.Common.Driver
import MgModel.C14.EvLoop
/-! Driver for the C14 event-loop model: same line protocol as harness/c14/conc_evloop.c;
schedules are always replayed (`sched replay ...`).

    conf <poll|epoll|select> <cap> <io:0|1> <role>...      role = L | X<k> | E | W<k> | H<g|b>* | I<k>
    variant <exitWake> <addFail> <lateQueue>               which variant of the three repaired places
    sched replay <tokens>
    run
-/
open MgModel MgModel.Conc MgModel.C14

structure Top where
  conf  : Option (Backend × Nat × Bool × List Role) := none
  fix   : Fix := {}
  sched : List Tok := []
  toks  : List String := []

def parseRole (r : String) : Option Role :=
  let k := (r.drop 1).toString
  match r.toList with
  | 'L' :: [] => some (.loop 0)
  | 'X' :: _ => k.toNat?.bind fun n => if n ≥ 1 then some (.loop n) else none
  | 'E' :: [] => some .exit
  | 'W' :: _ => k.toNat?.map .waker
  | 'I' :: _ => k.toNat?.map .io
  | 'H' :: p => if p.all (fun c => c = 'g' ∨ c = 'b') then some (.hand (p.map (· = 'g'))) else none
  | _ => none

def isLoop : Role → Bool
  | .loop _ => true
  | _ => false
def isIo : Role → Bool
  | .io _ => true
  | _ => false

def runConf (st : Top) : List String :=
  match st.conf with
  | none => ["bad-op"]
  | some (b, cap, io, roles) =>
    let cfg := mkCfg b cap io st.fix roles
    let (s, evs, ok) := runSched (step cfg) (mkInit cfg) st.sched
    let status := if !ok then "replay-diverged" else if allDone cfg s then "ok"
                  else if !anyEnabled cfg s then "deadlock" else "step-limit"
    let sl := if status = "deadlock" then stateLines cfg s else []
    [s!"schedule {" ".intercalate st.toks}"] ++ initNotes cfg ++ evs ++ sl ++
      [s!"end {status} steps={st.sched.length}", outcome cfg s]

def stepLine (st : Top) : List String → Top × String
  | "conf" :: b :: cap :: io :: roles =>
    let be : Option Backend := if b = "poll" then some .poll else if b = "epoll" then some .epoll
                               else if b = "select" then some .select else none
    match be, cap.toNat?, io.toNat?, roles.mapM parseRole with
    | some be, some cap, some io, some rs =>
      if cap ≥ 1 ∧ rs.length ≥ 1 ∧ rs.length ≤ 8 ∧ (rs.filter isLoop).length = 1 ∧
         (io ≠ 0 ∨ ¬ rs.any isIo) then
        ({ st with conf := some (be, cap, io ≠ 0, rs), sched := [], toks := [] }, "ok")
      else ({ st with conf := none }, "bad-op")
    | _, _, _, _ => ({ st with conf := none }, "bad-op")
  | ["variant", a, b, c] =>
    ({ st with fix := { exitWake := a = "1", addFail := b = "1", lateQueue := c = "1" } }, "ok")
  | "sched" :: "replay" :: toks =>
    match parseSchedule toks with
    | some s => ({ st with sched := s, toks := toks }, "ok")
    | none => (st, "bad-op")
  | ["run"] => (st, "\n".intercalate (runConf st))
  | _ => (st, "bad-op")

def main : IO Unit := MgModel.Driver.main ({} : Top) stepLine
