import MgModel.Common.Driver
import MgModel.C17.Size
import MgModel.C17.Time
import MgModel.C17.Civil
/-!
Line-protocol driver for C17 (see harness/c17/seq_logrotate.c for the op list).
A line is `(id, len)`; ids are handed out by a counter shared by `pre` and `w`/`tw`.
-/
open MgModel MgModel.C17 MgModel.Driver

abbrev Line := Nat × Nat

structure DSt where
  -- size-rotating handler
  fs     : FS Line := {}
  rh     : RH := {}
  spec   : Option (Spec Line) := none   -- none: (re)based on the directory at the next rinit
  specK  : Nat := 0
  nextId : Nat := 0
  -- time-rotating handler
  tz     : Int := 0
  clock  : Int := 0
  th     : TH := {}
  tfs    : TFS Line := {}
  hi     : Option Int := none           -- latest effective time seen (init clocks and messages)
  tmono  : Bool := true                 -- hypothesis of the time theorems still holds

def len (l : Line) : Nat := l.2

def showLine (l : Line) : String := s!"{l.1}:{l.2}"
def showFile (tag : String) (c : List Line) : String :=
  tag ++ "[" ++ " ".intercalate (c.map showLine) ++ "]"

def mkLines (start : Nat) (lens : List Nat) : List Line :=
  (List.range lens.length).zip lens |>.map (fun (i, n) => (start + i, n))

def scanMax : Nat := 48

def pad2 (n : Nat) : String := if n < 10 then s!"0{n}" else toString n

def showName (n : Name) : String :=
  let d := s!"{n.year + 1900}{pad2 (n.mon + 1)}{pad2 n.mday}"
  match n.unit with
  | .sec  => d ++ s!"T{pad2 n.hour}{pad2 n.min}{pad2 n.sec}"
  | .min  => d ++ s!"T{pad2 n.hour}{pad2 n.min}"
  | .hour => d ++ s!"T{pad2 n.hour}"
  | .day  => d

def showPeriod (p : Period) : String :=
  s!"P{p.year + 1900}.{p.mon + 1}.{p.mday}.{p.hour}.{p.min}.{p.sec}"

def nameLe (a b : String) : Bool :=
  a.length < b.length || (a.length == b.length && decide (a ≤ b))

def lsLine (st : DSt) : String :=
  let sz := (match st.fs.live with | some c => [showFile "L" c] | none => []) ++
    (List.range (max scanMax st.fs.bak.length)).filterMap (fun i => (bget st.fs.bak i).map (showFile (toString i)))
  let names := (st.tfs.created.map showName).mergeSort nameLe
  let tm := names.map (fun s =>
    showFile s ((st.tfs.recs.filter (fun r => showName r.name == s)).map (·.line)))
  " ".intercalate ("ls" :: sz ++ tm)

def viewLine (k : Nat) (segsOldestFirst : List (List Line)) : String :=
  s!"k={k} : " ++ " / ".intercalate (segsOldestFirst.map (fun c => " ".intercalate (c.map showLine)))

def unitOf (s : String) : Option RotUnit :=
  if s = "s" then some .sec else if s = "m" then some .min
  else if s = "h" then some .hour else if s = "d" then some .day else none

def stepLine (st : DSt) : List String → DSt × String
  | "pre" :: which :: lens =>
    if st.rh.isOpen || st.th.cur.isSome then (st, "bad-op") else
    match lens.mapM String.toNat? with
    | none => (st, "bad-op")
    | some ls =>
      if ls.any (fun n => n < 3 || n > 4090) || st.nextId + ls.length > 4096 then (st, "bad-op") else
      let lines := mkLines st.nextId ls
      let st := { st with nextId := st.nextId + ls.length, spec := none }
      if which = "L" then ({ st with fs := { st.fs with live := some lines } }, "ok")
      else match which.toNat? with
        | some i => ({ st with fs := { st.fs with bak := bset st.fs.bak i (some lines) } }, "ok")
        | none => (st, "bad-op")
  | "rinit" :: mb :: bc :: _ =>
    if st.rh.isOpen then (st, "bad-op") else
    match mb.toNat?, bc.toNat? with
    | some mb, some bc =>
      let k := eff bc
      -- the segment history is based on the directory as found at the first init after a
      -- `pre`; specK = the smallest number of backups kept since then (theorems: `Keeps specK`)
      let (sp0, kmin) : Spec Line × Nat := match st.spec with
        | some sp => (sp, min st.specK k)
        | none => ({ segs := segsOf st.fs k }, k)
      let (h, fs) := init len st.fs mb bc
      let sp := specStep len sp0 (.init mb bc)
      ({ st with rh := h, fs := fs, spec := some sp, specK := kmin }, s!"ok {h.offset}")
    | _, _ => (st, "bad-op")
  | ["w", n] =>
    match n.toNat? with
    | none => (st, "bad-op")
    | some n =>
      if !st.rh.isOpen then (st, "closed") else
      if n < 3 || n > 4090 || st.nextId ≥ 4096 then (st, "bad-op") else
      let l : Line := (st.nextId, n)
      let ((h, fs), ret) := write len st.rh st.fs l
      let sp := st.spec.map (fun sp => specStep len sp (.write l))
      ({ st with rh := h, fs := fs, spec := sp, nextId := st.nextId + 1 }, s!"{ret} {h.offset}")
  | ["close"] =>
    if st.rh.isOpen then
      ({ st with rh := close st.rh, spec := st.spec.map (fun sp => specStep len sp .close) }, "ok")
    else if st.th.cur.isSome then ({ st with th := tclose st.th }, "ok")
    else (st, "bad-op")
  | ["ls"] => (st, lsLine st)
  | "view" :: rest =>
    let k := match rest with
      | [ks] => ks.toNat?.getD (eff st.rh.backupCount)
      | _ => eff st.rh.backupCount
    let m := viewLine k (((List.range k).reverse.map (fun i => cont (bget st.fs.bak (i + 1)))) ++
                         [cont st.fs.live])
    match st.spec with
    | some sp =>
      if k ≤ st.specK then
        -- the newest k+1 segments, oldest first, padded to k+1 entries
        let segs := (List.range (k + 1)).reverse.map (fun j => seg sp.segs j)
        (st, m ++ " | " ++ viewLine k segs)
      else (st, m)
    | none => (st, m)
  | ["tz", m] =>
    match m.toInt? with
    | some m => ({ st with tz := m }, "ok")
    | none => (st, "bad-op")
  | ["clock", c] =>
    match c.toInt? with
    | some c => ({ st with clock := c }, "ok")
    | none => (st, "bad-op")
  | "tinit" :: u :: m :: loc :: _ =>
    if st.rh.isOpen || st.th.cur.isSome then (st, "bad-op") else
    match unitOf u, m.toNat?, loc.toNat? with
    | some u, some m, some loc =>
      if m = 0 then (st, "bad-op") else
      let (h, fs) := tinit (toTmFixed st.tz) st.clock st.tfs u m (loc != 0)
      let mono := st.tmono && (match st.hi with | some x => decide (x ≤ st.clock) | none => true)
      ({ st with th := h, tfs := fs, hi := some st.clock, tmono := mono },
        "ok " ++ (match h.cur with | some n => showName n | none => "-"))
    | _, _, _ => (st, "bad-op")
  | ["tw", ts, n] =>
    match ts.toInt?, n.toNat? with
    | some ts, some n =>
      if st.th.cur.isNone then (st, "closed") else
      if n < 3 || n > 4090 || st.nextId ≥ 4096 then (st, "bad-op") else
      let l : Line := (st.nextId, n)
      let sec := effSec st.clock ts
      let mono := st.tmono && (match st.hi with | some x => decide (x ≤ sec) | none => true)
      match twrite (toTmFixed st.tz) st.clock st.th st.tfs ts l with
      | .error _ => (st, "err-div0")
      | .ok (h, fs) =>
        let landed := match fs.recs.getLast? with
          | some r => if r.line.1 = st.nextId then showPeriod (periodOf h.unit h.mod r.name.tm) else "lost"
          | none => "lost"
        let m := s!"{n} {landed}"
        let sp := s!"{n} {showPeriod (periodOf h.unit h.mod (toTmFixed st.tz h.useLocal sec))}"
        ({ st with th := h, tfs := fs, nextId := st.nextId + 1, hi := some (max sec (st.hi.getD sec)),
                   tmono := mono },
          if mono then m ++ " | " ++ sp else m)
    | _, _ => (st, "bad-op")
  | ["cur"] =>
    (st, match st.th.cur with | some n => showName n | none => "-")
  | _ => (st, "bad-op")

def main : IO Unit := MgModel.Driver.main ({} : DSt) stepLine
