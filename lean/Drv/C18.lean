import MgModel.Common.Driver
import MgModel.C18.Event
open MgModel MgModel.C18 MgModel.Driver

/-- life-cycle of a harness object: 0 none, 1 initialised, 2 init failed, 3 destroyed -/
structure Slot (α : Type) where
  obj : α
  st : Nat := 0

structure St where
  heap : Heap := {}
  faults : List Nat := []
  chan : Slot Chan := ⟨{}, 0⟩
  rbuf : Slot One := ⟨{}, 0⟩
  dbuf : Slot DBuf := ⟨{}, 0⟩
  abq : Slot One := ⟨{}, 0⟩
  maring : Slot MaRing := ⟨{}, 0⟩
  mpool : Slot MPool := ⟨{}, 0⟩
  nblk : Nat := 0
  sowr : Slot One := ⟨{}, 0⟩
  tsp : Slot Two := ⟨{}, 0⟩
  rmp : Slot One := ⟨{}, 0⟩
  pslot : Slot Two := ⟨{}, 0⟩
  bbuf : Slot One := ⟨{}, 0⟩
  fctl : Slot One := ⟨{}, 0⟩
  alist : Slot Arr := ⟨{}, 0⟩
  heapq : Slot Arr := ⟨{}, 0⟩
  stack : Slot Arr := ⟨{}, 0⟩
  llist : Slot NC := ⟨{}, 0⟩
  queue : Slot NC := ⟨{}, 0⟩
  avl : Slot NC := ⟨{}, 0⟩
  htab : Slot NC := ⟨{}, 0⟩
  trie : Slot NC := ⟨{}, 0⟩
  evsig : Slot One := ⟨{}, 0⟩
  evloop : Slot EvLoop := ⟨{}, 0⟩
  nctx : Nat := 0
  sockh : Slot SockH := ⟨{}, 0⟩
  evpipe : Slot Two := ⟨{}, 0⟩
  sock : Slot One := ⟨{}, 0⟩
  ffctl : Slot One := ⟨{}, 0⟩
  alog : Slot Chan := ⟨{}, 0⟩

def sched (faults : List Nat) : Sched := fun k => faults.contains (k + 1)

def line (ret : String) (h : Heap) (st : String) : String :=
  s!"ret={ret} inj={h.inj} acq={h.nacq} live={h.mem}/{h.fds} st={st}"

def errName : Err → String
  | .nullDeref => "err-null-deref"
  | .doubleFree => "err-double-free"
  | .useAfterFree => "err-use-after-free"
  | .hang => "err-hang"

def rb (b : Bool) : String := if b then "ok" else "fail"

def num (l : List String) (i : Nat) : Int := ((l.getD i "0").toInt?).getD 0
def numN (l : List String) (i : Nat) : Nat := (num l i).toNat

/-- result of an `init`-like call: object, success, heap -/
def doInit {α} (s : St) (r : Except Err (α × Bool × Heap)) (put : St → Slot α → St)
    (sh : α → String) : St × String :=
  match r with
  | .error e => (s, errName e)
  | .ok (o, ok, h) => (put { s with heap := h } ⟨o, if ok then 1 else 2⟩, line (rb ok) h (sh o))

/-- a call on an initialised object that reports success / failure -/
def doCall {α} (s : St) (cur : Slot α) (r : Except Err (α × Bool × Heap)) (put : St → Slot α → St)
    (sh : α → String) : St × String :=
  match r with
  | .error e => (s, errName e)
  | .ok (o, ok, h) => (put { s with heap := h } ⟨o, cur.st⟩, line (rb ok) h (sh o))

/-- a `void` call; `st'` is the life-cycle state afterwards -/
def doVoid {α} (s : St) (st' : Nat) (r : Except Err (α × Heap)) (put : St → Slot α → St)
    (sh : α → String) : St × String :=
  match r with
  | .error e => (s, errName e)
  | .ok (o, h) => (put { s with heap := h } ⟨o, st'⟩, line "void" h (sh o))

def canInit (st : Nat) : Bool := st ≠ 1
def canDestroy (st : Nat) : Bool := st = 1 || st = 2

def nodeSz : Nat := 64

def ncShowL (c : NC) : String := s!"{c.np.show},n={c.size}"
def ncShowLD (c : NC) : String := s!"{c.np.cell.ch},n={c.size}"
def ncShowK (c : NC) : String := c.np.show
def ncShowKD (c : NC) : String := c.np.cell.ch
def ncShowH (c : NC) : String := s!"{c.np.show},t={c.table.ch}"
def ncShowHD (c : NC) : String := s!"{c.np.cell.ch},t={c.table.ch}"

def evShow (e : EvLoop) : String :=
  if e.self = .null then "n"
  else
    let b := if e.kind = 1 then "sel"
      else if e.kind = 2 then s!"poll:{e.b1.ch}{e.b2.ch},nfd={e.nfd}"
      else s!"epoll:{e.b1.ch}{e.b2.ch}"
    s!"{e.self.ch},list={e.list.ch}{e.ll.np.show},n={e.ll.size},sig={e.sig.ch}{e.evfd.ch},{b}"

def stepLine (s : St) (toks : List String) : St × String :=
  let f := sched s.faults
  let h := s.heap
  let a1 := num toks 1
  let a2 := num toks 2
  let a3 := num toks 3
  match toks.head! with
  | "fault" =>
    ({ s with faults := (toks.drop 1).map (fun t => (t.toInt?.getD 0).toNat),
              heap := { h with nacq := 0, inj := 0 } }, "ok")
  -- sync
  | "chan.init" =>
    if !canInit s.chan.st then (s, "bad-op") else
    let w := a2 % 16
    let r := (a2 / 16) % 16
    doInit s (chanInit f (decide (a1 > 0)) (decide (w ≠ 1 ∧ w ≠ 2 ∧ w ≠ 3)) (decide (r ≠ 0 ∧ r ≠ 2)) h)
      (fun s x => { s with chan := x }) Chan.show
  | "chan.destroy" =>
    if !canDestroy s.chan.st then (s, "bad-op") else
    doVoid s 3 (chanDestroy s.chan.obj h) (fun s x => { s with chan := x }) Chan.show
  | "rbuf.init" =>
    if !canInit s.rbuf.st then (s, "bad-op") else
    let fl := a2.toNat
    let bad := (fl / 2) % 2 = 0 ∧ (fl / 16) % 2 = 1 ∧ (fl / 8) % 2 = 1
    doInit s (oneInit f (decide (a1 > 0 ∧ ¬ bad)) h) (fun s x => { s with rbuf := x }) One.show
  | "rbuf.destroy" =>
    if !canDestroy s.rbuf.st then (s, "bad-op") else
    doVoid s 3 (oneDestroy false s.rbuf.obj h) (fun s x => { s with rbuf := x }) One.show
  | "dbuf.init" =>
    if !canInit s.dbuf.st then (s, "bad-op") else
    doInit s (dbufInit f (decide (a1 > 0)) h) (fun s x => { s with dbuf := x }) DBuf.show
  | "dbuf.destroy" =>
    if !canDestroy s.dbuf.st then (s, "bad-op") else
    doVoid s 3 (dbufDestroy s.dbuf.obj h) (fun s x => { s with dbuf := x }) DBuf.show
  | "abq.init" =>
    if !canInit s.abq.st then (s, "bad-op") else
    doInit s (oneInit f (decide (a1 > 0)) h) (fun s x => { s with abq := x }) One.show
  | "abq.destroy" =>
    if !canDestroy s.abq.st then (s, "bad-op") else
    doVoid s 3 (oneDestroy false s.abq.obj h) (fun s x => { s with abq := x }) One.show
  | "maring.init" =>
    if !canInit s.maring.st then (s, "bad-op") else
    doInit s (maRingInit f s.maring.obj h) (fun s x => { s with maring := x }) MaRing.show
  | "maring.cleanup" =>
    if !canDestroy s.maring.st then (s, "bad-op") else
    doVoid s 3 (maRingCleanup s.maring.obj h) (fun s x => { s with maring := x }) MaRing.show
  -- memory
  | "mpool.init" =>
    if !canInit s.mpool.st then (s, "bad-op") else
    doInit { s with nblk := 0 } (mpoolInit f a1.toNat a2.toNat h) (fun s x => { s with mpool := x }) MPool.show
  | "mpool.destroy" =>
    if !canDestroy s.mpool.st then (s, "bad-op") else
    doVoid s 3 (mpoolDestroy s.mpool.obj h) (fun s x => { s with mpool := x }) MPool.show
  | "mpool.alloc" =>
    if s.mpool.st ≠ 1 || s.nblk ≥ 4096 then (s, "bad-op") else
    match mpoolAlloc f s.mpool.obj h with
    | .error e => (s, errName e)
    | .ok (o, ok, h) =>
      ({ s with heap := h, mpool := ⟨o, 1⟩, nblk := if ok then s.nblk + 1 else s.nblk }, line (rb ok) h o.show)
  | "mpool.free" =>
    if s.mpool.st ≠ 1 || s.nblk = 0 then (s, "bad-op") else
    doVoid { s with nblk := s.nblk - 1 } 1 (mpoolFree s.mpool.obj h) (fun s x => { s with mpool := x }) MPool.show
  | "mpool.ensure" =>
    if s.mpool.st ≠ 1 then (s, "bad-op") else
    doCall s s.mpool (mpoolEnsure f s.mpool.obj a1.toNat h) (fun s x => { s with mpool := x }) MPool.show
  | "mpool.setflag" =>
    if s.mpool.st ≠ 1 then (s, "bad-op") else
    let o := { s.mpool.obj with flag := a1.toNat }
    ({ s with mpool := ⟨o, 1⟩ }, line "void" h o.show)
  | "mpool.setmax" =>
    if s.mpool.st ≠ 1 then (s, "bad-op") else
    let o := { s.mpool.obj with maxDelta := a1.toNat }
    ({ s with mpool := ⟨o, 1⟩ }, line "void" h o.show)
  | "sowr.init" =>
    if !canInit s.sowr.st then (s, "bad-op") else
    doInit s (oneInit f true h) (fun s x => { s with sowr := x }) One.show
  | "sowr.destroy" =>
    if !canDestroy s.sowr.st then (s, "bad-op") else
    doVoid s 3 (oneDestroy true s.sowr.obj h) (fun s x => { s with sowr := x }) One.show
  | "tsp.init" =>
    if !canInit s.tsp.st then (s, "bad-op") else
    doInit s (twoInit f (decide (a1 > 0 ∧ a2 > 0)) h) (fun s x => { s with tsp := x }) Two.show
  | "tsp.destroy" =>
    if !canDestroy s.tsp.st then (s, "bad-op") else
    doVoid s 3 (twoDestroy s.tsp.obj h) (fun s x => { s with tsp := x }) Two.show
  | "rmp.init" =>
    if !canInit s.rmp.st then (s, "bad-op") else
    doInit s (oneInit f (decide (a2 ≠ 0)) h) (fun s x => { s with rmp := x }) One.show
  | "rmp.destroy" =>
    if !canDestroy s.rmp.st then (s, "bad-op") else
    doVoid s 3 (oneDestroy false s.rmp.obj h) (fun s x => { s with rmp := x }) One.show
  | "pslot.init" =>
    if !canInit s.pslot.st then (s, "bad-op") else
    doInit s (twoInit f true h) (fun s x => { s with pslot := x }) Two.show
  | "pslot.destroy" =>
    if !canDestroy s.pslot.st then (s, "bad-op") else
    doVoid s 3 (twoDestroy s.pslot.obj h) (fun s x => { s with pslot := x }) Two.show
  | "bbuf.init" =>
    if !canInit s.bbuf.st then (s, "bad-op") else
    doInit s (oneInit f true h) (fun s x => { s with bbuf := x }) One.show
  | "bbuf.destroy" =>
    if !canDestroy s.bbuf.st then (s, "bad-op") else
    doVoid s 3 (oneDestroy true s.bbuf.obj h) (fun s x => { s with bbuf := x }) One.show
  | "fctl.init" =>
    if !canInit s.fctl.st then (s, "bad-op") else
    doInit s (oneInit f (decide (a2 ≠ 0 ∧ a1 > 0)) h) (fun s x => { s with fctl := x }) One.show
  | "fctl.destroy" =>
    if !canDestroy s.fctl.st then (s, "bad-op") else
    doVoid s 3 (oneDestroy true s.fctl.obj h) (fun s x => { s with fctl := x }) One.show
  -- dsaa: arrays
  | "alist.init" =>
    if !canInit s.alist.st then (s, "bad-op") else
    doInit s (arrInit f a1.toNat h) (fun s x => { s with alist := x }) Arr.show
  | "alist.destroy" =>
    if !canDestroy s.alist.st then (s, "bad-op") else
    doVoid s 3 (arrDestroy false s.alist.obj h) (fun s x => { s with alist := x }) Arr.show
  | "alist.ensure" =>
    if s.alist.st ≠ 1 then (s, "bad-op") else
    doCall s s.alist (arrEnsure f s.alist.obj a1.toNat h) (fun s x => { s with alist := x }) Arr.show
  | "alist.insert" | "alist.append" =>
    if s.alist.st ≠ 1 then (s, "bad-op") else
    doCall s s.alist (arrPush f s.alist.obj h) (fun s x => { s with alist := x }) Arr.show
  | "alist.remove" =>
    if s.alist.st ≠ 1 then (s, "bad-op") else
    doCall s s.alist (arrPop s.alist.obj h) (fun s x => { s with alist := x }) Arr.show
  | "heap.init" =>
    if !canInit s.heapq.st then (s, "bad-op") else
    doInit s (arrInit f a1.toNat h) (fun s x => { s with heapq := x }) Arr.show
  | "heap.destroy" =>
    if !canDestroy s.heapq.st then (s, "bad-op") else
    doVoid s 3 (arrDestroy true s.heapq.obj h) (fun s x => { s with heapq := x }) Arr.show
  | "heap.ensure" =>
    if s.heapq.st ≠ 1 then (s, "bad-op") else
    doCall s s.heapq (arrEnsure f s.heapq.obj a1.toNat h) (fun s x => { s with heapq := x }) Arr.show
  | "heap.insert" =>
    if s.heapq.st ≠ 1 then (s, "bad-op") else
    doCall s s.heapq (arrPush f s.heapq.obj h) (fun s x => { s with heapq := x }) Arr.show
  | "heap.extract" =>
    if s.heapq.st ≠ 1 then (s, "bad-op") else
    doCall s s.heapq (arrPop s.heapq.obj h) (fun s x => { s with heapq := x }) Arr.show
  | "stack.init" =>
    if !canInit s.stack.st then (s, "bad-op") else
    doInit s (arrInit f a1.toNat h) (fun s x => { s with stack := x }) Arr.show
  | "stack.destroy" =>
    if !canDestroy s.stack.st then (s, "bad-op") else
    doVoid s 3 (arrDestroy false s.stack.obj h) (fun s x => { s with stack := x }) Arr.show
  | "stack.ensure" =>
    if s.stack.st ≠ 1 then (s, "bad-op") else
    doCall s s.stack (arrEnsure f s.stack.obj a1.toNat h) (fun s x => { s with stack := x }) Arr.show
  | "stack.push" =>
    if s.stack.st ≠ 1 then (s, "bad-op") else
    doCall s s.stack (arrPush f s.stack.obj h) (fun s x => { s with stack := x }) Arr.show
  | "stack.pop" =>
    if s.stack.st ≠ 1 then (s, "bad-op") else
    match arrPop s.stack.obj h with
    | .error e => (s, errName e)
    | .ok (o, _, h) => ({ s with heap := h, stack := ⟨o, 1⟩ }, line "void" h o.show)
  | "msort" =>
    match mergeSort f (if a1 < 1 then 1 else if a1 > 64 then 64 else a1.toNat) h with
    | .error e => (s, errName e)
    | .ok (ok, h) => ({ s with heap := h }, line (rb ok) h (if ok then "sorted" else "-"))
  -- dsaa: node containers
  | "llist.init" =>
    if !canInit s.llist.st then (s, "bad-op") else
    doInit s (ncInit f a1.toNat nodeSz h) (fun s x => { s with llist := x }) ncShowL
  | "llist.destroy" =>
    if !canDestroy s.llist.st then (s, "bad-op") else
    doVoid s 3 (ncDestroy s.llist.obj h) (fun s x => { s with llist := x }) ncShowLD
  | "llist.insert" | "llist.append" =>
    if s.llist.st ≠ 1 then (s, "bad-op") else
    doCall s s.llist (ncInsert f s.llist.obj h) (fun s x => { s with llist := x }) ncShowL
  | "llist.remove" =>
    if s.llist.st ≠ 1 then (s, "bad-op") else
    doVoid s 1 (ncRemoveFirst s.llist.obj h) (fun s x => { s with llist := x }) ncShowL
  | "queue.init" =>
    if !canInit s.queue.st then (s, "bad-op") else
    doInit s (ncInit f a1.toNat nodeSz h) (fun s x => { s with queue := x }) ncShowL
  | "queue.destroy" =>
    if !canDestroy s.queue.st then (s, "bad-op") else
    doVoid s 3 (ncDestroy s.queue.obj h) (fun s x => { s with queue := x }) ncShowLD
  | "queue.enq" =>
    if s.queue.st ≠ 1 then (s, "bad-op") else
    doCall s s.queue (ncInsert f s.queue.obj h) (fun s x => { s with queue := x }) ncShowL
  | "queue.deq" =>
    if s.queue.st ≠ 1 then (s, "bad-op") else
    doVoid s 1 (ncRemoveFirst s.queue.obj h) (fun s x => { s with queue := x }) ncShowL
  | "avl.init" =>
    if !canInit s.avl.st then (s, "bad-op") else
    doInit s (ncInit f a1.toNat nodeSz h) (fun s x => { s with avl := x }) ncShowK
  | "avl.destroy" =>
    if !canDestroy s.avl.st then (s, "bad-op") else
    doVoid s 3 (ncDestroy s.avl.obj h) (fun s x => { s with avl := x }) ncShowKD
  | "avl.insert" =>
    if s.avl.st ≠ 1 then (s, "bad-op") else
    doCall s s.avl (ncInsertKey f s.avl.obj a1.toNat h) (fun s x => { s with avl := x }) ncShowK
  | "avl.remove" =>
    if s.avl.st ≠ 1 then (s, "bad-op") else
    doVoid s 1 (ncRemoveKey s.avl.obj a1.toNat h) (fun s x => { s with avl := x }) ncShowK
  | "htab.init" =>
    if !canInit s.htab.st then (s, "bad-op") else
    doInit s (htabInit f a2.toNat nodeSz h) (fun s x => { s with htab := x }) ncShowH
  | "htab.destroy" =>
    if !canDestroy s.htab.st then (s, "bad-op") else
    doVoid s 3 (htabDestroy s.htab.obj h) (fun s x => { s with htab := x }) ncShowHD
  | "htab.put" =>
    if s.htab.st ≠ 1 then (s, "bad-op") else
    doCall s s.htab (ncInsertKey f s.htab.obj a1.toNat h) (fun s x => { s with htab := x }) ncShowH
  | "htab.remove" =>
    if s.htab.st ≠ 1 then (s, "bad-op") else
    doVoid s 1 (ncRemoveKey s.htab.obj a1.toNat h) (fun s x => { s with htab := x }) ncShowH
  | "trie.init" =>
    if !canInit s.trie.st then (s, "bad-op") else
    doInit s (ncInit f a1.toNat nodeSz h) (fun s x => { s with trie := x }) ncShowK
  | "trie.destroy" =>
    if !canDestroy s.trie.st then (s, "bad-op") else
    doVoid s 3 (ncDestroy s.trie.obj h) (fun s x => { s with trie := x }) ncShowKD
  | "trie.insert" =>
    if s.trie.st ≠ 1 then (s, "bad-op") else
    doCall s s.trie (trieInsert f s.trie.obj (toks.getD 1 "") h) (fun s x => { s with trie := x }) ncShowK
  -- event / net
  | "evsig.init" =>
    if !canInit s.evsig.st then (s, "bad-op") else
    doInit s (evsigInit f h) (fun s x => { s with evsig := x }) One.show
  | "evsig.destroy" =>
    if !canDestroy s.evsig.st then (s, "bad-op") else
    doVoid s 3 (evsigDestroy s.evsig.obj h) (fun s x => { s with evsig := x }) One.show
  | "evloop.new" =>
    if !canInit s.evloop.st then (s, "bad-op") else
    doInit { s with nctx := 0 } (evloopNew f a1 (decide (a2 ≠ 0)) a3 nodeSz h) (fun s x => { s with evloop := x }) evShow
  | "evloop.delete" =>
    if s.evloop.st ≠ 1 then (s, "bad-op") else
    doVoid { s with nctx := 0 } 3 (evloopDelete s.evloop.obj h) (fun s x => { s with evloop := x }) evShow
  | "evloop.add" =>
    if s.evloop.st ≠ 1 || s.nctx ≥ 64 then (s, "bad-op") else
    doCall { s with nctx := s.nctx + 1 } s.evloop (evloopAdd f s.evloop.obj h) (fun s x => { s with evloop := x }) evShow
  | "sockh.init" =>
    if !canInit s.sockh.st then (s, "bad-op") else
    doInit s (sockhInit f h) (fun s x => { s with sockh := x }) SockH.show
  | "sockh.destroy" =>
    if !canDestroy s.sockh.st then (s, "bad-op") else
    doVoid s 3 (sockhDestroy s.sockh.obj h) (fun s x => { s with sockh := x }) SockH.show
  | "sockh.addctx" =>
    if s.sockh.st ≠ 1 || s.evloop.st ≠ 1 then (s, "bad-op") else
    doCall s s.sockh (sockhAddCtx f s.sockh.obj h) (fun s x => { s with sockh := x }) SockH.show
  | "evpipe.init" =>
    if !canInit s.evpipe.st then (s, "bad-op") else
    doInit s (evpipeInit f h) (fun s x => { s with evpipe := x }) Two.show
  | "evpipe.destroy" =>
    if !canDestroy s.evpipe.st then (s, "bad-op") else
    doVoid s 3 (evpipeDestroy s.evpipe.obj h) (fun s x => { s with evpipe := x }) Two.show
  | "sock.create" =>
    if !canInit s.sock.st then (s, "bad-op") else
    doInit s (sockCreate f h) (fun s x => { s with sock := x }) One.show
  | "sock.close" =>
    if !canDestroy s.sock.st then (s, "bad-op") else
    doVoid s 3 (sockClose s.sock.obj h) (fun s x => { s with sock := x }) One.show
  | "ffctl.init" =>
    if !canInit s.ffctl.st then (s, "bad-op") else
    doInit s (oneInit f (decide (a2 ≠ 0 ∧ a1 > 0)) h) (fun s x => { s with ffctl := x }) One.show
  | "ffctl.destroy" =>
    if !canDestroy s.ffctl.st then (s, "bad-op") else
    doVoid s 3 (oneDestroy true s.ffctl.obj h) (fun s x => { s with ffctl := x }) One.show
  -- log
  | "alog.init" =>
    if !canInit s.alog.st then (s, "bad-op") else
    doInit s (alogInit f (decide (a1 > 0)) h) (fun s x => { s with alog := x })
      (fun c => c.wm.ch ++ c.blocks.ch)
  | "alog.log" =>
    if s.alog.st ≠ 1 then (s, "bad-op") else
    match alogLog f s.alog.obj h with
    | .error e => (s, errName e)
    | .ok h => ({ s with heap := h }, line "void" h (s.alog.obj.wm.ch ++ s.alog.obj.blocks.ch))
  | "alog.destroy" =>
    if !canDestroy s.alog.st then (s, "bad-op") else
    doVoid s 3 (alogDestroy s.alog.obj h) (fun s x => { s with alog := x }) (fun c => c.wm.ch ++ c.blocks.ch)
  | _ => (s, "bad-op")

def main : IO Unit := MgModel.Driver.main ({} : St) stepLine
