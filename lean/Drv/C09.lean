import MgModel.Common.Driver
import MgModel.C09.Avl
import MgModel.C09.HashTable
import MgModel.C09.Trie
import MgModel.C09.Ops
open MgModel MgModel.C09 MgModel.Driver

abbrev Key := List UInt8

def hexDigit (c : Char) : Option Nat :=
  if '0' ≤ c ∧ c ≤ '9' then some (c.toNat - '0'.toNat)
  else if 'a' ≤ c ∧ c ≤ 'f' then some (c.toNat - 'a'.toNat + 10)
  else none

def parseHexAux : List Char → Option (List UInt8)
  | [] => some []
  | a :: b :: rest =>
    match hexDigit a, hexDigit b, parseHexAux rest with
    | some x, some y, some l => some ((x * 16 + y).toUInt8 :: l)
    | _, _, _ => none
  | _ => none

/-- `-` is the empty key; otherwise hex bytes. The key is a C string: it ends at the
first NUL byte. -/
def parseKey (s : String) : Option Key :=
  if s = "-" then some []
  else (parseHexAux s.toList).map (fun l => l.takeWhile (· ≠ 0))

def hexOf (n : Nat) : Char := if n < 10 then Char.ofNat (48 + n) else Char.ofNat (87 + n)

def showKey (k : Key) : String :=
  if k.isEmpty then "-"
  else String.ofList (k.flatMap (fun b => [hexOf (b.toNat / 16), hexOf (b.toNat % 16)]))

def keyLt : Key → Key → Bool
  | [], [] => false
  | [], _ :: _ => true
  | _ :: _, [] => false
  | a :: as, b :: bs => if a < b then true else if b < a then false else keyLt as bs

/-- distinct keys of the reference map, sorted, with their current value -/
def specItems {κ : Type} [DecidableEq κ] (le : κ → κ → Bool) (m : Map κ) : List (κ × Nat) :=
  let ks := (m.map Prod.fst).eraseDups
  let ks := ks.mergeSort le
  ks.filterMap (fun k => (m.get k).map (fun v => (k, v)))

def showItems {κ : Type} (sk : κ → String) (l : List (κ × Nat)) : String :=
  "items:" ++ String.join (l.map (fun p => s!" {sk p.1}={p.2}"))

/-- trie dump: every non-NULL node in pre-order (children 0..255) as `path:data` -/
partial def dumpTrie (path : Key) : TNode → List String
  | .null => []
  | .node d ks =>
    let me := s!"{showKey path}:{match d with | none => "-" | some v => toString v}"
    me :: (List.range 256).flatMap (fun i => dumpTrie (path ++ [i.toUInt8]) (ks i.toUInt8))

partial def trieItems (path : Key) : TNode → List (Key × Nat)
  | .null => []
  | .node d ks =>
    let me := match d with | none => [] | some v => [(path, v)]
    me ++ (List.range 256).flatMap (fun i => trieItems (path ++ [i.toUInt8]) (ks i.toUInt8))

structure St where
  avl   : Option AvlSt := none
  amap  : Map Int := []
  ht    : Option (HT Key) := none
  hkind : Nat := 0
  hmap  : Map Key := []
  trie  : Option TNode := none
  tmap  : Map Key := []
  tspec : Bool := true      -- hypothesis of the trie theorems: every stored value ≠ NULL

def showOpt : Option Nat → String
  | none => "nil"
  | some v => toString v

def both (a b : String) : String := s!"{a} | {b}"

def showOut : Out → String
  | .flag b => showBool b
  | .val o => showOpt o
  | .done => "done"

/-- run one API step on the model and on the reference map; print both answers -/
def avlOp (st : St) (t : AvlSt) (op : Op Int) : St × String :=
  match avlStep t op with
  | .ok (t', o) =>
    let (m', so) := specStepReject st.amap op
    ({ st with avl := some t', amap := m' }, both (showOut o) (showOut so))
  | .error _ => (st, "err-null")

def hashOp (st : St) (t : HT Key) (op : Op Key) : St × String :=
  match hashStep (hashKind st.hkind) t op with
  | .ok (t', o) =>
    let (m', so) := specStepReject st.hmap op
    ({ st with ht := some t', hmap := m' }, both (showOut o) (showOut so))
  | .error _ => (st, "err-oob")

def stepLine (st : St) : List String → St × String
  -- ---------------- AVL ----------------
  | ["ainit", cap] =>
    match cap.toNat? with
    | some c =>
      if c ≥ 2 ^ 31 then ({ st with avl := none, amap := [] }, "fail")
      else ({ st with avl := some (.nil, 0), amap := [] }, "ok")
    | none => (st, "bad-op")
  | ["ains", k, v] =>
    match st.avl, k.toInt?, v.toNat? with
    | some t, some k, some v => avlOp st t (.ins k v)
    | _, _, _ => (st, "bad-op")
  | ["afind", k] =>
    match st.avl, k.toInt? with
    | some t, some k => avlOp st t (.find k)
    | _, _ => (st, "bad-op")
  | ["arm", k] =>
    match st.avl, k.toInt? with
    | some t, some k => avlOp st t (.rm k)
    | _, _ => (st, "bad-op")
  | ["adump"] =>
    match st.avl with
    | some t => (st, t.1.dump)
    | none => (st, "bad-op")
  | ["achk"] =>
    match st.avl with
    | some (t, _) =>
      let ok := T.wellFormed none none t && T.parentsOk none t
      (st, both ((if ok then "ok " else "bad ") ++ toString t.size)
                ("ok " ++ toString st.amap.size))
    | none => (st, "bad-op")
  | ["aitems"] =>
    match st.avl with
    | some (t, _) => (st, both (showItems toString t.toList)
                          (showItems toString (specItems (fun a b => decide (a ≤ b)) st.amap)))
    | none => (st, "bad-op")
  -- ---------------- hash table ----------------
  | ["hinit", size, kind, cap] =>
    match size.toNat?, kind.toNat?, cap.toNat? with
    | some n, some kd, some c =>
      match (HT.init n c : Option (HT Key)) with
      | some t => ({ st with ht := some t, hkind := kd, hmap := [] }, "ok")
      | none => ({ st with ht := none, hmap := [] }, "fail")
    | _, _, _ => (st, "bad-op")
  | ["hput", k, v] =>
    match st.ht, parseKey k, v.toNat? with
    | some t, some k, some v => hashOp st t (.ins k v)
    | _, _, _ => (st, "bad-op")
  | ["hfind", k] =>
    match st.ht, parseKey k with
    | some t, some k => hashOp st t (.find k)
    | _, _ => (st, "bad-op")
  | ["hrm", k] =>
    match st.ht, parseKey k with
    | some t, some k => hashOp st t (.rm k)
    | _, _ => (st, "bad-op")
  | ["hdump"] =>
    match st.ht with
    | some t =>
      let parts := (List.range t.buckets.size).filterMap (fun i =>
        match t.buckets[i]? with
        | some (c@(_ :: _)) =>
          some (s!" {i}:[" ++ ",".intercalate (c.map (fun p => s!"{showKey p.1}={p.2}")) ++ "]")
        | _ => none)
      (st, "buckets:" ++ String.join parts)
    | none => (st, "bad-op")
  | ["hitems"] =>
    match st.ht with
    | some t =>
      let le := fun (a b : Key × Nat) => !keyLt b.1 a.1
      (st, both (showItems showKey (t.toList.mergeSort le))
                (showItems showKey (specItems (fun a b => !keyLt b a) st.hmap)))
    | none => (st, "bad-op")
  -- ---------------- trie ----------------
  | ["tinit", cap] =>
    match cap.toNat? with
    | some c =>
      if c ≥ 2 ^ 31 then ({ st with trie := none, tmap := [], tspec := true }, "fail")
      else ({ st with trie := some Trie.empty, tmap := [], tspec := true }, "ok")
    | none => (st, "bad-op")
  | ["tins", k, v] =>
    match st.trie, parseKey k, v.toNat? with
    | some t, some k, some v =>
      if v = 0 then
        -- NULL value: outside the hypotheses of the theorems; model only from here on
        ({ st with trie := some (t.insert k none), tspec := false }, "1")
      else
        let (t', o) := trieStep t (.ins k v)
        let (m', so) := specStepOverwrite st.tmap (.ins k v)
        ({ st with trie := some t', tmap := m' },
          if st.tspec then both (showOut o) (showOut so) else showOut o)
    | _, _, _ => (st, "bad-op")
  | ["tfind", k] =>
    match st.trie, parseKey k with
    | some t, some k =>
      let (_, o) := trieStep t (.find k)
      let (_, so) := specStepOverwrite st.tmap (.find k)
      (st, if st.tspec then both (showOut o) (showOut so) else showOut o)
    | _, _ => (st, "bad-op")
  | ["tnode", k] =>
    match st.trie, parseKey k with
    | some t, some k => (st, if (t.find k).isNull then "null" else "node")
    | _, _ => (st, "bad-op")
  | ["trm", k] =>
    match st.trie, parseKey k with
    | some t, some k =>
      let (t', _) := trieStep t (.rm k)
      let (m', _) := specStepOverwrite st.tmap (.rm k)
      -- the C return value (`find` reached a node) is a model-level observation
      ({ st with trie := some t', tmap := m' }, showBool (t.remove k).2)
    | _, _ => (st, "bad-op")
  | ["tdump"] =>
    match st.trie with
    | some t => (st, "trie: " ++ " ".intercalate (dumpTrie [] t))
    | none => (st, "bad-op")
  | ["titems"] =>
    match st.trie with
    | some (.node _ ks) =>
      -- the empty key lives under children[0]; C strings cannot reach below it
      let e := match ks 0 with | .node (some v) _ => [(([] : Key), v)] | _ => []
      let rest := (List.range 255).flatMap (fun i =>
        trieItems [(i + 1).toUInt8] (ks (i + 1).toUInt8))
      let a := showItems showKey (e ++ rest)
      (st, if st.tspec then both a (showItems showKey (specItems (fun a b => !keyLt b a) st.tmap))
           else a)
    | _ => (st, "bad-op")
  | _ => (st, "bad-op")

def main : IO Unit := MgModel.Driver.main ({} : St) stepLine
