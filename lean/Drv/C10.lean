import MgModel.Common.Driver
import MgModel.C10.Spec
open MgModel MgModel.C10 MgModel.Driver

/-! Driver for C10: heap histories (`init/ins/root/ext/find/rm/rmi/dump/...`) and sorts
(`a k…` appends keys to the pending array, `sort <alg>` / `keys <alg>` sort a copy). -/

structure St where
  heap : Option Heap := none
  spec : List Int := []           -- specification state of the heap: multiset of keys
  specOk : Bool := true           -- false once a remove-by-node-index happened: which key a
                                  -- node index denotes is not determined by the multiset
                                  -- specification, so the spec column is no longer printed
  arr  : Array Elem := #[]        -- pending input array of the sorts

def showElem (e : Elem) : String := s!"{e.1}:{e.2}"
def showElems (l : List Elem) : String := " ".intercalate (l.map showElem)

def showKeys (l : List Int) : String := if l.isEmpty then "k" else "k " ++ showInts l

def showErr : Err → String
  | .oob => "err-oob"
  | .null => "err-null"
  | .range => "err-range"
  | .fuel => "err-fuel"
  | .uninit => "err-uninit"

/-- run sort `alg` on a copy of the pending array; `none` = unknown algorithm -/
def runSort (alg : String) (a : Array Elem) (orig : Bool) : Option (Except Err (Option (Array Elem))) :=
  if alg = "ins" then some ((insertionSort a).map some)
  else if alg = "shell" then some ((shellSort a).map some)
  else if alg = "heap" then some (heapSort a)
  else if alg = "merge" then some (((if orig then mergeSortOrig a else mergeSort a)).map some)
  else if alg = "quick" then some (((if orig then quickSortOrig a else quickSort a)).map some)
  else none

def removeBy (st : St) (h : Heap) (idx : Nat) (pre : String) (byKey : Bool) : St × String :=
  match h.remove idx with
  | .error e => (st, showErr e)
  | .ok none => (st, "fail")
  | .ok (some (r, h')) =>
    ({ st with heap := some h', spec := st.spec.erase r.1, specOk := st.specOk && byKey },
      pre ++ showElem r)

/-- minimum of a list of keys -/
def minOf : List Int → Option Int
  | [] => none
  | x :: l => match minOf l with
    | none => some x
    | some k => some (if x ≤ k then x else k)

/-- append the specification column while it is determined -/
def withSpec (st : St) (m sp : String) : String := if st.specOk then s!"{m} | {sp}" else m

def stepLine (st : St) : List String → St × String
  | "a" :: ks =>
    let rec go (arr : Array Elem) : List String → Option (Array Elem)
      | [] => some arr
      | k :: ks => match k.toInt? with
        | some k => go (arr.push (k, arr.size)) ks
        | none => none
    match go st.arr ks with
    | some arr => ({ st with arr := arr }, s!"n={arr.size}")
    | none => (st, "bad-op")
  | ["sort", alg] =>
    match runSort alg st.arr false with
    | none => (st, "bad-op")
    | some (.error e) => (st, showErr e)
    | some (.ok none) => (st, "fail")
    | some (.ok (some r)) => (st, if r.size = 0 then "ok" else "ok " ++ showElems r.toList)
  | ["keys", alg] =>
    match runSort alg st.arr false with
    | none => (st, "bad-op")
    | some (.error e) => (st, showErr e)
    | some (.ok none) => (st, "fail")
    | some (.ok (some r)) =>
      (st, s!"{showKeys (r.toList.map (·.1))} | {showKeys (sortedKeys st.arr)}")
  | ["init", c] =>
    match c.toNat? with
    | none => (st, "bad-op")
    | some c =>
      match Heap.init c with
      | some h => ({ st with heap := some h, spec := [], specOk := true }, "ok | ok")
      | none => ({ st with heap := none, spec := [], specOk := true }, "fail | fail")
  | op :: args =>
    match st.heap with
    | none => (st, "bad-op")
    | some h =>
      match op, args with
      | "ins", [k, v] =>
        match k.toInt?, v.toNat? with
        | some k, some v =>
          match h.insert (k, v) with
          | .error e => (st, showErr e)
          | .ok none => (st, "fail")
          | .ok (some h') => ({ st with heap := some h', spec := k :: st.spec }, "ok")
        | _, _ => (st, "bad-op")
      | "root", [] =>
        match h.root with
        | .error e => (st, showErr e)
        | .ok none => (st, withSpec st "none" (if st.spec.isEmpty then "none" else "some"))
        | .ok (some r) => (st, showElem r)
      | "minkey", [] =>
        let sp := match minOf st.spec with | none => "none" | some k => toString k
        match h.root with
        | .error e => (st, showErr e)
        | .ok none => (st, withSpec st "none" sp)
        | .ok (some r) => (st, withSpec st (toString r.1) sp)
      | "ext", [] =>
        match h.extract with
        | .error e => (st, showErr e)
        | .ok none => (st, withSpec st "none" (if st.spec.isEmpty then "none" else "some"))
        | .ok (some (r, h')) => ({ st with heap := some h', spec := st.spec.erase r.1 }, showElem r)
      | "find", [k] =>
        match k.toInt? with
        | none => (st, "bad-op")
        | some k =>
          match h.find k with
          | .error e => (st, showErr e)
          | .ok none => (st, "none")
          | .ok (some i) => (st, toString i)
      | "has", [k] =>
        match k.toInt? with
        | none => (st, "bad-op")
        | some k =>
          let sp := showBool (st.spec.any (fun e => e == k))
          match h.find k with
          | .error e => (st, showErr e)
          | .ok none => (st, withSpec st "0" sp)
          | .ok (some _) => (st, withSpec st "1" sp)
      | "rm", [k] =>
        match k.toInt? with
        | none => (st, "bad-op")
        | some k =>
          match h.find k with
          | .error e => (st, showErr e)
          | .ok none => (st, "none")
          | .ok (some i) => removeBy st h i s!"ok {i} " true
      | "rmi", [i] =>
        match i.toNat? with
        | none => (st, "bad-op")
        | some i => removeBy st h i "ok " false
      | "rml", [] => removeBy st h h.size "ok " false
      | "size", [] => (st, withSpec st (toString h.size) (toString st.spec.length))
      | "empty", [] => (st, withSpec st (showBool (h.size == 0)) (showBool st.spec.isEmpty))
      | "clear", [] => ({ st with heap := some h.clear, spec := [] }, s!"ok {h.size}")
      | "ens", [c] =>
        match c.toNat? with
        | none => (st, "bad-op")
        | some c =>
          match h.ensureCapacity c with
          | none => (st, "fail")
          | some h' => ({ st with heap := some h' }, "ok")
      | "dump", [] =>
        let body := showElems (h.nodes.toList.drop 1)
        (st, s!"{h.size} {h.cap} :" ++ (if body.isEmpty then "" else " " ++ body))
      | _, _ => (st, "bad-op")
  | _ => (st, "bad-op")

def main : IO Unit := MgModel.Driver.main ({} : St) stepLine
