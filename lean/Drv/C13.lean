import MgModel.Common.Driver
import MgModel.C13.EvLoop
open MgModel MgModel.C13 MgModel.Driver

/-!
Line protocol (one answer line per op line):

    cfg <hints_max_fd> <use_mem_pool> [L] [M] [C]   L = legacy poll accounting, M = legacy select scan
                                              (unfixed trees); C = cb_close closes the descriptor
    fd pipe|sock|tcp                          declares the next descriptor (ids 0,1,2,…)
    rm <d> all | rm <d> <k>                   read mode of descriptor d's cb_read
    pre <act>…                                actions before muggle_evloop_run
    on by <c> <m> <act>…                      in the cb_read of c that brings delivered bytes to ≥ m
    on cl <c> <act>…                          in cb_close of c
    on wk <k> <act>…                          in the k-th cb_wake
    on idle <k> <act>…                        while the loop sleeps for the k-th time (no a: / x)
    run select|poll|epoll                     → trace ; outcomes
    agree [tag]                               → agree <outcomes> | differ   (over the runs so far)

    act ::= w:<d>:<n> | h:<d> | p:<d> | a:<d> | s:<d> | u | x | X
-/

inductive Trig where
  | by (c m : Nat) | cl (c : Nat) | wk (k : Nat) | idle (k : Nat)
  deriving DecidableEq

structure DSt where
  hints  : Nat := 8
  legacy : Bool := false
  legacySel : Bool := false
  closeFd : Bool := false
  kinds  : List Kind := []
  rmodes : List (Nat × RMode) := []
  pre    : List Act := []
  ents   : List (Trig × List Act) := []
  runs   : List (List (Nat × Fate)) := []

def parseAct (s : String) : Option Act :=
  match s.splitOn ":" with
  | ["w", d, n] => do let d ← d.toNat?; let n ← n.toNat?; if n = 0 then none else some (.write d n)
  | ["h", d] => d.toNat?.map .hclose
  | ["p", d] => d.toNat?.map .pclose
  | ["a", d] => d.toNat?.map .add
  | ["s", d] => d.toNat?.map .shut
  | ["u"] => some .wakeup
  | ["x"] => some .exit
  | ["X"] => some .xexit
  | _ => none

def actDesc : Act → Option Nat
  | .write d _ | .hclose d | .pclose d | .add d | .shut d => some d
  | _ => none

def parseActs (nds : Nat) (l : List String) : Option (List Act) := do
  let as ← l.mapM parseAct
  if as.all (fun a => match actDesc a with | some d => d < nds | none => true) then some as else none

def mkScript (st : DSt) : Script :=
  { onRead := fun c b a => st.ents.flatMap (fun e =>
      match e.1 with
      | .by c' m => if c' = c ∧ b < m ∧ m ≤ a then e.2 else []
      | _ => []),
    onClose := fun c => st.ents.flatMap (fun e => if e.1 = .cl c then e.2 else []),
    onWake := fun k => st.ents.flatMap (fun e => if e.1 = .wk k then e.2 else []),
    onIdle := fun k => st.ents.flatMap (fun e => if e.1 = .idle k then e.2 else []),
    nIdle := st.ents.foldl (fun m e => match e.1 with | .idle k => max m (k + 1) | _ => m) 0,
    rmode := fun c => match st.rmodes.find? (fun p => p.1 = c) with
                      | some p => p.2 | none => .all }

def showEv : Ev → String
  | .addOk c => s!"A+{c}"
  | .addRej c => s!"A-{c}"
  | .disp => "/"
  | .sleep p => if p then "S!" else "S"
  | .read c n e => s!"R{c}:{n}" ++ (if e then "e" else "")
  | .close c => s!"C{c}"
  | .wake => "W"
  | .clear c => s!"X{c}"
  | .exit => "E"
  | .waitErr => "ERR"
  | .fuel => "F"

def showFate : Fate → String
  | .none => "-" | .closed => "c" | .cleared => "x"

def showOutcomes (l : List (Nat × Fate)) : String :=
  " ".intercalate (l.map (fun p => s!"{p.1}{showFate p.2}"))

/-- class P of MgModel.C13 (specOutcome): drain, no callback actions, peers act only while
the loop sleeps, adds only before the run and within the capacity hint -/
def inClassP (st : DSt) : Bool :=
  st.rmodes.all (fun p => p.2 = .all) &&
  st.pre.all preOk &&
  st.ents.all (fun e => match e.1 with | .idle _ => e.2.all peerOnly | _ => false) &&
  decide ((st.pre.filter (fun a => match a with | .add _ => true | _ => false)).length ≤ st.hints)

def stepLine (st : DSt) : List String → DSt × String
  | "cfg" :: h :: _pool :: rest =>
    match h.toNat? with
    | some h => ({ st with hints := if h < 1 then 8 else h, legacy := rest.contains "L",
                           legacySel := rest.contains "M", closeFd := rest.contains "C" || rest.contains "R" }, "ok")
    | none => (st, "bad-op")
  | ["fd", k] =>
    if st.kinds.length ≥ 16 then (st, "bad-op") else
    match k with
    | "pipe" => ({ st with kinds := st.kinds ++ [.pipe] }, "ok")
    | "sock" => ({ st with kinds := st.kinds ++ [.sock] }, "ok")
    | "tcp" => ({ st with kinds := st.kinds ++ [.tcp] }, "ok")
    | _ => (st, "bad-op")
  | ["rm", d, m] =>
    match d.toNat? with
    | some d =>
      if d ≥ st.kinds.length then (st, "bad-op") else
      if m = "all" then ({ st with rmodes := (d, .all) :: st.rmodes }, "ok") else
      match m.toNat? with
      | some k => if k = 0 ∨ k > 4096 then (st, "bad-op") else ({ st with rmodes := (d, .upto k) :: st.rmodes }, "ok")
      | none => (st, "bad-op")
    | none => (st, "bad-op")
  | "pre" :: as =>
    match parseActs st.kinds.length as with
    | some as => ({ st with pre := st.pre ++ as }, "ok")
    | none => (st, "bad-op")
  | "on" :: "by" :: c :: m :: as =>
    match c.toNat?, m.toNat?, parseActs st.kinds.length as with
    | some c, some m, some as =>
      if c < st.kinds.length ∧ 0 < m then ({ st with ents := st.ents ++ [(.by c m, as)] }, "ok")
      else (st, "bad-op")
    | _, _, _ => (st, "bad-op")
  | "on" :: "cl" :: c :: as =>
    match c.toNat?, parseActs st.kinds.length as with
    | some c, some as =>
      if c < st.kinds.length then ({ st with ents := st.ents ++ [(.cl c, as)] }, "ok") else (st, "bad-op")
    | _, _ => (st, "bad-op")
  | "on" :: "wk" :: k :: as =>
    match k.toNat?, parseActs st.kinds.length as with
    | some k, some as => ({ st with ents := st.ents ++ [(.wk k, as)] }, "ok")
    | _, _ => (st, "bad-op")
  | "on" :: "idle" :: k :: as =>
    match k.toNat?, parseActs st.kinds.length as with
    | some k, some as =>
      -- add_ctx / in-thread exit are loop-thread calls: not possible while the loop sleeps
      if k < 64 ∧ as.all (fun a => match a with | .add _ | .exit => false | _ => true) then ({ st with ents := st.ents ++ [(.idle k, as)] }, "ok") else (st, "bad-op")
    | _, _ => (st, "bad-op")
  | ["run", b] =>
    let bk : Option Backend :=
      if b = "select" then some .select else if b = "poll" then some .poll
      else if b = "epoll" then some .epoll else none
    match bk with
    | none => (st, "bad-op")
    | some bk =>
      let s := scenario bk st.hints st.legacy st.kinds st.pre (mkScript st) 4000 st.legacySel st.closeFd
      let oc := outcomes s
      let tr := " ".intercalate (s.events.map showEv)
      ({ st with runs := st.runs ++ [oc] },
        (if s.oob then "oob " else "") ++ tr ++ " ; " ++ showOutcomes oc)
  | "agree" :: _ =>
    match st.runs with
    | [] => (st, "bad-op")
    | r :: rs =>
      let m := if rs.all (· == r) then "agree " ++ showOutcomes r else "differ"
      if inClassP st then
        let sp := (List.range st.kinds.length).map (specOutcome st.kinds st.pre (mkScript st))
        (st, m ++ " | agree " ++ showOutcomes sp)
      else (st, m)
  | _ => (st, "bad-op")

def main : IO Unit := MgModel.Driver.main ({} : DSt) stepLine
