import MgModel.Common.Driver
import MgModel.C16.Async
import MgModel.C16.SyncConc
open MgModel MgModel.C16 MgModel.Driver MgModel.Conc

/-! Line-protocol driver for C16 (see harness/c16/seq_log.c for the ops).
The model column is `Variant.fixed`; the async logger is the interleaving model of
`MgModel/C16/Async.lean` run under the canonical schedule of the sequential harness
(the producer finishes its call, then the writer runs until it blocks). -/

structure St where
  mode : Nat := 0                  -- 0 none, 1 sync, 2 async
  lg   : Logger := {}              -- sync
  a    : AState := ainit .fixed {} 0 1 (fun _ => [])
  env  : Env := {}

/-! ### printing -/

def hexDigit (n : Nat) : Char := "0123456789abcdef".toList.getD n '?'
def hexByte (b : UInt8) : String := String.ofList [hexDigit (b.toNat / 16), hexDigit (b.toNat % 16)]
def hexBytes (l : Bytes) : String := String.join (l.map hexByte)

def fnv (l : Bytes) : UInt64 :=
  l.foldl (fun h b => (h ^^^ b.toUInt64) * 1099511628211) 14695981039346656037

def hex64 (x : UInt64) : String :=
  let ds := Nat.toDigits 16 x.toNat
  String.ofList (List.replicate (16 - ds.length) '0' ++ ds)

def showRec : Rec → String
  | .fw s b => s!"w{s}.{b.length}.{hex64 (fnv b)}.{hexBytes (b.take 16)}.{hexBytes (b.drop (b.length - min 8 b.length))}"
  | .cap m p w => s!"c{m.level}.{m.sec}.{m.nsec}.{m.tid}.{p.length}.{hex64 (fnv p)}.{w}"

/-- `groups[i]` = strings of handler `i` for this op -/
def showGroups (gs : List (List String)) : String :=
  let parts := (gs.zipIdx).filterMap fun (g, i) =>
    if g.isEmpty then none else some s!"{i}[{",".intercalate g}]"
  if parts.isEmpty then "-" else " ".intercalate parts

def newRecs (before after : List Handler) : List (List String) :=
  (before.zip after).map fun (b, a) => (a.out.drop b.out.length).map showRec

def addRets (gs : List (List String)) (rs : List (Option Int)) : List (List String) :=
  (gs.zip rs).map fun (g, r) => match r with | some x => g ++ [s!"r{x}"] | none => g

def specGroup (h : Handler) (m : Msg) : List String :=
  if m.level ≥ h.level then (specRecs h m).map showRec ++ [s!"r{specRet h m}"] else []

def specGroups (hs : List Handler) (ms : List Msg) : List (List String) :=
  hs.map fun h => (ms.map (specGroup h)).flatten

def wfB (lg : Logger) : Bool := lg.handlers.all fun h => decide (lg.lowest ≤ h.level)

/-! ### parsing -/

def hexVal (c : Char) : Option Nat :=
  if '0' ≤ c ∧ c ≤ '9' then some (c.toNat - '0'.toNat)
  else if 'a' ≤ c ∧ c ≤ 'f' then some (c.toNat - 'a'.toNat + 10) else none

def parseHex : List Char → Option Bytes
  | [] => some []
  | [_] => none
  | a :: b :: r => do
    let x ← hexVal a
    let y ← hexVal b
    if x = 0 ∧ y = 0 then none
    let t ← parseHex r
    pure (UInt8.ofNat (x * 16 + y) :: t)

def parseMsg (s : String) : Option Bytes :=
  match s.splitOn ":" with
  | ["h", h] => parseHex h.toList
  | ["r", n, h] => do
    let n ← n.toNat?
    if n > 100000 then none
    let u ← parseHex h.toList
    if u.isEmpty ∧ n > 0 then none
    pure ((List.range n).map fun i => u.getD (i % u.length) 0)
  | _ => none

def parseKind : String → Option HKind
  | "file" => some .file | "rot" => some .rot | "rots" => some .rot | "trot" => some .trot
  | "con0" => some (.console false) | "con1" => some (.console true) | "cap" => some .cap
  | _ => none

def parseFmt : String → Option (Option FmtKind)
  | "s" => some (some .simple) | "c" => some (some .complicated) | "n" => some none
  | _ => none

def parseCall (level file line func mode spec : String) : Option Call := do
  let level ← level.toInt?
  let line ← line.toNat?
  let msg ← parseMsg spec
  let exp ← match mode with
    | "s" => some msg
    | "l" => some msg
    | "d" => some (msg ++ strBytes "|-42|ff|z")
    | _ => none
  pure { level := level, file := file, line := line, func := func, expansion := exp }

/-! ### async: canonical schedules -/

def runWriter (s : AState) : Nat → AState
  | 0 => s
  | f + 1 => match writerStep s with
    | some s' => runWriter s' f
    | none => s

def runProducer (s : AState) : Nat → AState
  | 0 => s
  | f + 1 =>
    if (s.prog 0).isEmpty && isIdle (s.ppc 0) then s
    else match producerStep s 0 with
      | some s' => runProducer s' f
      | none => s

def quiesce (s : AState) : AState := runWriter s (4 * s.queue.length + 8)

def pendingMsgs (s : AState) : List Msg :=
  (match s.wpc with | .holding q => [q.msg] | _ => []) ++ s.queue.filterMap (fun o => o.map (·.msg))

/-- the harness's `destroy`: first sentinel attempt with the gate as it is, then the gate
is opened and everybody runs until destroy has returned (or nothing moves any more) -/
def runDestroy (s : AState) : AState × Bool :=
  let s := (destroyStep s).getD s                  -- notCalled → sending
  let s := (destroyStep s).getD s                  -- first attempt
  let s := { s with gate := true }
  let rec go (s : AState) : Nat → AState × Bool
    | 0 => (s, false)
    | f + 1 =>
      let s := quiesce s
      match s.dpc with
      | .done => (s, true)
      | _ => match destroyStep s with
        | some s' => go s' f
        | none => (s, false)
  go s (s.queue.length + 8)

def groupsOf (before after : List Handler) : String := showGroups (newRecs before after)

/-- async records carry the return values too: recompute them with the model's own
`writeAll` on the messages written in this op -/
def asyncGroups (hs0 : List Handler) (ms : List Msg) : List (List String) × List Handler :=
  ms.foldl (fun (acc : List (List String) × List Handler) m =>
    match writeAll .fixed m acc.2 with
    | .ok (hs', rs) =>
      let g := addRets (newRecs acc.2 hs') rs
      ((acc.1.zip g).map (fun (a, b) => a ++ b), hs')
    | .error _ => acc) (hs0.map (fun _ => []), hs0)

/-- the same call through the interleaving model of the synchronous logger with one thread
(run to completion): must give what `syncLog` gives -/
def viaConc (lg : Logger) (e : Env) (c : Call) : List (List Rec) :=
  let rec go (s : SState) : Nat → SState
    | 0 => s
    | f + 1 => match sstep s ⟨0, .none⟩ with
      | some (s', _) => go s' f
      | none => s
  let s := go (sinit .fixed lg 1 (fun _ => [(e, c)])) (8 * (lg.handlers.length + 2))
  (List.range lg.handlers.length).map s.outs

def stepLine (st : St) : List String → St × String
  | ["logger", "sync"] =>
    if st.mode ≠ 0 then (st, "bad-op") else ({ st with mode := 1, lg := {} }, "ok")
  | ["logger", "async", c] =>
    match st.mode, c.toNat? with
    | 0, some c =>
      if c < 3 ∨ c > 4096 then (st, "bad-op")
      else ({ st with mode := 2, a := ainit .fixed {} (nextPow2 c - 2) 1 (fun _ => []) }, "ok")
    | _, _ => (st, "bad-op")
  | ["handler", k, l, f] =>
    match st.mode, parseKind k, l.toInt?, parseFmt f with
    | 0, _, _, _ => (st, "bad-op")
    | _, some k, some l, some f =>
      let lg := if st.mode = 1 then st.lg else st.a.lg
      if lg.handlers.length ≥ 10 ∨ (st.mode = 2 ∧ !st.a.gate) then (st, "bad-op") else
      match addHandler lg { kind := k, level := (Int.toInt32 l).toInt, fmt := f } with
      | none => (st, "full")
      | some lg' =>
        let st' := if st.mode = 1 then { st with lg := lg' } else { st with a := { st.a with lg := lg' } }
        (st', s!"ok {lg.handlers.length}")
    | _, _, _, _ => (st, "bad-op")
  | ["setlevel", i, l] =>
    match st.mode, i.toNat?, l.toInt? with
    | 0, _, _ => (st, "bad-op")
    | _, some i, some l =>
      let lg := if st.mode = 1 then st.lg else st.a.lg
      if i ≥ lg.handlers.length ∨ (st.mode = 2 ∧ !st.a.gate) then (st, "bad-op") else
      let lg' := { lg with handlers := lg.handlers.modify i (fun h => { h with level := (Int.toInt32 l).toInt }) }
      (if st.mode = 1 then { st with lg := lg' } else { st with a := { st.a with lg := lg' } }, "ok")
    | _, _, _ => (st, "bad-op")
  | ["clock", s, n] =>
    match st.mode, s.toInt?, n.toNat? with
    | 0, _, _ => (st, "bad-op")
    | _, some s, some n => ({ st with env := { st.env with sec := s, nsec := n } }, "ok")
    | _, _, _ => (st, "bad-op")
  | ["tid", t] =>
    match st.mode, t.toNat? with
    | 0, _ => (st, "bad-op")
    | _, some t => ({ st with env := { st.env with tid := t } }, "ok")
    | _, _ => (st, "bad-op")
  | ["gate", g] =>
    if st.mode = 0 then (st, "bad-op") else
    if st.mode = 1 then (st, "-") else
    let a0 := st.a
    let a1 := quiesce { a0 with gate := g.startsWith "1" }
    let ms := (a1.written.drop a0.written.length).map (·.msg)
    ({ st with a := a1 }, showGroups (asyncGroups a0.lg.handlers ms).1)
  | ["log", level, file, line, func, mode, spec] =>
    match st.mode, parseCall level file line func mode spec with
    | 0, _ => (st, "bad-op")
    | _, none => (st, "bad-op")
    | 1, some c0 =>
      let c := { c0 with level := (Int.toInt32 c0.level).toInt }
      match syncLog .fixed st.lg st.env c with
      | .error .oob => (st, "err-oob")
      | .error .uninit => (st, "err-uninit")
      | .ok (lg', rs) =>
        let model := showGroups (addRets (newRecs st.lg.handlers lg'.handlers)
                        (if rs.isEmpty then st.lg.handlers.map (fun _ => none) else rs))
        let spec := showGroups (specGroups st.lg.handlers [mkMsg st.lg st.env c])
        if viaConc st.lg st.env c != lg'.handlers.map (·.out) then (st, "sstep-differs-from-syncLog") else
        ({ st with lg := lg' }, if wfB st.lg then s!"{model} | {spec}" else model)
    | _, some c0 =>
      let c := { c0 with level := (Int.toInt32 c0.level).toInt }
      let a0 := st.a
      let a1 := runProducer { a0 with prog := upd a0.prog 0 [(st.env, c)] } 4
      let a2 := quiesce a1
      let verdict := if a2.accepted.length > a0.accepted.length then "acc"
                     else if a2.dropped.length > a0.dropped.length then "drop" else "filt"
      let ms := (a2.written.drop a0.written.length).map (·.msg)
      let model := s!"{verdict} live={a2.live} {showGroups (asyncGroups a0.lg.handlers ms).1}"
      -- with the gate open and nothing pending the asynchronous logger must do exactly
      -- what the synchronous one does with the same call
      let sync := a0.gate && a0.queue.isEmpty && (match a0.wpc with | .reading => true | _ => false)
                  && wfB a0.lg
      let spec := if a0.lg.lowest > c.level then "filt live=0 -"
                  else s!"acc live=0 {showGroups (specGroups a0.lg.handlers [mkMsg a0.lg st.env c])}"
      ({ st with a := a2 }, if sync then s!"{model} | {spec}" else model)
  | ["mt", t, k, len, level] =>
    match st.mode, t.toNat?, k.toNat?, len.toNat?, level.toInt? with
    | 0, _, _, _, _ => (st, "bad-op")
    | _, some t, some k, some len, some level =>
      if t < 1 ∨ t > 64 ∨ k > 100000 ∨ len > 20000 then (st, "bad-op") else
      if st.mode = 1 then
        let lg := st.lg
        let counts := lg.handlers.map fun h =>
          let writes := level ≥ lg.lowest ∧ level ≥ h.level ∧ (h.kind = .cap ∨ h.fmt ≠ none)
          if writes then t * k else 0
        (st, "mt ok" ++ String.join (counts.map fun c => s!" {c}"))
      else if !st.a.gate then (st, "bad-op")
      else (st, s!"mt ok live={st.a.live}")
    | _, _, _, _, _ => (st, "bad-op")
  | ["destroy"] =>
    if st.mode = 0 then (st, "bad-op") else
    if st.mode = 1 then ({ mode := 0 }, "- live=0 files=ok | - live=0 files=ok") else
    let a0 := st.a
    let pend := pendingMsgs a0
    let (a1, ok) := runDestroy a0
    if !ok then ({ mode := 0 }, "destroy-hang") else
    let ms := (a1.written.drop a0.written.length).map (·.msg)
    let model := s!"{showGroups (asyncGroups a0.lg.handlers ms).1} live={a1.live} files=ok"
    let spec := s!"{showGroups (specGroups a0.lg.handlers pend)} live=0 files=ok"
    ({ mode := 0 }, if wfB a0.lg then s!"{model} | {spec}" else model)
  | _ => (st, "bad-op")

def main : IO Unit := MgModel.Driver.main ({} : St) stepLine
