import MgModel.Common.Driver
import MgModel.Common.Conc
import MgModel.C15.Handle
import MgModel.C15.Pipe
/-! Driver for C15. Two protocols in one executable:
* sequential (harness/c15/seq_socket.c): `new …`, `conn`, `send`, `pclose`, `shut`, `retain`,
  `wrel`, `hand`, `park`, `unpark`, `sync`, `exit`, `end`
* concurrent pipe (harness/c15/conc_pipe.c): `conf pipe …`, `sched replay …`, `run` -/
open MgModel MgModel.C15

/-- deterministic payload: byte `k` of connection `c` (same formula in the harness) -/
def pat (c k : Nat) : Nat := (c * 31 + k * 7 + k / 256) % 251

structure Cli where
  isConn   : Bool := false     -- created by `conn` (has a client end we can write to / close)
  open_    : Bool := false     -- client end still open
  off      : Nat := 0          -- bytes sent so far
  shut     : Bool := false     -- user shutdown issued on the server side

structure DS where
  started : Bool := false
  s       : St := {}
  parked  : Bool := false
  chunk   : Nat := 1
  cli     : List Cli := []      -- index = identity
  prev    : List String := []   -- last printed snapshot per identity
  hooks   : List (String × Nat × String × Nat) := []   -- armed: (callback, ctx, worker act, target)
  post    : List (Nat × Nat) := []   -- (ctx, count seen by the callback after the worker act it hosted)

def memCh : Mem → String
  | .none => "-" | .live => "L" | .freed => "F"

def snap (s : St) (post : List (Nat × Nat)) (c : Nat) : String :=
  let x := s.ctx c
  let r := if x.mem = .live then toString x.ref else "-"
  let h := match post.find? (fun p => p.1 == c) with | some p => toString p.2 | none => "-"
  s!"c{c}:{memCh x.mem} r{r} k{x.nConn} a{x.nAdd} x{x.nCls} l{x.nRel} d{x.nFdc} f{x.nFree} g{x.got.length} o{x.oConn}.{x.oAdd}.{x.oCls}.{x.oRel} h{h}"

def snaps (s : St) (post : List (Nat × Nat)) : List String := (List.range s.n).map (snap s post)

def diffLine (prev cur : List String) : String :=
  let rec go : List String → List String → List String
    | p :: ps, c :: cs => if p = c then go ps cs else c :: go ps cs
    | [], cs => cs
    | _, [] => []
  let d := go prev cur
  if d.isEmpty then "-" else " ".intercalate d

def idsStr (l : List Nat) : String := if l.isEmpty then "-" else ",".intercalate (l.map toString)

def endLines (d : DS) : String :=
  let s := d.s
  let ids := List.range s.n
  let leaks := if s.exited then ids.filter (fun c => (s.ctx c).mem = .live && (s.ctx c).held == 0) else []
  let multi := ids.filter fun c =>
    let x := s.ctx c
    x.nConn > 1 || x.nAdd > 1 || x.nCls > 1 || x.nRel > 1 || x.nFdc > 1 || x.nFree > 1
  let bad := ids.filter fun c => let x := s.ctx c; x.got != x.sent.take x.got.length
  let lost := ids.filter fun c =>
    let x := s.ctx c
    let sh := match d.cli[c]? with | some k => k.shut | none => false
    x.nCls == 1 && !sh && x.got.length != x.sent.length
  let fdl := ids.filter fun c =>
    let x := s.ctx c
    (x.mem = .freed && x.fdOpen) ||
    (x.mem = .none && x.origin = .accepted && x.fdOpen && !(s.backlog.any fun p => p.1 == c))
  let ex := if s.exited then "1" else "0"
  let m := s!"end exited={ex} leaks={idsStr leaks} multi={idsStr multi} bad={idsStr bad} lost={idsStr lost} fdl={idsStr fdl} unowned=- wild=0"
  s!"{m} | end exited={ex} leaks=- multi=- bad=- lost=- fdl=- unowned=- wild=0"

def setCli (l : List Cli) (i : Nat) (f : Cli → Cli) : List Cli :=
  l.mapIdx fun j k => if j = i then f k else k

def errStr : Err → String
  | .uaf c => s!"err-uaf c{c}"
  | .wild c => s!"err-wild c{c}"

def canTouch (d : DS) (c : Nat) : Bool :=
  let x := d.s.ctx c
  c < d.s.n && x.mem = .live && (x.held > 0 || (d.parked && !d.s.exited))

/-- the worker act hosted by a callback on `id`: performed iff it is legal at that moment -/
def hookAct (s : St) (id : Nat) (act : String) (t : Nat) : Except Err St :=
  let x := s.ctx t
  if act = "wrel" then (if t < s.n && x.held > 0 then apply s (.workerRelease t) else .ok s)
  else if act = "retain" then
    (if t < s.n && x.mem = .live && (t = id || x.held > 0) then apply s (.retain t) else .ok s)
  else .ok s

/-- fire the armed hooks of callback `cb` on `id` -/
def fire (d : DS) (s : St) (cb : String) (id : Nat) : Except Err (DS × St) := do
  let mine := d.hooks.filter fun h => h.1 == cb && h.2.1 == id
  if mine.isEmpty then return (d, s) else
  let mut s := s
  for h in mine do
    s ← hookAct s id h.2.2.1 h.2.2.2
  -- the callback goes on using its context: it reads the count again
  let x ← s.live id
  let d := { d with hooks := d.hooks.filter fun h => !(h.1 == cb && h.2.1 == id),
                    post := (id, x.ref) :: d.post.filter fun p => p.1 != id }
  return (d, s)

/-- one registered context gets its turn, with the hosted worker acts in their places -/
def turnCtx (d : DS) (s : St) (c : Nat) : Except Err (DS × St) := do
  if !s.reg.contains c then return (d, s) else
  let x := s.ctx c
  let readable := !x.isListener && (!x.inq.isEmpty || x.eof)
  let s ← apply s (.turnRead c d.chunk)
  let (d, s) ← if readable then fire d s "msg" c else pure (d, s)
  if (s.ctx c).flagClosed then
    let s ← apply s (.closeBegin c)
    let (d, s) ← fire d s "close" c
    let s ← apply s (.closeEnd c)
    return (d, s)
  else return (d, s)

def roundD (d : DS) (s : St) : Except Err (DS × St) := do
  let s ← if s.queue.isEmpty then pure s else apply s .wake
  let mut ds := (d, s)
  for c in s.reg do
    ds ← turnCtx ds.1 ds.2 c
  return ds

def quiesceD : Nat → DS → St → Except Err (DS × St)
  | 0, d, s => return (d, s)
  | fuel + 1, d, s =>
    if s.exited || !ready s then return (d, s) else do
      let (d, s) ← roundD d s
      quiesceD fuel d s

def stepSeq (d : DS) : List String → DS × String
  | ["new", be, hints, _fam, rd] =>
    match be.toNat?, hints.toNat?, rd.toNat? with
    | some be, some h, some rd =>
      let cap := if be = 2 then some h else none
      let s := init cap true
      ({ started := true, s := s, chunk := rd, cli := [{}], prev := snaps s [] }, "ok")
    | _, _, _ => (d, "bad-op")
  | ["conn", a] =>
    if !d.started || d.s.exited then (d, "bad-op") else
    let c := d.s.n
    ({ d with s := connect d.s (a = "1"), cli := d.cli ++ [{ isConn := true, open_ := true }] }, s!"c{c}")
  | ["hand"] =>
    if !d.started || d.s.exited then (d, "bad-op") else
    let c := d.s.n
    ({ d with s := handOver d.s, cli := d.cli ++ [{ isConn := false, open_ := true }] }, s!"c{c}")
  | ["send", c, n, _frag] =>
    match c.toNat?, n.toNat? with
    | some c, some n =>
      match d.cli[c]? with
      | some k =>
        if !k.open_ || !d.started then (d, "bad-op") else
        if !(d.s.ctx c).fdOpen then (d, "short") else     -- the server side is closed: EPIPE
        let bytes := (List.range n).map fun i => pat c (k.off + i)
        ({ d with s := send d.s c bytes, cli := setCli d.cli c fun k => { k with off := k.off + n } }, "ok")
      | none => (d, "bad-op")
    | _, _ => (d, "bad-op")
  | ["pclose", c] =>
    match c.toNat? with
    | some c =>
      match d.cli[c]? with
      | some k =>
        if !k.open_ || !d.started || c = 0 then (d, "bad-op") else
        ({ d with s := peerClose d.s c, cli := setCli d.cli c fun k => { k with open_ := false } }, "ok")
      | none => (d, "bad-op")
    | none => (d, "bad-op")
  | ["shut", c] =>
    match c.toNat? with
    | some c =>
      if !d.started || c = 0 || !canTouch d c then (d, "bad-op") else
      match userShutdown d.s c with
      | .ok s => ({ d with s := s, cli := setCli d.cli c fun k => { k with shut := true } }, "ok")
      | .error e => (d, errStr e)
    | none => (d, "bad-op")
  | ["retain", c] =>
    match c.toNat? with
    | some c =>
      if !d.started || !canTouch d c then (d, "bad-op") else
      match retain d.s c with
      | .ok s => ({ d with s := s }, "ok")
      | .error e => (d, errStr e)
    | none => (d, "bad-op")
  | ["wrel", c] =>
    match c.toNat? with
    | some c =>
      if !d.started || !(c < d.s.n) || (d.s.ctx c).held = 0 then (d, "bad-op") else
      match workerRelease d.s c with
      | .ok s => ({ d with s := s }, "ok")
      | .error e => (d, errStr e)
    | none => (d, "bad-op")
  | ["park"] =>
    if !d.started || d.s.exited || d.parked then (d, "bad-op") else ({ d with parked := true }, "ok")
  | ["unpark"] =>
    if !d.started || d.s.exited || !d.parked then (d, "bad-op") else ({ d with parked := false }, "ok")
  | ["sync"] =>
    if !d.started then (d, "bad-op") else
    match quiesceD (d.s.n + d.s.backlog.length + 8) d d.s with
    | .ok (d, s) =>
      let cur := snaps s d.post
      ({ d with s := s, prev := cur }, diffLine d.prev cur)
    | .error e => (d, errStr e)
  | ["incb", cb, id, act, t] =>
    match id.toNat?, t.toNat? with
    | some id, some t =>
      if !d.started || !(cb = "msg" || cb = "close") || !(act = "wrel" || act = "retain") || id = 0 || id ≥ 256 || t ≥ 256
      then (d, "bad-op")
      else ({ d with hooks := d.hooks ++ [(cb, id, act, t)] }, "ok")
    | _, _ => (d, "bad-op")
  | ["exit"] =>
    if !d.started || d.s.exited then (d, "bad-op") else
    -- loop parked inside cb_wake: the queue was drained before the park, what was handed
    -- over since stays queued for on_exit. loop running: the wake-up that carries the exit
    -- request runs on_wake first.
    let acts := if d.parked then [Act.exit] else [Act.wake, Act.exit]
    match run d.s acts with
    | .ok s => ({ d with s := s, parked := false }, "ok")
    | .error e => (d, errStr e)
  | ["end"] => if !d.started then (d, "bad-op") else (d, endLines d)
  | _ => (d, "bad-op")

/-! ## pipe (concurrent) -/
open MgModel.Conc

structure PD where
  conf  : Option Pipe.Conf := none
  sched : List Tok := []
  toks  : List String := []

structure Top where
  d : DS := {}
  p : PD := {}

def natList (l : List String) : Option (List Nat) := l.mapM String.toNat?

/-- split a token list at every ";" -/
def splitSemi (l : List String) : List (List String) :=
  let rec go : List String → List String → List (List String)
    | [], cur => [cur.reverse]
    | t :: ts, cur => if t = ";" then cur.reverse :: go ts [] else go ts (t :: cur)
  go l []

def runPipe (p : PD) : String :=
  match p.conf with
  | none => "bad-op"
  | some cf =>
    let (s, evs, ok) := runSched Pipe.step (Pipe.mkInit cf) p.sched
    let steps := p.sched.length
    let status := if !ok then "replay-diverged" else if Pipe.allDone s then "ok"
                  else if !Pipe.anyEnabled s then "deadlock" else "step-limit"
    "\n".intercalate ([s!"schedule {" ".intercalate p.toks}"] ++ evs ++
      [s!"end {status} steps={steps}", Pipe.outcome s])

def stepLine (t : Top) : List String → Top × String
  | "conf" :: "pipe" :: cap :: rest =>
    -- conf pipe <cap> ; <wchunks…> ; <rchunks…> ; <msgs of writer 0…> ; <msgs of writer 1…> …
    match cap.toNat?, (splitSemi rest).mapM natList with
    | some cap, some (_ :: wch :: rch :: progs) =>
      ({ t with p := { conf := some { cap := cap, wchunks := wch, rchunks := rch, progs := progs } } }, "ok")
    | _, _ => (t, "bad-op")
  | "sched" :: "replay" :: toks =>
    match parseSchedule toks with
    | some s => ({ t with p := { t.p with sched := s, toks := toks } }, "ok")
    | none => (t, "bad-op")
  | ["run"] => (t, runPipe t.p)
  | l => let (d, o) := stepSeq t.d l; ({ t with d := d }, o)

def main : IO Unit := MgModel.Driver.main ({} : Top) stepLine
