import MgModel.Common.Driver
import MgModel.C12.Ciphers
import MgModel.C12.Parity
open MgModel MgModel.C12 MgModel.Driver

/-!
Line protocol (harness/c12/seq_crypt.c speaks the same):

    setkey <alg> <mode> <op> <hexkey>   alg = aes<bits> | des | tdes     -> ok | err <e>
    state <hexiv> <off> <hexsb>         caller-held iv/nonce, offset, stream_block -> ok
    crypt <fn> <hexin | @>              fn = ecb|cbc|cfb|ofb|ctr; @ = output of the previous
                                        session                          -> ok <hexout> | err <e>
    dump                                                                 -> <hexiv> <off> <hexsb>
    null <fn> <param>                   call with that pointer NULL      -> err <e>
    parity <b>                          b = 0..255: set_odd set_even check_odd check_even
                                        (crypt/parity.c)                 -> ok <so> <se> <co> <ce>

A *session* starts at `state`; while it started at offset 0 and every call succeeded the
driver also prints the specification's answer (SP 800-38A over the FIPS block functions,
computed block-wise over the whole session input, independent of the chunking).
-/

structure St where
  cx    : Option Cx := none
  E     : Bytes → Bytes := id      -- FIPS forward cipher under the key (specification side)
  D     : Bytes → Bytes := id      -- FIPS inverse cipher
  iv    : Bytes := []
  off   : Nat := 0
  sb    : Bytes := []
  iv0   : Bytes := []              -- session start
  acc   : Bytes := []              -- session input so far
  out   : Bytes := []              -- session output so far
  prev  : Bytes := []              -- output of the previous session
  specOk : Bool := false

def errName : Err → String
  | .nullParam => "err null"
  | .invalidParam => "err invalid"
  | .keySize => "err keysize"
  | .nullDeref => "err CRASH-null-deref"
  | .oob => "err CRASH-oob"

def fnOf : String → Option Fn
  | "ecb" => some .ecb | "cbc" => some .cbc | "cfb" => some .cfb
  | "ofb" => some .ofb | "ctr" => some .ctr | _ => none

def paramOf : String → Option Param
  | "ctx" => some .ctx | "input" => some .input | "iv" => some .iv
  | "off" => some .off | "sb" => some .sb | "output" => some .output | _ => none

def setKey (alg : String) (mode op : Int) (key : Bytes) : Except Err (Cx × (Bytes → Bytes) × (Bytes → Bytes)) :=
  if alg = "des" then do
    let cx ← desSetKey op mode key
    return (cx, Des.encryptBlock key, Des.decryptBlock key)
  else if alg = "tdes" then do
    let k1 := key.take 8
    let k2 := (key.drop 8).take 8
    let k3 := key.drop 16
    let cx ← tdesSetKey op mode k1 k2 k3
    return (cx, Des.tdesEncryptBlock k1 k2 k3, Des.tdesDecryptBlock k1 k2 k3)
  else
    match (alg.drop 3).toInt? with
    | some bits => do
      let cx ← aesSetKey op mode bits key
      let k := key.take (bits.toNat / 8)
      let rks := Aes.keyExpansion k
      return (cx, Aes.cipher rks, Aes.invCipher rks)
    | none => .error .invalidParam

/-- the specification's output for this call, given the whole session -/
def specOut (st : St) (cx : Cx) (fn : Fn) (input : Bytes) : Bytes :=
  let whole := st.acc ++ input
  let blocks := chunks cx.bs whole
  let all : List Bytes :=
    match fn, cx.dir with
    | .ecb, .enc => Spec.ecb st.E blocks
    | .ecb, .dec => Spec.ecb st.D blocks
    | .cbc, .enc => Spec.cbcEnc st.E st.iv0 blocks
    | .cbc, .dec => Spec.cbcDec st.D st.iv0 blocks
    | .cfb, .enc => Spec.cfbEnc st.E st.iv0 blocks
    | .cfb, .dec => Spec.cfbDec st.E st.iv0 blocks
    | .ofb, _ => Spec.ofb st.E st.iv0 blocks
    | .ctr, _ => Spec.ctr st.E st.iv0 blocks
  (all.flatten.drop st.acc.length).take input.length

def stepLine (st : St) : List String → St × String
  | ["setkey", alg, mode, op, key] =>
    match mode.toInt?, op.toInt?, bytesOfHex key with
    | some mode, some op, some key =>
      match setKey alg mode op key with
      | .ok (cx, E, D) =>
        ({ st with cx := some cx, E := E, D := D, acc := [], out := [], specOk := false,
                   prev := if st.out.isEmpty then st.prev else st.out }, "ok")
      | .error e => ({ st with cx := none, prev := if st.out.isEmpty then st.prev else st.out, out := [] }, errName e)
    | _, _, _ => (st, "bad-op")
  | ["state", iv, off, sb] =>
    match st.cx, bytesOfHex iv, off.toNat?, bytesOfHex sb with
    | some cx, some iv, some off, some sb =>
      if iv.length ≠ cx.bs ∨ sb.length ≠ cx.bs then (st, "bad-op") else
      ({ st with iv := iv, off := off, sb := sb, iv0 := iv, acc := [], out := [],
                 prev := if st.out.isEmpty then st.prev else st.out, specOk := off == 0 }, "ok")
    | _, _, _, _ => (st, "bad-op")
  | ["crypt", fn, inp] =>
    match st.cx, fnOf fn, (if inp = "@" then some st.prev else bytesOfHex inp) with
    | some cx, some fn, some input =>
      let res : Except Err (Bytes × Bytes × Nat × Bytes) :=
        match fn with
        | .ecb => (ecb cx input).map fun o => (o, st.iv, st.off, st.sb)
        | .cbc => (cbc cx st.iv input).map fun (o, iv) => (o, iv, st.off, st.sb)
        | .cfb => (cfb cx ⟨st.iv, st.off⟩ input).map fun (o, s) => (o, s.iv, s.off, st.sb)
        | .ofb => (ofb cx ⟨st.iv, st.off⟩ input).map fun (o, s) => (o, s.iv, s.off, st.sb)
        | .ctr => (ctr cx ⟨st.iv, st.off, st.sb⟩ input).map fun (o, s) => (o, s.nonce, s.off, s.sb)
      match res with
      | .ok (o, iv, off, sb) =>
        let line := "ok " ++ hexOfBytes o
        let line := if st.specOk then line ++ " | ok " ++ hexOfBytes (specOut st cx fn input) else line
        ({ st with iv := iv, off := off, sb := sb, acc := st.acc ++ input, out := st.out ++ o }, line)
      | .error e =>
        -- rejected calls leave all caller state untouched; the property says: rejected
        (st, errName e ++ " | " ++ errName e)
    | _, _, _ => (st, "bad-op")
  | ["dump"] =>
    match st.cx with
    | some _ => (st, s!"{hexOfBytes st.iv} {st.off} {hexOfBytes st.sb}")
    | none => (st, s!"- {st.off} -")
  | ["null", fn, p] =>
    match st.cx, fnOf fn, paramOf p with
    | some cx, some fn, some p =>
      let call : Call := { cx.call fn cx.bs 0 with isNull := fun q => q == p }
      match runChecks call (checksOf fn) with
      | .ok () => (st, "ok")
      | .error .nullDeref => (st, errName .nullDeref ++ " | err null")
      | .error e => (st, errName e ++ " | " ++ errName e)
    | _, _, _ => (st, "bad-op")
  | ["parity", b] =>
    match b.toNat? with
    | some v =>
      if v > 255 then (st, "bad-op") else
      match Parity.setOdd v, Parity.setEven v, Parity.checkOdd v, Parity.checkEven v with
      | some so, some se, some co, some ce => (st, s!"ok {so} {se} {co} {ce}")
      | _, _, _, _ => (st, errName .oob)
    | none => (st, "bad-op")
  | _ => (st, "bad-op")

def main : IO Unit := MgModel.Driver.main ({} : St) stepLine
