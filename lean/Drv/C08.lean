import MgModel.Common.Conc
import MgModel.Common.Driver
import MgModel.C08.Ring
/-! Driver for the C08 model: same line protocol as harness/c08/conc_shmring.c;
schedules are always replayed (`sched replay ...`). -/
open MgModel MgModel.Conc MgModel.C08

structure Top where
  conf     : Bool := false
  nbytes   : Nat := 0
  useLock  : Bool := false
  progs    : List (List Op) := []
  kill     : Option (Nat × Nat) := none
  maxsteps : Nat := 4000
  sched    : List Tok := []
  toks     : List String := []

def parseOp (s : String) : Option Op :=
  if s = "f" then some .fetch
  else
    let rest := (s.drop 1).toString
    if rest.isEmpty then none else
    match rest.toNat? with
    | none => none
    | some n =>
      if n > 4294967295 then none
      else if s.startsWith "a" then some (.alloc n true)
      else if s.startsWith "A" then some (.alloc n false)
      else none

def runIt (st : Top) : List String :=
  let (ncl, data, total) := geometry st.nbytes
  let (s0, ev0) := mkInit ncl st.useLock st.progs
  let (s, evs, ok) := runSched step s0 st.sched
  let taken (t : Nat) : Nat := (st.sched.filter fun k => k.tid == t).length
  let killed (t : Nat) : Bool := match st.kill with
    | some (kt, k) => kt == t && taken t ≥ k
    | none => false
  let allDone := (List.range s.nthr).all fun t => s.finished t || killed t
  let status := if !ok then "replay-diverged" else if allDone then "ok" else "step-limit"
  let n := st.sched.length
  let steps := if status = "step-limit" ∧ n ≥ st.maxsteps then st.maxsteps + 1 else n
  [s!"schedule {" ".intercalate st.toks}"] ++ ev0 ++ evs ++
  [s!"end {status} steps={steps}",
   s!"geometry n_cacheline={ncl} n_bytes={data} total_bytes={total}",
   outcome s, ghostLine s]

def stepLine (st : Top) : List String → Top × String
  | ["conf", nb, lk] =>
    match nb.toNat?, lk.toNat? with
    | some nb, some lk =>
      if nb = 0 ∨ nb > 16777216 then (st, "bad-op")
      else ({ conf := true, nbytes := nb, useLock := lk != 0 }, "ok")
    | _, _ => (st, "bad-op")
  | "thr" :: toks =>
    if !st.conf ∨ st.progs.length ≥ 8 ∨ toks.length > 64 then (st, "bad-op") else
    match toks.mapM parseOp with
    | some p => ({ st with progs := st.progs ++ [p] }, "ok")
    | none => (st, "bad-op")
  | ["kill", t, k] =>
    match t.toNat?, k.toNat? with
    | some t, some k => ({ st with kill := some (t, k) }, "ok")
    | _, _ => (st, "bad-op")
  | ["maxsteps", n] =>
    match n.toNat? with
    | some n => ({ st with maxsteps := n }, "ok")
    | none => (st, "bad-op")
  | "sched" :: "replay" :: toks =>
    match parseSchedule toks with
    | some s => ({ st with sched := s, toks := toks }, "ok")
    | none => (st, "bad-op")
  | ["run"] => if st.conf ∧ st.progs ≠ [] then (st, "\n".intercalate (runIt st)) else (st, "bad-op")
  | _ => (st, "bad-op")

def main : IO Unit := MgModel.Driver.main ({} : Top) stepLine
