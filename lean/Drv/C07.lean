import MgModel.Common.Driver
import MgModel.C07.BytesBuffer
open MgModel MgModel.C07 MgModel.Driver

/-!
Driver for C07. Line protocol (the harness harness/c07/seq_bytesbuf.c answers the
same lines from the real code):

    init <c>        -> ok | fail
    w <n>           write n fresh stream bytes            -> <0|1> <readable>
    r <n>           read n                                 -> <0|1> [<hex>] <readable>
    f <n>           fetch n                                -> <0|1> [<hex>] <readable>
    wz <n> <k>      writer_fc(n), fill, writer_move_n(k)   -> <0|1> <readable>
    wd <n>          writer_fc(n), fill, writer_move(n)     -> <0|1> <readable>
    rz <n> <k>      reader_fc(n), look, reader_move(k)     -> <0|1|s> [<hex>] <readable>
    cl              clear                                  -> 1 0
    st              w r t writable contiguous_readable readable last-fc-offset  (model only)
    bd              the block in hex                                           (model only)
    wq <n> / rq <n> writer_fc / reader_fc alone: offset or none                (model only)

Stream bytes are a running counter (`g mod 251`), the unclaimed tail of a zero-copy
region is filled with 0xff, so any loss, duplication or reordering changes the hex.
The text after " | " is the answer of the queue specification.
-/

structure St where
  bb   : Option BB := none
  q    : List Byte := []     -- specification state
  g    : Nat := 0            -- next stream byte
  last : Int := -1           -- offset returned by the last zero-copy find (-1: none/NULL)

def hexDigit (n : Nat) : Char :=
  if n < 10 then Char.ofNat (48 + n) else Char.ofNat (87 + n)

def hex (l : List Byte) : String :=
  if l.isEmpty then "-"
  else String.ofList (l.foldr (fun b acc => hexDigit (b.toNat / 16) :: hexDigit (b.toNat % 16) :: acc) [])

def stream (g n : Nat) : List Byte :=
  (List.range n).map fun i => UInt8.ofNat ((g + i) % 251)

def showRes (r : Res) (rd : Int) (withBytes : Bool) : String :=
  match r with
  | .fail => s!"0 {rd}"
  | .ok d => if withBytes then s!"1 {hex d} {rd}" else s!"1 {rd}"
  | .seen d => s!"s {hex d} {rd}"

/-- run `op` on model and specification; `specOk`: print the spec column -/
def doOp (st : St) (bb : BB) (op : Op) (withBytes : Bool) (specOk : Bool) (adv : Nat)
    (last : Int) : St × String :=
  match step bb op with
  | .error .oob => (st, "err-oob")
  | .error .pre => (st, "pre")
  | .ok (bb', res) =>
    let (q', sres) := specStep st.q res.isOk op
    let g' := if res.isOk then st.g + adv else st.g
    let m := showRes res (readable bb') withBytes
    let line := if specOk then s!"{m} | {showRes sres q'.length withBytes}" else m
    ({ st with bb := some bb', q := q', g := g', last := last }, line)

def intMax : Int := 2147483647

/-- sizes the harness refuses itself (outside the API's contract) -/
def badSize (writer : Bool) (n k : Int) : Bool :=
  n < 0 || n > intMax || k < 0 || k > intMax || (writer && n > 1000000)

def stepLine (st : St) : List String → St × String
  | ["init", c] =>
    match c.toInt? with
    | some c =>
      match init c with
      | some bb => ({ bb := some bb }, "ok")
      | none => ({}, "fail")
    | none => (st, "bad-op")
  | toks =>
    match st.bb with
    | none => (st, "bad-op")
    | some bb =>
      match toks with
      | [op, n] =>
        match n.toInt? with
        | none => (st, "bad-op")
        | some n =>
          if op = "w" then
            if badSize true n 0 then (st, "pre") else
            doOp st bb (.write (stream st.g n.toNat)) false true n.toNat st.last
          else if op = "r" then
            if badSize false n 0 then (st, "pre") else doOp st bb (.read n) true true 0 st.last
          else if op = "f" then
            if badSize false n 0 then (st, "pre") else doOp st bb (.fetch n) true true 0 st.last
          else if op = "wd" then
            if badSize true n 0 then (st, "pre") else
            let last := match writerFc bb n with | some o => o | none => -1
            doOp st bb (.wd (stream st.g n.toNat)) false true n.toNat last
          else if op = "wq" then
            if badSize false n 0 then (st, "pre") else
            (st, match writerFc bb n with | some o => toString o | none => "none")
          else if op = "rq" then
            if badSize false n 0 then (st, "pre") else
            (st, match readerFc bb n with | some o => toString o | none => "none")
          else (st, "bad-op")
      | [op, n, k] =>
        match n.toInt?, k.toInt? with
        | some n, some k =>
          if op = "wz" then
            if badSize true n k || decide (k > n) then (st, "pre") else
            let data := stream st.g k.toNat ++ List.replicate (n.toNat - k.toNat) 255
            let last := match writerFc bb n with | some o => o | none => -1
            doOp st bb (.wz data k) false true k.toNat last
          else if op = "rz" then
            if badSize false n k then (st, "pre") else
            let last := match readerFc bb n with | some o => o | none => -1
            doOp st bb (.rz n k) true (decide (k ≤ n)) 0 last
          else (st, "bad-op")
        | _, _ => (st, "bad-op")
      | ["cl"] => doOp st bb .clear false true 0 st.last
      | ["st"] =>
        (st, s!"{bb.w} {bb.r} {bb.t} {writable bb} {contiguousReadable bb} {readable bb} {st.last}")
      | ["bd"] => (st, hex bb.buf)
      | _ => (st, "bad-op")

def main : IO Unit := MgModel.Driver.main ({} : St) stepLine
