import MgModel.Common.Driver
import MgModel.C06.MemoryPool
open MgModel MgModel.C06 MgModel.Driver

/-! Line-protocol driver for the C06 model (see harness/c06/seq_mempool.c for the
implementation side; both print exactly the same lines).

    variant orig|fixed     which source variant the model mirrors (default fixed)
    memlimit N             malloc(n) fails for n > N (default 2^26) — scripted allocator
    init CAP BS            -> ok | fail
    alloc                  -> b S I | null
    free K                 free the K-th oldest live block -> ok | bad-op
    dfree S I              free block (S,I) whether live or not (malformed stream) -> ok | bad-op
    ensure N               -> 1 | 0
    flag F | maxdelta D    -> ok
    cnt                    -> USED CAP          (spec column: |live| and total blocks)
    dump                   -> cursors, counters, data buffers, the whole pointer ring
-/

structure St where
  pool   : Option Pool := none
  ref    : Option Ref := none      -- reference state (none: before init / after a rejected step)
  live   : List BlockId := []      -- driver's own list of live blocks (allocation order)
  hyp    : Bool := true            -- every free so far was of a live block
  limit  : Nat := 67108864
  fixE   : Bool := true
  fixB   : Bool := true

def St.env (st : St) : Env :=
  { mal := fun n => decide (n ≤ st.limit), fixEmpty := st.fixE, fixBytes := st.fixB }
def St.mal (st : St) : Nat → Bool := fun n => decide (n ≤ st.limit)

def showB (b : BlockId) : String := s!"{b.1}.{b.2}"

def errS : Err → String
  | .oob => "err-oob"
  | .underflow => "err-underflow"
  | .assert => "err-assert"

/-- run one model operation and advance the reference state with the observed result -/
def doOp (st : St) (p : Pool) (op : Op) (live' : Res → List BlockId) (hyp : Bool)
    (pr : Res → String) : St × String :=
  match step st.env p op with
  | .error e => (st, errS e)
  | .ok (q, res) =>
    let ref' := match st.ref with
      | some r => Ref.step st.mal r op res
      | none => none
    ({ st with pool := some q, ref := ref', live := live' res, hyp := st.hyp && hyp }, pr res)

def stepLine (st : St) : List String → St × String
  | ["variant", v] =>
    if v = "orig" then ({ st with fixE := false, fixB := false }, "ok")
    else if v = "fixed" then ({ st with fixE := true, fixB := true }, "ok")
    else (st, "bad-op")
  | ["memlimit", n] =>
    match n.toNat? with
    | some n => ({ st with limit := n }, "ok")
    | none => (st, "bad-op")
  | ["init", c, b] =>
    match c.toNat?, b.toNat? with
    | some c, some b =>
      if c ≥ U32 ∨ b ≥ U32 then (st, "bad-op") else
      match init st.env c b with
      | some p => ({ st with pool := some p, ref := Ref.init st.mal c b, live := [], hyp := true }, "ok")
      | none => ({ st with pool := none, ref := none, live := [], hyp := true }, "fail")
    | _, _ => (st, "bad-op")
  | ["alloc"] =>
    match st.pool with
    | none => (st, "bad-op")
    | some p =>
      doOp st p .alloc
        (fun r => match r with | .blk (some b) => st.live ++ [b] | _ => st.live) true
        (fun r => match r with | .blk (some b) => s!"b {b.1} {b.2}" | _ => "null")
  | ["free", k] =>
    match st.pool, k.toNat? with
    | some p, some k =>
      match st.live[k]? with
      | none => (st, "bad-op")
      | some b => doOp st p (.free b) (fun _ => st.live.eraseIdx k) true (fun _ => "ok")
    | _, _ => (st, "bad-op")
  | ["dfree", s, i] =>
    match st.pool, s.toNat?, i.toNat? with
    | some p, some s, some i =>
      if !validB p.slabs (s, i) then (st, "bad-op")
      else doOp st p (.free (s, i)) (fun _ => st.live.erase (s, i)) (st.live.contains (s, i))
             (fun _ => "ok")
    | _, _, _ => (st, "bad-op")
  | ["ensure", n] =>
    match st.pool, n.toNat? with
    | some p, some n =>
      if n ≥ U32 then (st, "bad-op") else
      doOp st p (.ensure n) (fun _ => st.live) true
        (fun r => match r with | .bool true => "1" | _ => "0")
    | _, _ => (st, "bad-op")
  | ["flag", f] =>
    match st.pool, f.toNat? with
    | some p, some f =>
      if f ≥ U32 then (st, "bad-op") else
      doOp st p (.setFlag f) (fun _ => st.live) true (fun _ => "ok")
    | _, _ => (st, "bad-op")
  | ["maxdelta", d] =>
    match st.pool, d.toNat? with
    | some p, some d =>
      if d ≥ U32 then (st, "bad-op") else
      doOp st p (.setMaxDelta d) (fun _ => st.live) true (fun _ => "ok")
    | _, _ => (st, "bad-op")
  | ["cnt"] =>
    match st.pool with
    | none => (st, "bad-op")
    | some p =>
      let m := s!"{p.used} {p.capacity}"
      if st.hyp then
        match st.ref with
        | some r => (st, s!"{m} | {r.used} {r.cap}")
        | none => (st, s!"{m} | spec-rejects-the-model")
      else (st, m)
  | ["dump"] =>
    match st.pool with
    | none => (st, "bad-op")
    | some p =>
      let slabs := ",".intercalate ((p.slabs.zip p.slabBytes).map fun (n, b) => s!"{n}:{b}")
      let ring := " ".intercalate (p.ptrBuf.map showB)
      (st, s!"a={p.allocIdx} f={p.freeIdx} u={p.used} c={p.capacity} bs={p.blockSize} fl={p.flag} md={p.maxDelta} slabs={slabs} ring={ring}")
  | _ => (st, "bad-op")

def main : IO Unit := MgModel.Driver.main ({} : St) stepLine
