import MgModel.Common.Driver
import MgModel.C19.FlowCtl
open MgModel MgModel.C19 MgModel.Driver

structure St where
  fc   : Option FC := none
  hist : List Int := []      -- specification state: recorded admissions
  last : Int := 0            -- latest time seen (lower bound for the next one)
  mono : Bool := true        -- timeline so far non-decreasing and not before the virtual
                             -- admissions: the hypothesis of the theorems; the spec column
                             -- is only printed while it holds

def unitOf (s : String) : Option Int :=
  if s = "ns" then some 1000000000 else s.toInt?

def stepLine (st : St) : List String → St × String
  | ["init", u, t, n, f] =>
    match unitOf u, t.toInt?, n.toNat?, f.toInt? with
    | some u, some t, some n, some f =>
      match init u t n f with
      | some fc => ({ fc := some fc, hist := List.replicate n (-f * u), last := -f * u }, "ok")
      | none => ({}, "fail")
    | _, _, _, _ => (st, "bad-op")
  | [op, x] =>
    match st.fc, x.toInt? with
    | some fc, some x =>
      let mono := st.mono && decide (st.last ≤ x)
      let withSpec (m v : String) : String := if mono then s!"{m} | {v}" else m
      let mk (o : Op) : St × String :=
        match step fc o with
        | .ok (fc', b) =>
          let (h', v) := specStep fc.t fc.n st.hist o
          ({ fc := some fc', hist := h', last := x, mono := mono },
            withSpec (showBool b) (showBool v))
        | .error _ => (st, "err-oob")
      if op = "cau" then mk (.cau x)
      else if op = "cfu" then mk (.cfu x)
      else if op = "check" then
        match check fc x with
        | .ok b => (st, withSpec (showBool b) (showBool (specVerdict fc.t fc.n st.hist x)))
        | .error _ => (st, "err-oob")
      else if op = "update" then
        match update fc x with
        | .ok fc' => ({ fc := some fc', hist := st.hist ++ [x], last := x, mono := mono }, "ok")
        | .error _ => (st, "err-oob")
      else (st, "bad-op")
    | _, _ => (st, "bad-op")
  | ["dump"] =>
    match st.fc with
    | some fc => (st, s!"{fc.cursor} {fc.t} : {showInts fc.arr}")
    | none => (st, "bad-op")
  | _ => (st, "bad-op")

def main : IO Unit := MgModel.Driver.main ({} : St) stepLine
