import MgModel.Common.Conc
import MgModel.Common.Driver
import MgModel.C01.Channel
import MgModel.C01.ABQ
import MgModel.C01.DoubleBuffer
/-! Driver for the C01/C03 concurrent models: same line protocol as
harness/c01/conc_chan.c, schedules are always replayed (`sched replay ...`). -/
open MgModel MgModel.Conc

inductive Conf where
  | none
  | chan (c : C01.Cfg)
  | abq (c : C01.ABQ.Cfg)
  | dbuf (c : C01.DBuf.Cfg)

structure Top where
  conf : Conf := .none
  sched : List Tok := []
  toks : List String := []

def finish {σ : Type} (sched : List String) (r : σ × List String × Bool) (steps : Nat)
    (allDone anyEn : σ → Bool) (stateLines : σ → List String) (outcome : σ → String) : List String :=
  let (s, evs, ok) := r
  let status := if !ok then "replay-diverged" else if allDone s then "ok"
                else if !anyEn s then "deadlock" else "step-limit"
  let st := if status = "deadlock" then stateLines s else []
  [s!"schedule {" ".intercalate sched}"] ++ evs ++ st ++ [s!"end {status} steps={steps}", outcome s]

def runConf (d : Top) : List String :=
  let steps := d.sched.length
  match d.conf with
  | .none => ["bad-op"]
  | .chan c =>
    finish d.toks (runSched C01.step (C01.mkInit c) d.sched) steps
      C01.allDone C01.anyEnabled C01.stateLines C01.outcome
  | .abq c =>
    finish d.toks (runSched C01.ABQ.step (C01.ABQ.mkInit c) d.sched) steps
      C01.ABQ.allDone C01.ABQ.anyEnabled C01.ABQ.stateLines C01.ABQ.outcome
  | .dbuf c =>
    finish d.toks (runSched C01.DBuf.step (C01.DBuf.mkInit c) d.sched) steps
      C01.DBuf.allDone C01.DBuf.anyEnabled C01.DBuf.stateLines C01.DBuf.outcome

def allDigits (s : String) : Bool := !s.isEmpty && s.all Char.isDigit

def parseWl : String → Option C01.WLock
  | "mutex" => some .mutex | "sync" => some .sync | "spin" => some .spin | "single" => some .single
  | _ => none
def parseRm : String → Option C01.RMode
  | "sync" => some .sync | "mutex" => some .mutex | "busy" => some .busy
  | _ => none

def parseNats (l : List String) : Option (List Nat) :=
  if l.all allDigits then some (l.map String.toNat!) else none

def confChan (args : List String) : Option C01.Cfg :=
  match args with
  | wl :: rm :: rest =>
    match parseNats rest with
    | some (req :: tries :: reads :: ns) =>
      match parseWl wl, parseRm rm with
      | some wl, some rm =>
        if ns.length ≥ 1 ∧ ns.length ≤ 7 ∧ req ≥ 1 ∧ req ≤ 64 ∧ ns.sum ≤ 512 ∧ reads ≤ 512 ∧
           (wl = .single → ns.length = 1) then
          some { wl := wl, rm := rm, capLog := C01.log2ceil req, tries := tries, reads := reads, ns := ns }
        else none
      | _, _ => none
    | _ => none
  | _ => none

def confAbq (args : List String) : Option C01.ABQ.Cfg :=
  match parseNats args with
  | some (cap :: p :: c :: rest) =>
    if cap ≥ 1 ∧ cap ≤ 64 ∧ p ≥ 1 ∧ c ≥ 1 ∧ p + c ≤ 8 ∧ rest.length = p + c ∧ (rest.take p).sum ≤ 512 then
      some { cap := cap, ns := rest.take p, ks := rest.drop p }
    else none
  | _ => none

def confDbuf (args : List String) : Option C01.DBuf.Cfg :=
  match parseNats args with
  | some (cap :: nb :: tries :: reads :: ns) =>
    if ns.length ≥ 1 ∧ ns.length ≤ 7 ∧ cap ≥ 1 ∧ cap ≤ 64 ∧ nb ≤ 1 ∧ ns.sum ≤ 512 ∧ reads ≤ 512 then
      some { cap := cap, nonblocking := nb = 1, tries := tries, reads := reads, ns := ns }
    else none
  | _ => none

def stepLine (st : Top) : List String → Top × String
  | "conf" :: "chan" :: args =>
    match confChan args with
    | some c => ({ st with conf := .chan c }, "ok")
    | none => ({ st with conf := .none }, "bad-op")
  | "conf" :: "abq" :: args =>
    match confAbq args with
    | some c => ({ st with conf := .abq c }, "ok")
    | none => ({ st with conf := .none }, "bad-op")
  | "conf" :: "dbuf" :: args =>
    match confDbuf args with
    | some c => ({ st with conf := .dbuf c }, "ok")
    | none => ({ st with conf := .none }, "bad-op")
  | "conf" :: _ => ({ st with conf := .none }, "bad-op")
  | ["fine", _] => (st, "ok")
  | "sched" :: "replay" :: toks =>
    match parseSchedule toks with
    | some s => ({ st with sched := s, toks := toks }, "ok")
    | none => (st, "bad-op")
  | ["spurious", _, _] => (st, "ok")
  | ["spurious", _, _, _] => (st, "ok")
  | ["run"] =>
    match st.conf with
    | .none => (st, "bad-op")
    | _ => (st, "\n".intercalate (runConf st))
  | _ => (st, "bad-op")

def main : IO Unit := MgModel.Driver.main ({} : Top) stepLine
