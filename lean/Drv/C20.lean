import MgModel.Common.Driver
import MgModel.C20.Bits
import MgModel.C20.Hex
import MgModel.C20.Str
import MgModel.C20.Num
import MgModel.C20.Path
import MgModel.C20.Float
open MgModel MgModel.C20 MgModel.Driver

/-! Driver for C20. Strings travel as hex tokens (`-` = empty string). Every op prints
`<model answer>` or `<model answer> | <spec answer>`. `mode orig` switches to the models of
the pinned (unfixed) tree — used only to cross-check the defect models by hand. -/

structure St where
  fx  : Bool := true
  buf : Option Buf := none      -- buffer after the last path operation
  bufOk : Bool := false         -- ... which reported success

def hexDigitVal (c : Char) : Option Nat :=
  if '0' ≤ c ∧ c ≤ '9' then some (c.toNat - 48)
  else if 'a' ≤ c ∧ c ≤ 'f' then some (c.toNat - 87)
  else if 'A' ≤ c ∧ c ≤ 'F' then some (c.toNat - 55)
  else none

def unhexAux : List Char → Option (List Nat)
  | [] => some []
  | h :: l :: rest =>
    match hexDigitVal h, hexDigitVal l, unhexAux rest with
    | some a, some b, some r => some ((16 * a + b) :: r)
    | _, _, _ => none
  | _ => none

/-- decode a hex token into a C string (cut at the first NUL, as the harness's strdup does) -/
def unhex (s : String) : Option (List Nat) :=
  if s = "-" then some [] else unhexAux s.toList

def unhexC (s : String) : Option CStr := (unhex s).map (fun l => l.takeWhile (· ≠ 0))

def hexChar (d : Nat) : Char := Char.ofNat (if d < 10 then 48 + d else 87 + d)

def tohex (l : List Nat) : String :=
  if l = [] then "-" else String.ofList (l.flatMap fun b => [hexChar (b / 16 % 16), hexChar (b % 16)])

def showErr : Err → String
  | .oob => "ERR-oob" | .uninit => "ERR-uninit" | .ub => "ERR-ub" | .hang => "ERR-hang"

def withSpec (m sp : String) : String := s!"{m} | {sp}"

def showOptInt : Option Int → String
  | none => "0"
  | some v => s!"1 {v}"

def showOptNat : Option Nat → String
  | none => "0"
  | some v => s!"1 {v}"

def showPathRes : Bool × Buf → String
  | (false, _) => "err"
  | (true, b) => match b.cstr with
    | some s => s!"ok {tohex s}"
    | none => "ok NOTERM"

def showPathSpec : Option CStr → String
  | none => "err"
  | some s => s!"ok {tohex s}"

def dumpBuf (b : Buf) : String :=
  if b.cells = [] then "-" else tohex (b.cells.map fun c => c.getD 63)

def pathOp (st : St) (r : Except Err (Bool × Buf)) (sp : Option CStr) : St × String :=
  match r with
  | .error e => ({ st with buf := none }, withSpec (showErr e) (showPathSpec sp))
  | .ok res => ({ st with buf := some res.2, bufOk := res.1 }, withSpec (showPathRes res) (showPathSpec sp))

/-- the numeral's exact value when the string is one numeral (any magnitude) -/
def exactValue (s : CStr) (base : Nat) : Option Int := numeralValue base (stripBlanks s)

/-- `toi`: the specification is the full range of `int`. `tol`/`toll`: the full range of the type,
except that for a numeral equal to `LONG_MAX`/`LONG_MIN` (the values the library documents as
rejected sentinels) the property demands neither verdict: no spec column there, the model (which
mirrors the rejection) is still compared with the implementation. -/
def signedParser (st : St) (name : String) (s : CStr) (base : Nat) : String :=
  if name = "toi" then
    match (if st.fx then strToi s base else strToiOrig s base) with
    | .error e => showErr e
    | .ok v => withSpec (showOptInt v) (showOptInt (refParse INT_MIN INT_MAX s base))
  else
    match strTol s base with
    | .error e => showErr e
    | .ok v =>
      if exactValue s base = some LONG_MAX ∨ exactValue s base = some LONG_MIN then showOptInt v
      else withSpec (showOptInt v) (showOptInt (refParse LONG_MIN LONG_MAX s base))

/-- `tou`: full range of `unsigned int`. `toul`/`toull`: full range except the sentinel
`ULONG_MAX`, for which no verdict is demanded (no spec column). -/
def unsignedParser (st : St) (name : String) (s : CStr) (base : Nat) : String :=
  if name = "tou" then
    match (if st.fx then strTou s base else strTouOrig s base) with
    | .error e => showErr e
    | .ok v => withSpec (showOptNat v) (showOptInt (refParse 0 (UINT_MAX : Int) s base))
  else
    match (if st.fx then strToul s base else strToulOrig s base) with
    | .error e => showErr e
    | .ok v =>
      if exactValue s base = some (ULONG_MAX : Int) then showOptNat v
      else withSpec (showOptNat v) (showOptInt (refParse 0 (ULONG_MAX : Int) s base))

def stepLine (st : St) : List String → St × String
  | ["mode", m] => ({ st with fx := (m != "orig") }, "ok")
  | ["np2", x] =>
    match x.toNat? with
    | some n =>
      let r := (if st.fx then nextPow2 (BitVec.ofNat 64 n) else nextPow2Orig (BitVec.ofNat 64 n)).toNat
      if 1 ≤ n ∧ n ≤ 2 ^ 63 then (st, withSpec (toString r) (toString (specNextPow2 n)))
      else (st, toString r)
    | none => (st, "bad-op")
  | ["swap16", x] =>
    match x.toNat? with
    | some n => (st, withSpec (toString (swap16 (BitVec.ofNat 16 n)).toNat) (toString (specSwap 2 (n % 2 ^ 16))))
    | none => (st, "bad-op")
  | ["swap32", x] =>
    match x.toNat? with
    | some n => (st, withSpec (toString (swap32 (BitVec.ofNat 32 n)).toNat) (toString (specSwap 4 (n % 2 ^ 32))))
    | none => (st, "bad-op")
  | ["swap64", x] =>
    match x.toNat? with
    | some n => (st, withSpec (toString (swap64 (BitVec.ofNat 64 n)).toNat) (toString (specSwap 8 (n % 2 ^ 64))))
    | none => (st, "bad-op")
  | ["hexenc", bs] =>
    match unhex bs with
    | some l =>
      match hexFromBytes l with
      | some h => (st, withSpec (tohex h) (tohex (refEncode l)))
      | none => (st, "ERR-oob")
    | none => (st, "bad-op")
  | ["hexdec", t] =>
    match unhex t with
    | some l =>
      let m := match hexToBytes l with
        | .ok out => s!"0 {tohex out}"
        | .error _ => "-1"
      let sp := match refDecode l with
        | some out => s!"0 {tohex out}"
        | none => "-1"
      (st, withSpec m sp)
    | none => (st, "bad-op")
  | ["hexrt", bs] =>
    match unhex bs with
    | some l =>
      match hexFromBytes l with
      | some h =>
        let m := match hexToBytes h with
          | .ok out => s!"0 {tohex out}"
          | .error _ => "-1"
        (st, withSpec m s!"0 {tohex l}")
      | none => (st, "ERR-oob")
    | none => (st, "bad-op")
  | ["starts", s, p] =>
    match unhexC s, unhexC p with
    | some s, some p => (st, withSpec (showBool (startswith s p)) (showBool (refStartswith s p)))
    | _, _ => (st, "bad-op")
  | ["ends", s, p] =>
    match unhexC s, unhexC p with
    | some s, some p => (st, withSpec (showBool (endswith s p)) (showBool (refEndswith s p)))
    | _, _ => (st, "bad-op")
  | ["count", s, sub, a, b] =>
    match unhexC s, unhexC sub, a.toInt?, b.toInt? with
    | some s, some sub, some a, some b =>
      if st.fx then (st, withSpec (toString (strCount s sub a b)) (toString (refCount s sub a b)))
      else match strCountOrig s sub a b with
        | .ok v => (st, withSpec (toString v) (toString (refCount s sub a b)))
        | .error e => (st, withSpec (showErr e) (toString (refCount s sub a b)))
    | _, _, _, _ => (st, "bad-op")
  | ["find", s, sub, a, b] =>
    match unhexC s, unhexC sub, a.toInt?, b.toInt? with
    | some s, some sub, some a, some b =>
      (st, withSpec (toString (strFind s sub a b)) (toString (refFind s sub a b)))
    | _, _, _, _ => (st, "bad-op")
  | ["lstrip", s] =>
    match unhexC s with
    | some s => (st, withSpec (toString (lstripIdx s)) (toString (refLstrip s)))
    | none => (st, "bad-op")
  | ["rstrip", s] =>
    match unhexC s with
    | some s =>
      if st.fx then (st, withSpec (toString (rstripIdx s)) (toString (refRstrip s)))
      else match rstripIdxOrig s with
        | .ok v => (st, withSpec (toString v) (toString (refRstrip s)))
        | .error e => (st, withSpec (showErr e) (toString (refRstrip s)))
    | none => (st, "bad-op")
  | ["strtol", s, base] =>
    match unhexC s, base.toNat? with
    | some s, some base =>
      if !validBase base then (st, "ERR-ub") else
      let sc := strtoScan s base
      let (v, er) := strtolVal 64 sc
      (st, s!"{v} {sc.consumed} {showBool er}")
    | _, _ => (st, "bad-op")
  | ["strtoul", s, base] =>
    match unhexC s, base.toNat? with
    | some s, some base =>
      if !validBase base then (st, "ERR-ub") else
      let sc := strtoScan s base
      let (v, er) := strtoulVal 64 sc
      (st, s!"{v} {sc.consumed} {showBool er}")
    | _, _ => (st, "bad-op")
  | [op, s, base] =>
    match unhexC s, base.toNat? with
    | some s, some base =>
      if op = "toi" ∨ op = "tol" ∨ op = "toll" then (st, signedParser st op s base)
      else if op = "tou" ∨ op = "toul" ∨ op = "toull" then (st, unsignedParser st op s base)
      else (st, "bad-op")
    | _, _ => (st, "bad-op")
  | ["isabs", p] =>
    match unhexC p with
    | some p => (st, showBool (isAbs p))
    | none => (st, "bad-op")
  | ["buf"] =>
    match st.buf with
    | some b => (st, if st.bufOk then dumpBuf b else "errbuf")
    | none => (st, "none")
  | _ => (st, "bad-op")

def stepPath (st : St) : List String → Option (St × String)
  | ["join", p1, p2, size] =>
    match unhexC p1, unhexC p2, size.toNat? with
    | some p1, some p2, some size =>
      some (pathOp st (pathJoin st.fx p1 p2 (Buf.fresh size)) (specJoin p1 p2 size))
    | _, _, _ => none
  | ["basename", p, size] =>
    match unhexC p, size.toNat? with
    | some p, some size => some (pathOp st (pathBasename st.fx p (Buf.fresh size)) (specBasename p size))
    | _, _ => none
  | ["dirname", p, size] =>
    match unhexC p, size.toNat? with
    | some p, some size => some (pathOp st (pathDirname p (Buf.fresh size)) (specDirname p size))
    | _, _ => none
  | ["normpath", p, size] =>
    match unhexC p, size.toNat? with
    | some p, some size => some (pathOp st (pathNormpath st.fx p (Buf.fresh size)) (specNormpath p size))
    | _, _ => none
  | ["abspath", cwd, p, size] =>
    match unhexC cwd, unhexC p, size.toNat? with
    | some cwd, some p, some size =>
      let cwd := if cwd.length + 1 > MAX_PATH then none else some cwd
      some (pathOp st (pathAbspath st.fx cwd p (Buf.fresh size)) (specAbspath cwd p size))
    | _, _, _ => none
  | _ => none

def showFRes : FRes → String
  | .bits neg e m => s!"{showBool neg} {e} {m}"
  | .inf neg _ => s!"{showBool neg} inf"
  | .nan => "nan"

def showOptFRes : Option FRes → String
  | none => "0"
  | some r => s!"1 {showFRes r}"

def fmtOf (op : String) : Option (Fmt × Bool) :=
  if op = "tof" ∨ op = "strtof" then some (fmt32, true)
  else if op = "tod" ∨ op = "strtod" then some (fmt64, false)
  else if op = "told" ∨ op = "strtold" then some (fmt80, false)
  else none

def stepFloat (st : St) : List String → Option String
  | [op, s] =>
    match fmtOf op, unhexC s with
    | some (f, isF), some s =>
      if op.startsWith "strto" then
        let sc := strtodScan s
        let r := roundFloat f sc.val
        let er := match r with | .inf _ true => "1" | _ => "0"
        some s!"{sc.consumed} {showFRes r} {er}"
      else
        let m := if st.fx then strToFloat f s else strToFloatOrig isF f s
        some (withSpec (showOptFRes m) (showOptFRes (refParseFloat f s)))
    | _, _ => none
  | _ => none

def stepAll (st : St) (toks : List String) : St × String :=
  match stepPath st toks with
  | some r => r
  | none =>
    match stepFloat st toks with
    | some o => (st, o)
    | none => stepLine st toks

def main : IO Unit := MgModel.Driver.main ({} : St) stepAll
