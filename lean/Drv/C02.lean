import MgModel.Common.Conc
import MgModel.Common.Driver
import MgModel.C02.Ring
/-! Driver for the C02/C03 ring-buffer model: same line protocol as harness/c02/conc_ring.c;
schedules are always replayed (`sched replay ...`). After the outcome line the driver prints
`# spec ...` information lines (ignored by the comparison): the model's own verdict of the
executable specification on the run. -/
open MgModel MgModel.Conc MgModel.C02

structure Top where
  conf  : Option Cfg := none
  sched : List Tok := []
  toks  : List String := []

def runConf (c : Cfg) (sched : List Tok) (toks : List String) : List String :=
  let (s, evs, ok) := runSched (step c) (mkInit c) sched
  let status := if !ok then "replay-diverged" else if allDone c s then "ok"
                else if !anyEnabled c s then "deadlock" else "step-limit"
  let st := if status = "deadlock" then stateLines c s else []
  [s!"schedule {" ".intercalate toks}"] ++ evs ++ st ++
    [s!"end {status} steps={sched.length}", outcome c s,
     s!"# spec ok={specOk c s} hbViol={s.hbViol} oob={s.oob} written={s.written.length} started={s.started}"]

def stepLine (st : Top) : List String → Top × String
  | ["init", capreq, flag] =>
    match capreq.toNat?, flag.toNat? with
    | some cr, some f =>
      match initRing cr f with
      | .ok (cap, w, r) => (st, s!"init ret=0 cap={cap} wmode={wmodeNum w} rmode={rmodeNum r}")
      | .error e => (st, s!"init ret={e}")
    | _, _ => (st, "bad-op")
  | ["conf", capreq, flag, w, r, nw, nr, base, lim] =>
    match capreq.toNat?, flag.toNat?, w.toNat?, r.toNat?, nw.toNat?, nr.toNat?, base.toNat?, lim.toNat? with
    | some cr, some f, some w, some r, some nw, some nr, some base, some lim =>
      if cr < 1 ∨ cr > 64 ∨ w > 4 ∨ r > 4 ∨ nw > 99 ∨ nr > 128 then ({ st with conf := none }, "bad-op") else
      match initRing cr f with
      | .ok (cap, wm, rm) =>
        ({ st with conf := some { cap := cap, wm := wm, rm := rm, nW := w, nR := r, nw := nw, nr := nr,
                                  base := base % 2 ^ 32, lim := lim }, sched := [], toks := [] }, "ok")
      | .error _ => ({ st with conf := none }, "bad-op")
    | _, _, _, _, _, _, _, _ => ({ st with conf := none }, "bad-op")
  | "sched" :: "replay" :: toks =>
    match parseSchedule toks with
    | some s => ({ st with sched := s, toks := toks }, "ok")
    | none => (st, "bad-op")
  | ["spurious-futex", _] => (st, if st.conf.isSome then "ok" else "bad-op")
  | ["run"] =>
    match st.conf with
    | some c => (st, "\n".intercalate (runConf c st.sched st.toks))
    | none => (st, "bad-op")
  | _ => (st, "bad-op")

def main : IO Unit := MgModel.Driver.main ({} : Top) stepLine
