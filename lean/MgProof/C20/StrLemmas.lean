import MgModel.C20.Str
/-!
# C20 — string helpers equal their reference definitions
-/
namespace MgProof.C20
open MgModel.C20

/-! ## startswith / endswith -/

theorem prefixLoop_eq : ∀ (s p : CStr), prefixLoop s p = p.isPrefixOf s
  | _, [] => by simp [prefixLoop]
  | [], _ :: _ => by simp [prefixLoop, List.isPrefixOf]
  | a :: s, b :: p => by
    have ih := prefixLoop_eq s p
    by_cases h : a = b
    · subst h; simp [prefixLoop, List.isPrefixOf, ih]
    · have h' : ¬ b = a := fun e => h e.symm
      simp [prefixLoop, List.isPrefixOf, h, h']

theorem isPrefixOf_length {p s : CStr} (h : p.isPrefixOf s = true) : p.length ≤ s.length :=
  (List.isPrefixOf_iff_prefix.mp h).length_le

theorem startswith_eq_ref (s p : CStr) : startswith s p = refStartswith s p := by
  unfold startswith refStartswith
  rw [prefixLoop_eq]
  by_cases hl : s.length < p.length
  · have : p.isPrefixOf s = false := by
      cases h : p.isPrefixOf s with
      | false => rfl
      | true => have := isPrefixOf_length h; omega
    simp [hl, this]
  · cases hp : p.isPrefixOf s with
    | false => simp [hl]
    | true =>
      simp only [hl, if_false, Bool.not_true, Bool.false_eq_true, Bool.true_and]
      cases s with
      | nil => cases p <;> simp
      | cons a s => cases p <;> simp

theorem endswith_eq_ref (s p : CStr) : endswith s p = refEndswith s p := by
  unfold endswith refEndswith
  rw [prefixLoop_eq]
  have e : p.reverse.isPrefixOf s.reverse = p.isSuffixOf s := rfl
  rw [e]
  by_cases hl : s.length < p.length
  · have : p.isSuffixOf s = false := by
      cases h : p.isSuffixOf s with
      | false => rfl
      | true => have := (List.isSuffixOf_iff_suffix.mp h).length_le; omega
    simp [hl, this]
  · cases hp : p.isSuffixOf s with
    | false => simp [hl]
    | true =>
      simp only [hl, if_false, Bool.not_true, Bool.false_eq_true, Bool.true_and]
      cases s with
      | nil => cases p <;> simp
      | cons a s => cases p <;> simp

/-! ## strip -/

theorem lstripGo_eq : ∀ (s : CStr) (idx : Nat),
    lstripGo s idx = if s ≠ [] ∧ s.all isSpace then -1 else ((idx + (s.takeWhile isSpace).length : Nat) : Int)
  | [], idx => by simp [lstripGo]
  | c :: rest, idx => by
    have ih := lstripGo_eq rest (idx + 1)
    unfold lstripGo
    by_cases hc : isSpace c = true
    · by_cases hr : rest = []
      · subst hr; simp [hc]
      · simp only [hc, if_true, hr, if_false, ih, List.all_cons, Bool.true_and, List.takeWhile_cons,
          List.length_cons, ne_eq, not_false_eq_true, true_and, reduceCtorEq]
        by_cases ha : rest.all isSpace = true
        · simp [ha]
        · simp [ha]; omega
    · simp [hc]

theorem lstripIdx_eq_ref (s : CStr) : lstripIdx s = refLstrip s := by
  unfold lstripIdx refLstrip
  rw [lstripGo_eq]
  simp

theorem rstripGo_eq : ∀ (r : CStr), rstripGo r = ((r.dropWhile isSpace).length : Int) - 1
  | [] => by simp [rstripGo]
  | c :: rest => by
    have ih := rstripGo_eq rest
    unfold rstripGo
    by_cases hc : isSpace c = true
    · by_cases hr : rest = []
      · subst hr; simp [hc]
      · simp [hc, hr, ih]
    · simp [hc]

theorem rstripIdx_eq_ref (s : CStr) : rstripIdx s = refRstrip s := by
  unfold rstripIdx refRstrip
  by_cases h : s.length = 0
  · have : s = [] := List.eq_nil_of_length_eq_zero h
    subst this; simp
  · simp only [h, if_false]; exact rstripGo_eq _

/-- the pinned `rstrip_idx` reads out of bounds exactly on the empty string -/
theorem rstripIdxOrig_oob_iff (s : CStr) : rstripIdxOrig s = .error .oob ↔ s = [] := by
  unfold rstripIdxOrig
  by_cases h : s.length = 0
  · have : s = [] := List.eq_nil_of_length_eq_zero h
    subst this; simp
  · have : s ≠ [] := fun e => h (by simp [e])
    simp [h, this]

/-! ## strstr -/

theorem strstr_none : ∀ (hay sub : CStr), strstr hay sub = none → ∀ j, ¬ sub <+: hay.drop j
  | [], sub, h, j => by
    unfold strstr at h
    by_cases hs : sub = []
    · simp [hs] at h
    · simpa [List.prefix_nil] using hs
  | a :: hay, sub, h, j => by
    unfold strstr at h
    by_cases hp : sub.isPrefixOf (a :: hay) = true
    · simp [hp] at h
    · simp only [hp, if_false, Option.map_eq_none_iff, Bool.false_eq_true] at h
      cases j with
      | zero => simpa [List.isPrefixOf_iff_prefix] using hp
      | succ j => simpa using strstr_none hay sub h j

theorem strstr_some : ∀ (hay sub : CStr) (off : Nat), strstr hay sub = some off →
    sub <+: hay.drop off ∧ off ≤ hay.length ∧ ∀ j, j < off → ¬ sub <+: hay.drop j
  | [], sub, off, h => by
    unfold strstr at h
    by_cases hs : sub = []
    · simp [hs] at h; subst h; simp [hs]
    · simp [hs] at h
  | a :: hay, sub, off, h => by
    unfold strstr at h
    by_cases hp : sub.isPrefixOf (a :: hay) = true
    · simp [hp] at h; subst h
      exact ⟨by simpa [List.isPrefixOf_iff_prefix] using hp, by simp, by intro j hj; omega⟩
    · simp only [hp, if_false, Bool.false_eq_true] at h
      cases hr : strstr hay sub with
      | none => simp [hr] at h
      | some o =>
        simp [hr] at h; subst h
        obtain ⟨h1, h2, h3⟩ := strstr_some hay sub o hr
        refine ⟨by simpa using h1, by simp; omega, ?_⟩
        intro j hj
        cases j with
        | zero => simpa [List.isPrefixOf_iff_prefix] using hp
        | succ j => simpa using h3 j (by omega)

/-! ## find -/

theorem findFrom_eq (s sub : CStr) (e : Nat) (he : e ≤ s.length) : ∀ (fuel q : Nat), e + 1 - q ≤ fuel →
    findFrom s sub e fuel q =
      (match strstr (s.drop q) sub with
       | none => -1
       | some off => if q + off + sub.length > e then -1 else ((q + off : Nat) : Int)) := by
  intro fuel
  induction fuel with
  | zero =>
    intro q hq
    have hq' : q > e := by omega
    unfold findFrom
    cases hs : strstr (s.drop q) sub with
    | none => rfl
    | some off => simp; omega
  | succ f ih =>
    intro q hq
    unfold findFrom
    by_cases h1 : q + sub.length > e
    · simp only [h1, if_true]
      cases hs : strstr (s.drop q) sub with
      | none => rfl
      | some off => simp; omega
    · simp only [h1, if_false]
      by_cases hp : sub.isPrefixOf (s.drop q) = true
      · simp only [hp, if_true]
        have : strstr (s.drop q) sub = some 0 := by
          cases hd : s.drop q with
          | nil =>
            rw [hd] at hp
            have : sub = [] := by simpa [List.isPrefixOf_iff_prefix] using hp
            simp [strstr, this]
          | cons a t => rw [hd] at hp; simp [strstr, hp]
        simp [this, h1]
      · simp only [hp, if_false, Bool.false_eq_true]
        cases hd : s.drop q with
        | nil =>
          exfalso
          have hql : s.length ≤ q := by
            have := congrArg List.length hd
            simp at this; omega
          have : sub = [] := List.eq_nil_of_length_eq_zero (by omega)
          rw [this] at hp
          simp at hp
        | cons a t =>
          have ht : t = s.drop (q + 1) := by
            have : (s.drop q).drop 1 = s.drop (q + 1) := by rw [List.drop_drop]
            rw [hd] at this; simpa using this
          rw [hd] at hp
          rw [ih (q + 1) (by omega)]
          have hst : strstr (a :: t) sub = (strstr t sub).map (· + 1) := by
            rw [strstr]; simp [hp]
          rw [hst, ← ht]
          cases hs : strstr t sub with
          | none => rfl
          | some off =>
            have e1 : q + 1 + off = q + (off + 1) := by omega
            simp [e1]

theorem window_bounds {len : Nat} {start end_ : Int} {st e : Nat}
    (h : window len start end_ = some (st, e)) : st < e ∧ e ≤ len ∧ (st : Int) = start := by
  unfold window at h
  by_cases h1 : start < 0 ∨ end_ < 0
  · simp [h1] at h
  · by_cases h2 : start ≥ (len : Int)
    · simp [h1, h2] at h
    · by_cases h4 : end_ = 0
      · subst h4
        simp [h2] at h
        omega
      · by_cases h5 : end_ > (len : Int)
        · simp [h1, h2, h4, h5] at h
          omega
        · simp [h1, h2, h4, h5] at h
          omega

theorem strFind_eq_ref (s sub : CStr) (start end_ : Int) : strFind s sub start end_ = refFind s sub start end_ := by
  unfold strFind refFind
  cases hw : window s.length start end_ with
  | none => rfl
  | some p =>
    obtain ⟨st, e⟩ := p
    obtain ⟨_, he, _⟩ := window_bounds hw
    simp only
    rw [findFrom_eq s sub e he (e + 1 - st) st (Nat.le_refl _)]
    cases strstr (s.drop st) sub <;> rfl

/-! ## count -/

theorem countOcc_short {sub : CStr} (h : 0 < sub.length) {w : CStr} (hw : w.length < sub.length) :
    countOcc sub h w = 0 := by
  rw [countOcc]; simp [hw]

theorem countOcc_match {sub : CStr} (h : 0 < sub.length) {w : CStr} (hm : sub <+: w) :
    countOcc sub h w = 1 + countOcc sub h (w.drop sub.length) := by
  rw [countOcc]
  have hl : ¬ w.length < sub.length := by have := hm.length_le; omega
  have : sub.isPrefixOf w = true := List.isPrefixOf_iff_prefix.mpr hm
  simp [hl, this]

theorem countOcc_nomatch {sub : CStr} (h : 0 < sub.length) {w : CStr} (hm : ¬ sub <+: w) :
    countOcc sub h w = countOcc sub h (w.drop 1) := by
  by_cases hl : w.length < sub.length
  · rw [countOcc_short h hl, countOcc_short h (by simp; omega)]
  · rw [countOcc]
    have : sub.isPrefixOf w = false := by
      cases hh : sub.isPrefixOf w with
      | false => rfl
      | true => exact absurd (List.isPrefixOf_iff_prefix.mp hh) hm
    simp [hl, this]

/-- skipping positions without a match -/
theorem countOcc_skip {sub : CStr} (h : 0 < sub.length) : ∀ (off : Nat) (w : CStr),
    (∀ j, j < off → ¬ sub <+: w.drop j) → countOcc sub h w = countOcc sub h (w.drop off)
  | 0, w, _ => by simp
  | off + 1, w, hn => by
    have h0 : ¬ sub <+: w := by simpa using hn 0 (by omega)
    rw [countOcc_nomatch h h0, countOcc_skip h off (w.drop 1) (by
      intro j hj
      rw [List.drop_drop]
      have := hn (j + 1) (by omega)
      rwa [Nat.add_comm] at this)]
    rw [List.drop_drop, Nat.add_comm]

theorem countOcc_none {sub : CStr} (h : 0 < sub.length) (w : CStr)
    (hn : ∀ j, ¬ sub <+: w.drop j) : countOcc sub h w = 0 := by
  rw [countOcc_skip h w.length w (fun j _ => hn j)]
  exact countOcc_short h (by simp; omega)

/-- a match inside the window `[.., e)` is a match in the whole string that ends by `e` -/
theorem prefix_window {s sub : CStr} {e k : Nat} :
    sub <+: (s.take e).drop k ↔ sub <+: s.drop k ∧ sub.length ≤ e - k := by
  rw [List.drop_take, List.prefix_take_iff]

theorem countLoop_eq (s sub : CStr) (hsub : 0 < sub.length) (e : Nat) (he : e ≤ s.length) :
    ∀ (n pos cnt : Nat), e - pos ≤ n → pos ≤ e →
      countLoop s sub hsub e pos cnt = cnt + countOcc sub hsub ((s.take e).drop pos) := by
  intro n
  induction n with
  | zero =>
    intro pos cnt hn hpe
    have hpe' : pos = e := by omega
    subst hpe'
    have hw : countOcc sub hsub ((s.take pos).drop pos) = 0 := countOcc_short hsub (by simp; omega)
    rw [hw, countLoop]
    cases hs : strstr (s.drop pos) sub with
    | none => rfl
    | some off =>
      have : pos + off + sub.length > pos := by omega
      simp [this]
  | succ n ih =>
    intro pos cnt hn hpe
    rw [countLoop]
    cases hs : strstr (s.drop pos) sub with
    | none =>
      have hnone := strstr_none _ _ hs
      have : countOcc sub hsub ((s.take e).drop pos) = 0 := by
        apply countOcc_none
        intro j hm
        rw [List.drop_drop, prefix_window] at hm
        have := hnone j
        rw [List.drop_drop] at this
        exact this hm.1
      simp [this]
    | some off =>
      obtain ⟨hm, hoff, hbefore⟩ := strstr_some _ _ _ hs
      rw [List.drop_drop] at hm
      have hskip : countOcc sub hsub ((s.take e).drop pos) =
          countOcc sub hsub ((s.take e).drop (pos + off)) := by
        rw [countOcc_skip hsub off]
        · rw [List.drop_drop]
        · intro j hj hmj
          rw [List.drop_drop, prefix_window] at hmj
          have := hbefore j hj
          rw [List.drop_drop] at this
          exact this hmj.1
      simp only
      by_cases h1 : pos + off + sub.length > e
      · simp only [h1, if_true]
        have : countOcc sub hsub ((s.take e).drop pos) = 0 := by
          apply countOcc_none
          intro j hmj
          rw [List.drop_drop, prefix_window] at hmj
          by_cases hj : j < off
          · have := hbefore j hj
            rw [List.drop_drop] at this
            exact this hmj.1
          · omega
        omega
      · simp only [h1, if_false]
        have hin : sub <+: (s.take e).drop (pos + off) := prefix_window.mpr ⟨hm, by omega⟩
        rw [hskip, countOcc_match hsub hin, List.drop_drop]
        by_cases h2 : pos + off + sub.length ≥ e
        · simp only [h2, if_true]
          have : countOcc sub hsub ((s.take e).drop (pos + off + sub.length)) = 0 :=
            countOcc_short hsub (by simp; omega)
          omega
        · simp only [h2, if_false]
          rw [ih (pos + off + sub.length) (cnt + 1) (by omega) (by omega)]
          omega

theorem strCount_eq_ref (s sub : CStr) (start end_ : Int) :
    strCount s sub start end_ = refCount s sub start end_ := by
  unfold strCount refCount
  by_cases h : sub.length = 0
  · simp [h]
  · simp only [h, dite_false]
    cases hw : window s.length start end_ with
    | none => rfl
    | some p =>
      obtain ⟨st, e⟩ := p
      obtain ⟨hlt, he, _⟩ := window_bounds hw
      simp only
      rw [countLoop_eq s sub (by omega) e he (e - st) st 0 (Nat.le_refl _) (by omega)]
      simp

/-- the pinned `muggle_str_count` does not terminate exactly for an empty `sub` with a
non-empty window -/
theorem strCountOrig_hang_iff (s sub : CStr) (start end_ : Int) :
    strCountOrig s sub start end_ = .error .hang ↔
      (sub = [] ∧ (window s.length start end_).isSome) := by
  unfold strCountOrig
  by_cases h : sub.length = 0
  · have hs : sub = [] := List.eq_nil_of_length_eq_zero h
    cases hw : window s.length start end_ <;> simp [hs]
  · have hs : sub ≠ [] := fun e => h (by simp [e])
    simp only [h, dite_false]
    cases hw : window s.length start end_ <;> simp [hs]

end MgProof.C20
