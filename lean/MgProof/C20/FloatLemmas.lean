import MgModel.C20.Float
import MgProof.C20.NumLemmas
import MgProof.C20.PathLemmas
/-!
# C20 — float parsers: the wrappers' decision chain computes the specification `refParseFloat`

Main ingredient: *locality* of the scanner — appending blanks behind a string changes neither
what `scanNumber` / the `inf` / `nan` matchers recognise nor how much they consume — so scanning
the whole string and scanning its blank-stripped core agree.
-/
namespace MgProof.C20
open MgModel.C20

/-- a (possibly empty) run of blanks -/
def Blank (t : CStr) : Prop := ∀ x ∈ t, isSpace x = true

theorem Blank.head {t : CStr} (h : Blank t) {c : Nat} {r : CStr} (e : t = c :: r) : isSpace c = true :=
  h c (by rw [e]; simp)

/-! ## takeWhile / dropWhile in front of blanks -/

theorem takeWhile_blank (p : Nat → Bool) (hp : ∀ c, p c = true → isSpace c = false) :
    ∀ (a t : CStr), Blank t → (a ++ t).takeWhile p = a.takeWhile p
  | [], t, ht => by
    cases t with
    | nil => rfl
    | cons c r =>
      have hc : isSpace c = true := ht.head rfl
      have : p c = false := by
        cases h : p c with
        | false => rfl
        | true => rw [hp c h] at hc; cases hc
      simp [this]
  | x :: a, t, ht => by
    simp only [List.cons_append, List.takeWhile_cons]
    by_cases hx : p x = true
    · simp only [hx, if_true]; rw [takeWhile_blank p hp a t ht]
    · simp [hx]

theorem dropWhile_blank (p : Nat → Bool) (hp : ∀ c, p c = true → isSpace c = false) :
    ∀ (a t : CStr), Blank t → (a ++ t).dropWhile p = a.dropWhile p ++ t
  | [], t, ht => by
    cases t with
    | nil => rfl
    | cons c r =>
      have hc : isSpace c = true := ht.head rfl
      have : p c = false := by
        cases h : p c with
        | false => rfl
        | true => rw [hp c h] at hc; cases hc
      simp [this]
  | x :: a, t, ht => by
    simp only [List.cons_append, List.dropWhile_cons]
    by_cases hx : p x = true
    · simp only [hx, if_true]; rw [dropWhile_blank p hp a t ht]
    · simp [hx]

theorem isDec_not_space {c : Nat} (h : isDec c = true) : isSpace c = false := by
  unfold isDec at h
  unfold isSpace
  simp only [Bool.and_eq_true, decide_eq_true_eq] at h
  have h1 : ¬ c = 32 := by omega
  have h2 : ¬ c ≤ 13 := by omega
  simp [h1, h2]

theorem lower_space {c : Nat} (h : isSpace c = true) : lower c = c := by
  unfold isSpace at h
  unfold lower
  simp only [Bool.or_eq_true, beq_iff_eq, Bool.and_eq_true, decide_eq_true_eq] at h
  have : ¬ (65 ≤ c ∧ c ≤ 90) := by omega
  simp [this]

theorem space_lt_45 {c : Nat} (h : isSpace c = true) : c ≤ 32 := by
  unfold isSpace at h
  simp only [Bool.or_eq_true, beq_iff_eq, Bool.and_eq_true, decide_eq_true_eq] at h
  omega

/-! ## locality of the scanner pieces -/

theorem scanSign_blank (a t : CStr) (ht : Blank t) :
    scanSign (a ++ t) = ((scanSign a).1, (scanSign a).2.1, (scanSign a).2.2 ++ t) := by
  cases a with
  | nil =>
    cases t with
    | nil => rfl
    | cons c r =>
      have hc := space_lt_45 (ht.head rfl)
      rcases scanSign_cases (c :: r) with ⟨r', e, _⟩ | ⟨r', e, _⟩ | ⟨h, _, _⟩
      · injection e with e1 _; omega
      · injection e with e1 _; omega
      · rw [List.nil_append, h]; rfl
  | cons x a' =>
    rcases scanSign_cases (x :: a') with ⟨r', e, h⟩ | ⟨r', e, h⟩ | ⟨h, h1, h2⟩
    · injection e with e1 e2; subst e1; subst e2; rfl
    · injection e with e1 e2; subst e1; subst e2; rfl
    · rw [h]
      rcases scanSign_cases (x :: a' ++ t) with ⟨r', e, _⟩ | ⟨r', e, _⟩ | ⟨h', _, _⟩
      · exfalso; apply h1; simp at e; simp [e.1]
      · exfalso; apply h2; simp at e; simp [e.1]
      · rw [h']

theorem scanExp_blank (mark : Nat) (hm : 33 ≤ mark) (a t : CStr) (ht : Blank t) :
    scanExp mark (a ++ t) = scanExp mark a := by
  cases a with
  | nil =>
    cases t with
    | nil => rfl
    | cons c r =>
      have hc := ht.head rfl
      have hl := lower_space hc
      have h32 := space_lt_45 hc
      simp only [List.nil_append, scanExp]
      have : lower c ≠ mark := by rw [hl]; omega
      simp [this]
  | cons m a' =>
    simp only [List.cons_append, scanExp]
    by_cases hmk : lower m ≠ mark
    · simp [hmk]
    · simp only [hmk, if_false]
      rw [scanSign_blank a' t ht]
      simp only
      rw [takeWhile_blank isDec (fun c h => isDec_not_space h) _ t ht]

theorem scanFrac_dot (base : Nat) (ip r2 : CStr) :
    scanFrac base ip (46 :: r2) =
      if ip = [] ∧ r2.takeWhile (isDigitIn base) = [] then none
      else some (ip ++ r2.takeWhile (isDigitIn base), (r2.takeWhile (isDigitIn base)).length,
        ip.length + 1 + (r2.takeWhile (isDigitIn base)).length) := rfl

theorem scanFrac_nodot (base : Nat) (ip l : CStr) (h : l.head? ≠ some 46) :
    scanFrac base ip l = if ip = [] then none else some (ip, 0, ip.length) := by
  unfold scanFrac
  split
  · simp at h
  · rfl

theorem scanMantissa_blank (base : Nat) (a t : CStr) (ht : Blank t) :
    scanMantissa base (a ++ t) = scanMantissa base a := by
  have hp : ∀ c, isDigitIn base c = true → isSpace c = false := fun c h => digit_not_space h
  unfold scanMantissa
  rw [takeWhile_blank _ hp a t ht, dropWhile_blank _ hp a t ht]
  cases hd : a.dropWhile (isDigitIn base) with
  | nil =>
    rw [List.nil_append, scanFrac_nodot _ _ [] (by simp)]
    apply scanFrac_nodot
    cases t with
    | nil => simp
    | cons c r =>
      have h32 := space_lt_45 (ht.head rfl)
      simp; omega
  | cons x r =>
    rw [List.cons_append]
    by_cases hx : x = 46
    · subst hx
      rw [scanFrac_dot, scanFrac_dot, takeWhile_blank _ hp r t ht]
    · rw [scanFrac_nodot _ _ (x :: (r ++ t)) (by simpa using hx), scanFrac_nodot _ _ (x :: r) (by simpa using hx)]

/-! ## bounds on what the pieces consume -/

theorem scanMantissa_bound {base : Nat} {a ds : CStr} {nfrac n : Nat}
    (h : scanMantissa base a = some (ds, nfrac, n)) : 0 < n ∧ n ≤ a.length := by
  unfold scanMantissa at h
  have hsplit := List.takeWhile_append_dropWhile (p := isDigitIn base) (l := a)
  have hlen : (a.takeWhile (isDigitIn base)).length + (a.dropWhile (isDigitIn base)).length = a.length := by
    have := congrArg List.length hsplit
    rw [List.length_append] at this
    exact this
  cases hd : a.dropWhile (isDigitIn base) with
  | nil =>
    rw [hd, scanFrac_nodot _ _ [] (by simp)] at h
    by_cases hip : a.takeWhile (isDigitIn base) = []
    · simp [hip] at h
    · simp only [hip, if_false, Option.some.injEq, Prod.mk.injEq] at h
      have : 0 < (a.takeWhile (isDigitIn base)).length := List.length_pos_iff.mpr hip
      omega
  | cons x r =>
    rw [hd] at h hlen
    by_cases hx : x = 46
    · subst hx
      rw [scanFrac_dot] at h
      have hfp := takeWhile_length_le (isDigitIn base) r
      by_cases hc : a.takeWhile (isDigitIn base) = [] ∧ r.takeWhile (isDigitIn base) = []
      · simp [hc] at h
      · simp only [hc, if_false, Option.some.injEq, Prod.mk.injEq] at h
        simp at hlen
        omega
    · rw [scanFrac_nodot _ _ (x :: r) (by simpa using hx)] at h
      by_cases hip : a.takeWhile (isDigitIn base) = []
      · simp [hip] at h
      · simp only [hip, if_false, Option.some.injEq, Prod.mk.injEq] at h
        have : 0 < (a.takeWhile (isDigitIn base)).length := List.length_pos_iff.mpr hip
        omega

theorem scanSign_length (a : CStr) : (scanSign a).2.1 + (scanSign a).2.2.length = a.length := by
  rcases scanSign_cases a with ⟨r, e, h⟩ | ⟨r, e, h⟩ | ⟨h, _, _⟩
  · rw [h, e]; simp; omega
  · rw [h, e]; simp; omega
  · rw [h]; simp

theorem scanExp_bound (mark : Nat) (a : CStr) : (scanExp mark a).2 ≤ a.length := by
  cases a with
  | nil => simp [scanExp]
  | cons m r =>
    simp only [scanExp]
    by_cases hmk : lower m ≠ mark
    · simp [hmk]
    · simp only [hmk, if_false]
      have hs := scanSign_length r
      rcases hsc : scanSign r with ⟨neg, nsign, r2⟩
      rw [hsc] at hs
      simp only at hs ⊢
      have ht := takeWhile_length_le isDec r2
      by_cases hds : r2.takeWhile isDec = []
      · simp [hds]
      · simp only [hds, if_false, List.length_cons]
        omega

/-! ## locality and bounds of the numeral scanner -/

theorem scanBody_blank (base mark eb pd : Nat) (hm : 33 ≤ mark) (a t : CStr) (ht : Blank t) :
    scanBody base mark eb pd (a ++ t) = scanBody base mark eb pd a := by
  unfold scanBody
  rw [scanMantissa_blank base a t ht]
  cases hsm : scanMantissa base a with
  | none => rfl
  | some res =>
    obtain ⟨ds, nfrac, n⟩ := res
    obtain ⟨_, hn⟩ := scanMantissa_bound hsm
    simp only
    have : (a ++ t).drop n = a.drop n ++ t := by
      rw [List.drop_append]
      have : n - a.length = 0 := by omega
      rw [this]; rfl
    rw [this, scanExp_blank mark hm _ t ht]

theorem scanBody_bound {base mark eb pd : Nat} {a : CStr} {num den n : Nat}
    (h : scanBody base mark eb pd a = some (num, den, n)) : 0 < n ∧ n ≤ a.length := by
  unfold scanBody at h
  cases hsm : scanMantissa base a with
  | none => rw [hsm] at h; cases h
  | some res =>
    obtain ⟨ds, nfrac, n0⟩ := res
    obtain ⟨h0, hn⟩ := scanMantissa_bound hsm
    rw [hsm] at h
    simp only [Option.some.injEq, Prod.mk.injEq] at h
    have hb := scanExp_bound mark (a.drop n0)
    simp at hb
    omega

theorem scanHex_blank (a t : CStr) (ht : Blank t) : scanHex (a ++ t) = scanHex a := by
  have hnone : ∀ l : CStr, l.head? ≠ some 48 → scanHex l = none := by
    intro l hl
    unfold scanHex
    split
    · simp at hl
    · rfl
  have hblank_head : ∀ l : CStr, Blank l → l.head? ≠ some 48 := by
    intro l hl
    cases l with
    | nil => simp
    | cons c r => have := space_lt_45 (hl.head rfl); simp; omega
  cases a with
  | nil => rw [List.nil_append, hnone t (hblank_head t ht), hnone [] (by simp)]
  | cons y a' =>
    by_cases hy : y = 48
    · subst hy
      cases a' with
      | nil =>
        cases t with
        | nil => rfl
        | cons c r =>
          have hc := ht.head rfl
          have h32 := space_lt_45 hc
          have hl : lower c ≠ 120 := by rw [lower_space hc]; omega
          show scanHex (48 :: c :: r) = scanHex [48]
          simp [scanHex, hl]
      | cons x a'' =>
        show scanHex (48 :: x :: (a'' ++ t)) = scanHex (48 :: x :: a'')
        unfold scanHex
        by_cases hx : lower x = 120
        · simp only [hx, if_true]
          rw [scanBody_blank 16 112 2 4 (by omega) a'' t ht]
        · simp [hx]
    · rw [hnone _ (by simpa using hy), hnone _ (by simpa using hy)]

theorem scanHex_bound {a : CStr} {num den n : Nat} (h : scanHex a = some (num, den, n)) :
    0 < n ∧ n ≤ a.length := by
  unfold scanHex at h
  split at h
  · rename_i x r
    by_cases hx : lower x = 120
    · simp only [hx, if_true] at h
      cases hb : scanBody 16 112 2 4 r with
      | none => rw [hb] at h; cases h
      | some res =>
        obtain ⟨nu, de, n0⟩ := res
        rw [hb] at h
        simp only [Option.some.injEq, Prod.mk.injEq] at h
        have := scanBody_bound hb
        simp
        omega
    · simp [hx] at h
  · cases h

theorem scanNumber_blank (a t : CStr) (ht : Blank t) : scanNumber (a ++ t) = scanNumber a := by
  unfold scanNumber
  rw [scanHex_blank a t ht, scanBody_blank 10 101 10 1 (by omega) a t ht]

theorem scanNumber_bound {a : CStr} {num den n : Nat} (h : scanNumber a = some (num, den, n)) :
    0 < n ∧ n ≤ a.length := by
  unfold scanNumber at h
  cases hh : scanHex a with
  | some res =>
    rw [hh] at h
    simp only [Option.some.injEq] at h
    rw [h] at hh
    exact scanHex_bound hh
  | none =>
    rw [hh] at h
    exact scanBody_bound h

end MgProof.C20

namespace MgProof.C20
open MgModel.C20

/-! ## `inf` / `nan` literals -/

theorem matchCI_iff : ∀ (lit s : CStr), matchCI lit s = true ↔ ∃ pre rest, s = pre ++ rest ∧ pre.map lower = lit
  | [], s => by simp [matchCI]
  | l :: lit, [] => by
    simp only [matchCI, Bool.false_eq_true, false_iff]
    rintro ⟨pre, rest, h, hp⟩
    have : pre = [] := by
      cases pre with
      | nil => rfl
      | cons a b => simp at h
    rw [this] at hp; simp at hp
  | l :: lit, c :: s => by
    simp only [matchCI, Bool.and_eq_true, beq_iff_eq]
    rw [matchCI_iff lit s]
    constructor
    · rintro ⟨h1, pre, rest, h2, h3⟩
      exact ⟨c :: pre, rest, by rw [h2]; rfl, by simp [h1, h3]⟩
    · rintro ⟨pre, rest, h2, h3⟩
      cases pre with
      | nil => simp at h3
      | cons a pre' =>
        simp at h2 h3
        exact ⟨by rw [h2.1]; exact h3.1, pre', rest, h2.2, h3.2⟩

theorem lower_eq_small {c v : Nat} (h : lower c = v) (hv : v < 97) : c = v := by
  unfold lower at h
  by_cases hc : 65 ≤ c ∧ c ≤ 90
  · simp [hc] at h; omega
  · simp [hc] at h; exact h

theorem nchar_not_space {c : Nat} (h : isNChar c = true) : isSpace c = false := by
  unfold isNChar isDec at h
  unfold isSpace
  simp only [Bool.or_eq_true, Bool.and_eq_true, decide_eq_true_eq, beq_iff_eq] at h
  have h1 : ¬ c = 32 := by omega
  have h2 : ¬ c ≤ 13 := by omega
  simp [h1, h2]

theorem matchCI_blank (lit : CStr) (hl : ∀ c ∈ lit, 33 ≤ c) : ∀ (a t : CStr), Blank t →
    matchCI lit (a ++ t) = matchCI lit a := by
  induction lit with
  | nil => intro a t _; simp [matchCI]
  | cons l lit ih =>
    intro a t ht
    cases a with
    | nil =>
      cases t with
      | nil => rfl
      | cons c r =>
        have hc := ht.head rfl
        have : lower c ≠ l := by
          rw [lower_space hc]
          have := space_lt_45 hc
          have := hl l (by simp)
          omega
        simp [matchCI, this]
    | cons x a' =>
      simp only [List.cons_append, matchCI]
      rw [ih (fun c hc => hl c (by simp [hc])) a' t ht]

end MgProof.C20

namespace MgProof.C20
open MgModel.C20

theorem matchCI_length {lit s : CStr} (h : matchCI lit s = true) : lit.length ≤ s.length := by
  obtain ⟨pre, rest, hs, hp⟩ := (matchCI_iff lit s).mp h
  have := congrArg List.length hp
  rw [hs]
  simp at this ⊢
  omega

theorem nanTail_ne40 {l : CStr} (h : l.head? ≠ some 40) : nanTail l = 0 := by
  unfold nanTail
  split
  · simp at h
  · rfl

theorem nanTail_40 (r2 : CStr) :
    nanTail (40 :: r2) =
      if (r2.drop (r2.takeWhile isNChar).length).head? = some 41 then (r2.takeWhile isNChar).length + 2
      else 0 := rfl

theorem nanTail_blank (a t : CStr) (ht : Blank t) : nanTail (a ++ t) = nanTail a := by
  cases a with
  | nil =>
    rw [List.nil_append, nanTail_ne40 (l := []) (by simp)]
    apply nanTail_ne40
    cases t with
    | nil => simp
    | cons c r => have := space_lt_45 (ht.head rfl); simp; omega
  | cons x r2 =>
    rw [List.cons_append]
    by_cases hx : x = 40
    · subst hx
      rw [nanTail_40, nanTail_40, takeWhile_blank isNChar (fun c h => nchar_not_space h) r2 t ht]
      have hle := takeWhile_length_le isNChar r2
      have hdrop : (r2 ++ t).drop (r2.takeWhile isNChar).length =
          r2.drop (r2.takeWhile isNChar).length ++ t := by
        rw [List.drop_append]
        have : (r2.takeWhile isNChar).length - r2.length = 0 := by omega
        rw [this]; rfl
      rw [hdrop]
      have hhead : (r2.drop (r2.takeWhile isNChar).length ++ t).head? = some 41 ↔
          (r2.drop (r2.takeWhile isNChar).length).head? = some 41 := by
        cases hd2 : r2.drop (r2.takeWhile isNChar).length with
        | nil =>
          rw [List.nil_append]
          cases t with
          | nil => simp
          | cons c r =>
            have := space_lt_45 (ht.head rfl)
            simp; omega
        | cons y r3 => simp
      by_cases hh : (r2.drop (r2.takeWhile isNChar).length).head? = some 41
      · rw [if_pos hh, if_pos (hhead.mpr hh)]
      · rw [if_neg hh, if_neg (fun h => hh (hhead.mp h))]
    · rw [nanTail_ne40 (by simpa using hx), nanTail_ne40 (by simpa using hx)]

theorem nanTail_bound (l : CStr) : nanTail l ≤ l.length := by
  cases l with
  | nil => simp [nanTail]
  | cons x r2 =>
    by_cases hx : x = 40
    · subst hx
      rw [nanTail_40]
      split
      · rename_i h
        have hle := takeWhile_length_le isNChar r2
        -- the character behind the run exists
        have : (r2.takeWhile isNChar).length < r2.length := by
          apply Classical.byContradiction
          intro hc
          have : r2.drop (r2.takeWhile isNChar).length = [] := List.drop_eq_nil_of_le (by omega)
          rw [this] at h; simp at h
        simp; omega
      · omega
    · rw [nanTail_ne40 (by simpa using hx)]; omega

theorem scanSpecial_blank (a t : CStr) (ht : Blank t) : scanSpecial (a ++ t) = scanSpecial a := by
  unfold scanSpecial
  rw [matchCI_blank [105, 110, 102] (by intro c hc; simp at hc; omega) a t ht,
    matchCI_blank [110, 97, 110] (by intro c hc; simp at hc; omega) a t ht]
  by_cases hinf : matchCI [105, 110, 102] a = true
  · have hl := matchCI_length hinf
    simp only [hinf, if_true]
    have : (a ++ t).drop 3 = a.drop 3 ++ t := by
      rw [List.drop_append]
      have : 3 - a.length = 0 := by simp at hl; omega
      rw [this]; rfl
    rw [this, matchCI_blank [105, 110, 105, 116, 121] (by intro c hc; simp at hc; omega) _ t ht]
  · simp only [hinf, if_false, Bool.false_eq_true]
    by_cases hnan : matchCI [110, 97, 110] a = true
    · have hl := matchCI_length hnan
      simp only [hnan, if_true]
      have : (a ++ t).drop 3 = a.drop 3 ++ t := by
        rw [List.drop_append]
        have : 3 - a.length = 0 := by simp at hl; omega
        rw [this]; rfl
      rw [this, nanTail_blank _ t ht]
    · simp [hnan]

theorem scanSpecial_bound {a : CStr} {k : Bool} {n : Nat} (h : scanSpecial a = some (k, n)) :
    0 < n ∧ n ≤ a.length := by
  unfold scanSpecial at h
  by_cases hinf : matchCI [105, 110, 102] a = true
  · simp only [hinf, if_true, Option.some.injEq, Prod.mk.injEq] at h
    have hl := matchCI_length hinf
    by_cases h8 : matchCI [105, 110, 105, 116, 121] (a.drop 3) = true
    · have hl8 := matchCI_length h8
      simp only [h8, if_true] at h
      simp at hl hl8
      omega
    · simp only [h8, if_false, Bool.false_eq_true] at h
      simp at hl
      omega
  · simp only [hinf, if_false, Bool.false_eq_true] at h
    by_cases hnan : matchCI [110, 97, 110] a = true
    · simp only [hnan, if_true, Option.some.injEq, Prod.mk.injEq] at h
      have hl := matchCI_length hnan
      have hb := nanTail_bound (a.drop 3)
      simp at hl hb
      omega
    · simp [hnan] at h

end MgProof.C20

namespace MgProof.C20
open MgModel.C20

/-- the literal specification of the special values is "the scanner consumes the whole body" -/
def wholeSpecial (body : CStr) : Option Bool :=
  match scanSpecial body with
  | some (k, n) => if n = body.length then some k else none
  | none => none

theorem lower_40 {c : Nat} (h : lower c = 40) : c = 40 := lower_eq_small h (by omega)
theorem lower_41 {c : Nat} (h : lower c = 41) : c = 41 := lower_eq_small h (by omega)

theorem nchar_41 : isNChar 41 = false := by decide

/-- a run of n-chars closed by `)` -/
theorem takeWhile_nchar_closed (mid rest : CStr) (h : ∀ c ∈ mid, isNChar c = true) :
    (mid ++ 41 :: rest).takeWhile isNChar = mid := by
  rw [takeWhile_of_all isNChar mid _ h, takeWhile_stop isNChar 41 rest nchar_41]
  simp

theorem take_takeWhile_length (p : Nat → Bool) (l : CStr) :
    l.take (l.takeWhile p).length = l.takeWhile p := by
  have e := List.takeWhile_append_dropWhile (p := p) (l := l)
  have : l.take (l.takeWhile p).length = (l.takeWhile p ++ l.dropWhile p).take (l.takeWhile p).length := by
    rw [e]
  rw [this, List.take_left]

/-- the literal condition for `nan(…)`: the text behind `nan(` is a run of n-chars and `)` -/
theorem nan_closed (pfx r2 : CStr) (hpfx : pfx.getLast? = some 40)
    (hlast : (pfx ++ r2.map lower).getLast? = some 41)
    (hmid : (r2.take (r2.length - 1)).all isNChar = true) :
    r2 = r2.takeWhile isNChar ++ [41] := by
  have hr2ne : r2 ≠ [] := by
    intro e
    rw [e] at hlast
    simp at hlast
    rw [hpfx] at hlast
    cases hlast
  have hsplit := List.dropLast_concat_getLast hr2ne
  generalize hy : r2.getLast hr2ne = y at hsplit
  generalize hm : r2.dropLast = mid at hsplit
  have hy41 : y = 41 := by
    rw [← hsplit] at hlast
    simp at hlast
    exact lower_41 hlast
  subst hy41
  have hlen : r2.length - 1 = mid.length := by rw [← hsplit]; simp
  have hmidall : ∀ c ∈ mid, isNChar c = true := by
    rw [hlen] at hmid
    have : r2.take mid.length = mid := by rw [← hsplit, List.take_left]
    rw [this] at hmid
    exact List.all_eq_true.mp hmid
  have hcs : r2.takeWhile isNChar = mid := by
    rw [← hsplit]; exact takeWhile_nchar_closed mid [] hmidall
  rw [hcs]; exact hsplit.symm

theorem specialLit_eq (body : CStr) : specialLit body = wholeSpecial body := by
  unfold wholeSpecial scanSpecial
  by_cases hinf : matchCI [105, 110, 102] body = true
  · -- starts with inf
    obtain ⟨pre, rest, hb, hp⟩ := (matchCI_iff _ _).mp hinf
    have hpl : pre.length = 3 := by have := congrArg List.length hp; simpa using this
    have hdrop : body.drop 3 = rest := by rw [hb, ← hpl, List.drop_left]
    have hl : body.map lower = 105 :: 110 :: 102 :: rest.map lower := by rw [hb]; simp [hp]
    have hlen : body.length = 3 + rest.length := by rw [hb]; simp [hpl]
    simp only [hinf, if_true, hdrop]
    unfold specialLit
    simp only [hl]
    by_cases h8 : matchCI [105, 110, 105, 116, 121] rest = true
    · obtain ⟨pre2, rest2, hb2, hp2⟩ := (matchCI_iff _ _).mp h8
      have hpl2 : pre2.length = 5 := by have := congrArg List.length hp2; simpa using this
      have hl2 : rest.map lower = 105 :: 110 :: 105 :: 116 :: 121 :: rest2.map lower := by rw [hb2]; simp [hp2]
      have hlen2 : rest.length = 5 + rest2.length := by rw [hb2]; simp [hpl2]
      simp only [h8, if_true, hl2]
      by_cases hr : rest2 = []
      · subst hr
        have : 8 = body.length := by rw [hlen, hlen2]; simp
        simp [this]
      · have hne : ¬ 8 = body.length := by
          have : 0 < rest2.length := List.length_pos_iff.mpr hr
          omega
        have hm : rest2.map lower ≠ [] := by simpa using hr
        simp [hne, hm]
    · simp only [h8, if_false, Bool.false_eq_true]
      by_cases hr : rest = []
      · subst hr
        have : 3 = body.length := by rw [hlen]; simp
        simp [this]
      · have hne : ¬ 3 = body.length := by
          have : 0 < rest.length := List.length_pos_iff.mpr hr
          omega
        have hm : rest.map lower ≠ [] := by simpa using hr
        have hnot : rest.map lower ≠ [105, 110, 105, 116, 121] := by
          intro e
          apply h8
          rw [matchCI_iff]
          exact ⟨rest, [], by simp, e⟩
        simp [hne, hm, hnot]
  · have hinf' : matchCI [105, 110, 102] body = false := by simpa using hinf
    simp only [hinf', Bool.false_eq_true, if_false]
    have hnoinf : ∀ x : CStr, body.map lower ≠ 105 :: 110 :: 102 :: x := by
      intro x e
      apply hinf
      rw [matchCI_iff]
      refine ⟨body.take 3, body.drop 3, (List.take_append_drop 3 body).symm, ?_⟩
      rw [List.map_take, e]
      rfl
    by_cases hnan : matchCI [110, 97, 110] body = true
    · obtain ⟨pre, rest, hb, hp⟩ := (matchCI_iff _ _).mp hnan
      have hpl : pre.length = 3 := by have := congrArg List.length hp; simpa using this
      have hdrop : body.drop 3 = rest := by rw [hb, ← hpl, List.drop_left]
      have hl : body.map lower = 110 :: 97 :: 110 :: rest.map lower := by rw [hb]; simp [hp]
      have hlen : body.length = 3 + rest.length := by rw [hb]; simp [hpl]
      have hdrop4 : body.drop 4 = rest.drop 1 := by
        rw [show 4 = 3 + 1 by rfl, ← List.drop_drop, hdrop]
      simp only [hnan, if_true, hdrop]
      unfold specialLit
      simp only [hl, hdrop4]
      have e1 : ¬ (110 :: 97 :: 110 :: rest.map lower = [105, 110, 102] ∨
          110 :: 97 :: 110 :: rest.map lower = [105, 110, 102, 105, 110, 105, 116, 121]) := by
        simp
      simp only [e1, if_false]
      cases rest with
      | nil =>
        have : 3 + nanTail [] = body.length := by rw [hlen]; simp [nanTail]
        simp [this]
      | cons x r2 =>
        have hne : ¬ (110 :: 97 :: 110 :: (x :: r2).map lower = [110, 97, 110]) := by simp
        have hlen' : body.length = r2.length + 4 := by rw [hlen]; simp; omega
        have hbl : body.length - 5 = r2.length - 1 := by omega
        simp only [hne, if_false, List.map_cons, List.drop_succ_cons, List.drop_zero, hbl]
        by_cases hx : x = 40
        · subst hx
          rw [nanTail_40]
          have hlow40 : lower 40 = 40 := by decide
          rw [hlow40]
          have htk : (110 :: 97 :: 110 :: 40 :: r2.map lower).take 4 = [110, 97, 110, 40] := rfl
          simp only [htk, true_and]
          -- the literal condition forces the closed shape
          have hclosed : (110 :: 97 :: 110 :: 40 :: r2.map lower).getLast? = some 41 ∧
              (r2.take (r2.length - 1)).all isNChar = true → r2 = r2.takeWhile isNChar ++ [41] := by
            rintro ⟨hlast, hmid⟩
            exact nan_closed [110, 97, 110, 40] r2 rfl hlast hmid
          by_cases hcond : (110 :: 97 :: 110 :: 40 :: r2.map lower).getLast? = some 41 ∧
              (r2.take (r2.length - 1)).all isNChar = true
          · have hr2 := hclosed hcond
            have hdr : r2.drop (r2.takeWhile isNChar).length = [41] := by
              conv => lhs; rw [hr2]
              rw [takeWhile_nchar_closed _ [] (all_takeWhile isNChar r2), List.drop_left]
            have hr2len : r2.length = (r2.takeWhile isNChar).length + 1 := by
              have := congrArg List.length hr2
              simp at this
              omega
            have hw : 3 + ((r2.takeWhile isNChar).length + 2) = body.length := by omega
            simp [hdr, hw, hcond]
          · simp only [hcond, if_false]
            by_cases hh : (r2.drop (r2.takeWhile isNChar).length).head? = some 41
            · simp only [hh, if_true]
              have hw : ¬ 3 + ((r2.takeWhile isNChar).length + 2) = body.length := by
                intro hw
                apply hcond
                -- whole: r2 = cs ++ [41]
                have hr2len : r2.length = (r2.takeWhile isNChar).length + 1 := by omega
                have hsplit := List.take_append_drop (r2.takeWhile isNChar).length r2
                have hdl : (r2.drop (r2.takeWhile isNChar).length).length = 1 := by simp; omega
                have hd1 : r2.drop (r2.takeWhile isNChar).length = [41] := by
                  cases hd : r2.drop (r2.takeWhile isNChar).length with
                  | nil => rw [hd] at hdl; simp at hdl
                  | cons y t =>
                    rw [hd] at hdl hh
                    simp at hdl hh
                    rw [hh, hdl]
                have htake := take_takeWhile_length isNChar r2
                have hr2 : r2 = r2.takeWhile isNChar ++ [41] := by
                  conv => lhs; rw [← hsplit, htake, hd1]
                have hlow41 : lower 41 = 41 := by decide
                constructor
                · rw [hr2]; simp [hlow41, List.getLast?_cons, List.getLast?_append]
                · have : r2.length - 1 = (r2.takeWhile isNChar).length := by omega
                  rw [this, htake]
                  exact List.all_eq_true.mpr (all_takeWhile isNChar r2)
              simp [hw]
            · simp only [hh, if_false]
              have hw : ¬ 3 + 0 = body.length := by omega
              simp [hw]
        · rw [nanTail_ne40 (by simpa using hx)]
          have hw : ¬ 3 + 0 = body.length := by omega
          simp only [hw, if_false]
          have : lower x ≠ 40 := fun e => hx (lower_40 e)
          simp [this]
    · have hnan' : matchCI [110, 97, 110] body = false := by simpa using hnan
      simp only [hnan', Bool.false_eq_true, if_false]
      have hnonan : ∀ x : CStr, body.map lower ≠ 110 :: 97 :: 110 :: x := by
        intro x e
        apply hnan
        rw [matchCI_iff]
        refine ⟨body.take 3, body.drop 3, (List.take_append_drop 3 body).symm, ?_⟩
        rw [List.map_take, e]
        rfl
      unfold specialLit
      have e1 : ¬ (body.map lower = [105, 110, 102] ∨ body.map lower = [105, 110, 102, 105, 110, 105, 116, 121]) := by
        rintro (e | e)
        · exact hnoinf _ e
        · exact hnoinf _ e
      have e2 : ¬ body.map lower = [110, 97, 110] := hnonan _
      have e3 : ¬ ((body.map lower).take 4 = [110, 97, 110, 40] ∧ (body.map lower).getLast? = some 41 ∧
          ((body.drop 4).take (body.length - 5)).all isNChar = true) := by
        rintro ⟨h4, _, _⟩
        have := List.take_append_drop 4 (body.map lower)
        rw [h4] at this
        exact hnonan _ this.symm
      simp only [e1, e2, e3, if_false]

end MgProof.C20

namespace MgProof.C20
open MgModel.C20

/-! ## assembling: the wrappers compute the specification -/

/-- sign handling, shared by the whole string and its stripped core -/
theorem sign_core (s1 : CStr) : ∃ sg s2 neg, s1 = sg ++ s2 ∧ scanSign s1 = (neg, sg.length, s2) ∧
    ∃ k, scanSign (rstripL s1) = (neg, k, rstripL s2) := by
  rcases scanSign_cases s1 with ⟨s2, e1, hsg⟩ | ⟨s2, e1, hsg⟩ | ⟨hsg, hn1, hn2⟩
  · refine ⟨[45], s2, true, e1, hsg, 1, ?_⟩
    have hc : rstripL s1 = 45 :: rstripL s2 := by
      rw [e1]; exact rstripL_append (a := [45]) (b := s2) (endsNonBlank_single (by decide))
    rw [hc]; rfl
  · refine ⟨[43], s2, false, e1, hsg, 1, ?_⟩
    have hc : rstripL s1 = 43 :: rstripL s2 := by
      rw [e1]; exact rstripL_append (a := [43]) (b := s2) (endsNonBlank_single (by decide))
    rw [hc]; rfl
  · refine ⟨[], s1, false, rfl, hsg, 0, ?_⟩
    rcases scanSign_cases (rstripL s1) with ⟨r, e, _⟩ | ⟨r, e, _⟩ | ⟨h, _, _⟩
    · exfalso
      obtain ⟨t, hdec, _, _⟩ := rstripL_decomp s1
      rw [e] at hdec
      apply hn1; rw [hdec]; rfl
    · exfalso
      obtain ⟨t, hdec, _, _⟩ := rstripL_decomp s1
      rw [e] at hdec
      apply hn2; rw [hdec]; rfl
    · exact h

/-- the token after the sign: value and characters consumed -/
def tokAfter (neg : Bool) (x : CStr) : Option (FVal × Nat) :=
  match scanNumber x with
  | some (num, den, n) => some (.fin neg num den, n)
  | none =>
    match scanSpecial x with
    | some (true, n) => some (.inf neg, n)
    | some (false, n) => some (.nan, n)
    | none => none

theorem tokAfter_blank (neg : Bool) (a t : CStr) (ht : Blank t) : tokAfter neg (a ++ t) = tokAfter neg a := by
  unfold tokAfter
  rw [scanNumber_blank a t ht, scanSpecial_blank a t ht]

theorem tokAfter_bound {neg : Bool} {a : CStr} {v : FVal} {n : Nat} (h : tokAfter neg a = some (v, n)) :
    0 < n ∧ n ≤ a.length := by
  unfold tokAfter at h
  cases hn : scanNumber a with
  | some res =>
    obtain ⟨num, den, n0⟩ := res
    rw [hn] at h
    simp only [Option.some.injEq, Prod.mk.injEq] at h
    have := scanNumber_bound hn
    omega
  | none =>
    rw [hn] at h
    cases hs : scanSpecial a with
    | none => rw [hs] at h; cases h
    | some res =>
      obtain ⟨k, n0⟩ := res
      have := scanSpecial_bound hs
      rw [hs] at h
      cases k <;> simp only [Option.some.injEq, Prod.mk.injEq] at h <;> omega

theorem strtodScan_eq (s : CStr) :
    strtodScan s =
      (match scanSign (s.dropWhile isSpace) with
       | (neg, nsign, s2) =>
         match tokAfter neg s2 with
         | some (v, n) => { val := v, consumed := (s.takeWhile isSpace).length + nsign + n }
         | none => { val := .fin false 0 1, consumed := 0 }) := by
  unfold strtodScan tokAfter
  dsimp only
  generalize scanSign (s.dropWhile isSpace) = p
  obtain ⟨neg, nsign, s2⟩ := p
  simp only
  cases scanNumber s2 with
  | some res => rfl
  | none =>
    simp only
    cases scanSpecial s2 with
    | none => rfl
    | some res =>
      obtain ⟨k, n⟩ := res
      cases k <;> rfl

theorem floatNumeral_eq (core : CStr) :
    floatNumeral core =
      (match scanSign core with
       | (neg, _, body) =>
         match tokAfter neg body with
         | some (v, n) => if n = body.length then some v else none
         | none => none) := by
  unfold floatNumeral tokAfter
  dsimp only
  generalize scanSign core = p
  obtain ⟨neg, k, body⟩ := p
  simp only
  cases scanNumber body with
  | some res => rfl
  | none =>
    simp only
    rw [specialLit_eq]
    unfold wholeSpecial
    cases scanSpecial body with
    | none => rfl
    | some res =>
      obtain ⟨k, n⟩ := res
      by_cases hn : n = body.length
      · cases k <;> simp [hn]
      · cases k <;> simp [hn]

/-- **the float scan against the specification**: the stripped string is one numeral with value
`v` iff `strtod` converts something with value `v` and only blanks follow -/
theorem float_scan_spec (s : CStr) :
    floatNumeral (stripBlanks s) =
      (if (strtodScan s).consumed ≠ 0 ∧ (s.drop (strtodScan s).consumed).all isSpace
       then some (strtodScan s).val else none) := by
  have hs : s = s.takeWhile isSpace ++ s.dropWhile isSpace := List.takeWhile_append_dropWhile.symm
  rw [stripBlanks_eq, strtodScan_eq, floatNumeral_eq]
  generalize hws : s.takeWhile isSpace = ws at hs
  generalize hs1 : s.dropWhile isSpace = s1 at hs
  obtain ⟨sg, s2, neg, e1, hsg, k, hcore⟩ := sign_core s1
  rw [hsg, hcore]
  simp only
  obtain ⟨t, hdec, ht, hend⟩ := rstripL_decomp s2
  have hloc : tokAfter neg s2 = tokAfter neg (rstripL s2) := by
    conv => lhs; rw [hdec]
    exact tokAfter_blank neg _ t ht
  rw [hloc]
  cases htok : tokAfter neg (rstripL s2) with
  | none => simp
  | some res =>
    obtain ⟨v, n⟩ := res
    obtain ⟨hn0, hnle⟩ := tokAfter_bound htok
    simp only
    have hdrop : s.drop (ws.length + sg.length + n) = (rstripL s2).drop n ++ t := by
      rw [hs, e1]
      conv => lhs; rw [hdec]
      have : ws ++ (sg ++ (rstripL s2 ++ t)) = (ws ++ sg) ++ (rstripL s2 ++ t) := by simp
      rw [this]
      have hl : ws.length + sg.length + n = (ws ++ sg).length + n := by simp
      rw [hl, List.drop_length_add_append, List.drop_append]
      have : n - (rstripL s2).length = 0 := by omega
      rw [this]; rfl
    rw [hdrop]
    have hne : ws.length + sg.length + n ≠ 0 := by omega
    by_cases hw : n = (rstripL s2).length
    · have hd0 : (rstripL s2).drop n = [] := List.drop_eq_nil_of_le (by omega)
      rw [hd0, List.nil_append]
      have hall : t.all isSpace = true := List.all_eq_true.mpr ht
      rw [if_pos hw, if_pos ⟨hne, hall⟩]
    · have hnb : ((rstripL s2).drop n ++ t).all isSpace = false := by
        -- the last character of the core is not blank and is still there
        cases hd : (rstripL s2).drop n with
        | nil =>
          exfalso
          have := congrArg List.length hd
          rw [List.length_drop, List.length_nil] at this
          omega
        | cons y r =>
          have hz : ((rstripL s2).drop n).getLast? = some (r.getLast?.getD y) := by
            rw [hd, List.getLast?_cons]
          have hlast : (rstripL s2).getLast? = some (r.getLast?.getD y) := by
            have hsplit := List.take_append_drop n (rstripL s2)
            rw [← hsplit, List.getLast?_append, hz]
            rfl
          have hzn : isSpace (r.getLast?.getD y) = false := hend _ hlast
          have hzm : r.getLast?.getD y ∈ (rstripL s2).drop n := List.mem_of_getLast? hz
          rw [hd] at hzm
          cases hall : (y :: r ++ t).all isSpace with
          | false => rfl
          | true =>
            have := List.all_eq_true.mp hall (r.getLast?.getD y) (by
              rw [List.mem_append]; exact Or.inl hzm)
            rw [this] at hzn; cases hzn
      rw [if_neg hw, if_neg (fun h => by rw [hnb] at h; cases h.2)]

theorem strToFloat_eq (f : Fmt) (s : CStr) : strToFloat f s = refParseFloat f s := by
  unfold strToFloat refParseFloat
  rw [float_scan_spec s]
  by_cases h0 : (strtodScan s).consumed = 0
  · simp [h0]
  · simp only [h0, if_false, ne_eq, not_false_eq_true, true_and]
    rw [trailingOk_eq]
    by_cases ht : (s.drop (strtodScan s).consumed).all isSpace = true
    · simp only [ht, Bool.not_true, Bool.false_eq_true, if_false, if_true]
    · have ht' : (s.drop (strtodScan s).consumed).all isSpace = false := by simpa using ht
      simp [ht']

end MgProof.C20
