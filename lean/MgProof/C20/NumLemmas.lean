import MgModel.C20.Num
import MgProof.C20.StrLemmas
/-!
# C20 — integer parsers: the wrappers' decision chains compute exactly the specification
`refParse` ("the stripped string is one numeral whose exact value is in range").
-/
namespace MgProof.C20
open MgModel.C20

/-! ## generic facts about takeWhile / dropWhile / trailing blanks -/

theorem all_takeWhile {α : Type} (p : α → Bool) : ∀ (l : List α), ∀ x ∈ l.takeWhile p, p x = true
  | [], x, h => by simp at h
  | a :: l, x, h => by
    rw [List.takeWhile_cons] at h
    by_cases ha : p a = true
    · simp only [ha, if_true, List.mem_cons] at h
      rcases h with rfl | h
      · exact ha
      · exact all_takeWhile p l x h
    · simp [ha] at h

theorem dropWhile_of_all {α : Type} (p : α → Bool) : ∀ (l1 l2 : List α), (∀ x ∈ l1, p x = true) →
    (l1 ++ l2).dropWhile p = l2.dropWhile p
  | [], _, _ => rfl
  | a :: l1, l2, h => by
    have ha : p a = true := h a (by simp)
    simp only [List.cons_append, List.dropWhile_cons, ha, if_true]
    exact dropWhile_of_all p l1 l2 (fun x hx => h x (by simp [hx]))

theorem takeWhile_of_all {α : Type} (p : α → Bool) : ∀ (l1 l2 : List α), (∀ x ∈ l1, p x = true) →
    (l1 ++ l2).takeWhile p = l1 ++ l2.takeWhile p
  | [], _, _ => rfl
  | a :: l1, l2, h => by
    have ha : p a = true := h a (by simp)
    simp only [List.cons_append, List.takeWhile_cons, ha, if_true]
    rw [takeWhile_of_all p l1 l2 (fun x hx => h x (by simp [hx]))]

theorem dropWhile_head_not {α : Type} (p : α → Bool) (l : List α) (a : α) (t : List α)
    (h : l.dropWhile p = a :: t) : p a = false := by
  have := List.head?_dropWhile_not p l
  rw [h] at this
  simpa using this

theorem dropWhile_stop {α : Type} (p : α → Bool) (a : α) (t : List α) (h : p a = false) :
    (a :: t).dropWhile p = a :: t := by simp [h]

theorem takeWhile_stop {α : Type} (p : α → Bool) (a : α) (t : List α) (h : p a = false) :
    (a :: t).takeWhile p = [] := by simp [h]

/-- the string without trailing blanks -/
def rstripL (l : CStr) : CStr := (l.reverse.dropWhile isSpace).reverse

theorem stripBlanks_eq (s : CStr) : stripBlanks s = rstripL (s.dropWhile isSpace) := rfl

/-- `l` ends with a non-blank character or is empty -/
def EndsNonBlank (l : CStr) : Prop := ∀ x, l.getLast? = some x → isSpace x = false

theorem rstripL_decomp (l : CStr) :
    ∃ t, l = rstripL l ++ t ∧ (∀ x ∈ t, isSpace x = true) ∧ EndsNonBlank (rstripL l) := by
  refine ⟨(l.reverse.takeWhile isSpace).reverse, ?_, ?_, ?_⟩
  · have := List.takeWhile_append_dropWhile (p := isSpace) (l := l.reverse)
    have h2 := congrArg List.reverse this
    simp only [List.reverse_append, List.reverse_reverse] at h2
    exact h2.symm
  · intro x hx
    exact all_takeWhile isSpace _ x (by simpa using hx)
  · intro x hx
    unfold rstripL at hx
    rw [List.getLast?_reverse] at hx
    cases hd : l.reverse.dropWhile isSpace with
    | nil => rw [hd] at hx; simp at hx
    | cons a t =>
      rw [hd] at hx; simp at hx; subst hx
      exact dropWhile_head_not isSpace _ _ _ hd

theorem rstripL_of_ends {a t : CStr} (ha : EndsNonBlank a) (ht : ∀ x ∈ t, isSpace x = true) :
    rstripL (a ++ t) = a := by
  unfold rstripL
  rw [List.reverse_append, dropWhile_of_all isSpace _ _ (by simpa using ht)]
  cases hr : a.reverse with
  | nil =>
    have : a = [] := by simpa using hr
    simp [this]
  | cons x r =>
    have hx : a.getLast? = some x := by
      rw [← List.head?_reverse, hr]; rfl
    rw [dropWhile_stop isSpace x r (ha x hx), ← hr, List.reverse_reverse]

theorem endsNonBlank_append {a b : CStr} (ha : EndsNonBlank a) (hb : EndsNonBlank b) :
    EndsNonBlank (a ++ b) := by
  intro x hx
  rw [List.getLast?_append] at hx
  cases hbl : b.getLast? with
  | none => rw [hbl] at hx; exact ha x (by simpa using hx)
  | some y => rw [hbl] at hx; simp at hx; subst hx; exact hb y hbl

/-- trailing blanks are removed behind a prefix that does not end in a blank -/
theorem rstripL_append {a b : CStr} (ha : EndsNonBlank a) : rstripL (a ++ b) = a ++ rstripL b := by
  obtain ⟨t, hb, ht, hend⟩ := rstripL_decomp b
  have : a ++ b = (a ++ rstripL b) ++ t := by rw [List.append_assoc, ← hb]
  rw [this, rstripL_of_ends (endsNonBlank_append ha hend) ht]

theorem endsNonBlank_nil : EndsNonBlank [] := by intro x hx; simp at hx

theorem endsNonBlank_of_all {l : CStr} (h : ∀ x ∈ l, isSpace x = false) : EndsNonBlank l := by
  intro x hx
  exact h x (List.mem_of_getLast? hx)

theorem rstripL_all_blank {t : CStr} (ht : ∀ x ∈ t, isSpace x = true) : rstripL t = [] := by
  have := rstripL_of_ends (a := []) endsNonBlank_nil ht
  simpa using this

theorem rstripL_eq_nil_iff (l : CStr) : rstripL l = [] ↔ ∀ x ∈ l, isSpace x = true := by
  constructor
  · intro h
    obtain ⟨t, hb, ht, _⟩ := rstripL_decomp l
    rw [h] at hb
    simp at hb
    rw [hb]; exact ht
  · exact rstripL_all_blank

/-- `rstripL l` is a prefix of `l`, so a non-empty one has the same first character -/
theorem rstripL_head {l : CStr} {a : Nat} {t : CStr} (h : l = a :: t) (hne : rstripL l ≠ []) :
    ∃ t', rstripL l = a :: t' := by
  obtain ⟨tl, hb, _, _⟩ := rstripL_decomp l
  cases hr : rstripL l with
  | nil => exact absurd hr hne
  | cons x r =>
    rw [hr, h] at hb
    simp at hb
    exact ⟨r, by rw [hb.1]⟩

/-- the wrappers' test "end of string or only blanks follow" -/
theorem trailingOk_eq (rest : CStr) : trailingOk rest = rest.all isSpace := by
  unfold trailingOk
  rw [lstripGo_eq]
  cases rest with
  | nil => simp
  | cons a t =>
    by_cases h : (a :: t).all isSpace = true
    · simp [h]
    · have h' : ¬ (isSpace a = true ∧ ∀ x ∈ t, isSpace x = true) := by simpa using h
      simp only [h, Bool.false_eq_true, and_false, if_false]
      simp

/-! ## shapes of sign and prefix -/

theorem scanSign_cases (s1 : CStr) :
    (∃ r, s1 = 45 :: r ∧ scanSign s1 = (true, 1, r)) ∨
    (∃ r, s1 = 43 :: r ∧ scanSign s1 = (false, 1, r)) ∨
    (scanSign s1 = (false, 0, s1) ∧ s1.head? ≠ some 45 ∧ s1.head? ≠ some 43) := by
  cases s1 with
  | nil => right; right; simp [scanSign]
  | cons c r =>
    by_cases h1 : c = 45
    · subst h1; left; exact ⟨r, rfl, rfl⟩
    · by_cases h2 : c = 43
      · subst h2; right; left; exact ⟨r, rfl, rfl⟩
      · right; right
        refine ⟨?_, by simpa using h1, by simpa using h2⟩
        unfold scanSign
        split
        · rename_i heq; simp at heq; exact absurd heq.1 h1
        · rename_i heq; simp at heq; exact absurd heq.1 h2
        · rfl

/-- has the `0x` / `0X` marker in front -/
def HasHexMark (base : Nat) (r : CStr) : Prop :=
  (base = 0 ∨ base = 16) ∧ (r.head? = some 120 ∨ r.head? = some 88)

instance (base : Nat) (r : CStr) : Decidable (HasHexMark base r) := by
  unfold HasHexMark; exact inferInstance

def effBase (base dflt : Nat) : Nat := if base = 0 then dflt else base

theorem scanPrefix_zero_mark {base : Nat} {r : CStr} (h : HasHexMark base r) :
    scanPrefix base (48 :: r) = (16, 2, r.tail) := by
  unfold HasHexMark at h
  simp [scanPrefix, h]

theorem scanPrefix_zero_nomark {base : Nat} {r : CStr} (h : ¬ HasHexMark base r) :
    scanPrefix base (48 :: r) = (effBase base 8, 0, 48 :: r) := by
  unfold HasHexMark at h
  unfold effBase
  by_cases hb : base = 0
  · subst hb
    have h' : ¬ (r.head? = some 120 ∨ r.head? = some 88) := by simpa using h
    simp [scanPrefix, h']
  · by_cases h16 : base = 16
    · subst h16
      have h' : ¬ (r.head? = some 120 ∨ r.head? = some 88) := by simpa using h
      simp [scanPrefix, h']
    · simp [scanPrefix, hb, h16]

theorem scanPrefix_nonzero {base : Nat} {s : CStr} (h : s.head? ≠ some 48) :
    scanPrefix base s = (effBase base 10, 0, s) := by
  unfold scanPrefix effBase
  split
  · rename_i r; simp at h
  · by_cases hb : base = 0 <;> simp [hb]

theorem numeralBody_nonzero {base : Nat} {s : CStr} (h : s.head? ≠ some 48) :
    numeralBody base s = (effBase base 10, s) := by
  unfold numeralBody effBase
  split
  · simp at h
  · simp at h
  · by_cases hb : base = 0 <;> simp [hb]

theorem numeralBody_zero_nomark {base : Nat} {r : CStr} (h : ¬ HasHexMark base r) :
    numeralBody base (48 :: r) = (effBase base 8, 48 :: r) := by
  unfold HasHexMark at h
  unfold effBase
  cases r with
  | nil => by_cases hb : base = 0 <;> simp [numeralBody, hb]
  | cons x r2 =>
    cases r2 with
    | nil => by_cases hb : base = 0 <;> simp [numeralBody, hb]
    | cons d tl =>
      simp at h
      by_cases hb : base = 0
      · subst hb
        have : ¬ (x = 120 ∨ x = 88) := by simpa using h
        simp [numeralBody, this]
      · by_cases h16 : base = 16
        · subst h16
          have : ¬ (x = 120 ∨ x = 88) := by simpa using h
          simp [numeralBody, this]
        · simp [numeralBody, hb, h16]

theorem numeralBody_mark_digit {base : Nat} {x d : Nat} {tl : CStr} (h : HasHexMark base (x :: d :: tl))
    (hd : isDigitIn 16 d = true) : numeralBody base (48 :: x :: d :: tl) = (16, d :: tl) := by
  unfold HasHexMark at h
  simp at h
  simp [numeralBody, h, hd]


/-! ## digits -/

theorem digit_not_space {b c : Nat} (h : isDigitIn b c = true) : isSpace c = false := by
  unfold isDigitIn digitVal at h
  unfold isSpace
  by_cases h1 : 48 ≤ c ∧ c ≤ 57
  · have : ¬ c = 32 := by omega
    have h2 : ¬ c ≤ 13 := by omega
    simp [this, h2]
  · by_cases h2 : 65 ≤ c ∧ c ≤ 90
    · have : ¬ c = 32 := by omega
      have h3 : ¬ c ≤ 13 := by omega
      simp [this, h3]
    · by_cases h3 : 97 ≤ c ∧ c ≤ 122
      · have : ¬ c = 32 := by omega
        have h4 : ¬ c ≤ 13 := by omega
        simp [this, h4]
      · simp [h1, h2, h3] at h

theorem zero_isDigit {b : Nat} (hb : 2 ≤ b) : isDigitIn b 48 = true := by
  have : 0 < b := by omega
  simp [isDigitIn, digitVal, this]

theorem mark_not_digit {b x : Nat} (hb : b ≤ 16) (hx : x = 120 ∨ x = 88) : isDigitIn b x = false := by
  rcases hx with rfl | rfl
  · simp [isDigitIn, digitVal]; omega
  · simp [isDigitIn, digitVal]; omega

theorem effBase_ge {base d : Nat} (hb : validBase base = true) (hd : 2 ≤ d) : 2 ≤ effBase base d := by
  unfold effBase validBase at *
  by_cases h : base = 0
  · simp [h]; exact hd
  · simp [h] at hb ⊢; omega

/-- a non-empty run of digits followed by `rest3`: trailing blanks are removed behind the
digits, and the remainder consists of digits only iff `rest3` is blank -/
theorem digits_split (b : Nat) (s3 : CStr) :
    rstripL s3 = s3.takeWhile (isDigitIn b) ++ rstripL (s3.dropWhile (isDigitIn b)) ∧
    (s3.takeWhile (isDigitIn b) ++ rstripL (s3.dropWhile (isDigitIn b))).all (isDigitIn b) =
      (s3.dropWhile (isDigitIn b)).all isSpace := by
  have hall := all_takeWhile (isDigitIn b) s3
  have hends : EndsNonBlank (s3.takeWhile (isDigitIn b)) :=
    endsNonBlank_of_all (fun x hx => digit_not_space (hall x hx))
  constructor
  · conv => lhs; rw [← List.takeWhile_append_dropWhile (p := isDigitIn b) (l := s3)]
    exact rstripL_append hends
  · rw [List.all_append]
    have h1 : (s3.takeWhile (isDigitIn b)).all (isDigitIn b) = true := List.all_eq_true.mpr hall
    rw [h1, Bool.true_and]
    by_cases hblank : (s3.dropWhile (isDigitIn b)).all isSpace = true
    · rw [hblank, rstripL_all_blank (List.all_eq_true.mp hblank)]; rfl
    · have hne' : rstripL (s3.dropWhile (isDigitIn b)) ≠ [] := by
        intro e
        exact hblank (List.all_eq_true.mpr ((rstripL_eq_nil_iff _).mp e))
      cases hd : s3.dropWhile (isDigitIn b) with
      | nil => rw [hd] at hblank; simp at hblank
      | cons a t =>
        have ha : isDigitIn b a = false := dropWhile_head_not _ _ _ _ hd
        rw [hd] at hne'
        obtain ⟨t', ht'⟩ := rstripL_head rfl hne'
        rw [hd] at hblank
        rw [ht']
        have hb' : (a :: t).all isSpace = false := by
          cases h : (a :: t).all isSpace with
          | false => rfl
          | true => exact absurd h hblank
        rw [hb']
        simp [ha]

theorem drop_prefixes (pfx a b c : CStr) :
    (pfx ++ (a ++ (b ++ c))).drop (pfx.length + a.length + b.length) = c := by
  have : pfx ++ (a ++ (b ++ c)) = (pfx ++ a ++ b) ++ c := by simp
  rw [this]
  have hl : pfx.length + a.length + b.length = (pfx ++ a ++ b).length := by simp; omega
  rw [hl, List.drop_left]

/-! ## the scan after blanks and sign, against the numeral specification -/

/-- the part of `strtoScan` after blanks and sign (`k` characters consumed so far) -/
def scanFrom (base k : Nat) (neg : Bool) (s2 : CStr) : Scan :=
  match scanPrefix base s2 with
  | (b, npre, s3) =>
    if s3.takeWhile (isDigitIn b) = [] then
      (if npre = 2 then { neg := neg, mag := 0, consumed := k + 1 }
       else { neg := false, mag := 0, consumed := 0 })
    else { neg := neg, mag := digitsValue b (s3.takeWhile (isDigitIn b)),
           consumed := k + npre + (s3.takeWhile (isDigitIn b)).length }

/-- the part of `numeralValue` after the sign -/
def bodyValue (base : Nat) (neg : Bool) (body : CStr) : Option Int :=
  match numeralBody base body with
  | (b, ds) =>
    if ds ≠ [] ∧ ds.all (isDigitIn b) then
      some (if neg then -(digitsValue b ds : Int) else (digitsValue b ds : Int))
    else none

/-- what a wrapper can see of a scan: a conversion happened and only blanks follow -/
def scanOutcome (sc : Scan) (s : CStr) : Option Int :=
  if sc.consumed ≠ 0 ∧ (s.drop sc.consumed).all isSpace then
    some (if sc.neg then -(sc.mag : Int) else (sc.mag : Int))
  else none

/-- common part: a non-empty digit run `ds` after the consumed prefix `pre` -/
theorem digits_case (base b : Nat) (neg : Bool) (pfx pre s3 : CStr)
    (hpre : EndsNonBlank pre) (hne : s3.takeWhile (isDigitIn b) ≠ [])
    (hnb : numeralBody base (pre ++ (s3.takeWhile (isDigitIn b) ++ rstripL (s3.dropWhile (isDigitIn b)))) =
      (b, s3.takeWhile (isDigitIn b) ++ rstripL (s3.dropWhile (isDigitIn b)))) :
    bodyValue base neg (rstripL (pre ++ s3)) =
      scanOutcome { neg := neg, mag := digitsValue b (s3.takeWhile (isDigitIn b)),
                    consumed := pfx.length + pre.length + (s3.takeWhile (isDigitIn b)).length }
        (pfx ++ (pre ++ s3)) := by
  obtain ⟨hsplit, hall⟩ := digits_split b s3
  have hdrop : (pfx ++ (pre ++ s3)).drop (pfx.length + pre.length + (s3.takeWhile (isDigitIn b)).length) =
      s3.dropWhile (isDigitIn b) := by
    have e : pfx ++ (pre ++ s3) =
        pfx ++ (pre ++ (s3.takeWhile (isDigitIn b) ++ s3.dropWhile (isDigitIn b))) := by
      rw [List.takeWhile_append_dropWhile]
    rw [e]
    exact drop_prefixes pfx pre _ _
  have hcons : pfx.length + pre.length + (s3.takeWhile (isDigitIn b)).length ≠ 0 := by
    have : (s3.takeWhile (isDigitIn b)).length ≠ 0 := fun e => hne (List.eq_nil_of_length_eq_zero e)
    omega
  unfold bodyValue scanOutcome
  rw [rstripL_append hpre, hsplit, hnb]
  simp only [hdrop, hall, ne_eq, hcons, not_false_eq_true, true_and]
  have hne2 : s3.takeWhile (isDigitIn b) ++ rstripL (s3.dropWhile (isDigitIn b)) ≠ [] := by
    intro e
    exact hne (List.append_eq_nil_iff.mp e).1
  simp only [hne2, not_false_eq_true, true_and]
  by_cases hblank : (s3.dropWhile (isDigitIn b)).all isSpace = true
  · simp only [hblank, if_true]
    rw [rstripL_all_blank (List.all_eq_true.mp hblank), List.append_nil]
  · simp [hblank]

theorem endsNonBlank_mark {x : Nat} (hx : x = 120 ∨ x = 88) : EndsNonBlank [48, x] := by
  apply endsNonBlank_of_all
  intro y hy
  simp at hy
  rcases hy with rfl | rfl
  · decide
  · rcases hx with rfl | rfl <;> decide

theorem numeralBody_mark_short {base x : Nat} : numeralBody base [48, x] = (effBase base 8, [48, x]) := by
  unfold effBase
  by_cases hb : base = 0 <;> simp [numeralBody, hb]

theorem numeralBody_mark_nodigit {base x d : Nat} {tl : CStr} (hd : isDigitIn 16 d = false) :
    numeralBody base (48 :: x :: d :: tl) = (effBase base 8, 48 :: x :: d :: tl) := by
  unfold effBase
  by_cases hb : base = 0 <;> simp [numeralBody, hb, hd]

theorem takeWhile_nil_head {p : Nat → Bool} {a : Nat} {t : CStr} (h : (a :: t).takeWhile p = []) :
    p a = false := by
  rw [List.takeWhile_cons] at h
  by_cases ha : p a = true
  · simp [ha] at h
  · simpa using ha

theorem scanFrom_spec (base : Nat) (hb : validBase base = true) (pfx s2 : CStr) (neg : Bool) :
    bodyValue base neg (rstripL s2) = scanOutcome (scanFrom base pfx.length neg s2) (pfx ++ s2) := by
  by_cases h48 : s2.head? = some 48
  · -- the string starts with '0'
    obtain ⟨r, rfl⟩ : ∃ r, s2 = 48 :: r := by
      cases s2 with
      | nil => simp at h48
      | cons a r => simp at h48; exact ⟨r, by rw [h48]⟩
    by_cases hm : HasHexMark base r
    · -- 0x / 0X consumed as a prefix
      obtain ⟨x, s3, rfl, hx⟩ : ∃ x s3, r = x :: s3 ∧ (x = 120 ∨ x = 88) := by
        cases r with
        | nil => simp [HasHexMark] at hm
        | cons x s3 => exact ⟨x, s3, rfl, by simpa [HasHexMark] using hm.2⟩
      have hb16 : effBase base 8 ≤ 16 := by
        unfold effBase; rcases hm.1 with h | h <;> simp [h]
      unfold scanFrom
      rw [scanPrefix_zero_mark hm]
      simp only [List.tail_cons]
      by_cases hds : s3.takeWhile (isDigitIn 16) = []
      · -- no hex digit follows: value 0, endptr at the 'x'
        simp only [hds, if_true]
        have hxs : isSpace x = false := by rcases hx with rfl | rfl <;> decide
        have hdrop : (pfx ++ 48 :: x :: s3).drop (pfx.length + 1) = x :: s3 := by
          have e : pfx ++ 48 :: x :: s3 = (pfx ++ [48]) ++ (x :: s3) := by simp
          have hl : pfx.length + 1 = (pfx ++ [48]).length := by simp
          rw [e, hl, List.drop_left]
        have hout : scanOutcome { neg := neg, mag := 0, consumed := pfx.length + 1 } (pfx ++ 48 :: x :: s3) = none := by
          unfold scanOutcome
          simp [hdrop, hxs]
        rw [hout]
        unfold bodyValue
        have hr : rstripL (48 :: x :: s3) = 48 :: x :: rstripL s3 :=
          rstripL_append (a := [48, x]) (b := s3) (endsNonBlank_mark hx)
        rw [hr]
        have hxd : isDigitIn (effBase base 8) x = false := mark_not_digit hb16 hx
        cases hrs : rstripL s3 with
        | nil =>
          rw [numeralBody_mark_short]
          simp [hxd]
        | cons d tl =>
          have hd : isDigitIn 16 d = false := by
            cases s3 with
            | nil => simp [rstripL] at hrs
            | cons d' t3 =>
              obtain ⟨t', ht'⟩ := rstripL_head (l := d' :: t3) rfl (by rw [hrs]; simp)
              rw [hrs] at ht'
              simp at ht'
              rw [ht'.1]
              exact takeWhile_nil_head hds
          rw [numeralBody_mark_nodigit hd]
          simp [hxd]
      · -- hex digits follow the marker
        simp only [hds, if_false]
        obtain ⟨d, ds', hdd⟩ : ∃ d ds', s3.takeWhile (isDigitIn 16) = d :: ds' := by
          cases h : s3.takeWhile (isDigitIn 16) with
          | nil => exact absurd h hds
          | cons d ds' => exact ⟨d, ds', rfl⟩
        have hdig : isDigitIn 16 d = true :=
          all_takeWhile (isDigitIn 16) s3 d (by rw [hdd]; simp)
        have hnb : numeralBody base ([48, x] ++ (s3.takeWhile (isDigitIn 16) ++ rstripL (s3.dropWhile (isDigitIn 16)))) =
            (16, s3.takeWhile (isDigitIn 16) ++ rstripL (s3.dropWhile (isDigitIn 16))) := by
          rw [hdd]
          exact numeralBody_mark_digit (tl := ds' ++ rstripL (s3.dropWhile (isDigitIn 16)))
            (by simpa [HasHexMark] using And.intro hm.1 hx) hdig
        have := digits_case base 16 neg pfx [48, x] s3 (endsNonBlank_mark hx) hds hnb
        simpa using this
    · -- a plain leading zero
      have hb2 : 2 ≤ effBase base 8 := effBase_ge hb (by omega)
      unfold scanFrom
      rw [scanPrefix_zero_nomark hm]
      have hds : (48 :: r).takeWhile (isDigitIn (effBase base 8)) ≠ [] := by
        rw [List.takeWhile_cons, zero_isDigit hb2]; simp
      simp only [hds, if_false]
      have hnb : numeralBody base ([] ++ ((48 :: r).takeWhile (isDigitIn (effBase base 8)) ++
            rstripL ((48 :: r).dropWhile (isDigitIn (effBase base 8))))) =
          (effBase base 8, (48 :: r).takeWhile (isDigitIn (effBase base 8)) ++
            rstripL ((48 :: r).dropWhile (isDigitIn (effBase base 8)))) := by
        obtain ⟨hsplit, _⟩ := digits_split (effBase base 8) (48 :: r)
        rw [List.nil_append, ← hsplit]
        obtain ⟨t, hdec, _, _⟩ := rstripL_decomp (48 :: r)
        obtain ⟨tl, htl⟩ := rstripL_head (l := 48 :: r) rfl (by
          rw [hsplit]; intro e; exact hds (List.append_eq_nil_iff.mp e).1)
        rw [htl]
        apply numeralBody_zero_nomark
        intro hm'
        apply hm
        refine ⟨hm'.1, ?_⟩
        rw [htl] at hdec
        simp at hdec
        rw [hdec]
        cases tl with
        | nil => exact absurd hm'.2 (by simp)
        | cons y tl' => simpa using hm'.2
      have := digits_case base (effBase base 8) neg pfx [] (48 :: r) endsNonBlank_nil hds hnb
      simpa using this
  · -- no leading zero: no prefix
    unfold scanFrom
    rw [scanPrefix_nonzero h48]
    have hhead : ∀ body : CStr, (∃ t, s2 = body ++ t) → body.head? ≠ some 48 := by
      rintro body ⟨t, ht⟩ hbody
      apply h48
      cases body with
      | nil => simp at hbody
      | cons a b' => rw [ht]; simpa using hbody
    by_cases hds : s2.takeWhile (isDigitIn (effBase base 10)) = []
    · simp only [hds, if_true]
      have hout : scanOutcome { neg := false, mag := 0, consumed := 0 } (pfx ++ s2) = none := by
        simp [scanOutcome]
      have h20 : ¬ (0 = 2) := by omega
      simp only [h20, if_false, hout]
      unfold bodyValue
      obtain ⟨t, hdec, _, _⟩ := rstripL_decomp s2
      rw [numeralBody_nonzero (hhead _ ⟨t, hdec⟩)]
      cases hrs : rstripL s2 with
      | nil => simp
      | cons a tl =>
        have ha : isDigitIn (effBase base 10) a = false := by
          cases s2 with
          | nil => simp [rstripL] at hrs
          | cons a' t2 =>
            obtain ⟨t', ht'⟩ := rstripL_head (l := a' :: t2) rfl (by rw [hrs]; simp)
            rw [hrs] at ht'
            simp at ht'
            rw [ht'.1]
            exact takeWhile_nil_head hds
        simp [ha]
    · simp only [hds, if_false]
      have hnb : numeralBody base ([] ++ (s2.takeWhile (isDigitIn (effBase base 10)) ++
            rstripL (s2.dropWhile (isDigitIn (effBase base 10))))) =
          (effBase base 10, s2.takeWhile (isDigitIn (effBase base 10)) ++
            rstripL (s2.dropWhile (isDigitIn (effBase base 10)))) := by
        obtain ⟨hsplit, _⟩ := digits_split (effBase base 10) s2
        rw [List.nil_append, ← hsplit]
        obtain ⟨t, hdec, _, _⟩ := rstripL_decomp s2
        exact numeralBody_nonzero (hhead _ ⟨t, hdec⟩)
      have := digits_case base (effBase base 10) neg pfx [] s2 endsNonBlank_nil hds hnb
      simpa using this

theorem strtoScan_eq (s : CStr) (base : Nat) :
    strtoScan s base =
      (match scanSign (s.dropWhile isSpace) with
       | (neg, nsign, s2) => scanFrom base ((s.takeWhile isSpace).length + nsign) neg s2) := by
  unfold strtoScan scanFrom
  rfl

theorem numeralValue_eq (base : Nat) (core : CStr) :
    numeralValue base core =
      (match scanSign core with
       | (neg, _, body) => bodyValue base neg body) := by
  unfold numeralValue bodyValue
  rfl

theorem endsNonBlank_single {c : Nat} (h : isSpace c = false) : EndsNonBlank [c] := by
  apply endsNonBlank_of_all
  intro y hy
  simp at hy
  rw [hy]; exact h

/-- **the scan against the specification**: the stripped string is one numeral with exact
value `v` iff `strtol`/`strtoul` convert something, only blanks follow, and the sign and
exact magnitude they read make `v` -/
theorem scan_spec (s : CStr) (base : Nat) (hb : validBase base = true) :
    numeralValue base (stripBlanks s) = scanOutcome (strtoScan s base) s := by
  have hs : s = s.takeWhile isSpace ++ s.dropWhile isSpace := List.takeWhile_append_dropWhile.symm
  rw [stripBlanks_eq, strtoScan_eq, numeralValue_eq]
  generalize hws : s.takeWhile isSpace = ws at hs
  generalize hs1 : s.dropWhile isSpace = s1 at hs
  rcases scanSign_cases s1 with ⟨s2, e1, hsg⟩ | ⟨s2, e1, hsg⟩ | ⟨hsg, hn1, hn2⟩
  · rw [hsg]
    have hc : rstripL s1 = 45 :: rstripL s2 := by
      rw [e1]; exact rstripL_append (a := [45]) (b := s2) (endsNonBlank_single (by decide))
    rw [hc]
    show bodyValue base true (rstripL s2) = _
    have := scanFrom_spec base hb (ws ++ [45]) s2 true
    rw [this, hs, e1]
    simp
  · rw [hsg]
    have hc : rstripL s1 = 43 :: rstripL s2 := by
      rw [e1]; exact rstripL_append (a := [43]) (b := s2) (endsNonBlank_single (by decide))
    rw [hc]
    show bodyValue base false (rstripL s2) = _
    have := scanFrom_spec base hb (ws ++ [43]) s2 false
    rw [this, hs, e1]
    simp
  · rw [hsg]
    have hcore : scanSign (rstripL s1) = (false, 0, rstripL s1) := by
      rcases scanSign_cases (rstripL s1) with ⟨r, e, _⟩ | ⟨r, e, _⟩ | ⟨h, _, _⟩
      · exfalso
        obtain ⟨t, hdec, _, _⟩ := rstripL_decomp s1
        rw [e] at hdec
        apply hn1; rw [hdec]; rfl
      · exfalso
        obtain ⟨t, hdec, _, _⟩ := rstripL_decomp s1
        rw [e] at hdec
        apply hn2; rw [hdec]; rfl
      · exact h
    rw [hcore]
    show bodyValue base false (rstripL s1) = _
    have := scanFrom_spec base hb ws s1 false
    rw [this, hs]
    simp

/-! ## the wrappers -/

theorem refParse_eq (lo hi : Int) (s : CStr) (base : Nat) (hb : validBase base = true) :
    refParse lo hi s base =
      (match scanOutcome (strtoScan s base) s with
       | some v => if lo ≤ v ∧ v ≤ hi then some v else none
       | none => none) := by
  unfold refParse
  rw [scan_spec s base hb]
  cases scanOutcome (strtoScan s base) s <;> rfl

theorem scanOutcome_none_of_consumed {sc : Scan} {s : CStr} (h : sc.consumed = 0) :
    scanOutcome sc s = none := by simp [scanOutcome, h]

theorem scanOutcome_none_of_trailing {sc : Scan} {s : CStr} (h : trailingOk (s.drop sc.consumed) = false) :
    scanOutcome sc s = none := by
  rw [trailingOk_eq] at h
  simp [scanOutcome, h]

theorem scanOutcome_some {sc : Scan} {s : CStr} (h0 : sc.consumed ≠ 0)
    (h : trailingOk (s.drop sc.consumed) = true) :
    scanOutcome sc s = some (if sc.neg then -(sc.mag : Int) else (sc.mag : Int)) := by
  rw [trailingOk_eq] at h
  simp [scanOutcome, h0, h]

macro "close_arith" : tactic =>
  `(tactic| first | rfl | omega | (exfalso; omega) | (exfalso; simp_all; done) | (exfalso; simp_all; omega) | (simp_all; done) | (simp_all; omega))

theorem two63 : (2 : Nat) ^ (64 - 1) = 9223372036854775808 := by decide
theorem two63i : (2 : Int) ^ (64 - 1) = 9223372036854775808 := by decide
theorem two64 : (2 : Nat) ^ 64 = 18446744073709551616 := by decide

/-- the decision chain of `toi` after the trailing test, as arithmetic on sign and magnitude -/
theorem toi_arith (sc : Scan) :
    (if ((strtolVal 64 sc).fst = LONG_MAX ∨ (strtolVal 64 sc).fst = LONG_MIN) ∧ (strtolVal 64 sc).snd = true then
        (Except.ok none : Except Err (Option Int))
      else if (strtolVal 64 sc).fst > INT_MAX ∨ (strtolVal 64 sc).fst < INT_MIN then Except.ok none
      else Except.ok (some (strtolVal 64 sc).fst)) =
    Except.ok
      (if (INT_MIN ≤ if sc.neg = true then -(sc.mag : Int) else (sc.mag : Int)) ∧
            (if sc.neg = true then -(sc.mag : Int) else (sc.mag : Int)) ≤ INT_MAX then
        some (if sc.neg = true then -(sc.mag : Int) else (sc.mag : Int))
      else none) := by
  obtain ⟨neg, mag, c⟩ := sc
  unfold strtolVal INT_MAX INT_MIN LONG_MAX LONG_MIN
  simp only [two63, two63i]
  cases neg <;> simp only [Bool.false_eq_true, if_false, if_true]
  · by_cases hm : mag > 9223372036854775808 - 1
    · simp only [hm, if_true]
      repeat' split
      all_goals close_arith
    · simp only [hm, if_false]
      repeat' split
      all_goals close_arith
  · by_cases hm : mag > 9223372036854775808
    · simp only [hm, if_true]
      repeat' split
      all_goals close_arith
    · simp only [hm, if_false]
      repeat' split
      all_goals close_arith

/-- `muggle_str_toi` (fixed) computes the specification with the range of `int` -/
theorem strToi_eq (s : CStr) (base : Nat) (hb : validBase base = true) :
    strToi s base = .ok (refParse INT_MIN INT_MAX s base) := by
  rw [refParse_eq _ _ _ _ hb]
  unfold strToi
  simp only [hb, Bool.not_true, Bool.false_eq_true, if_false]
  generalize strtoScan s base = sc
  by_cases h0 : sc.consumed = 0
  · simp [h0, scanOutcome_none_of_consumed h0]
  · by_cases ht : trailingOk (s.drop sc.consumed) = true
    · rw [scanOutcome_some h0 ht]
      simp only [h0, if_false, ht, Bool.not_true, Bool.false_eq_true]
      exact toi_arith sc
    · have ht' : trailingOk (s.drop sc.consumed) = false := by simpa using ht
      rw [scanOutcome_none_of_trailing ht']
      simp [h0, ht']

theorem strTol_shape (s : CStr) (base : Nat) (hb : validBase base = true) :
    strTol s base =
      (if (strtoScan s base).consumed = 0 then .ok none
       else if !trailingOk (s.drop (strtoScan s base).consumed) then .ok none
       else if (strtolVal 64 (strtoScan s base)).fst = LONG_MAX ∨ (strtolVal 64 (strtoScan s base)).fst = LONG_MIN
         then .ok none
       else .ok (some (strtolVal 64 (strtoScan s base)).fst)) := by
  unfold strTol
  simp only [hb, Bool.not_true, Bool.false_eq_true, if_false]

theorem tol_arith (sc : Scan) :
    (if (strtolVal 64 sc).fst = LONG_MAX ∨ (strtolVal 64 sc).fst = LONG_MIN then
        (Except.ok none : Except Err (Option Int))
      else Except.ok (some (strtolVal 64 sc).fst)) =
    Except.ok
      (if (LONG_MIN + 1 ≤ if sc.neg = true then -(sc.mag : Int) else (sc.mag : Int)) ∧
            (if sc.neg = true then -(sc.mag : Int) else (sc.mag : Int)) ≤ LONG_MAX - 1 then
        some (if sc.neg = true then -(sc.mag : Int) else (sc.mag : Int))
      else none) := by
  obtain ⟨neg, mag, c⟩ := sc
  unfold strtolVal LONG_MAX LONG_MIN
  simp only [two63, two63i]
  cases neg <;> simp only [Bool.false_eq_true, if_false, if_true]
  · by_cases hm : mag > 9223372036854775808 - 1
    · simp only [hm, if_true]
      repeat' split
      all_goals close_arith
    · simp only [hm, if_false]
      repeat' split
      all_goals close_arith
  · by_cases hm : mag > 9223372036854775808
    · simp only [hm, if_true]
      repeat' split
      all_goals close_arith
    · simp only [hm, if_false]
      repeat' split
      all_goals close_arith

/-- `muggle_str_tol` / `toll` compute the specification with the open range
`(LONG_MIN, LONG_MAX)` (the two sentinels are rejected, as documented) -/
theorem strTol_eq (s : CStr) (base : Nat) (hb : validBase base = true) :
    strTol s base = .ok (refParse (LONG_MIN + 1) (LONG_MAX - 1) s base) := by
  rw [refParse_eq _ _ _ _ hb, strTol_shape s base hb]
  generalize strtoScan s base = sc
  by_cases h0 : sc.consumed = 0
  · simp [h0, scanOutcome_none_of_consumed h0]
  · by_cases ht : trailingOk (s.drop sc.consumed) = true
    · rw [scanOutcome_some h0 ht]
      simp only [h0, if_false, ht, Bool.not_true, Bool.false_eq_true]
      exact tol_arith sc
    · have ht' : trailingOk (s.drop sc.consumed) = false := by simpa using ht
      rw [scanOutcome_none_of_trailing ht']
      simp [h0, ht']

theorem strToUnsigned_shape (limit : Nat) (s : CStr) (base : Nat) (hb : validBase base = true) :
    strToUnsigned limit s base =
      (if (strtoScan s base).consumed = 0 then .ok none
       else if !trailingOk (s.drop (strtoScan s base).consumed) then .ok none
       else if (strtoulVal 64 (strtoScan s base)).fst = ULONG_MAX then .ok none
       else if (strtoulVal 64 (strtoScan s base)).fst > limit then .ok none
       else if (strtoScan s base).neg = true ∧ (strtoulVal 64 (strtoScan s base)).fst ≠ 0 then .ok none
       else .ok (some (strtoulVal 64 (strtoScan s base)).fst)) := by
  unfold strToUnsigned
  simp only [hb, Bool.not_true, Bool.false_eq_true, if_false]

theorem tou_arith (limit : Nat) (hl : limit ≤ ULONG_MAX - 1) (sc : Scan) :
    (if (strtoulVal 64 sc).fst = ULONG_MAX then (Except.ok none : Except Err (Option Nat))
      else if (strtoulVal 64 sc).fst > limit then Except.ok none
      else if sc.neg = true ∧ (strtoulVal 64 sc).fst ≠ 0 then Except.ok none
      else Except.ok (some (strtoulVal 64 sc).fst)) =
    Except.ok
      ((if (0 ≤ if sc.neg = true then -(sc.mag : Int) else (sc.mag : Int)) ∧
            (if sc.neg = true then -(sc.mag : Int) else (sc.mag : Int)) ≤ (limit : Int) then
        some (if sc.neg = true then -(sc.mag : Int) else (sc.mag : Int))
      else none).map Int.toNat) := by
  obtain ⟨neg, mag, c⟩ := sc
  unfold ULONG_MAX at hl
  unfold strtoulVal ULONG_MAX
  simp only [two64]
  by_cases hm : mag > 18446744073709551616 - 1
  · simp only [hm, if_true]
    cases neg <;> simp only [Bool.false_eq_true, if_false, if_true]
    · have : ¬ ((mag : Int) ≤ limit) := by omega
      simp [this]
    · simp
      omega
  · simp only [hm, if_false]
    cases neg <;> simp only [Bool.false_eq_true, if_false, if_true, false_and]
    · repeat' split
      all_goals first | rfl | (simp; omega) | close_arith
    · by_cases h0 : mag = 0
      · subst h0
        simp
      · have hmod : (18446744073709551616 - mag) % 18446744073709551616 = 18446744073709551616 - mag := by
          apply Nat.mod_eq_of_lt; omega
        rw [hmod]
        have hneg : ¬ (0 ≤ -(mag : Int)) := by omega
        simp only [hneg, false_and, if_false, Option.map_none]
        obtain ⟨k, hk⟩ : ∃ k, 18446744073709551616 - mag = k := ⟨_, rfl⟩
        rw [hk]
        have hk0 : k ≠ 0 := by omega
        simp only [true_and, ne_eq, hk0, not_false_eq_true, if_true]
        repeat' split
        all_goals rfl

/-- the unsigned wrappers (fixed) compute the specification with the range `[0, limit]` -/
theorem strToUnsigned_eq (limit : Nat) (hl : limit ≤ ULONG_MAX - 1) (s : CStr) (base : Nat)
    (hb : validBase base = true) :
    strToUnsigned limit s base = .ok ((refParse 0 limit s base).map Int.toNat) := by
  rw [refParse_eq _ _ _ _ hb, strToUnsigned_shape limit s base hb]
  generalize strtoScan s base = sc
  by_cases h0 : sc.consumed = 0
  · simp [h0, scanOutcome_none_of_consumed h0]
  · by_cases ht : trailingOk (s.drop sc.consumed) = true
    · rw [scanOutcome_some h0 ht]
      simp only [h0, if_false, ht, Bool.not_true, Bool.false_eq_true]
      exact tou_arith limit hl sc
    · have ht' : trailingOk (s.drop sc.consumed) = false := by simpa using ht
      rw [scanOutcome_none_of_trailing ht']
      simp [h0, ht']

end MgProof.C20
