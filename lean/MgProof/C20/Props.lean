import MgProof.C20.BitsLemmas
import MgProof.C20.SwapLemmas
import MgProof.C20.HexLemmas
import MgProof.C20.StrLemmas
import MgProof.C20.NumLemmas
import MgProof.C20.PathLemmas
import MgProof.C20.NormLemmas
import MgProof.C20.NormRef2
import MgProof.C20.FloatLemmas
/-!
# C20 — property theorems (pure utilities)

Statement (properties.jsonl): the numeric string parsers return success with the exact value
only for a single well-formed, in-range numeral (surrounding blanks allowed) and failure
otherwise, never a silently truncated value. Path join, dirname, basename, normpath and abspath
never write beyond the caller's buffer, NUL-terminate whatever they report as success, and agree
with a reference path algebra. next-power-of-two returns the least power of two not below its
argument over its whole 64-bit domain, strip/find/count helpers agree with their reference
definitions (including empty strings), and hex encode/decode and endian swaps round-trip.

Quantifiers: every theorem below is for **all** inputs of the stated type (all 64-bit words,
all byte strings of any length, all buffers of any size and any initial contents, all bases
0/2..36); nothing is bounded. The models are those of the code after `fixes/C20-*.patch`;
for every repaired defect the pinned code's model (`…Orig`, `fx = false`) is shown to violate
the statement on a concrete input (`…_orig_…` theorems, by evaluation).
-/
namespace MgProof.C20
open MgModel.C20

instance {ε α : Type} [DecidableEq ε] [DecidableEq α] : DecidableEq (Except ε α) := fun a b =>
  match a, b with
  | .ok x, .ok y => if h : x = y then isTrue (by rw [h]) else isFalse (fun e => h (by injection e))
  | .error x, .error y => if h : x = y then isTrue (by rw [h]) else isFalse (fun e => h (by injection e))
  | .ok _, .error _ => isFalse (fun e => by cases e)
  | .error _, .ok _ => isFalse (fun e => by cases e)

/-! ## 1. next-power-of-two (clause "least power of two not below its argument, whole 64-bit domain") -/

/-- **next_pow_of_2, main theorem.** For every 64-bit `x` with `1 ≤ x ≤ 2^63` the result is a
power of two, is not below `x`, and every power of two not below `x` is at least the result. -/
theorem next_pow_of_2_least (x : BitVec 64) (h1 : 1 ≤ x.toNat) (h2 : x.toNat ≤ 2 ^ 63) :
    IsLeastPow2 x.toNat (nextPow2 x).toNat := by
  by_cases hm : isPow2Macro x = true
  · have hp : IsPow2 x.toNat := by
      rcases (isPow2Macro_iff x).mp hm with h0 | hp
      · omega
      · exact hp
    have : nextPow2 x = x := by unfold nextPow2; simp [hm]
    rw [this]
    exact least_of_pow2 hp
  · have hm' : isPow2Macro x = false := by simpa using hm
    have hn : x.toNat ≠ 0 := by omega
    have hnp : ¬ IsPow2 x.toNat := fun hp => hm ((isPow2Macro_iff x).mpr (Or.inr hp))
    have hlt : x.toNat < 2 ^ 63 := by
      have : x.toNat ≠ 2 ^ 63 := fun e => hnp ⟨63, e⟩
      omega
    have hk : x.toNat.log2 < 63 := (Nat.log2_lt hn).mpr hlt
    rw [nextPow2_else x hm']
    have hle : 2 ^ (x.toNat.log2 + 1) ≤ 2 ^ 63 := Nat.pow_le_pow_right (by omega) (by omega)
    rw [Nat.mod_eq_of_lt (by omega)]
    exact least_of_not_pow2 hn hnp

/-- the executable specification printed by the driver is that least power of two -/
theorem next_pow_of_2_spec (x : BitVec 64) (h1 : 1 ≤ x.toNat) (h2 : x.toNat ≤ 2 ^ 63) :
    (nextPow2 x).toNat = specNextPow2 x.toNat :=
  (next_pow_of_2_least x h1 h2).unique (specNextPow2_least (by omega))

/-- outside the domain where an answer exists the function returns 0: `x = 0` … -/
theorem next_pow_of_2_zero : nextPow2 0 = 0 := by decide

/-- … and `x > 2^63`, where no power of two `≥ x` fits 64 bits. -/
theorem next_pow_of_2_above (x : BitVec 64) (h : 2 ^ 63 < x.toNat) : nextPow2 x = 0 := by
  have hn : x.toNat ≠ 0 := by omega
  have hlt := x.isLt
  have hnp : ¬ IsPow2 x.toNat := by
    rintro ⟨k, hk⟩
    rw [hk] at h hlt
    have h1 : 63 < k := (Nat.pow_lt_pow_iff_right (by omega)).mp h
    have h2 : k < 64 := (Nat.pow_lt_pow_iff_right (by omega)).mp hlt
    omega
  have hm : isPow2Macro x = false := by
    cases hb : isPow2Macro x with
    | false => rfl
    | true =>
      rcases (isPow2Macro_iff x).mp hb with h0 | hp
      · exact absurd h0 hn
      · exact absurd hp hnp
  apply BitVec.eq_of_toNat_eq
  rw [nextPow2_else x hm]
  have hk : x.toNat.log2 = 63 := by
    have h1 : 63 ≤ x.toNat.log2 := (Nat.le_log2 hn).mpr (by omega)
    have h2 : x.toNat.log2 < 64 := (Nat.log2_lt hn).mpr hlt
    omega
  rw [hk]
  rfl

/-- the pinned code (no `x |= x >> 32`) is right up to `2^32` … -/
theorem next_pow_of_2_orig_partial (x : BitVec 64) (h1 : 1 ≤ x.toNat) (h2 : x.toNat ≤ 2 ^ 32) :
    IsLeastPow2 x.toNat (nextPow2Orig x).toNat := by
  by_cases hm : isPow2Macro x = true
  · have hp : IsPow2 x.toNat := by
      rcases (isPow2Macro_iff x).mp hm with h0 | hp
      · omega
      · exact hp
    have : nextPow2Orig x = x := by unfold nextPow2Orig; simp [hm]
    rw [this]
    exact least_of_pow2 hp
  · have hm' : isPow2Macro x = false := by simpa using hm
    have hn : x.toNat ≠ 0 := by omega
    have hnp : ¬ IsPow2 x.toNat := fun hp => hm ((isPow2Macro_iff x).mpr (Or.inr hp))
    have hlt : x.toNat < 2 ^ 32 := by
      have : x.toNat ≠ 2 ^ 32 := fun e => hnp ⟨32, e⟩
      omega
    rw [nextPow2Orig_else x hm' hlt]
    exact least_of_not_pow2 hn hnp

/-- … and **wrong above**: at `2^40 + 1` it returns 2199023255042, not `2^41`. -/
theorem next_pow_of_2_orig_fails :
    ¬ IsLeastPow2 (2 ^ 40 + 1) (nextPow2Orig (BitVec.ofNat 64 (2 ^ 40 + 1))).toNat := by
  intro h
  have hgood := next_pow_of_2_least (BitVec.ofNat 64 (2 ^ 40 + 1)) (by decide) (by decide)
  have e : (BitVec.ofNat 64 (2 ^ 40 + 1)).toNat = 2 ^ 40 + 1 := by decide
  rw [e] at hgood
  have := h.unique hgood
  revert this
  decide

/-! ## 2. endian swaps (clause "endian swaps round-trip") -/

/-- swapping twice is the identity, for every 16/32/64-bit value -/
theorem endian_swap_roundtrip :
    (∀ v : BitVec 16, swap16 (swap16 v) = v) ∧ (∀ v : BitVec 32, swap32 (swap32 v) = v) ∧
    (∀ v : BitVec 64, swap64 (swap64 v) = v) :=
  ⟨swap16_invol, swap32_invol, swap64_invol⟩

/-- byte `j` of the swapped value is byte `n-1-j` of the argument (byte reversal) -/
theorem endian_swap_reverses_bytes :
    (∀ (v : BitVec 16) j, j < 2 → byteOf (swap16 v) j = byteOf v (1 - j)) ∧
    (∀ (v : BitVec 32) j, j < 4 → byteOf (swap32 v) j = byteOf v (3 - j)) ∧
    (∀ (v : BitVec 64) j, j < 8 → byteOf (swap64 v) j = byteOf v (7 - j)) :=
  ⟨swap16_byte, swap32_byte, swap64_byte⟩

/-- … which is the executable specification printed by the driver -/
theorem endian_swap_spec :
    (∀ v : BitVec 16, (swap16 v).toNat = specSwap 2 v.toNat) ∧
    (∀ v : BitVec 32, (swap32 v).toNat = specSwap 4 v.toNat) ∧
    (∀ v : BitVec 64, (swap64 v).toNat = specSwap 8 v.toNat) :=
  ⟨swap16_spec, swap32_spec, swap64_spec⟩

/-! ## 3. hex (clause "hex encode/decode round-trip") -/

/-- encoding is the reference upper-case encoding, for every byte string -/
theorem hex_encode_ref (bs : List Nat) (h : ∀ b ∈ bs, b < 256) : hexFromBytes bs = some (refEncode bs) :=
  hexFromBytes_ref bs h

/-- decoding is the reference decoding on every character string (valid or not) -/
theorem hex_decode_ref (hex : List Nat) :
    (∀ r, refDecode hex = some r → hexToBytes hex = .ok r) ∧
    (refDecode hex = none → ∃ part, hexToBytes hex = .error part) :=
  ⟨fun _ h => hexToBytes_ref_some h, hexToBytes_ref_none⟩

/-- **round trip 1**: decode (encode bs) = bs for every byte string of every length -/
theorem hex_roundtrip (bs : List Nat) (h : ∀ b ∈ bs, b < 256) :
    ∃ hex, hexFromBytes bs = some hex ∧ hexToBytes hex = .ok bs :=
  ⟨refEncode bs, hexFromBytes_ref bs h, hexToBytes_ref_some (refDecode_refEncode bs h)⟩

/-- **round trip 2**: encode (decode hex) = hex in upper case, for every valid even-length text -/
theorem hex_roundtrip_text (hex r : List Nat) (hl : hex.length % 2 = 0) (hd : hexToBytes hex = .ok r) :
    hexFromBytes r = some (hex.map upperHex) := by
  cases hr : refDecode hex with
  | none =>
    obtain ⟨part, hp⟩ := hexToBytes_ref_none hr
    rw [hp] at hd; cases hd
  | some r' =>
    have := hexToBytes_ref_some hr
    rw [this] at hd
    injection hd with hd
    subst hd
    obtain ⟨h1, h2⟩ := refEncode_refDecode hex r' hl hr
    rw [hexFromBytes_ref r' h2, h1]

/-! ## 4. strip / find / count / startswith / endswith (clause "agree with their reference
definitions, including empty strings") — all strings, all `int` arguments -/

theorem str_helpers_agree :
    (∀ s p, startswith s p = refStartswith s p) ∧ (∀ s p, endswith s p = refEndswith s p) ∧
    (∀ s sub a b, strFind s sub a b = refFind s sub a b) ∧
    (∀ s sub a b, strCount s sub a b = refCount s sub a b) ∧
    (∀ s, lstripIdx s = refLstrip s) ∧ (∀ s, rstripIdx s = refRstrip s) :=
  ⟨startswith_eq_ref, endswith_eq_ref, strFind_eq_ref, strCount_eq_ref, lstripIdx_eq_ref, rstripIdx_eq_ref⟩

/-- the pinned `rstrip_idx` reads `str[-1]` exactly for the empty string -/
theorem rstrip_orig_reads_out_of_bounds : rstripIdxOrig [] = .error .oob := by decide

/-- the pinned `count` does not terminate for an empty `sub` and any non-empty window -/
theorem count_orig_hangs : strCountOrig [97] [] 0 0 = .error .hang := by decide

/-! ## 5. integer parsers (clause "success with the exact value only for a single well-formed,
in-range numeral (surrounding blanks allowed) and failure otherwise") -/

/-- "surrounding blanks allowed": a string is blanks, its stripped core, blanks; the core
neither starts nor ends with a blank -/
theorem stripBlanks_decomp (s : CStr) :
    ∃ lead trail, s = lead ++ stripBlanks s ++ trail ∧ (∀ c ∈ lead, isSpace c = true) ∧
      (∀ c ∈ trail, isSpace c = true) ∧ EndsNonBlank (stripBlanks s) ∧
      (∀ a t, stripBlanks s = a :: t → isSpace a = false) := by
  obtain ⟨t, hd, ht, hend⟩ := rstripL_decomp (s.dropWhile isSpace)
  refine ⟨s.takeWhile isSpace, t, ?_, all_takeWhile isSpace s, ht, hend, ?_⟩
  · rw [stripBlanks_eq, List.append_assoc, ← hd, List.takeWhile_append_dropWhile]
  · intro a t' hs
    rw [stripBlanks_eq] at hs
    cases hdw : s.dropWhile isSpace with
    | nil => rw [hdw] at hs; simp [rstripL] at hs
    | cons x r =>
      rw [hdw] at hs
      obtain ⟨t2, ht2⟩ := rstripL_head (l := x :: r) rfl (by rw [hs]; simp)
      rw [hs] at ht2
      simp at ht2
      rw [ht2.1]
      exact dropWhile_head_not isSpace s x r hdw

/-- **parsers, main theorem.** For every string and every base in `{0, 2..36}` each wrapper
returns exactly what the specification `refParse` defines: success with value `v` iff the
string without surrounding blanks is one numeral (`[+-]`, base prefix, digits of the base,
nothing else) whose exact value is `v` and `v` lies in the range of the type.
`tol/toll` and `toul/toull` exclude their documented sentinels (`LONG_MIN`, `LONG_MAX`,
`ULONG_MAX`). -/
theorem int_parsers_exact (s : CStr) (base : Nat) (hb : validBase base = true) :
    strToi s base = .ok (refParse INT_MIN INT_MAX s base) ∧
    strTol s base = .ok (refParse (LONG_MIN + 1) (LONG_MAX - 1) s base) ∧
    strToll s base = .ok (refParse (LONG_MIN + 1) (LONG_MAX - 1) s base) ∧
    strTou s base = .ok ((refParse 0 UINT_MAX s base).map Int.toNat) ∧
    strToul s base = .ok ((refParse 0 ((ULONG_MAX - 1 : Nat) : Int) s base).map Int.toNat) ∧
    strToull s base = .ok ((refParse 0 ((ULONG_MAX - 1 : Nat) : Int) s base).map Int.toNat) :=
  ⟨strToi_eq s base hb, strTol_eq s base hb, strTol_eq s base hb,
   strToUnsigned_eq UINT_MAX (by decide) s base hb,
   strToUnsigned_eq (ULONG_MAX - 1) (Nat.le_refl _) s base hb,
   strToUnsigned_eq (ULONG_MAX - 1) (Nat.le_refl _) s base hb⟩

/-- reading of the main theorem as the property states it, for `toi` -/
theorem toi_success_iff (s : CStr) (base : Nat) (hb : validBase base = true) (v : Int) :
    strToi s base = .ok (some v) ↔
      (numeralValue base (stripBlanks s) = some v ∧ INT_MIN ≤ v ∧ v ≤ INT_MAX) := by
  rw [strToi_eq s base hb]
  unfold refParse
  cases hn : numeralValue base (stripBlanks s) with
  | none => simp
  | some w =>
    by_cases hr : INT_MIN ≤ w ∧ w ≤ INT_MAX
    · simp only [hr, and_self, if_true, Except.ok.injEq, Option.some.injEq]
      constructor
      · intro e; subst e; exact ⟨rfl, hr⟩
      · intro h; exact h.1
    · simp only [hr, if_false]
      constructor
      · intro e; cases e
      · rintro ⟨e, h1, h2⟩
        injection e with e
        subst e
        exact absurd ⟨h1, h2⟩ hr

/-- what the property itself demands of `tol`/`toll` (the sentinel rejection is the library's
documented extra, not a demand): a success carries the exact in-range value of a single
numeral, and every single numeral whose value is in the range of `long` and is not one of the two
sentinels is accepted -/
theorem tol_sound_complete (s : CStr) (base : Nat) (hb : validBase base = true) (v : Int) :
    (strTol s base = .ok (some v) → refParse LONG_MIN LONG_MAX s base = some v) ∧
    (refParse LONG_MIN LONG_MAX s base = some v → v ≠ LONG_MAX → v ≠ LONG_MIN →
      strTol s base = .ok (some v)) := by
  rw [strTol_eq s base hb]
  unfold refParse LONG_MAX LONG_MIN
  cases hn : numeralValue base (stripBlanks s) with
  | none => simp
  | some w =>
    simp only
    constructor
    · intro h
      injection h with h
      by_cases hr : -9223372036854775808 + 1 ≤ w ∧ w ≤ 9223372036854775807 - 1
      · rw [if_pos hr] at h
        injection h with h
        subst h
        rw [if_pos (by omega)]
      · rw [if_neg hr] at h; cases h
    · intro h h1 h2
      by_cases hr : -9223372036854775808 ≤ w ∧ w ≤ 9223372036854775807
      · rw [if_pos hr] at h
        injection h with h
        subst h
        rw [if_pos (by omega)]
      · rw [if_neg hr] at h; cases h

/-- the same for `toul`/`toull` and their sentinel `ULONG_MAX` -/
theorem toul_sound_complete (s : CStr) (base : Nat) (hb : validBase base = true) (v : Nat) :
    (strToul s base = .ok (some v) → refParse 0 (ULONG_MAX : Int) s base = some (v : Int)) ∧
    (refParse 0 (ULONG_MAX : Int) s base = some (v : Int) → v ≠ ULONG_MAX →
      strToul s base = .ok (some v)) := by
  unfold strToul
  rw [strToUnsigned_eq (ULONG_MAX - 1) (Nat.le_refl _) s base hb]
  unfold refParse ULONG_MAX
  cases hn : numeralValue base (stripBlanks s) with
  | none => simp
  | some w =>
    simp only
    constructor
    · intro h
      injection h with h
      by_cases hr : 0 ≤ w ∧ w ≤ ((18446744073709551615 - 1 : Nat) : Int)
      · rw [if_pos hr] at h
        simp only [Option.map_some, Option.some.injEq] at h
        rw [if_pos (by omega)]
        congr 1
        omega
      · rw [if_neg hr] at h; simp at h
    · intro h h1
      by_cases hr : 0 ≤ w ∧ w ≤ ((18446744073709551615 : Nat) : Int)
      · rw [if_pos hr] at h
        injection h with h
        subst h
        rw [if_pos (by omega)]
        simp
      · rw [if_neg hr] at h; cases h

/-- the scanning half of the theorem: `strtol`/`strtoul` (as specified) find a numeral exactly
when the stripped string is one -/
theorem strtol_scan_spec (s : CStr) (base : Nat) (hb : validBase base = true) :
    numeralValue base (stripBlanks s) = scanOutcome (strtoScan s base) s :=
  scan_spec s base hb

/-- pinned `toi`: `"2147483648 "` is reported as success with −2147483648 (truncated) -/
theorem toi_orig_truncates :
    strToiOrig [50, 49, 52, 55, 52, 56, 51, 54, 52, 56, 32] 10 = .ok (some (-2147483648)) ∧
    refParse INT_MIN INT_MAX [50, 49, 52, 55, 52, 56, 51, 54, 52, 56, 32] 10 = none := by
  constructor <;> decide

/-- pinned `tou`: `"4294967296"` is reported as success with 0, `"-2"` with 4294967294 -/
theorem tou_orig_truncates :
    strTouOrig [52, 50, 57, 52, 57, 54, 55, 50, 57, 54] 10 = .ok (some 0) ∧
    strTouOrig [45, 50] 10 = .ok (some 4294967294) ∧
    refParse 0 UINT_MAX [52, 50, 57, 52, 57, 54, 55, 50, 57, 54] 10 = none ∧
    refParse 0 UINT_MAX [45, 50] 10 = none := by
  refine ⟨?_, ?_, ?_, ?_⟩ <;> decide

/-- pinned `toul`/`toull`: `"-2"` is reported as success with 2^64 − 2 -/
theorem toul_orig_wraps : strToulOrig [45, 50] 10 = .ok (some 18446744073709551614) := by decide

/-! ## 5b. float parsers (same clause, for `tof` / `tod` / `told`) -/

/-- **float parsers, main theorem.** For every string and each of the three formats (binary32,
binary64, x87 extended) the wrapper returns exactly what the specification defines: success
iff the string without surrounding blanks is `[+-]` followed by one decimal or hexadecimal
floating numeral (or `inf`, `infinity`, `nan`, `nan(n-char-seq)` in any case) and the correctly
rounded value (round-to-nearest-even, gradual underflow) does not overflow; the value reported
is that correctly rounded value. -/
theorem float_parsers_exact (f : Fmt) (s : CStr) : strToFloat f s = refParseFloat f s :=
  strToFloat_eq f s

/-- the scanning half: `strtod` (as specified) converts a numeral with only blanks behind it
exactly when the stripped string is one numeral, with the same exact value -/
theorem strtod_scan_spec (s : CStr) :
    floatNumeral (stripBlanks s) =
      (if (strtodScan s).consumed ≠ 0 ∧ (s.drop (strtodScan s).consumed).all isSpace
       then some (strtodScan s).val else none) :=
  float_scan_spec s

/-- pinned `tof`: `"-1e50"` is reported as success with −inf; pinned `tod`: `"1e999 "` with +inf -/
theorem tof_tod_orig_accept_overflow :
    strToFloatOrig true fmt32 [45, 49, 101, 53, 48] = some (.inf true true) ∧
    refParseFloat fmt32 [45, 49, 101, 53, 48] = none ∧
    strToFloatOrig false fmt64 [49, 101, 57, 57, 57, 32] = some (.inf false true) ∧
    refParseFloat fmt64 [49, 101, 57, 57, 57, 32] = none := by
  set_option exponentiation.threshold 4000 in
  set_option maxRecDepth 10000 in
  refine ⟨?_, ?_, ?_, ?_⟩ <;> decide

/-! ## 6. path functions (clauses "never write beyond the caller's buffer", "NUL-terminate
whatever they report as success", "agree with a reference path algebra") -/

/-- **path functions, main theorem.** For every path(s) without NUL, every cwd, every buffer size
and every initial buffer content each model returns normally (so: no write at an index `≥ size`, no
read of an indeterminate byte), reports success exactly when the reference path algebra defines a
result that fits the buffer with its terminator (`specJoin`, `specBasename`, `specDirname`,
`specNormpath`, `specAbspath`), keeps the buffer size, and on success the buffer holds exactly that
result followed by NUL. For `normpath` the reference is the segment-wise algebra `refNormpath`
(drop one leading `./`, a `..` segment removes the previous ordinary segment, is kept after `..` or
at the start, is an error at a root; a longer name containing `..` is an error). -/
theorem path_functions_meet_reference (b : Buf) :
    (∀ p1 p2, NoNul p1 → NoNul p2 → Meets (pathJoin true p1 p2 b) b.size (specJoin p1 p2 b.size)) ∧
    (∀ p, NoNul p → Meets (pathBasename true p b) b.size (specBasename p b.size)) ∧
    (∀ p, NoNul p → Meets (pathDirname p b) b.size (specDirname p b.size)) ∧
    (∀ p, NoNul p → Meets (pathNormpath true p b) b.size (specNormpath p b.size)) ∧
    (∀ cwd p, (∀ c, cwd = some c → NoNul c) → NoNul p →
      Meets (pathAbspath true cwd p b) b.size (specAbspath cwd p b.size)) :=
  ⟨fun p1 p2 h1 h2 => pathJoin_meets p1 p2 h1 h2 b, fun p h => pathBasename_meets p h b,
   fun p h => pathDirname_meets p h b, fun p h => pathNormpath_meets p h b,
   fun cwd p hc hp => pathAbspath_meets cwd hc p hp b⟩

/-- the loop of `normpath` as a string transformer is exactly the reference fold (the core of
the refinement: all remaining inputs, all stacks of completed segments, all partial names) -/
theorem normpath_loop_is_reference_fold (rest cur : CStr) (st : List (CStr × Option Nat))
    (hst : StackOk st) (hcur : CurOk cur rest) :
    normGoS rest (flatR st ++ cur) = refK rest cur st :=
  normGoS_ref rest.length rest cur st (Nat.le_refl _) hst hcur

/-- **normpath / abspath, memory safety and termination** for every path, cwd, buffer size and
initial content: the model returns normally, and a reported success leaves a NUL-terminated
string shorter than the buffer. -/
theorem normpath_abspath_safe (b : Buf) (p : CStr) (hp : NoNul p) :
    SafeTerminated (pathNormpath true p b) b.size ∧
    (∀ cwd, (∀ c, cwd = some c → NoNul c) → SafeTerminated (pathAbspath true cwd p b) b.size) :=
  ⟨pathNormpath_safe p hp b, fun cwd hc => pathAbspath_safe cwd hc p hp b⟩

/-- join, basename, dirname are memory-safe and terminated as well (corollary) -/
theorem join_basename_dirname_safe (b : Buf) :
    (∀ p1 p2, NoNul p1 → NoNul p2 → SafeTerminated (pathJoin true p1 p2 b) b.size) ∧
    (∀ p, NoNul p → SafeTerminated (pathBasename true p b) b.size) ∧
    (∀ p, NoNul p → SafeTerminated (pathDirname p b) b.size) := by
  refine ⟨fun p1 p2 h1 h2 => (pathJoin_meets p1 p2 h1 h2 b).safe (specJoin_fits p1 p2 b.size),
    fun p h => (pathBasename_meets p h b).safe ?_, fun p h => (pathDirname_meets p h b).safe ?_⟩
  · intro x hx
    unfold specBasename fits at hx
    cases hr : refBasename p with
    | none => rw [hr] at hx; cases hx
    | some r =>
      rw [hr] at hx
      by_cases hl : r.length < b.size
      · simp [hl] at hx; subst hx; exact hl
      · simp [hl] at hx
  · intro x hx
    unfold specDirname fits at hx
    cases hr : refDirname p with
    | none => rw [hr] at hx; cases hx
    | some r =>
      rw [hr] at hx
      by_cases hl : r.length < b.size
      · simp [hl] at hx; subst hx; exact hl
      · simp [hl] at hx

/-- pinned `normpath`: `".."` with a 3-byte buffer writes index 3 -/
theorem normpath_orig_writes_past_buffer : pathNormpath false [46, 46] (Buf.fresh 3) = .error .oob := by
  decide

/-- pinned `join`: size 0 wraps `size - 1` and `strncpy` runs off the buffer; an exact-fit
`path1` leaves the copy unterminated and `endswith` reads an indeterminate byte -/
theorem join_orig_unsafe :
    pathJoin false [47] [47] (Buf.fresh 0) = .error .oob ∧
    pathJoin false [97] [121, 121] (Buf.fresh 2) = .error .uninit := by
  constructor <;> decide

/-- pinned `abspath` / `basename`: success without a terminator at `strlen == size - 1`;
pinned `basename`: a base name that does not fit is truncated and reported as success -/
theorem abspath_basename_orig_unterminated :
    (pathAbspath false none [47, 46] (Buf.fresh 3)).map (fun r => (r.1, r.2.cstr)) = .ok (true, none) ∧
    (pathBasename false [97] (Buf.fresh 2)).map (fun r => (r.1, r.2.cstr)) = .ok (true, none) ∧
    (pathBasename false [46, 46, 46, 47, 46, 46] (Buf.fresh 2)).map (fun r => (r.1, r.2.cstr)) =
      .ok (true, some [46]) := by
  refine ⟨?_, ?_, ?_⟩ <;> decide

/-! ## Non-vacuity: the hypotheses are met by concrete, non-trivial inputs -/

example : 1 ≤ (BitVec.ofNat 64 (2 ^ 40 + 1)).toNat ∧ (BitVec.ofNat 64 (2 ^ 40 + 1)).toNat ≤ 2 ^ 63 ∧
    (nextPow2 (BitVec.ofNat 64 (2 ^ 40 + 1))).toNat = 2 ^ 41 := by decide

example : validBase 0 = true ∧ validBase 16 = true ∧
    -- "  -0x7fffffff \t" in base 0
    strToi [32, 32, 45, 48, 120, 55, 102, 102, 102, 102, 102, 102, 102, 32, 9] 0 = .ok (some (-2147483647)) := by
  decide

example : NoNul [97, 47, 98] ∧ NoNul [99] ∧
    (pathJoin true [97, 47, 98] [99] (Buf.fresh 6)).map (fun r => (r.1, r.2.cstr)) =
      .ok (true, some [97, 47, 98, 47, 99]) ∧
    (pathNormpath true [97, 47, 46, 46, 47, 98] (Buf.fresh 7)).map (fun r => (r.1, r.2.cstr)) =
      .ok (true, some [98]) := by
  refine ⟨?_, ?_, ?_, ?_⟩
  · intro c hc; simp at hc; omega
  · intro c hc; simp at hc; omega
  · decide
  · decide

example : hexToBytes [100, 69] = .ok [222] ∧ hexFromBytes [222] = some [68, 69] := by decide

-- " 0x1.8p1 " parses to 3.0 = sign 0, biased exponent 1024, fraction 2^51
example : strToFloat fmt64 [32, 48, 120, 49, 46, 56, 112, 49, 32] = some (.bits false 1024 2251799813685248) := by
  decide

end MgProof.C20
