import MgModel.C20.Hex
/-!
# C20 — hex encode / decode: table facts (`decide` over all 256 entries) and list inductions
-/
namespace MgProof.C20
open MgModel.C20

/-- every entry of `s_hex` is the two upper-case digits of its index (all 256 entries) -/
theorem sHex_table : sHex = (List.range 256).map (fun b => (refDigit (b / 16), refDigit (b % 16))) := by
  set_option maxRecDepth 20000 in decide

theorem sHex_entry (b : Nat) (hb : b < 256) : sHex[b]? = some (refDigit (b / 16), refDigit (b % 16)) := by
  rw [sHex_table, List.getElem?_map, List.getElem?_range hb]
  rfl

/-- `muggle_hex_to_byte` agrees with the reference digit value on every character code -/
theorem hexToByte_ref (c : Nat) :
    (refDigitVal c = none ∧ hexToByte c = 255) ∨ (∃ v, refDigitVal c = some v ∧ hexToByte c = v ∧ v < 16) := by
  unfold refDigitVal hexToByte
  by_cases h1 : 48 ≤ c ∧ c ≤ 57
  · right; exact ⟨c - 48, by simp [h1], by simp [h1], by omega⟩
  · by_cases h2 : 65 ≤ c ∧ c ≤ 70
    · right; exact ⟨c - 55, by simp [h1, h2], by simp [h1, h2]; omega, by omega⟩
    · by_cases h3 : 97 ≤ c ∧ c ≤ 102
      · right; exact ⟨c - 87, by simp [h1, h2, h3], by simp [h1, h2, h3]; omega, by omega⟩
      · left; simp [h1, h2, h3]

theorem nibbles (a b : Nat) (ha : a < 16) (hb : b < 16) : (a <<< 4 ||| b) % 256 = 16 * a + b := by
  have : a <<< 4 ||| b = a <<< 4 + b := (Nat.shiftLeft_add_eq_or_of_lt (show b < 2 ^ 4 by omega) a).symm
  rw [this, Nat.shiftLeft_eq]
  omega

/-- decoding agrees with the reference decoder (with any accumulated prefix) -/
theorem hexToBytesAux_ref : ∀ (hex acc : List Nat),
    (match refDecode hex with
     | some r => hexToBytesAux hex acc = .ok (acc.reverse ++ r)
     | none => ∃ part, hexToBytesAux hex acc = .error part)
  | [], acc => by simp [refDecode, hexToBytesAux]
  | [_], acc => by simp [refDecode, hexToBytesAux]
  | h :: l :: rest, acc => by
    have ih := fun acc' => hexToBytesAux_ref rest acc'
    unfold refDecode hexToBytesAux
    rcases hexToByte_ref h with ⟨hn, hv⟩ | ⟨a, ha, hv, hlt⟩
    · simp [hn, hv]
    · rcases hexToByte_ref l with ⟨ln, lv⟩ | ⟨b, hb, lv, llt⟩
      · simp [ha, ln, lv]
      · have hne1 : a ≠ 255 := by omega
        have hne2 : b ≠ 255 := by omega
        simp only [ha, hb, hv, lv, hne1, hne2, or_self, if_false]
        have := ih ((a <<< 4 ||| b) % 256 :: acc)
        cases hr : refDecode rest with
        | none =>
          rw [hr] at this
          simpa using this
        | some r =>
          rw [hr] at this
          simp only at this ⊢
          rw [this, nibbles a b hlt llt]
          simp

theorem hexToBytes_ref_some {hex r : List Nat} (h : refDecode hex = some r) :
    hexToBytes hex = .ok r := by
  have := hexToBytesAux_ref hex []
  rw [h] at this
  simpa [hexToBytes] using this

theorem hexToBytes_ref_none {hex : List Nat} (h : refDecode hex = none) :
    ∃ part, hexToBytes hex = .error part := by
  have := hexToBytesAux_ref hex []
  rw [h] at this
  simpa [hexToBytes] using this

/-- encoding is the reference encoding, for lists of bytes -/
theorem hexFromBytes_ref : ∀ (bs : List Nat), (∀ b ∈ bs, b < 256) → hexFromBytes bs = some (refEncode bs)
  | [], _ => rfl
  | b :: bs, hb => by
    have h1 := sHex_entry b (hb b (by simp))
    have h2 := hexFromBytes_ref bs (fun x hx => hb x (by simp [hx]))
    simp [hexFromBytes, refEncode, h1, h2]

theorem refDigit_val (d : Nat) (hd : d < 16) : refDigitVal (refDigit d) = some d := by
  unfold refDigit refDigitVal
  by_cases h : d < 10
  · have : 48 ≤ 48 + d ∧ 48 + d ≤ 57 := by omega
    simp [h, this]
  · have h1 : ¬ (48 ≤ 55 + d ∧ 55 + d ≤ 57) := by omega
    have h2 : 65 ≤ 55 + d ∧ 55 + d ≤ 70 := by omega
    simp [h, h1, h2]

/-- the reference decoder inverts the reference encoder -/
theorem refDecode_refEncode : ∀ (bs : List Nat), (∀ b ∈ bs, b < 256) → refDecode (refEncode bs) = some bs
  | [], _ => rfl
  | b :: bs, hb => by
    have hb256 : b < 256 := hb b (by simp)
    have ih := refDecode_refEncode bs (fun x hx => hb x (by simp [hx]))
    have h1 := refDigit_val (b / 16) (by omega)
    have h2 := refDigit_val (b % 16) (by omega)
    simp only [refEncode, refDecode, h1, h2, ih]
    congr 2
    omega

/-- upper-casing a valid hex digit keeps its value and yields the canonical digit -/
theorem refDigit_of_val {c v : Nat} (h : refDigitVal c = some v) : refDigit v = upperHex c ∧ v < 16 := by
  unfold refDigitVal at h
  unfold refDigit upperHex
  by_cases h1 : 48 ≤ c ∧ c ≤ 57
  · simp [h1] at h; subst h
    have : ¬ (97 ≤ c ∧ c ≤ 102) := by omega
    have h10 : c - 48 < 10 := by omega
    simp [this, h10]; omega
  · by_cases h2 : 65 ≤ c ∧ c ≤ 70
    · simp [h1, h2] at h; subst h
      have : ¬ (97 ≤ c ∧ c ≤ 102) := by omega
      have h10 : ¬ c - 55 < 10 := by omega
      simp [this, h10]; omega
    · by_cases h3 : 97 ≤ c ∧ c ≤ 102
      · simp [h1, h2, h3] at h; subst h
        have h10 : ¬ c - 87 < 10 := by omega
        simp [h3, h10]; omega
      · simp [h1, h2, h3] at h

/-- encoding the decoded bytes gives back the text, upper-cased (even length, valid digits) -/
theorem refEncode_refDecode : ∀ (hex r : List Nat), hex.length % 2 = 0 → refDecode hex = some r →
    refEncode r = hex.map upperHex ∧ ∀ b ∈ r, b < 256
  | [], r, _, h => by
    simp [refDecode] at h; subst h; simp [refEncode]
  | [_], _, hl, _ => by simp at hl
  | h :: l :: rest, r, hl, hd => by
    unfold refDecode at hd
    cases ha : refDigitVal h with
    | none => simp [ha] at hd
    | some a =>
      cases hb : refDigitVal l with
      | none => simp [ha, hb] at hd
      | some b =>
        cases hr : refDecode rest with
        | none => simp [ha, hb, hr] at hd
        | some r' =>
          simp [ha, hb, hr] at hd
          subst hd
          obtain ⟨e1, l1⟩ := refDigit_of_val ha
          obtain ⟨e2, l2⟩ := refDigit_of_val hb
          have hl' : rest.length % 2 = 0 := by simp at hl; omega
          obtain ⟨ih1, ih2⟩ := refEncode_refDecode rest r' hl' hr
          have q : (16 * a + b) / 16 = a := by omega
          have m : (16 * a + b) % 16 = b := by omega
          constructor
          · simp [refEncode, q, m, e1, e2, ih1]
          · intro x hx
            simp at hx
            rcases hx with rfl | hx
            · omega
            · exact ih2 x hx

end MgProof.C20
