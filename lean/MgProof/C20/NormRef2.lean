import MgProof.C20.NormRef
/-!
# C20 — the string-level `normpath` loop computes the reference path algebra (step 2)
-/
namespace MgProof.C20
open MgModel.C20

/-! ## characters from the end -/

theorem chr_rev (out : CStr) (j : Nat) (hj : j < out.length) :
    chr out (out.length - 1 - j) = out.reverse.getD j 0 := by
  unfold chr
  rw [List.getD_eq_getElem?_getD, List.getD_eq_getElem?_getD, List.getElem?_reverse hj]

/-- the produced string ends with `..` and a separator -/
theorem endsDDS_iff (out : CStr) :
    endsDDS out = true ↔ ∃ s r, out.reverse = s :: 46 :: 46 :: r ∧ isSep s = true := by
  unfold endsDDS
  constructor
  · intro h
    simp only [Bool.and_eq_true, decide_eq_true_eq, beq_iff_eq] at h
    obtain ⟨⟨⟨h3, a3⟩, a2⟩, a1⟩ := h
    have e1 := chr_rev out 0 (by omega)
    have e2 := chr_rev out 1 (by omega)
    have e3 := chr_rev out 2 (by omega)
    have i1 : out.length - 1 - 0 = out.length - 1 := by omega
    have i2 : out.length - 1 - 1 = out.length - 2 := by omega
    have i3 : out.length - 1 - 2 = out.length - 3 := by omega
    rw [i1] at e1; rw [i2] at e2; rw [i3] at e3
    have hl : out.reverse.length ≥ 3 := by simpa using h3
    match hr : out.reverse, hl with
    | x :: y :: z :: r, _ =>
      rw [hr] at e1 e2 e3
      simp at e1 e2 e3
      refine ⟨x, r, ?_, ?_⟩
      · rw [← e2, ← e3, a2, a3]
      · rw [← e1]; exact a1
  · rintro ⟨s, r, hr, hs⟩
    have hl : out.length = r.length + 3 := by
      have := congrArg List.length hr
      simpa using this
    have e1 := chr_rev out 0 (by omega)
    have e2 := chr_rev out 1 (by omega)
    have e3 := chr_rev out 2 (by omega)
    have i1 : out.length - 1 - 0 = out.length - 1 := by omega
    have i2 : out.length - 1 - 1 = out.length - 2 := by omega
    have i3 : out.length - 1 - 2 = out.length - 3 := by omega
    rw [i1] at e1; rw [i2] at e2; rw [i3] at e3
    rw [hr] at e1 e2 e3
    simp at e1 e2 e3
    simp only [Bool.and_eq_true, decide_eq_true_eq, beq_iff_eq]
    exact ⟨⟨⟨by omega, e3⟩, e2⟩, by rw [e1]; exact hs⟩

/-! ## `..` inside names -/

theorem hasDotDot_cons (c : Nat) (l : CStr) :
    hasDotDot (c :: l) = ((c == 46 && l.head? == some 46) || hasDotDot l) := by
  cases l with
  | nil =>
    by_cases hc : c = 46
    · subst hc; simp [hasDotDot]
    · simp [hasDotDot]
  | cons d t =>
    by_cases hc : c = 46
    · subst hc
      by_cases hd : d = 46
      · subst hd; simp [hasDotDot]
      · have : hasDotDot (46 :: d :: t) = hasDotDot (d :: t) := by
          apply hasDotDot.eq_2
          intro a _ b; simp at b; exact hd b.1
        simp [this, hd]
    · have : hasDotDot (c :: d :: t) = hasDotDot (d :: t) := by
        apply hasDotDot.eq_2
        intro a b _; exact hc b
      simp [this, hc]

theorem hasDotDot_append_left : ∀ (a b : CStr), hasDotDot a = true → hasDotDot (a ++ b) = true
  | [], _, h => by simp [hasDotDot] at h
  | c :: a, b, h => by
    rw [hasDotDot_cons] at h
    rw [List.cons_append, hasDotDot_cons]
    simp only [Bool.or_eq_true, Bool.and_eq_true, beq_iff_eq] at h ⊢
    rcases h with ⟨h1, h2⟩ | h
    · left
      refine ⟨h1, ?_⟩
      cases a with
      | nil => simp at h2
      | cons x t => simpa using h2
    · right; exact hasDotDot_append_left a b h

theorem hasDotDot_append_dd : ∀ (a b : CStr), hasDotDot (a ++ 46 :: 46 :: b) = true
  | [], b => by simp [hasDotDot]
  | c :: a, b => by
    rw [List.cons_append, hasDotDot_cons]
    simp [hasDotDot_append_dd a b]

/-- appending one character to a name without `..` -/
theorem hasDotDot_snoc : ∀ (a : CStr) (c : Nat), hasDotDot a = false →
    (a.getLast? = some 46 → c ≠ 46) → hasDotDot (a ++ [c]) = false
  | [], c, _, _ => by simp [hasDotDot_cons, hasDotDot]
  | [x], c, _, hl => by
    rw [List.cons_append, hasDotDot_cons]
    simp only [List.nil_append, List.head?_cons, Bool.or_eq_false_iff, Bool.and_eq_false_iff]
    constructor
    · by_cases hx : x = 46
      · subst hx
        right
        have := hl rfl
        simpa using this
      · left; simpa using hx
    · simp [hasDotDot_cons, hasDotDot]
  | x :: y :: t, c, h, hl => by
    rw [hasDotDot_cons] at h
    rw [List.cons_append, hasDotDot_cons]
    simp only [Bool.or_eq_false_iff, Bool.and_eq_false_iff] at h ⊢
    refine ⟨?_, hasDotDot_snoc (y :: t) c h.2 (by simpa using hl)⟩
    simpa using h.1

/-! ## the stack of segments behind the produced string -/

def SegOk (seg : CStr × Option Nat) : Prop :=
  ∃ s, seg.2 = some s ∧ isSep s = true ∧ (∀ c ∈ seg.1, isSep c = false) ∧
    (seg.1 = [46, 46] ∨ hasDotDot seg.1 = false)

def StackOk (st : List (CStr × Option Nat)) : Prop := ∀ seg ∈ st, SegOk seg

/-- the string a stack (top first) stands for -/
def flatR (st : List (CStr × Option Nat)) : CStr := flattenSegs st.reverse

theorem flattenSegs_append : ∀ (l1 l2 : List (CStr × Option Nat)),
    flattenSegs (l1 ++ l2) = flattenSegs l1 ++ flattenSegs l2
  | [], _ => rfl
  | (n, s) :: l1, l2 => by
    simp [flattenSegs, flattenSegs_append l1 l2]

theorem flatR_cons (n : CStr) (s : Option Nat) (st : List (CStr × Option Nat)) :
    flatR ((n, s) :: st) = flatR st ++ n ++ s.toList := by
  unfold flatR
  rw [List.reverse_cons, flattenSegs_append]
  simp [flattenSegs]

theorem flatR_nil : flatR [] = [] := rfl

/-- a non-empty stack's string ends with a separator -/
theorem flatR_ends {st : List (CStr × Option Nat)} (h : StackOk st) :
    st = [] ∨ ∃ s r, (flatR st).reverse = s :: r ∧ isSep s = true := by
  cases st with
  | nil => left; rfl
  | cons seg st' =>
    right
    obtain ⟨n, so⟩ := seg
    obtain ⟨s, hs, hsep, _, _⟩ := h (n, so) (by simp)
    simp only at hs
    subst hs
    rw [flatR_cons]
    exact ⟨s, (flatR st' ++ n).reverse, by simp, hsep⟩

theorem flatR_eq_nil {st : List (CStr × Option Nat)} (h : StackOk st) : flatR st = [] ↔ st = [] := by
  constructor
  · intro e
    rcases flatR_ends h with h0 | ⟨s, r, hr, _⟩
    · exact h0
    · rw [e] at hr; simp at hr
  · intro e; rw [e]; rfl

/-! ## scanning back over a name -/

theorem chr_append_left {A B : CStr} {i : Nat} (h : i < A.length) : chr (A ++ B) i = chr A i := by
  unfold chr
  rw [List.getD_eq_getElem?_getD, List.getD_eq_getElem?_getD, List.getElem?_append_left h]

theorem chr_append_right {A B : CStr} {i : Nat} (h : A.length ≤ i) : chr (A ++ B) i = chr B (i - A.length) := by
  unfold chr
  rw [List.getD_eq_getElem?_getD, List.getD_eq_getElem?_getD, List.getElem?_append_right h]

theorem chr_mem {A : CStr} {i : Nat} (h : i < A.length) : chr A i ∈ A := by
  unfold chr
  rw [List.getD_eq_getElem?_getD, List.getElem?_eq_getElem h]
  simp

theorem scanBackS_skip (out : CStr) (a : Nat) : ∀ k, (∀ i, a ≤ i → i < a + k → isSep (chr out i) = false) →
    scanBackS out (a + k) = scanBackS out a
  | 0, _ => rfl
  | k + 1, h => by
    have e : a + (k + 1) = (a + k) + 1 := by omega
    rw [e, scanBackS, h (a + k) (by omega) (by omega)]
    simp only [Bool.false_eq_true, if_false]
    exact scanBackS_skip out a k (fun i h1 h2 => h i h1 (by omega))

/-- scanning back from behind a name without separators stops behind the previous separator -/
theorem scanBackS_name (A n2 X : CStr) (hn : ∀ c ∈ n2, isSep c = false)
    (hA : A = [] ∨ ∃ s r, A.reverse = s :: r ∧ isSep s = true) :
    scanBackS (A ++ n2 ++ X) (A.length + n2.length) = A.length := by
  rw [scanBackS_skip]
  · rcases hA with h0 | ⟨s, r, hr, hs⟩
    · subst h0; rfl
    · have hl : A.length = r.length + 1 := by
        have := congrArg List.length hr; simpa using this
      rw [hl, scanBackS]
      have : chr (A ++ n2 ++ X) r.length = s := by
        rw [List.append_assoc, chr_append_left (by omega)]
        have := chr_rev A 0 (by omega)
        rw [hr] at this
        simp at this
        have e : A.length - 1 = r.length := by omega
        rw [e] at this
        exact this
      rw [this, hs]
      simp
  · intro i h1 h2
    rw [List.append_assoc, chr_append_right h1, chr_append_left (by omega)]
    exact hn _ (chr_mem (by omega))

/-! ## the `..` step at string level, against the stack -/

theorem dotdotS_empty (e : Nat) : dotdotS [] e = some (pushS [] e) := by
  simp [dotdotS]

theorem isSep46 : isSep 46 = false := by decide

/-- `..` inside or at the end of a longer name: both sides report an error -/
theorem dotdotS_in_name (A cur : CStr) (e : Nat) (hne : cur ≠ []) (hc : ∀ c ∈ cur, isSep c = false) :
    dotdotS (A ++ cur) e = none := by
  obtain ⟨x, r, hr⟩ : ∃ x r, cur.reverse = x :: r := by
    cases h : cur.reverse with
    | nil => exact absurd (by simpa using h) hne
    | cons x r => exact ⟨x, r, rfl⟩
  have hx : isSep x = false := hc x (by
    have : x ∈ cur.reverse := by rw [hr]; simp
    simpa using this)
  have hlen : (A ++ cur).length ≠ 0 := by
    have hcl : cur.length = r.length + 1 := by
      have := congrArg List.length hr; simpa using this
    rw [List.length_append]; omega
  have hrev : (A ++ cur).reverse = x :: (r ++ A.reverse) := by simp [hr]
  have hlast : chr (A ++ cur) ((A ++ cur).length - 1) = x := by
    have := chr_rev (A ++ cur) 0 (by omega)
    rw [hrev] at this
    simpa using this
  unfold dotdotS
  simp only [hlen, if_false]
  have hdd : endsDDS (A ++ cur) = false := by
    cases h : endsDDS (A ++ cur) with
    | false => rfl
    | true =>
      obtain ⟨s, r', hr', hs⟩ := (endsDDS_iff _).mp h
      rw [hrev] at hr'
      injection hr' with h1 _
      rw [h1] at hx
      rw [hx] at hs
      cases hs
  simp only [hdd, Bool.false_eq_true, if_false]
  unfold popS
  rw [hlast, hx]
  simp

/-- the `..` step on a string that ends with the complete segment `(n2, s2)` -/
theorem dotdotS_stack (A n2 : CStr) (s2 e : Nat) (hs2 : isSep s2 = true)
    (hn : ∀ c ∈ n2, isSep c = false) (hdd : n2 = [46, 46] ∨ hasDotDot n2 = false)
    (hA : A = [] ∨ ∃ s r, A.reverse = s :: r ∧ isSep s = true) :
    dotdotS (A ++ n2 ++ [s2]) e =
      if n2 = [46, 46] then some (pushS (A ++ n2 ++ [s2]) e)
      else if n2 = [] ∧ A = [] then none
      else some A := by
  have hlen : (A ++ n2 ++ [s2]).length = A.length + n2.length + 1 := by
    rw [List.length_append, List.length_append]; rfl
  have hrev : (A ++ n2 ++ [s2]).reverse = s2 :: (n2.reverse ++ A.reverse) := by simp
  unfold dotdotS
  have h0 : ¬ (A ++ n2 ++ [s2]).length = 0 := by omega
  simp only [h0, if_false]
  by_cases hnn : n2 = [46, 46]
  · have : endsDDS (A ++ n2 ++ [s2]) = true := by
      rw [endsDDS_iff]
      exact ⟨s2, A.reverse, by rw [hrev, hnn]; rfl, hs2⟩
    rw [if_pos this, if_pos hnn]
  · have hnd : endsDDS (A ++ n2 ++ [s2]) = false := by
      cases h : endsDDS (A ++ n2 ++ [s2]) with
      | false => rfl
      | true =>
        exfalso
        obtain ⟨s, r, hr, _⟩ := (endsDDS_iff _).mp h
        rw [hrev] at hr
        injection hr with _ hr
        -- the string before the last separator ends with `..`
        have hAbad : ∀ r', A.reverse = 46 :: r' → False := by
          intro r' hr'
          rcases hA with h0 | ⟨s', r'', hr'', hs'⟩
          · rw [h0] at hr'; simp at hr'
          · rw [hr''] at hr'
            injection hr' with h1 _
            rw [h1, isSep46] at hs'
            cases hs'
        cases hn2 : n2.reverse with
        | nil =>
          rw [hn2, List.nil_append] at hr
          exact hAbad _ hr
        | cons x t =>
          cases t with
          | nil =>
            rw [hn2, List.cons_append, List.nil_append] at hr
            injection hr with _ hr2
            exact hAbad _ hr2
          | cons y t' =>
            rw [hn2, List.cons_append, List.cons_append] at hr
            injection hr with hx hr2
            injection hr2 with hy _
            have hn2' : n2 = t'.reverse ++ [46, 46] := by
              have := congrArg List.reverse hn2
              rw [List.reverse_reverse] at this
              rw [this, hx, hy]
              simp
            have hh : hasDotDot n2 = true := by rw [hn2']; exact hasDotDot_append_dd _ _
            rcases hdd with h1 | h1
            · exact hnn h1
            · rw [h1] at hh; cases hh
    simp only [hnd, Bool.false_eq_true, if_false, hnn]
    unfold popS
    have hlast : chr (A ++ n2 ++ [s2]) ((A ++ n2 ++ [s2]).length - 1) = s2 := by
      have := chr_rev (A ++ n2 ++ [s2]) 0 (by omega)
      rw [hrev] at this
      simpa using this
    rw [hlast, hs2]
    simp only [Bool.not_true, Bool.false_eq_true, if_false]
    by_cases hsmall : n2 = [] ∧ A = []
    · have : (A ++ n2 ++ [s2]).length < 2 := by rw [hlen, hsmall.1, hsmall.2]; simp
      rw [if_pos this, if_pos hsmall]
    · have : ¬ (A ++ n2 ++ [s2]).length < 2 := by
        rw [hlen]
        intro hlt
        apply hsmall
        constructor
        · apply List.eq_nil_of_length_eq_zero; omega
        · apply List.eq_nil_of_length_eq_zero; omega
      rw [if_neg this, if_neg hsmall]
      have e1 : (A ++ n2 ++ [s2]).length - 1 = A.length + n2.length := by omega
      rw [e1, scanBackS_name A n2 [s2] hn hA]
      have : (A ++ n2 ++ [s2]).take A.length = A := by
        rw [List.append_assoc, List.take_left]
      rw [this]

/-! ## the loop against the reference fold -/

/-- invariant of the current (incomplete) name -/
def CurOk (cur rest : CStr) : Prop :=
  (∀ c ∈ cur, isSep c = false) ∧ hasDotDot cur = false ∧ (cur.getLast? = some 46 → rest.head? ≠ some 46)

/-- what the reference makes of the remaining input, the current name and the stack -/
def refK (rest cur : CStr) (st : List (CStr × Option Nat)) : Option CStr :=
  (normFold (segsAux rest cur.reverse) st).map (fun st' => flatR st')

theorem normFold_plain (name : CStr) (sep : Option Nat) (more st : List (CStr × Option Nat))
    (h : hasDotDot name = false) :
    normFold ((name, sep) :: more) st = normFold more ((name, sep) :: st) := by
  have hne : name ≠ [46, 46] := by intro e; rw [e] at h; simp [hasDotDot] at h
  rw [normFold.eq_def]
  simp [hne, h]

theorem normFold_bad_name (name : CStr) (sep : Option Nat) (more st : List (CStr × Option Nat))
    (h : hasDotDot name = true) (hl : 3 ≤ name.length) : normFold ((name, sep) :: more) st = none := by
  have hne : name ≠ [46, 46] := by intro e; rw [e] at hl; simp at hl
  rw [normFold.eq_def]
  simp [hne, h]

/-- a name that already contains `..` and something else is an error wherever it ends -/
theorem normFold_bad : ∀ (l acc : CStr) (st : List (CStr × Option Nat)),
    hasDotDot acc.reverse = true → 3 ≤ acc.length → normFold (segsAux l acc) st = none
  | [], acc, st, h, hl => by
    have : acc ≠ [] := by intro e; rw [e] at hl; simp at hl
    simp only [segsAux, this, if_false]
    exact normFold_bad_name _ _ _ _ h (by simpa using hl)
  | c :: l, acc, st, h, hl => by
    rw [segsAux]
    by_cases hs : isSep c = true
    · simp only [hs, if_true]
      exact normFold_bad_name _ _ _ _ h (by simpa using hl)
    · simp only [hs, if_false, Bool.false_eq_true]
      apply normFold_bad l (c :: acc) st
      · rw [List.reverse_cons]; exact hasDotDot_append_left _ _ h
      · simp; omega

theorem normGoS_char (c : Nat) (tl out : CStr) (h : ¬ (c = 46 ∧ tl.head? = some 46)) :
    normGoS (c :: tl) out = normGoS tl (out ++ [c]) := by
  cases tl with
  | nil => simp [normGoS]
  | cons d tl2 =>
    rw [normGoS.eq_def]
    have : ¬ (c = 46 ∧ d = 46) := by simpa using h
    simp [this]

/-- one ordinary character: both sides move to the next state -/
theorem char_step (c : Nat) (tl cur : CStr) (st : List (CStr × Option Nat)) (hst : StackOk st)
    (hcur : CurOk cur (c :: tl)) (h : ¬ (c = 46 ∧ tl.head? = some 46)) :
    ∃ st' cur', StackOk st' ∧ CurOk cur' tl ∧ flatR st ++ cur ++ [c] = flatR st' ++ cur' ∧
      refK (c :: tl) cur st = refK tl cur' st' := by
  obtain ⟨h1, h2, h3⟩ := hcur
  by_cases hs : isSep c = true
  · refine ⟨(cur, some c) :: st, [], ?_, ?_, ?_, ?_⟩
    · intro seg hseg
      simp at hseg
      rcases hseg with rfl | hseg
      · exact ⟨c, rfl, hs, h1, Or.inr h2⟩
      · exact hst seg hseg
    · exact ⟨by intro x hx; simp at hx, by simp [hasDotDot], by intro hx; simp at hx⟩
    · rw [flatR_cons]; simp
    · unfold refK
      rw [segsAux]
      simp only [hs, if_true, List.reverse_reverse, List.reverse_nil]
      rw [normFold_plain _ _ _ _ h2]
  · have hs' : isSep c = false := by simpa using hs
    refine ⟨st, cur ++ [c], hst, ?_, by simp, ?_⟩
    · refine ⟨?_, ?_, ?_⟩
      · intro x hx
        simp at hx
        rcases hx with hx | rfl
        · exact h1 x hx
        · exact hs'
      · apply hasDotDot_snoc cur c h2
        intro hl
        have := h3 hl
        simpa using this
      · intro hl
        simp at hl
        intro hh
        exact h ⟨hl, hh⟩
    · unfold refK
      rw [segsAux]
      simp only [hs, if_false, Bool.false_eq_true, List.reverse_append, List.reverse_cons, List.reverse_nil,
        List.nil_append, List.singleton_append]

theorem isSep_ne_zero {e : Nat} (h : isSep e = true) : e ≠ 0 := by
  intro h0; rw [h0] at h; revert h; decide

/-- the `..` segment with an empty current name: string-level step vs one step of the fold -/
theorem dotdot_step (st : List (CStr × Option Nat)) (hst : StackOk st) (sep : Option Nat) (e : Nat)
    (he : e = 0 ∧ sep = none ∨ sep = some e ∧ isSep e = true) (more : List (CStr × Option Nat)) :
    (dotdotS (flatR st) e = none ∧ normFold (([46, 46], sep) :: more) st = none) ∨
    ∃ st', dotdotS (flatR st) e = some (flatR st') ∧
      normFold (([46, 46], sep) :: more) st = normFold more st' ∧
      (StackOk st' ∨ st' = ([46, 46], sep) :: st) := by
  have hpush : ∀ out : CStr, pushS out e = out ++ [46, 46] ++ sep.toList := by
    intro out
    unfold pushS
    rcases he with ⟨h0, hn⟩ | ⟨hs, hsep⟩
    · simp [h0, hn]
    · have := isSep_ne_zero hsep
      simp [this, hs]
  cases st with
  | nil =>
    right
    refine ⟨[([46, 46], sep)], ?_, ?_, Or.inr rfl⟩
    · rw [flatR_nil, dotdotS_empty, hpush, flatR_cons, flatR_nil]
    · rw [normFold.eq_def]; simp
  | cons top st' =>
    obtain ⟨n2, so⟩ := top
    obtain ⟨s2, hso, hs2, hn2, hdd2⟩ := hst (n2, so) (by simp)
    simp only at hso hn2 hdd2
    subst hso
    have hst' : StackOk st' := fun seg hseg => hst seg (by simp [hseg])
    have hA := flatR_ends hst'
    have hA' : flatR st' = [] ∨ ∃ s r, (flatR st').reverse = s :: r ∧ isSep s = true := by
      rcases hA with h0 | h1
      · left; rw [h0]; rfl
      · right; exact h1
    have hds := dotdotS_stack (flatR st') n2 s2 e hs2 hn2 hdd2 hA'
    rw [flatR_cons]
    simp only [Option.toList_some]
    rw [hds, normFold.eq_def]
    by_cases hnn : n2 = [46, 46]
    · right
      simp only [hnn, if_true]
      refine ⟨([46, 46], sep) :: ([46, 46], some s2) :: st', ?_, rfl, Or.inr rfl⟩
      rw [hpush, flatR_cons, flatR_cons]; simp
    · simp only [hnn, if_false]
      by_cases hsmall : n2 = [] ∧ flatR st' = []
      · left
        have : n2 = [] ∧ st' = [] := ⟨hsmall.1, (flatR_eq_nil hst').mp hsmall.2⟩
        rw [if_pos hsmall]
        simp [this]
      · right
        have : ¬ (n2 = [] ∧ st' = []) := by
          intro h; exact hsmall ⟨h.1, (flatR_eq_nil hst').mpr h.2⟩
        simp only [hsmall, if_false, this]
        exact ⟨st', rfl, rfl, Or.inl hst'⟩

theorem curOk_nil (rest : CStr) : CurOk [] rest :=
  ⟨by intro x hx; simp at hx, by simp [hasDotDot], by intro hx; simp at hx⟩

theorem stackOk_push {st : List (CStr × Option Nat)} (hst : StackOk st) {e : Nat} (he : isSep e = true) :
    StackOk (([46, 46], some e) :: st) := by
  intro seg hseg
  simp at hseg
  rcases hseg with rfl | hseg
  · exact ⟨e, rfl, he, by intro c hc; simp at hc; rw [hc]; exact isSep46, Or.inl rfl⟩
  · exact hst seg hseg

/-- **the string-level loop computes the reference fold** -/
theorem normGoS_ref : ∀ (n : Nat) (rest cur : CStr) (st : List (CStr × Option Nat)), rest.length ≤ n →
    StackOk st → CurOk cur rest → normGoS rest (flatR st ++ cur) = refK rest cur st := by
  intro n
  induction n with
  | zero =>
    intro rest cur st hn hst hcur
    have : rest = [] := List.eq_nil_of_length_eq_zero (by omega)
    subst this
    rw [normGoS]
    unfold refK
    rw [segsAux]
    by_cases hc : cur = []
    · subst hc; simp [normFold]
    · have : cur.reverse ≠ [] := by simpa using hc
      simp only [this, if_false, List.reverse_reverse]
      rw [normFold_plain _ _ _ _ hcur.2.1]
      simp [normFold, flatR_cons]
  | succ n ih =>
    intro rest cur st hn hst hcur
    match rest, hn, hcur with
    | [], hn, hcur =>
      rw [normGoS]
      unfold refK
      rw [segsAux]
      by_cases hc : cur = []
      · subst hc; simp [normFold]
      · have : cur.reverse ≠ [] := by simpa using hc
        simp only [this, if_false, List.reverse_reverse]
        rw [normFold_plain _ _ _ _ hcur.2.1]
        simp [normFold, flatR_cons]
    | c :: tl, hn, hcur =>
      by_cases hdd : c = 46 ∧ tl.head? = some 46
      · -- `..` at the cursor
        obtain ⟨hc, hd⟩ := hdd
        subst hc
        obtain ⟨tl2, rfl⟩ : ∃ tl2, tl = 46 :: tl2 := by
          cases tl with
          | nil => simp at hd
          | cons d tl2 => simp at hd; exact ⟨tl2, by rw [hd]⟩
        have hseg0 : ∀ l : CStr, segsAux (46 :: 46 :: l) cur.reverse = segsAux l (46 :: 46 :: cur.reverse) := by
          intro l
          rw [segsAux]
          simp only [isSep46, Bool.false_eq_true, if_false]
          rw [segsAux]
          simp only [isSep46, Bool.false_eq_true, if_false]
        have hname : (46 :: 46 :: cur.reverse).reverse = cur ++ [46, 46] := by simp
        by_cases hcur0 : cur = []
        · subst hcur0
          simp only [List.append_nil]
          match tl2, hn with
          | [], _ =>
            rw [normGoS]
            unfold refK
            rw [hseg0, segsAux]
            simp only [List.reverse_nil, reduceCtorEq, if_false, List.reverse_cons, List.nil_append,
              List.cons_append]
            rcases dotdot_step st hst none 0 (Or.inl ⟨rfl, rfl⟩) [] with ⟨h1, h2⟩ | ⟨st', h1, h2, _⟩
            · rw [h1, h2]; rfl
            · rw [h1, h2]; simp [normFold]
          | e :: tl3, hn =>
            rw [normGoS]
            unfold refK
            rw [hseg0, segsAux]
            by_cases hs : isSep e = true
            · simp only [hs, Bool.not_true, Bool.false_eq_true, if_false, if_true, List.reverse_nil,
                List.reverse_cons, List.nil_append, List.cons_append]
              rcases dotdot_step st hst (some e) e (Or.inr ⟨rfl, hs⟩) (segsAux tl3 []) with
                ⟨h1, h2⟩ | ⟨st', h1, h2, hok⟩
              · rw [h1, h2]; rfl
              · rw [h1, h2]
                have hst'' : StackOk st' := by
                  rcases hok with h | h
                  · exact h
                  · rw [h]; exact stackOk_push hst hs
                have := ih tl3 [] st' (by simp at hn; omega) hst'' (curOk_nil tl3)
                simp only [List.append_nil] at this
                simp only [and_self, if_true]
                rw [this]
                rfl
            · have hs' : (!isSep e) = true := by simpa using hs
              simp only [hs', if_true]
              have hs'' : isSep e = false := by simpa using hs
              simp only [hs'', Bool.false_eq_true, if_false]
              rw [normFold_bad tl3 _ st (by simp [hasDotDot]) (by simp)]
              rfl
        · -- `..` inside a longer name: both sides report an error
          have hnone : ∀ e, dotdotS (flatR st ++ cur) e = none :=
            fun e => dotdotS_in_name (flatR st) cur e hcur0 hcur.1
          have hbad : hasDotDot (cur ++ [46, 46]) = true := hasDotDot_append_dd cur []
          have hlen3 : 3 ≤ (cur ++ [46, 46]).length := by
            have : 0 < cur.length := List.length_pos_iff.mpr hcur0
            simp; omega
          match tl2, hn with
          | [], _ =>
            rw [normGoS, hnone]
            unfold refK
            rw [hseg0, segsAux]
            simp only [reduceCtorEq, if_false, hname]
            rw [normFold_bad_name _ _ _ _ hbad hlen3]
            rfl
          | e :: tl3, _ =>
            rw [normGoS]
            unfold refK
            rw [hseg0]
            have hr : normFold (segsAux (e :: tl3) (46 :: 46 :: cur.reverse)) st = none := by
              apply normFold_bad
              · rw [hname]; exact hbad
              · have := hlen3; simp at this ⊢; omega
            rw [hr]
            by_cases hs : isSep e = true
            · simp only [hs, Bool.not_true, Bool.false_eq_true, if_false, hnone]
              rfl
            · have hs' : (!isSep e) = true := by simpa using hs
              simp only [hs', if_true]
              rfl
      · -- an ordinary character
        rw [normGoS_char c tl _ hdd]
        obtain ⟨st', cur', hst', hcur', hout, href⟩ := char_step c tl cur st hst hcur hdd
        rw [hout, href]
        exact ih tl cur' st' (by simp at hn; omega) hst' hcur'

/-! ## `muggle_path_normpath` and `muggle_path_abspath` meet the reference -/

theorem startswith_lit (p lit : CStr) (h : lit ≠ []) : startswith p lit = lit.isPrefixOf p := by
  rw [startswith_eq_ref]
  unfold refStartswith
  have : (lit == []) = false := by
    cases lit with
    | nil => exact absurd rfl h
    | cons a t => rfl
  simp [this]

/-- the part of the path the loop runs over (one leading `./` or `.\` of a relative path dropped) -/
def normStart (p : CStr) : CStr :=
  if !isAbs p && (([46, 47] : CStr).isPrefixOf p || ([46, 92] : CStr).isPrefixOf p) then p.drop 2 else p

theorem refNormpath_eq (p : CStr) :
    refNormpath p =
      (refK (normStart p) [] []).map (fun r => if r = [] then [46, 47] else r) := by
  unfold refNormpath refK normStart segments flatR
  simp only [List.reverse_nil]
  cases normFold (segsAux (if (!isAbs p && (([46, 47] : CStr).isPrefixOf p || ([46, 92] : CStr).isPrefixOf p)) = true
      then List.drop 2 p else p) []) [] <;> rfl

theorem pathNormpath_meets (p : CStr) (hp : NoNul p) (b : Buf) :
    Meets (pathNormpath true p b) b.size (specNormpath p b.size) := by
  unfold specNormpath
  rw [refNormpath_eq]
  unfold pathNormpath
  simp only [bind, Except.bind, pure, Except.pure]
  by_cases h1 : p.length ≥ b.size
  · have : ¬ p.length < b.size := by omega
    simp only [h1, if_true, this, if_false]
    exact meets_fail rfl
  · have h1' : p.length < b.size := by omega
    simp only [h1, if_false, h1', if_true]
    have hstart : (if (!isAbs p) = true then
        if (startswith p [46, 47] || startswith p [46, 92]) = true then List.drop 2 p else p
      else p) = normStart p := by
      unfold normStart
      rw [startswith_lit p [46, 47] (by simp), startswith_lit p [46, 92] (by simp)]
      by_cases ha : isAbs p = true
      · simp [ha]
      · have ha' : isAbs p = false := by simpa using ha
        simp [ha']
    rw [hstart]
    have hlen : (normStart p).length ≤ p.length := by
      unfold normStart; split <;> simp
    have hnn : NoNul (normStart p) := by
      unfold normStart; split
      · exact hp.drop 2
      · exact hp
    have hprod : Produced b 0 [] := ⟨rfl, by intro c hc; simp at hc, by simp⟩
    have hroom : 0 + (normStart p).length < b.size := by omega
    have hgo := normGo_ok (normStart p).length (normStart p) b 0 [] (Nat.le_refl _) hnn hprod hroom
    have hrf := normGo_refines (normStart p).length (normStart p) b 0 [] (Nat.le_refl _) hnn hprod hroom
    have hS := normGoS_ref (normStart p).length (normStart p) [] [] (Nat.le_refl _)
      (by intro seg hseg; simp at hseg) (curOk_nil _)
    simp only [flatR_nil, List.append_nil] at hS
    rw [hS] at hrf
    cases hk : refK (normStart p) [] [] with
    | none =>
      rw [hk] at hrf
      unfold Refines at hrf
      rw [hrf]
      exact meets_fail rfl
    | some out' =>
      rw [hk] at hrf
      obtain ⟨b', hsome, hsz, hp'⟩ := hrf
      -- the bound on the final position
      have hbound : out'.length < b.size := by
        rcases hgo with hnone | ⟨b2, pos2, out2, hs2, _, _, hle⟩
        · rw [hnone] at hsome; cases hsome
        · rw [hs2] at hsome
          injection hsome with hsome
          injection hsome with hsome
          injection hsome with _ hpos
          omega
      rw [hsome]
      simp only [Option.map_some]
      by_cases hp0 : out'.length = 0
      · have he : out' = [] := List.eq_nil_of_length_eq_zero hp0
        subst he
        simp only [List.length_nil, if_true]
        by_cases h2 : b.size ≤ 2
        · simp only [h2, if_true]
          have := meets_fail (b := b') (spec := fits b.size (some [46, 47])) (fits_none_of (by simp; omega))
          rw [hsz] at this
          exact this
        · simp only [h2, if_false]
          obtain ⟨b1, w1, s1, p1⟩ := hp'.write (v := 46) (by rw [hsz]; omega) (by omega)
          obtain ⟨b2, w2, s2, p2⟩ := p1.write (v := 47) (by rw [s1, hsz]; omega) (by omega)
          obtain ⟨b3, w3, s3, c3⟩ := p2.terminate (by rw [s2, s1, hsz]; omega)
          simp only [List.length_nil, Nat.zero_add, List.nil_append] at w1 w2 w3 c3
          rw [w1]
          dsimp only
          rw [w2]
          dsimp only
          rw [w3]
          have hfit : ([46, 47] : CStr).length < b.size := by simp; omega
          refine ⟨b3, by rw [fits_some_of hfit]; rfl, by rw [s3, s2, s1, hsz], ?_⟩
          intro x hx
          rw [fits_some_of hfit] at hx
          injection hx with hx
          rw [← hx]
          exact c3
      · simp only [hp0, if_false]
        have hne : out' ≠ [] := fun e => hp0 (by rw [e]; rfl)
        simp only [hne, if_false]
        obtain ⟨b3, w3, s3, c3⟩ := hp'.terminate (by rw [hsz]; omega)
        rw [w3]
        refine ⟨b3, by rw [fits_some_of hbound]; rfl, by rw [s3, hsz], ?_⟩
        intro x hx
        rw [fits_some_of hbound] at hx
        injection hx with hx
        rw [← hx]
        exact c3

theorem refJoin_length {p1 p2 r : CStr} (h : refJoin p1 p2 = some r) : 2 ≤ r.length := by
  rw [refJoin_val] at h
  by_cases hA : p1 = [] ∨ p2 = []
  · simp [hA] at h
  · by_cases hB : p2 = [47]
    · simp [hB] at h
    · simp only [hA, hB, if_false, Option.some.injEq] at h
      rw [← h]
      have h1 : 0 < p1.length := List.length_pos_iff.mpr (fun e => hA (Or.inl e))
      have h2 : 0 < (joinTail p2).length := by
        rw [joinTail_length]
        cases p2 with
        | nil => exact absurd (Or.inr rfl) hA
        | cons a t =>
          by_cases ha : (a :: t).head? = some 47
          · simp only [ha, if_true]
            cases t with
            | nil => simp at ha; rw [ha] at hB; exact absurd rfl hB
            | cons x t' => simp
          · rw [if_neg ha]; simp
      simp
      omega

theorem pathAbspath_meets (cwd : Option CStr) (hcwd : ∀ c, cwd = some c → NoNul c) (p : CStr)
    (hp : NoNul p) (b : Buf) : Meets (pathAbspath true cwd p b) b.size (specAbspath cwd p b.size) := by
  unfold pathAbspath specAbspath
  simp only [bind, Except.bind, pure, Except.pure, if_true]
  by_cases hab : isAbs p = true
  · simp only [hab, if_true]
    have hlen2 : 1 < p.length := by
      unfold isAbs at hab
      by_cases h : p.length > 1 ∧ p[0]? = some 47
      · exact h.1
      · simp only [h, if_false] at hab
        by_cases h' : p.length > 2 ∧ isAlpha (p.getD 0 0) = true ∧ p[1]? = some 58 ∧ isSep (p.getD 2 0) = true
        · omega
        · simp only [h', if_false] at hab
          cases hab
    by_cases h1 : b.size ≤ 1
    · simp only [h1, if_true]
      exact meets_fail (fits_none_of (by omega))
    · simp only [h1, if_false]
      by_cases h2 : p.length > b.size - 1
      · simp only [h2, if_true]
        exact meets_fail (fits_none_of (by omega))
      · simp only [h2, if_false]
        obtain ⟨b1, b2, e1, e2, hsz, hc, _⟩ := strncpy_terminate b p (b.size - 1) (by omega) (by omega) hp
        rw [e1]
        dsimp only
        rw [e2]
        have hfit : p.length < b.size := by omega
        refine ⟨b2, by rw [fits_some_of hfit]; rfl, hsz, ?_⟩
        intro x hx
        rw [fits_some_of hfit] at hx
        injection hx with hx
        rw [← hx]; exact hc
  · have hab' : isAbs p = false := by simpa using hab
    simp only [hab', Bool.false_eq_true, if_false]
    by_cases h1 : b.size ≤ 1
    · simp only [h1, if_true]
      apply meets_fail
      cases cwd with
      | none => rfl
      | some cwd =>
        simp only
        cases hr : refJoin cwd p with
        | none => rfl
        | some full =>
          simp only
          have hl2 := refJoin_length hr
          have : ¬ full.length < b.size := by omega
          unfold specNormpath
          simp only [this, if_false]
          split <;> rfl
    · simp only [h1, if_false]
      cases cwd with
      | none => exact meets_fail rfl
      | some cwd =>
        simp only
        have hj := pathJoin_meets cwd p (hcwd cwd rfl) hp (Buf.fresh MAX_PATH)
        obtain ⟨full, hj1, _, hj3⟩ := hj
        rw [hj1]
        dsimp only
        have hsize : (Buf.fresh MAX_PATH).size = MAX_PATH := by simp [Buf.fresh, Buf.size]
        rw [hsize] at hj3 ⊢
        unfold specJoin at hj3 ⊢
        cases hr : refJoin cwd p with
        | none =>
          simp only [fits, Option.isSome_none, Bool.not_false, if_true]
          exact meets_fail rfl
        | some fullStr =>
          rw [hr] at hj3
          by_cases hl : fullStr.length < MAX_PATH
          · rw [fits_some_of hl] at hj3 ⊢
            simp only [Option.isSome_some, Bool.not_true, Bool.false_eq_true, if_false]
            have hc := hj3 fullStr rfl
            rw [hc]
            dsimp only
            have hge : ¬ fullStr.length ≥ MAX_PATH := by omega
            simp only [hge, if_false]
            exact pathNormpath_meets fullStr (cstrCells_noNul _ _ hc) b
          · rw [fits_none_of hl]
            simp only [Option.isSome_none, Bool.not_false, if_true]
            have hge : fullStr.length ≥ MAX_PATH := by omega
            simp only [hge, if_true]
            exact meets_fail rfl

end MgProof.C20
