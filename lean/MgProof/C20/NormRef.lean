import MgProof.C20.NormLemmas
/-!
# C20 — `muggle_path_normpath` agrees with the reference path algebra

Two steps: (1) the buffer-level loop `normGo` refines a string-level loop `normGoS` that works
on the produced string instead of the caller's buffer; (2) `normGoS` computes what the
segment-wise reference `normFold` defines.
-/
namespace MgProof.C20
open MgModel.C20

/-! ## (1) the string-level loop -/

/-- character `i` of the produced string (0 beyond its end) -/
def chr (out : CStr) (i : Nat) : Nat := out.getD i 0

def endsDDS (out : CStr) : Bool :=
  decide (out.length ≥ 3) && (chr out (out.length - 3) == 46) && (chr out (out.length - 2) == 46) &&
    isSep (chr out (out.length - 1))

def scanBackS (out : CStr) : Nat → Nat
  | 0 => 0
  | i + 1 => if isSep (chr out i) then i + 1 else scanBackS out i

def pushS (out : CStr) (e : Nat) : CStr := out ++ [46, 46] ++ (if e = 0 then [] else [e])

def popS (out : CStr) : Option CStr :=
  if !isSep (chr out (out.length - 1)) then none
  else if out.length < 2 then none
  else some (out.take (scanBackS out (out.length - 1)))

def dotdotS (out : CStr) (e : Nat) : Option CStr :=
  if out.length = 0 then some (pushS out e)
  else if endsDDS out then some (pushS out e)
  else popS out

def normGoS : CStr → CStr → Option CStr
  | [], out => some out
  | c :: tl, out =>
    match tl with
    | [] => normGoS [] (out ++ [c])
    | d :: tl2 =>
      if c = 46 ∧ d = 46 then
        match tl2 with
        | [] => dotdotS out 0
        | e :: tl3 =>
          if !isSep e then none
          else
            match dotdotS out e with
            | none => none
            | some out' => normGoS tl3 out'
      else normGoS (d :: tl2) (out ++ [c])

/-- the buffer-level result `r` is the string-level result `o` -/
def Refines (r : Except Err (Option (Buf × Nat))) (size : Nat) (o : Option CStr) : Prop :=
  match o with
  | none => r = .ok none
  | some out' => ∃ b', r = .ok (some (b', out'.length)) ∧ b'.size = size ∧ Produced b' out'.length out'

theorem Produced.read_val {b : Buf} {pos i : Nat} {out : CStr} (h : Produced b pos out) (hi : i < pos) :
    b.read i = .ok (chr out i) := by
  obtain ⟨h1, _, h3⟩ := h
  unfold Buf.read
  have : b.cells[i]? = (b.cells.take pos)[i]? := by
    rw [List.getElem?_take]; simp [hi]
  rw [this, h3]
  have hi' : i < out.length := by omega
  simp only [List.getElem?_map, List.getElem?_eq_getElem hi', Option.map_some]
  congr 1
  unfold chr
  simp [hi']

theorem scanBack_val {b : Buf} {pos : Nat} {out : CStr} (h : Produced b pos out) :
    ∀ k, k ≤ pos → scanBack b k = .ok (scanBackS out k)
  | 0, _ => rfl
  | i + 1, hk => by
    unfold scanBack scanBackS
    rw [h.read_val (by omega)]
    simp only [bind, Except.bind, pure, Except.pure]
    by_cases hs : isSep (chr out i) = true
    · simp [hs]
    · simp only [hs, if_false, Bool.false_eq_true]
      exact scanBack_val h i (by omega)

theorem scanBackS_le (out : CStr) : ∀ k, scanBackS out k ≤ k
  | 0 => Nat.le_refl _
  | i + 1 => by
    unfold scanBackS
    split
    · exact Nat.le_refl _
    · have := scanBackS_le out i; omega

theorem endsDotDot_val {b : Buf} {pos : Nat} {out : CStr} (h : Produced b pos out) :
    endsDotDot b pos = .ok (endsDDS out) := by
  have hl := h.1
  unfold endsDotDot endsDDS
  rw [hl]
  by_cases h3 : pos ≥ 3
  · simp only [h3, if_true, bind, Except.bind, pure, Except.pure, decide_true, Bool.true_and]
    rw [h.read_val (i := pos - 3) (by omega)]
    dsimp only
    by_cases hc3 : chr out (pos - 3) ≠ 46
    · rw [if_pos hc3]
      have : (chr out (pos - 3) == 46) = false := by simpa using hc3
      simp [this]
    · rw [if_neg hc3, h.read_val (i := pos - 2) (by omega)]
      dsimp only
      have e3 : (chr out (pos - 3) == 46) = true := by simpa using hc3
      by_cases hc2 : chr out (pos - 2) ≠ 46
      · rw [if_pos hc2]
        have : (chr out (pos - 2) == 46) = false := by simpa using hc2
        simp [this]
      · rw [if_neg hc2, h.read_val (i := pos - 1) (by omega)]
        have e2 : (chr out (pos - 2) == 46) = true := by simpa using hc2
        simp [e3, e2]
  · simp [h3]; rfl

theorem normPush_val {b : Buf} {pos e : Nat} {out : CStr} (h : Produced b pos out)
    (hroom : pos + (if e = 0 then 2 else 3) ≤ b.size) :
    Refines (normPush true b pos e) b.size (some (pushS out e)) := by
  have hlt1 : pos < b.size := by split at hroom <;> omega
  obtain ⟨b1, w1, s1, p1⟩ := h.write hlt1 (v := 46) (by omega)
  have hlt2 : pos + 1 < b1.size := by rw [s1]; split at hroom <;> omega
  obtain ⟨b2, w2, s2, p2⟩ := p1.write hlt2 (v := 46) (by omega)
  have hl := h.1
  unfold normPush Refines pushS
  simp only [bind, Except.bind, pure, Except.pure, w1, w2, true_and]
  by_cases he : e = 0
  · simp only [he, if_true, List.append_nil]
    refine ⟨b2, ?_, by rw [s2, s1], ?_⟩
    · simp [hl]
    · have : (out ++ [46, 46]).length = pos + 1 + 1 := by simp [hl]
      rw [this]
      have e2 : out ++ [46, 46] = out ++ [46] ++ [46] := by simp
      rw [e2]; exact p2
  · simp only [he, if_false] at hroom ⊢
    have hlt3 : pos + 1 + 1 < b2.size := by rw [s2, s1]; omega
    obtain ⟨b3, w3, s3, p3⟩ := p2.write hlt3 (v := e) he
    have e2 : pos + 2 = pos + 1 + 1 := by omega
    rw [e2, w3]
    refine ⟨b3, ?_, by rw [s3, s2, s1], ?_⟩
    · simp [hl]
    · have : (out ++ [46, 46] ++ [e]).length = pos + 1 + 1 + 1 := by simp [hl]
      rw [this]
      have e3 : out ++ [46, 46] ++ [e] = out ++ [46] ++ [46] ++ [e] := by simp
      rw [e3]; exact p3

theorem normPop_val {b : Buf} {pos : Nat} {out : CStr} (h : Produced b pos out) (hp : pos ≠ 0) :
    Refines (normPop b pos) b.size (popS out) := by
  have hl := h.1
  unfold normPop popS
  simp only [bind, Except.bind, pure, Except.pure]
  rw [h.read_val (i := pos - 1) (by omega), hl]
  dsimp only
  by_cases hs : isSep (chr out (pos - 1)) = true
  · simp only [hs, Bool.not_true, Bool.false_eq_true, if_false]
    by_cases h2 : pos < 2
    · simp only [h2, if_true]; rfl
    · simp only [h2, if_false]
      rw [scanBack_val h (pos - 1) (by omega)]
      have hle := scanBackS_le out (pos - 1)
      have hsh := h.shrink (pos' := scanBackS out (pos - 1)) (by omega)
      refine ⟨b, ?_, rfl, ?_⟩
      · simp; congr 2; omega
      · have : (out.take (scanBackS out (pos - 1))).length = scanBackS out (pos - 1) := by simp; omega
        rw [this]; exact hsh
  · have : (!isSep (chr out (pos - 1))) = true := by simpa using hs
    simp only [this, if_true]
    rfl

theorem normDotDot_val {b : Buf} {pos e : Nat} {out : CStr} (h : Produced b pos out)
    (hroom : pos + (if e = 0 then 2 else 3) ≤ b.size) :
    Refines (normDotDot true b pos e) b.size (dotdotS out e) := by
  have hl := h.1
  unfold normDotDot dotdotS
  simp only [bind, Except.bind]
  rw [hl]
  by_cases hp0 : pos = 0
  · simp only [hp0, if_true]
    rw [hp0] at hroom h
    exact normPush_val h hroom
  · simp only [hp0, if_false]
    rw [endsDotDot_val h]
    dsimp only
    by_cases hd : endsDDS out = true
    · simp only [hd, if_true]
      exact normPush_val h hroom
    · simp only [hd, if_false, Bool.false_eq_true]
      exact normPop_val h hp0

theorem dotdotS_length {out out' : CStr} {e : Nat} (h : dotdotS out e = some out') :
    out'.length ≤ out.length + (if e = 0 then 2 else 3) := by
  unfold dotdotS at h
  have hpush : (pushS out e).length = out.length + (if e = 0 then 2 else 3) := by
    unfold pushS; by_cases he : e = 0 <;> simp [he]
  by_cases h0 : out.length = 0
  · simp only [h0, if_true, Option.some.injEq] at h
    rw [← h, hpush, h0]
    exact Nat.le_refl _
  · simp only [h0, if_false] at h
    by_cases hd : endsDDS out = true
    · simp only [hd, if_true, Option.some.injEq] at h
      rw [← h, hpush]
      exact Nat.le_refl _
    · simp only [hd, if_false, Bool.false_eq_true] at h
      unfold popS at h
      split at h
      · cases h
      · split at h
        · cases h
        · injection h with h
          rw [← h]
          simp
          have := scanBackS_le out (out.length - 1)
          split <;> omega

theorem normGo_refines : ∀ (n : Nat) (rest : CStr) (b : Buf) (pos : Nat) (out : CStr), rest.length ≤ n →
    NoNul rest → Produced b pos out → pos + rest.length < b.size →
    Refines (normGo true rest b pos) b.size (normGoS rest out) := by
  intro n
  induction n with
  | zero =>
    intro rest b pos out hn _ hprod hroom
    have : rest = [] := List.eq_nil_of_length_eq_zero (by omega)
    subst this
    rw [normGo, normGoS]
    exact ⟨b, by rw [hprod.1], rfl, by rw [hprod.1]; exact hprod⟩
  | succ n ih =>
    intro rest b pos out hn hnn hprod hroom
    have hl := hprod.1
    match rest, hn, hnn, hroom with
    | [], _, _, _ =>
      rw [normGo, normGoS]
      exact ⟨b, by rw [hl], rfl, by rw [hl]; exact hprod⟩
    | [c], _, hnn, hroom =>
      rw [normGo, normGoS]
      simp only [bind, Except.bind]
      have hc : c ≠ 0 := hnn c (by simp)
      obtain ⟨b1, w1, s1, p1⟩ := hprod.write (v := c) (by simp at hroom; omega) hc
      rw [w1]
      dsimp only
      rw [normGo, normGoS]
      have hlen : (out ++ [c]).length = pos + 1 := by simp [hl]
      exact ⟨b1, by rw [hlen], s1, by rw [hlen]; exact p1⟩
    | [c, d], hn, hnn, hroom =>
      rw [normGo, normGoS]
      by_cases hdd : c = 46 ∧ d = 46
      · simp only [hdd, and_self, if_true]
        have := normDotDot_val (e := 0) hprod (by simp at hroom ⊢; omega)
        exact this
      · simp only [hdd, if_false, bind, Except.bind]
        have hc : c ≠ 0 := hnn c (by simp)
        obtain ⟨b1, w1, s1, p1⟩ := hprod.write (v := c) (by simp at hroom; omega) hc
        rw [w1]
        dsimp only
        have := ih [d] b1 (pos + 1) _ (by simp at hn ⊢; omega)
          (fun x hx => hnn x (by simp at hx ⊢; right; exact hx)) p1 (by rw [s1]; simp at hroom ⊢; omega)
        rw [s1] at this
        exact this
    | c :: d :: e :: tl3, hn, hnn, hroom =>
      rw [normGo, normGoS]
      by_cases hdd : c = 46 ∧ d = 46
      · simp only [hdd, and_self, if_true]
        by_cases hs : isSep e = true
        · simp only [hs, Bool.not_true, Bool.false_eq_true, if_false, bind, Except.bind, pure, Except.pure]
          have he : e ≠ 0 := hnn e (by simp)
          have hstep := normDotDot_val (e := e) hprod (by simp only [he, if_false]; simp at hroom; omega)
          cases hds : dotdotS out e with
          | none =>
            rw [hds] at hstep
            unfold Refines at hstep
            rw [hstep]
            rfl
          | some out' =>
            rw [hds] at hstep
            obtain ⟨b', hsome, hsz, hp'⟩ := hstep
            rw [hsome]
            dsimp only
            have hlen := dotdotS_length hds
            simp only [he, if_false] at hlen
            have := ih tl3 b' out'.length out' (by simp at hn; omega)
              (fun x hx => hnn x (by simp [hx])) hp' (by rw [hsz]; simp at hroom; omega)
            rw [hsz] at this
            exact this
        · have : (!isSep e) = true := by simpa using hs
          simp only [this, if_true]
          rfl
      · simp only [hdd, if_false, bind, Except.bind]
        have hc : c ≠ 0 := hnn c (by simp)
        obtain ⟨b1, w1, s1, p1⟩ := hprod.write (v := c) (by simp at hroom; omega) hc
        rw [w1]
        dsimp only
        have := ih (d :: e :: tl3) b1 (pos + 1) _ (by simp at hn ⊢; omega)
          (fun x hx => hnn x (by simp at hx ⊢; right; exact hx)) p1 (by rw [s1]; simp at hroom ⊢; omega)
        rw [s1] at this
        exact this

end MgProof.C20
