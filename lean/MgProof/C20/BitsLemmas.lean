import MgModel.C20.Bits
/-!
# C20 — lemmas for `next_pow_of_2` and the endian swaps

Everything is proved on `Nat` through `BitVec.toNat` (`|||`, `&&&`, `>>>` commute with
`toNat`); the only bit-level facts used are `Nat.testBit` of `|||`, `>>>`, `2^k`, `2^k - 1`.
-/
namespace MgProof.C20
open MgModel.C20

def IsPow2 (n : Nat) : Prop := ∃ k, n = 2 ^ k

/-! ## highest set bit -/

theorem testBit_log2 {n : Nat} (h : n ≠ 0) : n.testBit n.log2 = true := by
  have h1 : 2 ^ n.log2 ≤ n := Nat.log2_self_le h
  have h2 : n < 2 ^ (n.log2 + 1) := Nat.lt_log2_self
  obtain ⟨i, hi, hb⟩ := Nat.exists_ge_and_testBit_of_ge_two_pow h1
  have : i = n.log2 := by
    apply Nat.le_antisymm _ hi
    apply Nat.le_of_not_lt
    intro hlt
    have : n < 2 ^ i := Nat.lt_of_lt_of_le h2 (Nat.pow_le_pow_right (by omega) hlt)
    rw [Nat.testBit_lt_two_pow this] at hb
    cases hb
  rw [← this]; exact hb

theorem testBit_above_log2 {n i : Nat} (hi : n.log2 < i) : n.testBit i = false := by
  apply Nat.testBit_lt_two_pow
  exact Nat.lt_of_lt_of_le Nat.lt_log2_self (Nat.pow_le_pow_right (by omega) hi)

/-! ## smearing -/

/-- `y` has bit `i` iff `x` has some bit in `[i, i+m)` -/
def Smeared (m x y : Nat) : Prop :=
  ∀ i, y.testBit i = true ↔ ∃ d, d < m ∧ x.testBit (i + d) = true

theorem smeared_one (x : Nat) : Smeared 1 x x := by
  intro i
  constructor
  · intro h; exact ⟨0, by omega, by simpa using h⟩
  · rintro ⟨d, hd, h⟩
    have : d = 0 := by omega
    subst this; simpa using h

theorem smeared_step {m x y : Nat} (h : Smeared m x y) : Smeared (2 * m) x (y ||| y >>> m) := by
  intro i
  rw [Nat.testBit_or, Nat.testBit_shiftRight, Bool.or_eq_true, h i, h (m + i)]
  constructor
  · rintro (⟨d, hd, hb⟩ | ⟨d, hd, hb⟩)
    · exact ⟨d, by omega, hb⟩
    · refine ⟨m + d, by omega, ?_⟩
      have : i + (m + d) = m + i + d := by omega
      rw [this]; exact hb
  · rintro ⟨d, hd, hb⟩
    by_cases hdm : d < m
    · exact Or.inl ⟨d, hdm, hb⟩
    · refine Or.inr ⟨d - m, by omega, ?_⟩
      have : m + i + (d - m) = i + d := by omega
      rw [this]; exact hb

def smear16N (x : Nat) : Nat :=
  let x := x ||| (x >>> 1)
  let x := x ||| (x >>> 2)
  let x := x ||| (x >>> 4)
  let x := x ||| (x >>> 8)
  let x := x ||| (x >>> 16)
  x

theorem smear16_toNat (x : BitVec 64) : (smear16 x).toNat = smear16N x.toNat := by
  simp [smear16, smear16N, BitVec.toNat_or, BitVec.toNat_ushiftRight]

theorem smeared32 (x : Nat) : Smeared 32 x (smear16N x) := by
  have h1 := smeared_step (smeared_one x)
  have h2 := smeared_step h1
  have h4 := smeared_step h2
  have h8 := smeared_step h4
  have h16 := smeared_step h8
  exact h16

theorem smeared64 (x : Nat) : Smeared 64 x (smear16N x ||| smear16N x >>> 32) :=
  smeared_step (smeared32 x)

/-- a value smeared over at least `log2 n + 1` positions is `2^(log2 n + 1) - 1` -/
theorem smeared_eq {m n y : Nat} (hn : n ≠ 0) (hm : n.log2 < m) (h : Smeared m n y) :
    y = 2 ^ (n.log2 + 1) - 1 := by
  apply Nat.eq_of_testBit_eq
  intro i
  rw [Nat.testBit_two_pow_sub_one]
  by_cases hi : i < n.log2 + 1
  · have : y.testBit i = true := (h i).mpr ⟨n.log2 - i, by omega, by
      have : i + (n.log2 - i) = n.log2 := by omega
      rw [this]; exact testBit_log2 hn⟩
    simp [this, hi]
  · have : y.testBit i = false := by
      cases hy : y.testBit i with
      | false => rfl
      | true =>
        obtain ⟨d, _, hb⟩ := (h i).mp hy
        rw [testBit_above_log2 (by omega)] at hb
        cases hb
    simp [this, hi]

/-! ## the power-of-two test -/

theorem and_pred_pow2 (k : Nat) : 2 ^ k &&& (2 ^ k - 1) = 0 := by
  apply Nat.eq_of_testBit_eq
  intro i
  rw [Nat.testBit_and, Nat.testBit_two_pow, Nat.testBit_two_pow_sub_one]
  by_cases h : k = i <;> simp [h]

theorem and_pred_ne_zero {n : Nat} (hn : n ≠ 0) (hp : ¬ IsPow2 n) : n &&& (n - 1) ≠ 0 := by
  intro h0
  have h1 : 2 ^ n.log2 ≤ n := Nat.log2_self_le hn
  have h2 : n < 2 ^ (n.log2 + 1) := Nat.lt_log2_self
  have hne : n ≠ 2 ^ n.log2 := fun e => hp ⟨_, e⟩
  have hb1 : n.testBit n.log2 = true := testBit_log2 hn
  have hb2 : (n - 1).testBit n.log2 = true := by
    have e : n - 1 = 2 ^ n.log2 + (n - 1 - 2 ^ n.log2) := by omega
    rw [e, Nat.testBit_two_pow_add_eq]
    have : n - 1 - 2 ^ n.log2 < 2 ^ n.log2 := by
      rw [Nat.pow_succ] at h2; omega
    rw [Nat.testBit_lt_two_pow this]; rfl
  have : (n &&& (n - 1)).testBit n.log2 = true := by
    rw [Nat.testBit_and, hb1, hb2]; rfl
  rw [h0] at this
  simp at this

theorem isPow2Macro_iff (x : BitVec 64) :
    isPow2Macro x = true ↔ (x.toNat = 0 ∨ IsPow2 x.toNat) := by
  unfold isPow2Macro
  rw [beq_iff_eq, ← BitVec.toNat_inj, BitVec.toNat_and]
  by_cases h0 : x.toNat = 0
  · have : x = 0#64 := by apply BitVec.eq_of_toNat_eq; simpa using h0
    subst this
    simp
  · have hx : x.toNat < 2 ^ 64 := x.isLt
    have hsub : (x - 1).toNat = x.toNat - 1 := by
      rw [BitVec.toNat_sub]
      simp
      omega
    rw [hsub]
    constructor
    · intro h
      right
      apply Classical.byContradiction
      intro hp
      exact and_pred_ne_zero h0 hp (by simpa using h)
    · rintro (h | ⟨k, hk⟩)
      · exact absurd h h0
      · rw [hk]; simp [and_pred_pow2 k]

/-! ## power-of-two arithmetic -/

theorem pow2_le_of_lt {j k : Nat} (h : 2 ^ k < 2 ^ j) : 2 ^ (k + 1) ≤ 2 ^ j := by
  apply Nat.pow_le_pow_right (by omega)
  apply Classical.byContradiction
  intro hh
  have : j ≤ k := by omega
  have := Nat.pow_le_pow_right (show 0 < 2 by omega) this
  omega

end MgProof.C20

namespace MgProof.C20
open MgModel.C20

/-- `p` is the least power of two not below `n` -/
def IsLeastPow2 (n p : Nat) : Prop :=
  IsPow2 p ∧ n ≤ p ∧ ∀ q, IsPow2 q → n ≤ q → p ≤ q

theorem IsLeastPow2.unique {n p q : Nat} (hp : IsLeastPow2 n p) (hq : IsLeastPow2 n q) : p = q :=
  Nat.le_antisymm (hp.2.2 q hq.1 hq.2.1) (hq.2.2 p hp.1 hp.2.1)

/-- value of the smeared word, for a non-zero 64-bit `n` -/
theorem smear64_val {n : Nat} (hn : n ≠ 0) (hlt : n < 2 ^ 64) :
    (smear16N n ||| smear16N n >>> 32) = 2 ^ (n.log2 + 1) - 1 := by
  have hk : n.log2 < 64 := (Nat.log2_lt hn).mpr hlt
  exact smeared_eq hn hk (smeared64 n)

theorem smear32_val {n : Nat} (hn : n ≠ 0) (hlt : n < 2 ^ 32) :
    smear16N n = 2 ^ (n.log2 + 1) - 1 := by
  have hk : n.log2 < 32 := (Nat.log2_lt hn).mpr hlt
  exact smeared_eq hn hk (smeared32 n)

/-- the non-power-of-two branch of `nextPow2` computes `2^(log2 n + 1)` modulo `2^64` -/
theorem nextPow2_else (x : BitVec 64) (h : isPow2Macro x = false) :
    (nextPow2 x).toNat = 2 ^ (x.toNat.log2 + 1) % 2 ^ 64 := by
  have hn : x.toNat ≠ 0 := by
    intro h0
    have := (isPow2Macro_iff x).mpr (Or.inl h0)
    rw [h] at this; cases this
  unfold nextPow2
  rw [h]
  simp only [Bool.false_eq_true, if_false]
  rw [BitVec.toNat_add, BitVec.toNat_or, BitVec.toNat_ushiftRight, smear16_toNat,
    smear64_val hn x.isLt]
  have : 0 < 2 ^ (x.toNat.log2 + 1) := Nat.pow_pos (by omega)
  simp
  congr 1
  omega

theorem nextPow2Orig_else (x : BitVec 64) (h : isPow2Macro x = false) (h32 : x.toNat < 2 ^ 32) :
    (nextPow2Orig x).toNat = 2 ^ (x.toNat.log2 + 1) := by
  have hn : x.toNat ≠ 0 := by
    intro h0
    have := (isPow2Macro_iff x).mpr (Or.inl h0)
    rw [h] at this; cases this
  have hk : x.toNat.log2 < 32 := (Nat.log2_lt hn).mpr h32
  unfold nextPow2Orig
  rw [h]
  simp only [Bool.false_eq_true, if_false]
  rw [BitVec.toNat_add, smear16_toNat, smear32_val hn h32]
  have h1 : 0 < 2 ^ (x.toNat.log2 + 1) := Nat.pow_pos (by omega)
  have h2 : 2 ^ (x.toNat.log2 + 1) ≤ 2 ^ 32 := Nat.pow_le_pow_right (by omega) (by omega)
  simp
  omega

/-- `2^(log2 n + 1)` is the least power of two `≥ n` when `n` is not itself one -/
theorem least_of_not_pow2 {n : Nat} (hn : n ≠ 0) (hp : ¬ IsPow2 n) :
    IsLeastPow2 n (2 ^ (n.log2 + 1)) := by
  refine ⟨⟨_, rfl⟩, Nat.le_of_lt Nat.lt_log2_self, ?_⟩
  rintro q ⟨j, rfl⟩ hq
  apply pow2_le_of_lt
  have h1 : 2 ^ n.log2 ≤ n := Nat.log2_self_le hn
  have hne : n ≠ 2 ^ n.log2 := fun e => hp ⟨_, e⟩
  omega

theorem least_of_pow2 {n : Nat} (hp : IsPow2 n) : IsLeastPow2 n n :=
  ⟨hp, Nat.le_refl _, fun _ _ h => h⟩

/-- the executable specification used by the driver is the least power of two -/
theorem leastPow2From_spec (n : Nat) : ∀ fuel a,
    (∀ q, IsPow2 q → n ≤ q → 2 ^ a ≤ q) → n ≤ 2 ^ (a + fuel) →
    IsLeastPow2 n (leastPow2From fuel (2 ^ a) n) := by
  intro fuel
  induction fuel with
  | zero =>
    intro a hlow hup
    have hup' : n ≤ 2 ^ a := by simpa using hup
    exact ⟨⟨a, rfl⟩, hup', hlow⟩
  | succ f ih =>
    intro a hlow hup
    unfold leastPow2From
    by_cases h : n ≤ 2 ^ a
    · simp only [h, if_true]
      exact ⟨⟨a, rfl⟩, h, hlow⟩
    · simp only [h, if_false]
      have e : 2 * 2 ^ a = 2 ^ (a + 1) := by rw [Nat.pow_succ]; omega
      rw [e]
      apply ih (a + 1)
      · rintro q ⟨j, rfl⟩ hq
        apply pow2_le_of_lt
        omega
      · have : a + 1 + f = a + (f + 1) := by omega
        rw [this]; exact hup

theorem specNextPow2_least {n : Nat} (h : n ≤ 2 ^ 64) : IsLeastPow2 n (specNextPow2 n) := by
  have := leastPow2From_spec n 65 0 (by
    rintro q ⟨j, rfl⟩ _
    exact Nat.pow_le_pow_right (by omega) (Nat.zero_le _)) (by
    have : 2 ^ 64 ≤ 2 ^ (0 + 65) := Nat.pow_le_pow_right (by omega) (by omega)
    omega)
  simpa [specNextPow2] using this

end MgProof.C20
