import MgModel.C20.Path
import MgProof.C20.StrLemmas
/-!
# C20 — path functions: buffer algebra, memory safety, termination, reference results
-/
namespace MgProof.C20
open MgModel.C20

/-- no NUL inside: the list is the content of a C string -/
def NoNul (l : CStr) : Prop := ∀ c ∈ l, c ≠ 0

/-! ## buffer algebra -/

theorem write_ok {b : Buf} {i v : Nat} (h : i < b.size) :
    b.write i v = .ok ⟨b.cells.take i ++ some v :: b.cells.drop (i + 1)⟩ := by
  unfold Buf.write
  have h' : i < b.cells.length := h
  simp only [h', if_true]
  rw [List.set_eq_take_append_cons_drop]
  simp [h']

theorem write_oob {b : Buf} {i v : Nat} (h : ¬ i < b.size) : b.write i v = .error .oob := by
  unfold Buf.write
  have h' : ¬ i < b.cells.length := h
  simp [h']

theorem writeList_ok : ∀ (vs : List Nat) (b : Buf) (off : Nat), off + vs.length ≤ b.size →
    writeList b off vs = .ok ⟨b.cells.take off ++ vs.map some ++ b.cells.drop (off + vs.length)⟩
  | [], b, off, _ => by simp [writeList]
  | v :: vs, b, off, h => by
    have hlt : off < b.size := by simp at h; omega
    have hlen : (b.cells.take off).length = off := by
      simp; unfold Buf.size at hlt; omega
    unfold writeList
    rw [write_ok hlt]
    simp only [bind, Except.bind]
    have hsz : (⟨b.cells.take off ++ some v :: b.cells.drop (off + 1)⟩ : Buf).size = b.size := by
      simp [Buf.size]; unfold Buf.size at hlt; omega
    rw [writeList_ok vs _ (off + 1) (by rw [hsz]; simp at h; omega)]
    congr 2
    have e : b.cells.take off ++ some v :: b.cells.drop (off + 1) =
        (b.cells.take off ++ [some v]) ++ b.cells.drop (off + 1) := by simp
    have hl2 : (b.cells.take off ++ [some v]).length = off + 1 := by simp [hlen]
    have h1 : (b.cells.take off ++ some v :: b.cells.drop (off + 1)).take (off + 1) =
        b.cells.take off ++ [some v] := by
      rw [e, ← hl2, List.take_left]
    have h2 : (b.cells.take off ++ some v :: b.cells.drop (off + 1)).drop (off + 1 + vs.length) =
        b.cells.drop (off + (v :: vs).length) := by
      rw [e]
      have := List.drop_length_add_append (l₁ := b.cells.take off ++ [some v])
        (l₂ := b.cells.drop (off + 1)) vs.length
      rw [hl2] at this
      rw [this, List.drop_drop]
      congr 1; simp; omega
    rw [h1, h2]
    simp

theorem write_size {b b' : Buf} {i v : Nat} (h : b.write i v = .ok b') : b'.size = b.size := by
  unfold Buf.write at h
  by_cases hlt : i < b.cells.length
  · simp [hlt] at h; subst h; simp [Buf.size]
  · simp [hlt] at h

theorem writeList_size : ∀ (vs : List Nat) (b b' : Buf) (off : Nat), writeList b off vs = .ok b' →
    b'.size = b.size
  | [], b, b', off, h => by simp [writeList] at h; rw [h]
  | v :: vs, b, b', off, h => by
    unfold writeList at h
    cases hw : b.write off v with
    | error e => rw [hw] at h; simp [bind, Except.bind] at h
    | ok b1 =>
      rw [hw] at h
      simp only [bind, Except.bind] at h
      rw [writeList_size vs b1 b' (off + 1) h, write_size hw]

/-! ## C strings held by a buffer -/

theorem cstrCells_prefix : ∀ (vs : CStr) (rest : List (Option Nat)), NoNul vs →
    cstrCells (vs.map some ++ some 0 :: rest) = some vs
  | [], rest, _ => by simp [cstrCells]
  | v :: vs, rest, h => by
    have hv : v ≠ 0 := h v (by simp)
    have ih := cstrCells_prefix vs rest (fun c hc => h c (by simp [hc]))
    simp [cstrCells, hv, ih]

theorem strlenCells_prefix : ∀ (vs : CStr) (rest : List (Option Nat)), NoNul vs →
    strlenCells (vs.map some ++ some 0 :: rest) = .ok vs.length
  | [], rest, _ => by simp [strlenCells]
  | v :: vs, rest, h => by
    have hv : v ≠ 0 := h v (by simp)
    have ih := strlenCells_prefix vs rest (fun c hc => h c (by simp [hc]))
    simp [strlenCells, hv, ih, Except.map]

/-- a run of zeros followed by a zero still starts with a zero -/
theorem zeros_then_zero (k : Nat) (rest : List (Option Nat)) :
    ∃ rest', (List.replicate k 0).map some ++ some 0 :: rest = some 0 :: rest' := by
  cases k with
  | zero => exact ⟨rest, by simp⟩
  | succ k => exact ⟨(List.replicate k 0).map some ++ some 0 :: rest, by simp [List.replicate_succ]⟩

theorem read_prefix {vs : CStr} {rest : List (Option Nat)} {i : Nat} (h : i < vs.length) :
    (⟨vs.map some ++ rest⟩ : Buf).read i = .ok (vs[i]'h) := by
  unfold Buf.read
  simp only
  rw [List.getElem?_append_left (by simpa using h)]
  simp [h]

/-! ## the last separator -/

def notSep (c : Nat) : Bool := !isSep c

/-- number of characters after the last separator (the whole length if there is none) -/
def tailLen (l : CStr) : Nat := (l.reverse.takeWhile notSep).length

theorem takeWhile_length_le {α : Type} (p : α → Bool) : ∀ (l : List α), (l.takeWhile p).length ≤ l.length
  | [] => by simp
  | a :: l => by
    rw [List.takeWhile_cons]
    by_cases h : p a = true
    · simp [h]; exact takeWhile_length_le p l
    · simp [h]

theorem takeWhile_eq_self_of_length {α : Type} (p : α → Bool) (l : List α)
    (h : (l.takeWhile p).length = l.length) : l.takeWhile p = l := by
  have e := List.takeWhile_append_dropWhile (p := p) (l := l)
  have hl := congrArg List.length e
  rw [List.length_append] at hl
  have : l.dropWhile p = [] := List.eq_nil_of_length_eq_zero (by omega)
  rw [this] at e
  simpa using e

theorem takeWhile_append_all {α : Type} (p : α → Bool) : ∀ (a b : List α), a.takeWhile p = a →
    (a ++ b).takeWhile p = a ++ b.takeWhile p
  | [], b, _ => rfl
  | x :: a, b, h => by
    rw [List.takeWhile_cons] at h
    by_cases hx : p x = true
    · simp only [hx, if_true, List.cons.injEq, true_and] at h
      simp only [List.cons_append, List.takeWhile_cons, hx, if_true]
      rw [takeWhile_append_all p a b h]
    · simp [hx] at h

theorem takeWhile_append_stop {α : Type} (p : α → Bool) : ∀ (a b : List α),
    (a.takeWhile p).length < a.length → (a ++ b).takeWhile p = a.takeWhile p
  | [], b, h => by simp at h
  | x :: a, b, h => by
    rw [List.takeWhile_cons] at h ⊢
    by_cases hx : p x = true
    · simp only [hx, if_true, List.length_cons] at h ⊢
      simp only [List.cons_append, List.takeWhile_cons, hx, if_true]
      rw [takeWhile_append_stop p a b (by omega)]
    · simp [hx]

theorem tailLen_le (l : CStr) : tailLen l ≤ l.length := by
  unfold tailLen
  have := takeWhile_length_le notSep l.reverse
  simpa using this

theorem tailLen_cons (c : Nat) (l : CStr) :
    tailLen (c :: l) =
      if tailLen l = l.length then (if isSep c then l.length else l.length + 1) else tailLen l := by
  unfold tailLen
  rw [List.reverse_cons]
  by_cases h : (l.reverse.takeWhile notSep).length = l.length
  · have hfull : l.reverse.takeWhile notSep = l.reverse :=
      takeWhile_eq_self_of_length notSep _ (by simpa using h)
    rw [takeWhile_append_all notSep _ _ hfull]
    simp only [h, if_true, List.length_append, List.length_reverse]
    by_cases hc : isSep c = true
    · simp [notSep, hc]
    · simp [notSep, hc]
  · have hlt : (l.reverse.takeWhile notSep).length < l.reverse.length := by
      have := takeWhile_length_le notSep l.reverse
      simp at this ⊢
      omega
    rw [takeWhile_append_stop notSep _ _ hlt]
    simp [h]

theorem lastSepAux_eq : ∀ (l : CStr) (i : Nat) (acc : Option Nat),
    lastSepAux l i acc =
      if tailLen l = l.length then acc else some (i + (l.length - 1 - tailLen l))
  | [], i, acc => by simp [lastSepAux, tailLen]
  | c :: l, i, acc => by
    rw [lastSepAux, lastSepAux_eq l (i + 1), tailLen_cons]
    have hle := tailLen_le l
    by_cases h : tailLen l = l.length
    · simp only [h, if_true]
      by_cases hc : isSep c = true
      · simp [hc]
      · simp [hc]
    · simp only [h, if_false]
      have : ¬ tailLen l = (c :: l).length := by simp; omega
      simp only [this, if_false]
      congr 1
      simp
      omega

theorem lastSep_eq (p : CStr) :
    lastSep p = if tailLen p = p.length then none else some (p.length - 1 - tailLen p) := by
  unfold lastSep
  rw [lastSepAux_eq]
  simp

/-- the characters after the last separator -/
theorem tail_eq_drop (p : CStr) :
    (p.reverse.takeWhile notSep).reverse = p.drop (p.length - tailLen p) := by
  have e := List.takeWhile_append_dropWhile (p := notSep) (l := p.reverse)
  have e2 := congrArg List.reverse e
  simp only [List.reverse_append, List.reverse_reverse] at e2
  have hl : (p.reverse.dropWhile notSep).reverse.length = p.length - tailLen p := by
    have := congrArg List.length e
    rw [List.length_append, List.length_reverse] at this
    unfold tailLen
    rw [List.length_reverse]
    omega
  have e3 : p.drop (p.length - tailLen p) =
      ((p.reverse.dropWhile notSep).reverse ++ (p.reverse.takeWhile notSep).reverse).drop
        (p.reverse.dropWhile notSep).reverse.length := by
    rw [e2, hl]
  rw [e3, List.drop_left]

theorem notSep_eq : (fun c => !isSep c) = notSep := rfl

theorem NoNul.drop {l : CStr} (h : NoNul l) (n : Nat) : NoNul (l.drop n) :=
  fun c hc => h c (List.mem_of_mem_drop hc)

theorem NoNul.take {l : CStr} (h : NoNul l) (n : Nat) : NoNul (l.take n) :=
  fun c hc => h c (List.mem_of_mem_take hc)

/-! ## the two copy idioms: `memcpy + terminator` and `strncpy + terminator` -/

theorem take_map_append {vs : CStr} {X : List (Option Nat)} :
    (vs.map some ++ X).take vs.length = vs.map some := by
  have : vs.length = (vs.map some).length := by simp
  rw [this, List.take_left]

/-- `memcpy(ret, vs, n); ret[n] = 0` into a buffer with room for the terminator -/
theorem copy_terminate (b : Buf) (vs : CStr) (hfit : vs.length < b.size) (hn : NoNul vs) :
    ∃ b1 b2, writeList b 0 vs = .ok b1 ∧ b1.write vs.length 0 = .ok b2 ∧ b2.size = b.size ∧
      b2.cstr = some vs := by
  have h1 := writeList_ok vs b 0 (by omega)
  simp only [List.take_zero, List.nil_append, Nat.zero_add] at h1
  refine ⟨_, _, h1, write_ok (b := ⟨vs.map some ++ b.cells.drop vs.length⟩) (by
    simp [Buf.size]; unfold Buf.size at hfit; omega), ?_, ?_⟩
  · simp [Buf.size]; unfold Buf.size at hfit; omega
  · unfold Buf.cstr
    simp only
    rw [take_map_append]
    exact cstrCells_prefix vs _ hn

/-- `strncpy(ret, p, n); ret[n] = 0` with `strlen(p) ≤ n = size - 1` -/
theorem strncpy_terminate (b : Buf) (p : CStr) (n : Nat) (hn : n + 1 = b.size) (hlen : p.length ≤ n)
    (hp : NoNul p) :
    ∃ b1 b2, strncpy b 0 p n = .ok b1 ∧ b1.write n 0 = .ok b2 ∧ b2.size = b.size ∧
      b2.cstr = some p ∧ b2.cells = (p ++ List.replicate (b.size - p.length) 0).map some := by
  unfold strncpy
  have hnot : ¬ (0 + n > b.size) := by omega
  simp only [hnot, if_false]
  have htake : p.take n = p := List.take_of_length_le hlen
  rw [htake]
  have hl : (p ++ List.replicate (n - p.length) 0).length = n := by simp; omega
  have h1 := writeList_ok (p ++ List.replicate (n - p.length) 0) b 0 (by rw [hl]; omega)
  simp only [List.take_zero, List.nil_append, Nat.zero_add, hl] at h1
  have hsz1 : (⟨(p ++ List.replicate (n - p.length) 0).map some ++ b.cells.drop n⟩ : Buf).size = b.size := by
    simp [Buf.size]; unfold Buf.size at hn; omega
  have hw := write_ok (b := ⟨(p ++ List.replicate (n - p.length) 0).map some ++ b.cells.drop n⟩) (i := n) (v := 0)
    (by rw [hsz1]; omega)
  have take_len : ∀ (Z X : List (Option Nat)), Z.length = n → (Z ++ X).take n = Z := by
    intro Z X hZ; rw [← hZ, List.take_left]
  have htk : ((p ++ List.replicate (n - p.length) 0).map some ++ b.cells.drop n).take n =
      (p ++ List.replicate (n - p.length) 0).map some :=
    take_len _ _ (by simp; omega)
  have hdr : ((p ++ List.replicate (n - p.length) 0).map some ++ b.cells.drop n).drop (n + 1) = [] := by
    apply List.drop_eq_nil_of_le
    simp; unfold Buf.size at hn; omega
  simp only [htk, hdr] at hw
  refine ⟨_, _, h1, hw, ?_, ?_, ?_⟩
  · simp [Buf.size]; unfold Buf.size at hn; omega
  · unfold Buf.cstr
    simp only [List.map_append, List.append_assoc]
    obtain ⟨rest', hr⟩ := zeros_then_zero (n - p.length) []
    rw [hr]
    exact cstrCells_prefix p _ hp
  · simp only
    have : b.size - p.length = (n - p.length) + 1 := by omega
    rw [this, List.replicate_succ']
    simp

/-! ## basename -/

/-- what every path function guarantees: it returns (no out-of-bounds write, no read of an
indeterminate byte), it reports success exactly when the specification defines a result, the
buffer keeps its size, and on success the buffer holds that result, NUL-terminated -/
def Meets (r : Except Err (Bool × Buf)) (size : Nat) (spec : Option CStr) : Prop :=
  ∃ b', r = .ok (spec.isSome, b') ∧ b'.size = size ∧ ∀ x, spec = some x → b'.cstr = some x

theorem fits_none_of {size : Nat} {r : CStr} (h : ¬ r.length < size) : fits size (some r) = none := by
  simp [fits, h]

theorem fits_some_of {size : Nat} {r : CStr} (h : r.length < size) : fits size (some r) = some r := by
  simp [fits, h]

theorem meets_fail {b : Buf} {spec : Option CStr} (h : spec = none) :
    Meets (.ok (false, b)) b.size spec :=
  ⟨b, by rw [h]; rfl, rfl, by intro x hx; rw [h] at hx; cases hx⟩

theorem refBasename_eq (p : CStr) :
    refBasename p = if tailLen p = 0 then none else some (p.drop (p.length - tailLen p)) := by
  have hr : (p.reverse.takeWhile (fun c => !isSep c)).reverse = p.drop (p.length - tailLen p) :=
    tail_eq_drop p
  have hle := tailLen_le p
  simp only [refBasename, hr]
  by_cases h : tailLen p = 0
  · have : p.drop (p.length - tailLen p) = [] := by
      apply List.drop_eq_nil_of_le; omega
    simp [h]
  · have : p.drop (p.length - tailLen p) ≠ [] := by
      intro e
      have := congrArg List.length e
      simp at this
      omega
    simp [h, this]

theorem specBasename_val (p : CStr) (size : Nat) :
    specBasename p size =
      if tailLen p = 0 then none
      else if tailLen p < size then some (p.drop (p.length - tailLen p)) else none := by
  have hle := tailLen_le p
  unfold specBasename
  rw [refBasename_eq]
  by_cases h : tailLen p = 0
  · simp [h, fits]
  · have hl : (p.drop (p.length - tailLen p)).length = tailLen p := by simp; omega
    simp only [h, if_false, fits, hl]

theorem pathBasename_meets (p : CStr) (hp : NoNul p) (b : Buf) :
    Meets (pathBasename true p b) b.size (specBasename p b.size) := by
  have hle := tailLen_le p
  rw [specBasename_val]
  unfold pathBasename
  simp only [bind, Except.bind, pure, Except.pure]
  by_cases h1 : b.size ≤ 1
  · simp only [h1, if_true]
    apply meets_fail
    by_cases ht : tailLen p = 0
    · simp [ht]
    · have : ¬ (tailLen p < b.size) := by omega
      simp [ht, this]
  · simp only [h1, if_false]
    by_cases h2 : p.length = 0
    · simp only [h2, if_true]
      apply meets_fail
      have : tailLen p = 0 := by omega
      simp [this]
    · simp only [h2, if_false]
      rw [lastSep_eq]
      by_cases h3 : tailLen p = p.length
      · -- no separator: the whole path
        have ht0 : ¬ tailLen p = 0 := by omega
        have hdrop : p.drop (p.length - tailLen p) = p := by rw [h3]; simp
        simp only [if_pos h3, if_neg ht0, hdrop]
        by_cases h4 : p.length > b.size - 1
        · simp only [h4, if_true]
          apply meets_fail
          have : ¬ (tailLen p < b.size) := by omega
          simp [this]
        · simp only [h4, if_false]
          obtain ⟨b1, b2, e1, e2, hsz, hc, _⟩ := strncpy_terminate b p (b.size - 1) (by omega) (by omega) hp
          rw [e1]
          simp only [if_true]
          rw [e2]
          have hfit : tailLen p < b.size := by omega
          exact ⟨b2, by simp [hfit], hsz, by
            intro x hx
            simp only [hfit, if_true, Option.some.injEq] at hx
            rw [← hx]; exact hc⟩
      · -- after the last separator
        simp only [if_neg h3]
        have e1 : p.length - 1 - (p.length - 1 - tailLen p) = tailLen p := by omega
        rw [e1]
        by_cases ht : tailLen p = 0
        · simp only [ht, if_true]
          apply meets_fail
          rfl
        · simp only [if_neg ht, true_and]
          by_cases h5 : tailLen p ≥ b.size
          · simp only [h5, if_true]
            apply meets_fail
            have : ¬ (tailLen p < b.size) := by omega
            simp [this]
          · simp only [h5, if_false]
            have e2 : p.length - 1 - tailLen p + 1 = p.length - tailLen p := by omega
            rw [e2]
            have e3 : (p.drop (p.length - tailLen p)).take (tailLen p) = p.drop (p.length - tailLen p) := by
              apply List.take_of_length_le; simp; omega
            rw [e3]
            have hlen : (p.drop (p.length - tailLen p)).length = tailLen p := by simp; omega
            obtain ⟨b1, b2, w1, w2, hsz, hc⟩ :=
              copy_terminate b (p.drop (p.length - tailLen p)) (by rw [hlen]; omega) (hp.drop _)
            rw [hlen] at w2
            rw [w1]
            simp only
            rw [w2]
            have hfit : tailLen p < b.size := by omega
            exact ⟨b2, by simp [hfit], hsz, by
              intro x hx
              simp only [hfit, if_true, Option.some.injEq] at hx
              rw [← hx]; exact hc⟩

/-! ## dirname -/

/-- number of characters `muggle_path_dirname` keeps, given the index of the last separator -/
def dirKeep (p : CStr) (i : Nat) : Nat :=
  if i = 0 then 1 else if i ≥ 2 ∧ p[i - 1]? = some 58 then i + 1 else i

theorem specDirname_val (p : CStr) (size : Nat) :
    specDirname p size =
      if tailLen p = p.length then none
      else if dirKeep p (p.length - 1 - tailLen p) < size then some (p.take (dirKeep p (p.length - 1 - tailLen p)))
      else none := by
  have hle := tailLen_le p
  have e : (p.reverse.takeWhile (fun c => !isSep c)).length = tailLen p := rfl
  simp only [specDirname, refDirname, e]
  by_cases h : tailLen p = p.length
  · simp [h, fits]
  · simp only [h, if_false]
    have hk : dirKeep p (p.length - 1 - tailLen p) ≤ p.length := by
      unfold dirKeep; split <;> (try split) <;> omega
    unfold dirKeep at hk ⊢
    by_cases h0 : p.length - 1 - tailLen p = 0
    · simp only [h0, if_true, fits] at hk ⊢
      have : (p.take 1).length = 1 := by simp; omega
      rw [this]
    · simp only [h0, if_false] at hk ⊢
      by_cases hc : p.length - 1 - tailLen p ≥ 2 ∧ p[p.length - 1 - tailLen p - 1]? = some 58
      · simp only [hc, and_self, if_true, fits] at hk ⊢
        have : (p.take (p.length - 1 - tailLen p + 1)).length = p.length - 1 - tailLen p + 1 := by
          simp; omega
        rw [this]
      · simp only [hc, if_false, fits] at hk ⊢
        have : (p.take (p.length - 1 - tailLen p)).length = p.length - 1 - tailLen p := by
          simp; omega
        rw [this]

theorem pathDirname_meets (p : CStr) (hp : NoNul p) (b : Buf) :
    Meets (pathDirname p b) b.size (specDirname p b.size) := by
  have hle := tailLen_le p
  rw [specDirname_val]
  unfold pathDirname
  simp only [bind, Except.bind, pure, Except.pure]
  have hk1 : ∀ i, 1 ≤ dirKeep p i := by
    intro i; unfold dirKeep; split <;> (try split) <;> omega
  by_cases h1 : b.size ≤ 1
  · simp only [h1, if_true]
    apply meets_fail
    by_cases ht : tailLen p = p.length
    · simp [ht]
    · have := hk1 (p.length - 1 - tailLen p)
      have : ¬ (dirKeep p (p.length - 1 - tailLen p) < b.size) := by omega
      simp [ht, this]
  · simp only [h1, if_false]
    by_cases h2 : p.length = 0
    · simp only [h2, if_true]
      apply meets_fail
      have : tailLen p = 0 := by omega
      rw [if_pos this]
    · simp only [h2, if_false]
      rw [lastSep_eq]
      by_cases h3 : tailLen p = p.length
      · simp only [if_pos h3]
        apply meets_fail
        rfl
      · simp only [if_neg h3]
        have hkeep : (if (if p.length - 1 - tailLen p = 0 then 1 else p.length - 1 - tailLen p) ≥ 2 ∧
              p[(if p.length - 1 - tailLen p = 0 then 1 else p.length - 1 - tailLen p) - 1]? = some 58
            then (if p.length - 1 - tailLen p = 0 then 1 else p.length - 1 - tailLen p) + 1
            else (if p.length - 1 - tailLen p = 0 then 1 else p.length - 1 - tailLen p)) =
            dirKeep p (p.length - 1 - tailLen p) := by
          unfold dirKeep
          by_cases h0 : p.length - 1 - tailLen p = 0
          · simp [h0]
          · simp only [h0, if_false]
        rw [hkeep]
        have hk : dirKeep p (p.length - 1 - tailLen p) ≤ p.length := by
          unfold dirKeep; split <;> (try split) <;> omega
        by_cases h5 : dirKeep p (p.length - 1 - tailLen p) ≥ b.size
        · simp only [h5, if_true]
          apply meets_fail
          have : ¬ (dirKeep p (p.length - 1 - tailLen p) < b.size) := by omega
          simp [this]
        · simp only [h5, if_false]
          have hlen : (p.take (dirKeep p (p.length - 1 - tailLen p))).length =
              dirKeep p (p.length - 1 - tailLen p) := by simp; omega
          obtain ⟨b1, b2, w1, w2, hsz, hc⟩ :=
            copy_terminate b (p.take (dirKeep p (p.length - 1 - tailLen p))) (by rw [hlen]; omega) (hp.take _)
          rw [hlen] at w2
          rw [w1]
          simp only
          rw [w2]
          have hfit : dirKeep p (p.length - 1 - tailLen p) < b.size := by omega
          exact ⟨b2, by simp [hfit], hsz, by
            intro x hx
            simp only [hfit, if_true, Option.some.injEq] at hx
            rw [← hx]; exact hc⟩

/-! ## operations on a fully initialised buffer -/

theorem write_full {l : List Nat} {i v : Nat} (h : i < l.length) :
    (⟨l.map some⟩ : Buf).write i v = .ok ⟨(l.take i ++ v :: l.drop (i + 1)).map some⟩ := by
  rw [write_ok (by simpa [Buf.size] using h)]
  simp [List.map_take, List.map_drop]

theorem writeList_full {l vs : List Nat} {off : Nat} (h : off + vs.length ≤ l.length) :
    writeList (⟨l.map some⟩ : Buf) off vs = .ok ⟨(l.take off ++ vs ++ l.drop (off + vs.length)).map some⟩ := by
  rw [writeList_ok vs _ off (by simpa [Buf.size] using h)]
  simp [List.map_take, List.map_drop]

theorem read_full {l : List Nat} {i : Nat} (h : i < l.length) :
    (⟨l.map some⟩ : Buf).read i = .ok (l[i]'h) := by
  unfold Buf.read
  simp [h]

theorem cstr_full {A B : List Nat} (hA : NoNul A) : (⟨(A ++ 0 :: B).map some⟩ : Buf).cstr = some A := by
  unfold Buf.cstr
  simp only [List.map_append, List.map_cons]
  exact cstrCells_prefix A _ hA

theorem strlen_full {A B : List Nat} (hA : NoNul A) :
    strlenCells ((A ++ 0 :: B).map some) = .ok A.length := by
  simp only [List.map_append, List.map_cons]
  exact strlenCells_prefix A _ hA

/-! ## join -/

theorem endsWithSep_eq (p : CStr) (h : p ≠ []) :
    endsWithSep p = isSep (p[p.length - 1]'(by
      have : 0 < p.length := List.length_pos_iff.mpr h
      omega)) := by
  unfold endsWithSep
  rw [List.getLast?_eq_getElem?]
  have : p.length - 1 < p.length := by
    have : 0 < p.length := List.length_pos_iff.mpr h
    omega
  simp [this]

/-- the second operand without one leading `/` -/
def joinTail (p2 : CStr) : CStr := if p2.head? = some 47 then p2.tail else p2

theorem refJoin_val (p1 p2 : CStr) :
    refJoin p1 p2 =
      if p1 = [] ∨ p2 = [] then none else if p2 = [47] then none
      else some ((p1 ++ if endsWithSep p1 then [] else [47]) ++ joinTail p2) := by
  unfold refJoin joinTail
  rfl

theorem joinTail_length (p2 : CStr) :
    (joinTail p2).length = if p2.head? = some 47 then p2.length - 1 else p2.length := by
  unfold joinTail
  by_cases h : p2.head? = some 47 <;> simp [h]

theorem NoNul.append {a b : CStr} (ha : NoNul a) (hb : NoNul b) : NoNul (a ++ b) := by
  intro c hc
  rw [List.mem_append] at hc
  rcases hc with h | h
  · exact ha c h
  · exact hb c h

theorem NoNul.tail {a : CStr} (ha : NoNul a) : NoNul a.tail :=
  fun c hc => ha c (List.mem_of_mem_tail hc)

/-- the second half of join on a fully initialised buffer whose content starts with `pre` -/
theorem pathJoinTail_meets (p2 : CStr) (hp2 : NoNul p2) (hne2 : p2 ≠ []) (size : Nat) (hs : 1 < size)
    (pre X : List Nat) (hpre : NoNul pre) (hlen : (pre ++ X).length = size) :
    Meets (pathJoinTail p2 ⟨(pre ++ X).map some⟩ pre.length pre.length (size - 1)) size
      (fits size (if p2 = [47] then none else some (pre ++ joinTail p2))) := by
  have htl := joinTail_length p2
  have hl2 : 0 < p2.length := List.length_pos_iff.mpr hne2
  unfold pathJoinTail
  simp only [bind, Except.bind, pure, Except.pure]
  have hfst : (if p2.head? = some 47 then (p2.tail, p2.length - 1, decide (p2.length = 1))
      else (p2, p2.length, false)).fst = joinTail p2 := by
    unfold joinTail; by_cases h : p2.head? = some 47 <;> simp [h]
  have hlen2 : (if p2.head? = some 47 then (p2.tail, p2.length - 1, decide (p2.length = 1))
      else (p2, p2.length, false)).2.fst = (joinTail p2).length := by
    rw [htl]; by_cases h : p2.head? = some 47 <;> simp [h]
  have hbad : ((if p2.head? = some 47 then (p2.tail, p2.length - 1, decide (p2.length = 1))
      else (p2, p2.length, false)).2.snd = true) ↔ p2 = [47] := by
    by_cases h : p2.head? = some 47
    · simp only [h, if_true, decide_eq_true_eq]
      constructor
      · intro hl
        cases p2 with
        | nil => simp at hl
        | cons a t =>
          simp at h hl
          rw [h, hl]
      · intro e; rw [e]; rfl
    · simp only [h, if_false, Bool.false_eq_true, false_iff]
      intro e; rw [e] at h; simp at h
  rw [hfst, hlen2]
  have hsize : (⟨(pre ++ X).map some⟩ : Buf).size = size := by
    show ((pre ++ X).map some).length = size
    rw [List.length_map]; exact hlen
  by_cases hB : p2 = [47]
  · have := hbad.mpr hB
    simp only [this, if_true]
    rw [if_pos hB]
    have := meets_fail (b := (⟨(pre ++ X).map some⟩ : Buf)) (spec := fits size none) rfl
    rw [hsize] at this
    exact this
  · have hnb : ¬ ((if p2.head? = some 47 then (p2.tail, p2.length - 1, decide (p2.length = 1))
        else (p2, p2.length, false)).2.snd = true) := fun h => hB (hbad.mp h)
    simp only [hnb, if_false, hB]
    by_cases h4 : pre.length + (joinTail p2).length > size - 1
    · simp only [h4, if_true]
      have hspec : fits size (some (pre ++ joinTail p2)) = none :=
        fits_none_of (by simp; omega)
      have := meets_fail (b := (⟨(pre ++ X).map some⟩ : Buf)) hspec
      rw [hsize] at this
      exact this
    · simp only [h4, if_false]
      unfold strncpy
      have hnoob : ¬ (pre.length + (joinTail p2).length > (⟨(pre ++ X).map some⟩ : Buf).size) := by
        rw [hsize]; omega
      simp only [hnoob, if_false, List.take_length, Nat.sub_self, List.replicate_zero, List.append_nil]
      rw [writeList_full (by simp at hlen ⊢; omega)]
      simp only
      have htk : (pre ++ X).take pre.length = pre := List.take_left
      rw [htk]
      have hfitk : pre.length + (joinTail p2).length <
          (pre ++ joinTail p2 ++ (pre ++ X).drop (pre.length + (joinTail p2).length)).length := by
        simp at hlen ⊢; omega
      rw [write_full hfitk]
      have htk2 : (pre ++ joinTail p2 ++ (pre ++ X).drop (pre.length + (joinTail p2).length)).take
          (pre.length + (joinTail p2).length) = pre ++ joinTail p2 := by
        have : pre.length + (joinTail p2).length = (pre ++ joinTail p2).length := by simp
        rw [this, List.take_left]
      rw [htk2]
      have hnn : NoNul (pre ++ joinTail p2) := by
        apply NoNul.append hpre
        unfold joinTail
        by_cases h : p2.head? = some 47
        · simp only [h, if_true]; exact hp2.tail
        · simp only [h, if_false]; exact hp2
      have hfit : (pre ++ joinTail p2).length < size := by simp; omega
      refine ⟨⟨((pre ++ joinTail p2) ++ 0 :: _).map some⟩, by rw [fits_some_of hfit]; rfl, ?_, ?_⟩
      · simp [Buf.size] at hlen ⊢; omega
      · intro x hx
        rw [fits_some_of hfit] at hx
        injection hx with hx
        rw [← hx]
        exact cstr_full hnn

theorem pathJoin_meets (p1 p2 : CStr) (hp1 : NoNul p1) (hp2 : NoNul p2) (b : Buf) :
    Meets (pathJoin true p1 p2 b) b.size (specJoin p1 p2 b.size) := by
  unfold specJoin
  rw [refJoin_val]
  unfold pathJoin
  simp only [bind, Except.bind, pure, Except.pure, if_true]
  have htl := joinTail_length p2
  by_cases h1 : b.size ≤ 1
  · simp only [h1, if_true]
    apply meets_fail
    by_cases hA : p1 = [] ∨ p2 = []
    · simp [hA, fits]
    · by_cases hB : p2 = [47]
      · simp [hB, fits]
      · simp only [hA, hB, if_false]
        have : 0 < p1.length := List.length_pos_iff.mpr (fun e => hA (Or.inl e))
        exact fits_none_of (by simp; omega)
  · simp only [h1, if_false]
    have hs0 : ¬ b.size = 0 := by omega
    simp only [hs0, if_false]
    by_cases h2 : p1.length = 0 ∨ p2.length = 0
    · simp only [h2, if_true]
      apply meets_fail
      have : p1 = [] ∨ p2 = [] := by
        rcases h2 with h | h
        · exact Or.inl (List.eq_nil_of_length_eq_zero h)
        · exact Or.inr (List.eq_nil_of_length_eq_zero h)
      simp [this, fits]
    · simp only [h2, if_false]
      have hne1 : p1 ≠ [] := fun e => h2 (Or.inl (by simp [e]))
      have hne2 : p2 ≠ [] := fun e => h2 (Or.inr (by simp [e]))
      have hA : ¬ (p1 = [] ∨ p2 = []) := by
        rintro (e | e)
        · exact hne1 e
        · exact hne2 e
      have hl1 : 0 < p1.length := List.length_pos_iff.mpr hne1
      simp only [hA, if_false]
      by_cases h3 : p1.length > b.size - 1
      · simp only [h3, if_true]
        apply meets_fail
        by_cases hB : p2 = [47]
        · simp [hB, fits]
        · simp only [hB, if_false]
          exact fits_none_of (by simp; omega)
      · simp only [h3, if_false]
        obtain ⟨b1, b2, e1, e2, hsz, _, hcells⟩ :=
          strncpy_terminate b p1 (b.size - 1) (by omega) (by omega) hp1
        rw [e1]
        simp only
        rw [e2]
        simp only
        -- the buffer is now fully initialised: p1 followed by zeros
        obtain ⟨k, hk⟩ : ∃ k, b.size - p1.length = k + 1 := ⟨b.size - p1.length - 1, by omega⟩
        have hb2 : b2 = ⟨(p1 ++ 0 :: List.replicate k 0).map some⟩ := by
          cases b2
          simp only at hcells
          rw [hcells, hk, List.replicate_succ]
        subst hb2
        rw [strlen_full hp1]
        simp only
        have hn0 : ¬ p1.length = 0 := by omega
        simp only [hn0, if_false]
        have hlt : p1.length - 1 < (p1 ++ 0 :: List.replicate k 0).length := by simp; omega
        rw [read_full hlt]
        simp only
        have hget : (p1 ++ 0 :: List.replicate k 0)[p1.length - 1]'hlt = p1[p1.length - 1]'(by omega) := by
          rw [List.getElem_append_left]
        rw [hget, ← endsWithSep_eq p1 hne1]
        by_cases hsep : endsWithSep p1 = true
        · simp only [hsep, Bool.not_true, Bool.false_eq_true, if_false, if_true, List.append_nil]
          exact pathJoinTail_meets p2 hp2 hne2 b.size (by omega) p1 (0 :: List.replicate k 0) hp1
            (by simp; omega)
        · have hsep' : endsWithSep p1 = false := by simpa using hsep
          simp only [hsep', Bool.not_false, if_true]
          have hge : ¬ p1.length ≥ b.size := by omega
          simp only [hge, if_false]
          rw [write_full (by simp)]
          simp only
          have htk : (p1 ++ 0 :: List.replicate k 0).take p1.length = p1 := List.take_left
          have hdr : (p1 ++ 0 :: List.replicate k 0).drop (p1.length + 1) = List.replicate k 0 := by
            have : p1 ++ 0 :: List.replicate k 0 = (p1 ++ [0]) ++ List.replicate k 0 := by simp
            rw [this]
            have hl : p1.length + 1 = (p1 ++ [0]).length := by simp
            rw [hl, List.drop_left]
          rw [htk, hdr]
          have hpre : NoNul (p1 ++ [47]) := NoNul.append hp1 (by intro c hc; simp at hc; omega)
          have hl47 : p1.length + 1 = (p1 ++ [47]).length := by simp
          have hcell : p1 ++ 47 :: List.replicate k 0 = (p1 ++ [47]) ++ List.replicate k 0 := by simp
          simp only [Bool.false_eq_true, if_false, hl47, hcell]
          exact pathJoinTail_meets p2 hp2 hne2 b.size (by omega) (p1 ++ [47]) (List.replicate k 0) hpre
            (by simp; omega)

end MgProof.C20
