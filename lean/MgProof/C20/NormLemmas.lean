import MgProof.C20.PathLemmas
/-!
# C20 — `muggle_path_normpath` (fixed): never writes outside the buffer, never reads an
indeterminate byte, terminates what it reports as success
-/
namespace MgProof.C20
open MgModel.C20

/-- the first `pos` cells hold a string without NUL (what has been produced so far) -/
def Produced (b : Buf) (pos : Nat) (out : CStr) : Prop :=
  out.length = pos ∧ NoNul out ∧ b.cells.take pos = out.map some

theorem Produced.pos_le {b : Buf} {pos : Nat} {out : CStr} (h : Produced b pos out) : pos ≤ b.size := by
  obtain ⟨h1, _, h3⟩ := h
  have := congrArg List.length h3
  simp at this
  unfold Buf.size
  omega

theorem Produced.write {b : Buf} {pos v : Nat} {out : CStr} (h : Produced b pos out) (hlt : pos < b.size)
    (hv : v ≠ 0) : ∃ b', b.write pos v = .ok b' ∧ b'.size = b.size ∧ Produced b' (pos + 1) (out ++ [v]) := by
  obtain ⟨h1, h2, h3⟩ := h
  refine ⟨_, write_ok hlt, ?_, ?_, ?_, ?_⟩
  · simp [Buf.size]; unfold Buf.size at hlt; omega
  · simp [h1]
  · exact NoNul.append h2 (by intro c hc; simp at hc; rw [hc]; exact hv)
  · simp only
    have hl : (b.cells.take pos).length = pos := by simp; unfold Buf.size at hlt; omega
    have : b.cells.take pos ++ some v :: b.cells.drop (pos + 1) =
        (b.cells.take pos ++ [some v]) ++ b.cells.drop (pos + 1) := by simp
    rw [this]
    have hl2 : pos + 1 = (b.cells.take pos ++ [some v]).length := by simp [hl]
    rw [hl2, List.take_left, h3]
    simp

theorem Produced.shrink {b : Buf} {pos pos' : Nat} {out : CStr} (h : Produced b pos out) (hle : pos' ≤ pos) :
    Produced b pos' (out.take pos') := by
  obtain ⟨h1, h2, h3⟩ := h
  refine ⟨by simp; omega, h2.take _, ?_⟩
  have : b.cells.take pos' = (b.cells.take pos).take pos' := by
    rw [List.take_take]; congr 1; omega
  rw [this, h3, List.map_take]

theorem Produced.read {b : Buf} {pos i : Nat} {out : CStr} (h : Produced b pos out) (hi : i < pos) :
    ∃ v, b.read i = .ok v := by
  obtain ⟨h1, _, h3⟩ := h
  unfold Buf.read
  have : b.cells[i]? = (b.cells.take pos)[i]? := by
    rw [List.getElem?_take]; simp [hi]
  rw [this, h3]
  have hi' : i < out.length := by omega
  simp [hi']

theorem scanBack_ok {b : Buf} {pos : Nat} {out : CStr} (h : Produced b pos out) :
    ∀ k, k ≤ pos → ∃ k', scanBack b k = .ok k' ∧ k' ≤ k
  | 0, _ => ⟨0, rfl, Nat.le_refl _⟩
  | i + 1, hk => by
    obtain ⟨v, hv⟩ := h.read (i := i) (by omega)
    unfold scanBack
    rw [hv]
    simp only [bind, Except.bind, pure, Except.pure]
    by_cases hs : isSep v = true
    · simp only [hs, if_true]
      exact ⟨i + 1, rfl, Nat.le_refl _⟩
    · simp only [hs, if_false, Bool.false_eq_true]
      obtain ⟨k', hk', hle⟩ := scanBack_ok h i (by omega)
      exact ⟨k', hk', by omega⟩

/-- the shape every step of the loop guarantees -/
def StepOk (r : Except Err (Option (Buf × Nat))) (size bound : Nat) : Prop :=
  r = .ok none ∨ ∃ b' pos' out', r = .ok (some (b', pos')) ∧ b'.size = size ∧
    Produced b' pos' out' ∧ pos' ≤ bound

theorem normPush_ok {b : Buf} {pos e : Nat} {out : CStr} (h : Produced b pos out)
    (hroom : pos + (if e = 0 then 2 else 3) ≤ b.size) :
    StepOk (normPush true b pos e) b.size (pos + (if e = 0 then 2 else 3)) := by
  have hlt1 : pos < b.size := by split at hroom <;> omega
  obtain ⟨b1, w1, s1, p1⟩ := h.write hlt1 (v := 46) (by omega)
  have hlt2 : pos + 1 < b1.size := by rw [s1]; split at hroom <;> omega
  obtain ⟨b2, w2, s2, p2⟩ := p1.write hlt2 (v := 46) (by omega)
  unfold normPush
  simp only [bind, Except.bind, pure, Except.pure, w1, w2, true_and]
  right
  by_cases he : e = 0
  · simp only [he, if_true]
    exact ⟨b2, pos + 2, _, rfl, by rw [s2, s1], p2, by omega⟩
  · simp only [he, if_false] at hroom ⊢
    have hlt3 : pos + 1 + 1 < b2.size := by rw [s2, s1]; omega
    obtain ⟨b3, w3, s3, p3⟩ := p2.write hlt3 (v := e) he
    have e2 : pos + 2 = pos + 1 + 1 := by omega
    rw [e2, w3]
    exact ⟨b3, pos + 3, _, rfl, by rw [s3, s2, s1], p3, by omega⟩

theorem endsDotDot_ok {b : Buf} {pos : Nat} {out : CStr} (h : Produced b pos out) :
    ∃ r, endsDotDot b pos = .ok r := by
  unfold endsDotDot
  by_cases h3 : pos ≥ 3
  · simp only [h3, if_true, bind, Except.bind, pure, Except.pure]
    obtain ⟨c3, r3⟩ := h.read (i := pos - 3) (by omega)
    obtain ⟨c2, r2⟩ := h.read (i := pos - 2) (by omega)
    obtain ⟨c1, r1⟩ := h.read (i := pos - 1) (by omega)
    rw [r3]
    dsimp only
    by_cases hc3 : c3 ≠ 46
    · rw [if_pos hc3]; exact ⟨false, rfl⟩
    · rw [if_neg hc3, r2]
      dsimp only
      by_cases hc2 : c2 ≠ 46
      · rw [if_pos hc2]; exact ⟨false, rfl⟩
      · rw [if_neg hc2, r1]
        exact ⟨_, rfl⟩
  · simp only [h3, if_false]; exact ⟨false, rfl⟩

theorem normPop_ok {b : Buf} {pos : Nat} {out : CStr} (h : Produced b pos out) (hp : pos ≠ 0) :
    StepOk (normPop b pos) b.size pos := by
  unfold normPop
  simp only [bind, Except.bind, pure, Except.pure]
  obtain ⟨c1, r1⟩ := h.read (i := pos - 1) (by omega)
  rw [r1]
  simp only
  by_cases hs : isSep c1 = true
  · simp only [hs, Bool.not_true, Bool.false_eq_true, if_false]
    by_cases h2 : pos < 2
    · simp only [h2, if_true]; left; rfl
    · simp only [h2, if_false]
      obtain ⟨k', hk', hle⟩ := scanBack_ok h (pos - 1) (by omega)
      rw [hk']
      right
      exact ⟨b, k', _, rfl, rfl, h.shrink (by omega), by omega⟩
  · have : (!isSep c1) = true := by simpa using hs
    simp only [this, if_true]
    left; rfl

theorem StepOk.mono {r : Except Err (Option (Buf × Nat))} {size b1 b2 : Nat} (h : StepOk r size b1)
    (hle : b1 ≤ b2) : StepOk r size b2 := by
  rcases h with h | ⟨b', pos', out', h1, h2, h3, h4⟩
  · exact Or.inl h
  · exact Or.inr ⟨b', pos', out', h1, h2, h3, by omega⟩

/-- one `..` step: an error return, or a new position with the invariant kept -/
theorem normDotDot_ok {b : Buf} {pos e : Nat} {out : CStr} (h : Produced b pos out)
    (hroom : pos + (if e = 0 then 2 else 3) ≤ b.size) :
    StepOk (normDotDot true b pos e) b.size (pos + (if e = 0 then 2 else 3)) := by
  unfold normDotDot
  simp only [bind, Except.bind]
  by_cases hp0 : pos = 0
  · simp only [hp0, if_true]
    rw [hp0] at hroom h
    have := normPush_ok h hroom
    simpa using this
  · simp only [hp0, if_false]
    obtain ⟨r, hr⟩ := endsDotDot_ok h
    rw [hr]
    simp only
    by_cases hd : r = true
    · simp only [hd, if_true]
      exact normPush_ok h hroom
    · simp only [hd, if_false, Bool.false_eq_true]
      exact (normPop_ok h hp0).mono (by omega)

/-- the whole loop: from a state with room for the rest of the input, the loop returns an
error code or a final position inside the buffer, invariant kept -/
theorem normGo_ok : ∀ (n : Nat) (rest : CStr) (b : Buf) (pos : Nat) (out : CStr), rest.length ≤ n →
    NoNul rest → Produced b pos out → pos + rest.length < b.size →
    StepOk (normGo true rest b pos) b.size (pos + rest.length) := by
  intro n
  induction n with
  | zero =>
    intro rest b pos out hn _ hprod hroom
    have : rest = [] := List.eq_nil_of_length_eq_zero (by omega)
    subst this
    rw [normGo]
    exact Or.inr ⟨b, pos, out, rfl, rfl, hprod, by simp⟩
  | succ n ih =>
    intro rest b pos out hn hnn hprod hroom
    match rest, hn, hnn, hroom with
    | [], _, _, _ =>
      rw [normGo]
      exact Or.inr ⟨b, pos, out, rfl, rfl, hprod, by simp⟩
    | [c], _, hnn, hroom =>
      rw [normGo]
      simp only [bind, Except.bind]
      have hc : c ≠ 0 := hnn c (by simp)
      obtain ⟨b1, w1, s1, p1⟩ := hprod.write (v := c) (by simp at hroom; omega) hc
      rw [w1]
      simp only
      rw [normGo]
      exact Or.inr ⟨b1, pos + 1, _, rfl, s1, p1, by simp⟩
    | [c, d], hn, hnn, hroom =>
      rw [normGo]
      by_cases hdd : c = 46 ∧ d = 46
      · simp only [hdd, and_self, if_true]
        have := normDotDot_ok (e := 0) hprod (by simp at hroom ⊢; omega)
        simpa using this
      · simp only [hdd, if_false, bind, Except.bind]
        have hc : c ≠ 0 := hnn c (by simp)
        obtain ⟨b1, w1, s1, p1⟩ := hprod.write (v := c) (by simp at hroom; omega) hc
        rw [w1]
        simp only
        have := ih [d] b1 (pos + 1) _ (by simp at hn ⊢; omega)
          (fun x hx => hnn x (by simp at hx ⊢; right; exact hx)) p1 (by rw [s1]; simp at hroom ⊢; omega)
        rw [s1] at this
        exact this.mono (by simp)
    | c :: d :: e :: tl3, hn, hnn, hroom =>
      rw [normGo]
      by_cases hdd : c = 46 ∧ d = 46
      · simp only [hdd, and_self, if_true]
        by_cases hs : isSep e = true
        · simp only [hs, Bool.not_true, Bool.false_eq_true, if_false, bind, Except.bind, pure, Except.pure]
          have he : e ≠ 0 := hnn e (by simp)
          have hstep := normDotDot_ok (e := e) hprod (by simp only [he, if_false]; simp at hroom; omega)
          simp only [he, if_false] at hstep
          rcases hstep with hnone | ⟨b', pos', out', hsome, hsz, hp', hle⟩
          · rw [hnone]; left; rfl
          · rw [hsome]
            simp only
            have := ih tl3 b' pos' out' (by simp at hn; omega)
              (fun x hx => hnn x (by simp [hx])) hp' (by rw [hsz]; simp at hroom; omega)
            rw [hsz] at this
            exact this.mono (by simp; omega)
        · have : (!isSep e) = true := by simpa using hs
          simp only [this, if_true]
          left; rfl
      · simp only [hdd, if_false, bind, Except.bind]
        have hc : c ≠ 0 := hnn c (by simp)
        obtain ⟨b1, w1, s1, p1⟩ := hprod.write (v := c) (by simp at hroom; omega) hc
        rw [w1]
        simp only
        have := ih (d :: e :: tl3) b1 (pos + 1) _ (by simp at hn ⊢; omega)
          (fun x hx => hnn x (by simp at hx ⊢; right; exact hx)) p1 (by rw [s1]; simp at hroom ⊢; omega)
        rw [s1] at this
        exact this.mono (by simp; omega)

/-- storing the terminator behind what has been produced -/
theorem Produced.terminate {b : Buf} {pos : Nat} {out : CStr} (h : Produced b pos out) (hlt : pos < b.size) :
    ∃ b', b.write pos 0 = .ok b' ∧ b'.size = b.size ∧ b'.cstr = some out := by
  obtain ⟨_, h2, h3⟩ := h
  refine ⟨_, write_ok hlt, ?_, ?_⟩
  · simp [Buf.size]; unfold Buf.size at hlt; omega
  · unfold Buf.cstr
    simp only
    rw [h3]
    exact cstrCells_prefix out _ h2

/-- what `normpath` / `abspath` guarantee about memory: they return, the buffer keeps its size,
and a reported success leaves a NUL-terminated string that fits the buffer -/
def SafeTerminated (r : Except Err (Bool × Buf)) (size : Nat) : Prop :=
  ∃ ok b', r = .ok (ok, b') ∧ b'.size = size ∧
    (ok = true → ∃ out, b'.cstr = some out ∧ out.length < size)

theorem safe_fail (b : Buf) : SafeTerminated (.ok (false, b)) b.size :=
  ⟨false, b, rfl, rfl, by intro h; cases h⟩

theorem Meets.safe {r : Except Err (Bool × Buf)} {size : Nat} {spec : Option CStr}
    (h : Meets r size spec) (hfit : ∀ x, spec = some x → x.length < size) : SafeTerminated r size := by
  obtain ⟨b', h1, h2, h3⟩ := h
  refine ⟨spec.isSome, b', h1, h2, ?_⟩
  intro hs
  cases hspec : spec with
  | none => rw [hspec] at hs; cases hs
  | some x => exact ⟨x, h3 x hspec, hfit x hspec⟩

theorem pathNormpath_safe (p : CStr) (hp : NoNul p) (b : Buf) :
    SafeTerminated (pathNormpath true p b) b.size := by
  unfold pathNormpath
  simp only [bind, Except.bind, pure, Except.pure]
  by_cases h1 : p.length ≥ b.size
  · simp only [h1, if_true]; exact safe_fail b
  · simp only [h1, if_false]
    generalize hst : (if (!isAbs p) = true then
        if (startswith p [46, 47] || startswith p [46, 92]) = true then List.drop 2 p else p
      else p) = start
    have hlen : start.length ≤ p.length := by
      rw [← hst]; split <;> (try split) <;> simp
    have hnn : NoNul start := by
      rw [← hst]; split <;> (try split) <;> first | exact hp | exact hp.drop 2
    have hprod : Produced b 0 [] := ⟨rfl, by intro c hc; simp at hc, by simp⟩
    have hgo := normGo_ok start.length start b 0 [] (Nat.le_refl _) hnn hprod (by omega)
    rcases hgo with hnone | ⟨b', pos', out', hsome, hsz, hp', hle⟩
    · rw [hnone]; exact safe_fail b
    · rw [hsome]
      simp only
      by_cases hp0 : pos' = 0
      · simp only [hp0, if_true]
        by_cases h2 : b.size ≤ 2
        · simp only [h2, if_true]
          have := safe_fail b'
          rw [hsz] at this
          exact this
        · simp only [h2, if_false]
          subst hp0
          obtain ⟨b1, w1, s1, p1⟩ := hp'.write (v := 46) (by rw [hsz]; omega) (by omega)
          obtain ⟨b2, w2, s2, p2⟩ := p1.write (v := 47) (by rw [s1, hsz]; omega) (by omega)
          obtain ⟨b3, w3, s3, c3⟩ := p2.terminate (by rw [s2, s1, hsz]; omega)
          rw [w1]
          simp only
          rw [w2]
          simp only
          rw [w3]
          refine ⟨true, b3, rfl, by rw [s3, s2, s1, hsz], ?_⟩
          intro _
          refine ⟨_, c3, ?_⟩
          have := p2.1
          omega
      · simp only [hp0, if_false]
        obtain ⟨b3, w3, s3, c3⟩ := hp'.terminate (by rw [hsz]; omega)
        rw [w3]
        refine ⟨true, b3, rfl, by rw [s3, hsz], ?_⟩
        intro _
        refine ⟨_, c3, ?_⟩
        have := hp'.1
        omega

theorem cstrCells_noNul : ∀ (l : List (Option Nat)) (s : CStr), cstrCells l = some s → NoNul s
  | [], s, h => by simp [cstrCells] at h
  | none :: _, s, h => by simp [cstrCells] at h
  | some c :: rest, s, h => by
    unfold cstrCells at h
    by_cases hc : c = 0
    · simp [hc] at h; subst h; intro x hx; simp at hx
    · simp only [hc, if_false] at h
      cases hr : cstrCells rest with
      | none => rw [hr] at h; simp at h
      | some r =>
        rw [hr] at h
        simp at h
        subst h
        intro x hx
        simp at hx
        rcases hx with rfl | hx
        · exact hc
        · exact cstrCells_noNul rest r hr x hx

theorem specJoin_fits (p1 p2 : CStr) (size : Nat) : ∀ x, specJoin p1 p2 size = some x → x.length < size := by
  intro x hx
  unfold specJoin fits at hx
  cases hr : refJoin p1 p2 with
  | none => rw [hr] at hx; cases hx
  | some r =>
    rw [hr] at hx
    by_cases h : r.length < size
    · simp [h] at hx; subst hx; exact h
    · simp [h] at hx

/-- `muggle_path_abspath` (fixed): memory-safe and terminated for every path, cwd and buffer -/
theorem pathAbspath_safe (cwd : Option CStr) (hcwd : ∀ c, cwd = some c → NoNul c) (p : CStr)
    (hp : NoNul p) (b : Buf) : SafeTerminated (pathAbspath true cwd p b) b.size := by
  unfold pathAbspath
  simp only [bind, Except.bind, pure, Except.pure, if_true]
  by_cases h1 : b.size ≤ 1
  · simp only [h1, if_true]; exact safe_fail b
  · simp only [h1, if_false]
    by_cases hab : isAbs p = true
    · simp only [hab, if_true]
      by_cases h2 : p.length > b.size - 1
      · simp only [h2, if_true]; exact safe_fail b
      · simp only [h2, if_false]
        obtain ⟨b1, b2, e1, e2, hsz, hc, _⟩ := strncpy_terminate b p (b.size - 1) (by omega) (by omega) hp
        rw [e1]
        simp only
        rw [e2]
        exact ⟨true, b2, rfl, hsz, fun _ => ⟨p, hc, by omega⟩⟩
    · simp only [hab, if_false, Bool.false_eq_true]
      cases cwd with
      | none => exact safe_fail b
      | some cwd =>
        simp only
        have hj := pathJoin_meets cwd p (hcwd cwd rfl) hp (Buf.fresh MAX_PATH)
        obtain ⟨full, hj1, _, hj3⟩ := hj
        rw [hj1]
        simp only
        cases hs : specJoin cwd p (Buf.fresh MAX_PATH).size with
        | none =>
          simp only [Option.isSome_none, Bool.not_false, if_true]
          exact safe_fail b
        | some fullStr =>
          simp only [Option.isSome_some, Bool.not_true, Bool.false_eq_true, if_false]
          have hc := hj3 fullStr hs
          rw [hc]
          simp only
          exact pathNormpath_safe fullStr (cstrCells_noNul _ _ hc) b

end MgProof.C20
