import MgProof.C20.BitsLemmas
/-! # C20 — endian swaps: bit permutation, involution, byte reversal (generated case splits) -/
namespace MgProof.C20
open MgModel.C20

theorem swap16_bit (v : BitVec 16) (i : Nat) (hl : 0 ≤ i) (hi : i < 16) :
    (swap16 v).getLsbD i = v.getLsbD (8 * (1 - i / 8) + i % 8) := by
  have h : i = 0 ∨ i = 1 ∨ i = 2 ∨ i = 3 ∨ i = 4 ∨ i = 5 ∨ i = 6 ∨ i = 7 ∨ i = 8 ∨ i = 9 ∨ i = 10 ∨ i = 11 ∨ i = 12 ∨ i = 13 ∨ i = 14 ∨ i = 15 := by omega
  unfold swap16
  rcases h with rfl | rfl | rfl | rfl | rfl | rfl | rfl | rfl | rfl | rfl | rfl | rfl | rfl | rfl | rfl | rfl <;> simp

theorem swap32_bit (v : BitVec 32) (i : Nat) (hl : 0 ≤ i) (hi : i < 32) :
    (swap32 v).getLsbD i = v.getLsbD (8 * (3 - i / 8) + i % 8) := by
  have h : i = 0 ∨ i = 1 ∨ i = 2 ∨ i = 3 ∨ i = 4 ∨ i = 5 ∨ i = 6 ∨ i = 7 ∨ i = 8 ∨ i = 9 ∨ i = 10 ∨ i = 11 ∨ i = 12 ∨ i = 13 ∨ i = 14 ∨ i = 15 ∨ i = 16 ∨ i = 17 ∨ i = 18 ∨ i = 19 ∨ i = 20 ∨ i = 21 ∨ i = 22 ∨ i = 23 ∨ i = 24 ∨ i = 25 ∨ i = 26 ∨ i = 27 ∨ i = 28 ∨ i = 29 ∨ i = 30 ∨ i = 31 := by omega
  unfold swap32
  rcases h with rfl | rfl | rfl | rfl | rfl | rfl | rfl | rfl | rfl | rfl | rfl | rfl | rfl | rfl | rfl | rfl | rfl | rfl | rfl | rfl | rfl | rfl | rfl | rfl | rfl | rfl | rfl | rfl | rfl | rfl | rfl | rfl <;> simp

theorem swap64_bit_lo (v : BitVec 64) (i : Nat) (hl : 0 ≤ i) (hi : i < 32) :
    (swap64 v).getLsbD i = v.getLsbD (8 * (7 - i / 8) + i % 8) := by
  have h : i = 0 ∨ i = 1 ∨ i = 2 ∨ i = 3 ∨ i = 4 ∨ i = 5 ∨ i = 6 ∨ i = 7 ∨ i = 8 ∨ i = 9 ∨ i = 10 ∨ i = 11 ∨ i = 12 ∨ i = 13 ∨ i = 14 ∨ i = 15 ∨ i = 16 ∨ i = 17 ∨ i = 18 ∨ i = 19 ∨ i = 20 ∨ i = 21 ∨ i = 22 ∨ i = 23 ∨ i = 24 ∨ i = 25 ∨ i = 26 ∨ i = 27 ∨ i = 28 ∨ i = 29 ∨ i = 30 ∨ i = 31 := by omega
  unfold swap64
  rcases h with rfl | rfl | rfl | rfl | rfl | rfl | rfl | rfl | rfl | rfl | rfl | rfl | rfl | rfl | rfl | rfl | rfl | rfl | rfl | rfl | rfl | rfl | rfl | rfl | rfl | rfl | rfl | rfl | rfl | rfl | rfl | rfl <;> simp

theorem swap64_bit_hi (v : BitVec 64) (i : Nat) (hl : 32 ≤ i) (hi : i < 64) :
    (swap64 v).getLsbD i = v.getLsbD (8 * (7 - i / 8) + i % 8) := by
  have h : i = 32 ∨ i = 33 ∨ i = 34 ∨ i = 35 ∨ i = 36 ∨ i = 37 ∨ i = 38 ∨ i = 39 ∨ i = 40 ∨ i = 41 ∨ i = 42 ∨ i = 43 ∨ i = 44 ∨ i = 45 ∨ i = 46 ∨ i = 47 ∨ i = 48 ∨ i = 49 ∨ i = 50 ∨ i = 51 ∨ i = 52 ∨ i = 53 ∨ i = 54 ∨ i = 55 ∨ i = 56 ∨ i = 57 ∨ i = 58 ∨ i = 59 ∨ i = 60 ∨ i = 61 ∨ i = 62 ∨ i = 63 := by omega
  unfold swap64
  rcases h with rfl | rfl | rfl | rfl | rfl | rfl | rfl | rfl | rfl | rfl | rfl | rfl | rfl | rfl | rfl | rfl | rfl | rfl | rfl | rfl | rfl | rfl | rfl | rfl | rfl | rfl | rfl | rfl | rfl | rfl | rfl | rfl <;> simp

theorem swap64_bit (v : BitVec 64) (i : Nat) (hi : i < 64) :
    (swap64 v).getLsbD i = v.getLsbD (8 * (7 - i / 8) + i % 8) := by
  by_cases h : i < 32
  · exact swap64_bit_lo v i (Nat.zero_le _) h
  · exact swap64_bit_hi v i (by omega) hi

theorem swap16_invol (v : BitVec 16) : swap16 (swap16 v) = v := by
  apply BitVec.eq_of_getLsbD_eq
  intro i hi
  rw [swap16_bit _ i (Nat.zero_le _) hi, swap16_bit _ _ (Nat.zero_le _) (by omega)]
  congr 1; omega

theorem swap32_invol (v : BitVec 32) : swap32 (swap32 v) = v := by
  apply BitVec.eq_of_getLsbD_eq
  intro i hi
  rw [swap32_bit _ i (Nat.zero_le _) hi, swap32_bit _ _ (Nat.zero_le _) (by omega)]
  congr 1; omega

theorem swap64_invol (v : BitVec 64) : swap64 (swap64 v) = v := by
  apply BitVec.eq_of_getLsbD_eq
  intro i hi
  rw [swap64_bit _ i hi, swap64_bit _ _ (by omega)]
  congr 1; omega

/-- byte `j` of a word -/
def byteOf {w : Nat} (v : BitVec w) (j : Nat) : BitVec 8 := v.extractLsb' (8 * j) 8

theorem swap16_byte (v : BitVec 16) (j : Nat) (hj : j < 2) :
    byteOf (swap16 v) j = byteOf v (1 - j) := by
  apply BitVec.eq_of_getLsbD_eq
  intro i hi
  simp only [byteOf, BitVec.getLsbD_extractLsb', hi, decide_true, Bool.true_and]
  rw [swap16_bit _ _ (Nat.zero_le _) (by omega)]
  congr 1; omega

theorem swap32_byte (v : BitVec 32) (j : Nat) (hj : j < 4) :
    byteOf (swap32 v) j = byteOf v (3 - j) := by
  apply BitVec.eq_of_getLsbD_eq
  intro i hi
  simp only [byteOf, BitVec.getLsbD_extractLsb', hi, decide_true, Bool.true_and]
  rw [swap32_bit _ _ (Nat.zero_le _) (by omega)]
  congr 1; omega

theorem swap64_byte (v : BitVec 64) (j : Nat) (hj : j < 8) :
    byteOf (swap64 v) j = byteOf v (7 - j) := by
  apply BitVec.eq_of_getLsbD_eq
  intro i hi
  simp only [byteOf, BitVec.getLsbD_extractLsb', hi, decide_true, Bool.true_and]
  rw [swap64_bit _ _ (by omega)]
  congr 1; omega

/-! ## the executable byte-reversal specification -/

def divIter : Nat → Nat → Nat
  | 0, n => n
  | j + 1, n => divIter j n / 256

theorem divIter_eq (j n : Nat) : divIter j n = n / 2 ^ (8 * j) := by
  induction j with
  | zero => simp [divIter]
  | succ j ih =>
    rw [divIter, ih, Nat.div_div_eq_div_mul]
    congr 1
    rw [show 8 * (j + 1) = 8 * j + 8 by omega, Nat.pow_add]

theorem byteOf_toNat {w : Nat} (v : BitVec w) (j : Nat) :
    (byteOf v j).toNat = divIter j v.toNat % 256 := by
  rw [divIter_eq]
  simp [byteOf, BitVec.extractLsb'_toNat, Nat.shiftRight_eq_div_pow]

theorem swap16_spec (v : BitVec 16) : (swap16 v).toNat = specSwap 2 v.toNat := by
  have h0 := congrArg BitVec.toNat (swap16_byte v 0 (by omega))
  have h1 := congrArg BitVec.toNat (swap16_byte v 1 (by omega))
  simp only [byteOf_toNat, Nat.reduceSub, divIter] at h0 h1
  have hs := (swap16 v).isLt
  have hn := v.isLt
  simp only [specSwap, bytesLE, ofBytesLE, List.reverse_cons, List.reverse_nil, List.nil_append, List.cons_append]
  omega

theorem swap32_spec (v : BitVec 32) : (swap32 v).toNat = specSwap 4 v.toNat := by
  have h0 := congrArg BitVec.toNat (swap32_byte v 0 (by omega))
  have h1 := congrArg BitVec.toNat (swap32_byte v 1 (by omega))
  have h2 := congrArg BitVec.toNat (swap32_byte v 2 (by omega))
  have h3 := congrArg BitVec.toNat (swap32_byte v 3 (by omega))
  simp only [byteOf_toNat, Nat.reduceSub, divIter] at h0 h1 h2 h3
  have hs := (swap32 v).isLt
  have hn := v.isLt
  simp only [specSwap, bytesLE, ofBytesLE, List.reverse_cons, List.reverse_nil, List.nil_append, List.cons_append]
  omega

theorem swap64_spec (v : BitVec 64) : (swap64 v).toNat = specSwap 8 v.toNat := by
  have h0 := congrArg BitVec.toNat (swap64_byte v 0 (by omega))
  have h1 := congrArg BitVec.toNat (swap64_byte v 1 (by omega))
  have h2 := congrArg BitVec.toNat (swap64_byte v 2 (by omega))
  have h3 := congrArg BitVec.toNat (swap64_byte v 3 (by omega))
  have h4 := congrArg BitVec.toNat (swap64_byte v 4 (by omega))
  have h5 := congrArg BitVec.toNat (swap64_byte v 5 (by omega))
  have h6 := congrArg BitVec.toNat (swap64_byte v 6 (by omega))
  have h7 := congrArg BitVec.toNat (swap64_byte v 7 (by omega))
  simp only [byteOf_toNat, Nat.reduceSub, divIter] at h0 h1 h2 h3 h4 h5 h6 h7
  have hs := (swap64 v).isLt
  have hn := v.isLt
  simp only [specSwap, bytesLE, ofBytesLE, List.reverse_cons, List.reverse_nil, List.nil_append, List.cons_append]
  omega

end MgProof.C20
