import Lean
/-! `#audit_module M` prints, for every user-written theorem declared in module `M`,
the axioms it depends on, one line per theorem: `AXIOMS <name> [<axioms>]`.
Used by lib/vlib.py (`lean_axiom_audit`) on every run of every check. -/
open Lean Elab Command

private def isUserName (n : Name) : Bool :=
  !n.isInternal && !n.hasMacroScopes &&
  n.components.all fun c => match c with
    | .str _ s => !(s.startsWith "_") && !(s.startsWith "match_") && !(s.startsWith "eq_")
                  && !(s.startsWith "proof_")
    | _ => false

elab "#audit_module " m:ident : command => do
  let env ← getEnv
  let some idx := env.getModuleIdx? m.getId
    | throwError "audit: module {m.getId} not imported"
  let mut names : Array Name := #[]
  for (n, ci) in env.constants.map₁.toList do
    if env.getModuleIdxFor? n == some idx then
      if let .thmInfo _ := ci then
        if isUserName n then names := names.push n
  let sorted := names.qsort (fun a b => a.toString < b.toString)
  for n in sorted do
    let ax ← liftCoreM <| collectAxioms n
    let axs := ax.qsort (fun a b => a.toString < b.toString)
    logInfo m!"AXIOMS {n} {axs.toList}"
