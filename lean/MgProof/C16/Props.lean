import MgProof.C16.Lemmas
import MgProof.C16.LemmasAsync
import MgProof.C16.LemmasSync
/-!
# C16 — property theorems (logging)

Statement (properties.jsonl): every log call whose level is at or above a handler's level
produces exactly one line in that handler's output and calls below it produce none; with
many threads logging concurrently lines are never torn or interleaved and each thread's
lines keep their order.  A message of any length or content is emitted as its formatted
line cut at the fixed maximum length, without reading or writing out of bounds.  The
asynchronous logger emits the same lines as the synchronous one, its destroy returns only
after everything it accepted has been written, and it leaks nothing even when its queue
overflows.

Quantifiers: every message length and content (`expansion : List UInt8`, any length), every
prefix (level, file, line, function, time stamp, thread id), both formatters or none, every
handler kind, any number of handlers with any levels, any number of threads, calls and any
schedule, any channel capacity.  The theorems are about `Variant.fixed` (the tree after
`fixes/C16-*.patch`); for `Variant.orig` (the pinned tree) the negations are proved.

Clauses: (a) one line per accepted call per handler, none below the level — `sync_call`,
`sync_run`, `builtin_handler_one_line`; (b) concurrency — `concurrent_*`; (c) any length,
cut at the maximum, no out-of-bounds access — `emit_is_cut_line`, `cut_line_shape`,
`payload_shape`, `sync_log_total`, `orig_*` (negation on the pinned tree); (d) asynchronous
logger — `async_*`.
-/
namespace MgProof.C16
open MgModel.C16 MgModel.Conc

/-! ## (c) any length or content: the formatted line cut at the maximum, no index outside the buffers -/

/-- (c) For every line the formatter is asked to print — any length, any bytes — the fixed
handlers hand `fwrite` exactly `cut line`, and no buffer index is out of range or
uninitialised (`emit` would return `Err.oob` / `Err.uninit`). -/
theorem emit_is_cut_line (line : Bytes) : emit .fixed line = .ok (cut line, (cut line).length) :=
  emit_fixed line

/-- (c) Shape of the cut line, for every `line`: at most 4095 bytes; all bytes but the last
are the first bytes of the formatted line; it still ends with the newline; a line that fits
is not changed at all. -/
theorem cut_line_shape (line : Bytes) :
    (cut line).length ≤ maxLen - 1 ∧ (cut line).dropLast <+: line ∧
    (line.getLast? = some 10 → (cut line).getLast? = some 10) ∧
    (line.length < maxLen → cut line = line) :=
  ⟨cut_length_le line, cut_dropLast_prefix line, cut_getLast line, cut_fit line⟩

/-- (c) The payload both loggers build from a call: the expansion cut to what fits the
4096-byte payload buffer with its terminator; never longer, always a prefix. -/
theorem payload_shape (expansion : Bytes) :
    (payloadOf expansion).length ≤ maxLen - 1 ∧ payloadOf expansion <+: expansion ∧
    (expansion.length ≤ maxLen - 1 → payloadOf expansion = expansion) := by
  refine ⟨?_, List.take_prefix _ _, fun h => List.take_of_length_le h⟩
  simp only [payloadOf, List.length_take]; omega

/-- (c) One handler, one message, any length and content: the handler appends exactly the
specified records (`specRecs`: the cut line, for the console wrapped in its colour codes)
and returns the number of bytes written; never an out-of-bounds access. -/
theorem handler_write_spec (h : Handler) (m : Msg) :
    handlerWrite .fixed h m = .ok ({ h with out := h.out ++ specRecs h m }, specRet h m) :=
  handlerWrite_fixed h m

/-- (c) The whole synchronous call is total: for every logger (any handlers, any levels),
every clock / thread id and every call, no buffer is overrun. -/
theorem sync_log_total (lg : Logger) (e : Env) (c : Call) : ∃ r, syncLog .fixed lg e c = .ok r := by
  rw [syncLog_fixed]; exact ⟨_, rfl⟩

/-- (c), negation on the pinned tree: whenever the formatted line is longer than the buffer
(`> 4096` bytes) every built-in handler reads beyond its 4096-byte stack buffer. -/
theorem orig_handler_overreads (h : Handler) (m : Msg) (k : FmtKind) (hk : h.kind ≠ .cap)
    (hf : h.fmt = some k) (hlen : maxLen < (formatted k m.hd m.payload).length) :
    handlerWrite .orig h m = .error .oob := by
  obtain ⟨kind, level, fmt, out⟩ := h
  simp only at hf hk
  subst hf
  unfold handlerWrite
  cases kind <;> first | exact absurd rfl hk | (simp only [emit_orig_oob _ hlen]; rfl)

/-- (c), negation on the pinned tree, reachable through the public API: a payload of 4095
bytes (the longest the loggers produce) behind any non-empty prefix overflows. -/
theorem orig_overread_reachable (h : Handler) (hd : Meta) (k : FmtKind) (expansion : Bytes)
    (hk : h.kind ≠ .cap) (hf : h.fmt = some k) (hp : 1 ≤ (linePrefix k hd).length)
    (hx : maxLen - 1 ≤ expansion.length) :
    handlerWrite .orig h { hd := hd, payload := payloadOf expansion } = .error .oob := by
  apply orig_handler_overreads h _ k hk hf
  simp only [formatted, payloadOf, List.length_append, List.length_take, List.length_cons,
    List.length_nil]
  have := maxLen_ge
  omega

/-- (c), pinned tree: a formatted line of exactly 4096 bytes puts a NUL byte into the log. -/
theorem orig_emits_nul (line : Bytes) (h : line.length = maxLen) :
    ∃ x, emit .orig line = .ok (line.take (maxLen - 2) ++ [x, 0], maxLen) :=
  emit_orig_nul line h

example : emit .orig (List.replicate 5000 65) = .error .oob :=
  emit_orig_oob _ (by rw [List.length_replicate]; decide)

/-! ## (a) exactly one line per accepted call per handler, none below the level -/

/-- what one call adds to handler `h` according to the property -/
def callRecs (lg : Logger) (e : Env) (c : Call) (h : Handler) : List Rec :=
  if c.level ≥ h.level then specRecs h (mkMsg lg e c) else []

/-- (a) One call through the synchronous logger, any logger whose threshold is not above a
handler level (`Wf`: levels set before `add_handler`): every handler with `level ≤ c.level`
gets exactly the records of one line appended, every other handler nothing; nothing else
changes. -/
theorem sync_call (lg : Logger) (hwf : lg.Wf) (e : Env) (c : Call) :
    ∃ rs, syncLog .fixed lg e c =
      .ok ({ lg with handlers := lg.handlers.map fun h => { h with out := h.out ++ callRecs lg e c h } }, rs) := by
  rw [syncLog_fixed]
  by_cases hlow : lg.lowest > c.level
  · refine ⟨[], ?_⟩
    rw [if_pos hlow]
    have : lg.handlers.map (fun h => { h with out := h.out ++ callRecs lg e c h }) = lg.handlers := by
      have hid : ∀ h ∈ lg.handlers, ({ h with out := h.out ++ callRecs lg e c h } : Handler) = id h := by
        intro h hh
        have := hwf h hh
        have hn : ¬ c.level ≥ h.level := by omega
        simp [callRecs, hn]
      rw [List.map_congr_left hid, List.map_id]
    rw [this]
  · refine ⟨stepRets (mkMsg lg e c) lg.handlers, ?_⟩
    rw [if_neg hlow]
    congr 3
    unfold stepHandlers
    apply List.map_congr_left
    intro h _
    by_cases hw : c.level ≥ h.level
    · have : shouldWrite h (mkMsg lg e c).level = true := (shouldWrite_iff _ _).mpr hw
      simp [callRecs, hw, this]
    · have : ¬ shouldWrite h (mkMsg lg e c).level = true := fun hs => hw ((shouldWrite_iff _ _).mp hs)
      simp [callRecs, hw, this]

/-- the records of a whole sequence of calls for handler `h` -/
def runRecs (lg : Logger) (cs : List (Env × Call)) (h : Handler) : List Rec :=
  cs.flatMap fun ec => callRecs lg ec.1 ec.2 h

theorem callRecs_out_irrel (lg : Logger) (hs : List Handler) (e : Env) (c : Call) (h : Handler)
    (o : List Rec) :
    callRecs { lg with handlers := hs } e c { h with out := o } = callRecs lg e c h := by
  unfold callRecs
  simp only [specRecs_out_irrel]
  rfl

/-- (a) Any sequence of calls of any length by one thread: every handler ends with, in call
order, exactly one line for every call at or above its level and nothing for the others. -/
theorem sync_run (lg : Logger) (hwf : lg.Wf) (cs : List (Env × Call)) :
    runSync .fixed lg cs =
      .ok { lg with handlers := lg.handlers.map fun h => { h with out := h.out ++ runRecs lg cs h } } := by
  induction cs generalizing lg with
  | nil =>
    simp only [runSync, runRecs, List.flatMap_nil, List.append_nil]
    have : lg.handlers.map (fun h => ({ h with out := h.out } : Handler)) = lg.handlers := by
      simp
    rw [this]
  | cons ec cs ih =>
    obtain ⟨e, c⟩ := ec
    obtain ⟨rs, h1⟩ := sync_call lg hwf e c
    simp only [runSync, h1]
    have hwf' : Logger.Wf { lg with handlers := lg.handlers.map fun h => { h with out := h.out ++ callRecs lg e c h } } := by
      intro h hh
      simp only [List.mem_map] at hh
      obtain ⟨h0, hh0, rfl⟩ := hh
      exact hwf h0 hh0
    show runSync .fixed _ cs = _
    rw [ih _ hwf']
    congr 2
    rw [List.map_map]
    apply List.map_congr_left
    intro h _
    simp only [Function.comp, runRecs, List.flatMap_cons, List.append_assoc]
    congr 2
    all_goals
      apply List.flatMap_congr
      intro ec _
      exact callRecs_out_irrel lg _ ec.1 ec.2 h _

/-- a record that carries a complete line (ends with the newline) -/
def isLineRec : Rec → Bool
  | .fw _ b => b.getLast? == some 10
  | .cap .. => false

theorem formatted_getLast (k : FmtKind) (hd : Meta) (p : Bytes) : (formatted k hd p).getLast? = some 10 := by
  simp [formatted]

/-- (a) "exactly one line": what a built-in handler (file, size-rotating, time-rotating,
console with or without colour) with a formatter writes for one accepted message contains
exactly one record that is a line; that line is the cut formatted line, at most 4095 bytes,
ending with the newline, and apart from that newline made of the first bytes of the
formatted line. -/
theorem builtin_handler_one_line (h : Handler) (k : FmtKind) (m : Msg) (hk : h.kind ≠ .cap)
    (hf : h.fmt = some k) :
    ((specRecs h m).filter isLineRec).length = 1 ∧
    ∃ s, Rec.fw s (cut (formatted k m.hd m.payload)) ∈ specRecs h m := by
  obtain ⟨kind, level, fmt, out⟩ := h
  simp only at hf hk
  subst hf
  have hl : isLineRec (.fw 0 (cut (formatted k m.hd m.payload))) = true := by
    simp [isLineRec, cut_getLast _ (formatted_getLast k m.hd m.payload)]
  have hl' : ∀ s, isLineRec (.fw s (cut (formatted k m.hd m.payload))) = true := fun s => by
    simp [isLineRec, cut_getLast _ (formatted_getLast k m.hd m.payload)]
  cases kind with
  | cap => exact absurd rfl hk
  | file => exact ⟨by simp [specRecs, chunksOf, hl], 0, by simp [specRecs, chunksOf]⟩
  | rot => exact ⟨by simp [specRecs, chunksOf, hl], 0, by simp [specRecs, chunksOf]⟩
  | trot => exact ⟨by simp [specRecs, chunksOf, hl], 0, by simp [specRecs, chunksOf]⟩
  | console color =>
    simp only [specRecs, chunksOf]
    split
    · refine ⟨?_, (if m.level ≥ lvlWarning then 2 else 1), by simp⟩
      have hg := cut_getLast _ (formatted_getLast k m.hd m.payload)
      by_cases he : lvlError ≤ m.level <;>
        simp [isLineRec, colRed, colYel, colRst, he, hg]
    · exact ⟨by simp [hl'], (if m.level ≥ lvlWarning then 2 else 1), by simp⟩

/-- (a) a handler without formatter writes nothing; a call below the handler's level adds
nothing (`callRecs` is `[]`) -/
theorem below_level_nothing (lg : Logger) (e : Env) (c : Call) (h : Handler) (hb : c.level < h.level) :
    callRecs lg e c h = [] := by
  have : ¬ c.level ≥ h.level := by omega
  simp [callRecs, this]

/-! ## (b) many threads: lines are never torn or interleaved -/

/-- (b) Mutual exclusion, every schedule, any number of threads: two threads are never both
inside the critical section of the same handler. -/
theorem concurrent_exclusion (lg : Logger) (n : Nat) (prog : Nat → List (Env × Call)) (s : SState)
    (hr : Reach sstep (sinit .fixed lg n prog) s) (i i' : Nat) (m m' : Msg) (j : Nat) (todo todo' : List Rec)
    (h1 : s.pc i = .locked m j todo) (h2 : s.pc i' = .locked m' j todo') : i = i' := by
  have inv := sinv_reach lg n prog s hr
  have a := inv.own i m j todo h1
  have b := inv.own i' m' j todo' h2
  rw [a] at b
  exact Option.some.inj b

/-- (b) Lines are never torn or interleaved, every schedule, any number of threads, calls
and handlers: at every moment the output of handler `j` is the concatenation of the
complete record groups (`recsAt` = one cut line, with its colour codes on the console) of
the calls that took the handler's mutex, in the order they took it (`hist j`), minus what
the current owner has not yet written; no fault (out-of-bounds access) ever happens. -/
theorem concurrent_lines_whole (lg : Logger) (n : Nat) (prog : Nat → List (Env × Call)) (s : SState)
    (hr : Reach sstep (sinit .fixed lg n prog) s) (j : Nat) :
    s.fault = none ∧
    ∃ todo, s.outs j ++ todo = (sinit .fixed lg n prog).outs j ++ (s.hist j).flatMap (fun e => recsAt lg j e.msg) ∧
      (s.mtx j = none → todo = []) := by
  have inv := sinv_reach lg n prog s hr
  refine ⟨inv.nofault, ?_⟩
  cases hm : s.mtx j with
  | none => exact ⟨[], by simpa [base] using inv.free j hm, fun _ => rfl⟩
  | some i =>
    obtain ⟨m, todo, hp⟩ := inv.owned j i hm
    exact ⟨todo, by simpa [base] using inv.held i m j todo hp, fun h => by cases h⟩

/-- (b) When every thread has returned, every handler's output is made of whole groups only. -/
theorem concurrent_final (lg : Logger) (n : Nat) (prog : Nat → List (Env × Call)) (s : SState)
    (hr : Reach sstep (sinit .fixed lg n prog) s) (hdone : allDone s) (j : Nat) :
    s.outs j = (sinit .fixed lg n prog).outs j ++ (s.hist j).flatMap (fun e => recsAt lg j e.msg) := by
  have inv := sinv_reach lg n prog s hr
  have hfree : s.mtx j = none := by
    cases hm : s.mtx j with
    | none => rfl
    | some i =>
      obtain ⟨m, todo, hp⟩ := inv.owned j i hm
      have hi := inv.inrange i (by rw [hp]; simp)
      have := (hdone i hi).2
      rw [hp] at this; cases this
  simpa [base] using inv.free j hfree

/-- (b) Each thread's lines keep their order, every schedule: in every handler's history
(= the order of its output groups, `concurrent_lines_whole`) the calls of one thread appear
with strictly increasing call index — in particular no call appears twice. -/
theorem concurrent_per_thread_order (lg : Logger) (n : Nat) (prog : Nat → List (Env × Call)) (s : SState)
    (hr : Reach sstep (sinit .fixed lg n prog) s) (j : Nat) :
    (s.hist j).Pairwise (fun a b => a.tid = b.tid → a.seq < b.seq) :=
  (sord_reach .fixed lg n prog s hr).ord j

/-- (a)+(b) Under concurrency every accepted call still reaches every handler exactly once:
when all threads have returned, for every call `k` of every thread `i` that passes the
logger's threshold and handler `j`'s level (and for which the handler writes anything at
all), handler `j`'s history contains that call — with the message the synchronous logger
builds for it — and by `concurrent_per_thread_order` it contains it only once; by
`concurrent_final` the handler's output is exactly the whole record groups of its history. -/
theorem concurrent_every_call_one_line (lg : Logger) (n : Nat) (prog : Nat → List (Env × Call))
    (s : SState) (hr : Reach sstep (sinit .fixed lg n prog) s) (hdone : allDone s)
    (i : Nat) (hi : i < s.n) (k : Nat) (e : Env) (c : Call) (hk : (prog i)[k]? = some (e, c))
    (hl : ¬ lg.lowest > c.level) (j : Nat) (hlev : ∀ h, lg.handlers[j]? = some h → c.level ≥ h.level)
    (hne : recsAt lg j (mkMsg lg e c) ≠ []) :
    ∃ en ∈ s.hist j, en.tid = i ∧ en.seq = k ∧ en.msg = mkMsg lg e c := by
  obtain ⟨_, cpl⟩ := sboth_reach lg n prog s hr
  have hd := hdone i hi
  have hcnt : k < s.cnt i := by
    have h1 := (cpl.rest i).1
    rw [hd.1] at h1
    have h2 := List.drop_eq_nil_iff.mp h1
    have h3 : k < (prog i).length := by
      rcases Nat.lt_or_ge k (prog i).length with h | h
      · exact h
      · rw [List.getElem?_eq_none h] at hk; cases hk
    omega
  rcases cpl.cpl i k e c j hcnt hk hl hne hlev with ⟨en, hen, h1, h2⟩ | ⟨_, hp⟩
  · refine ⟨en, hen, h1, h2, ?_⟩
    obtain ⟨e', c', hget, hmsg, _⟩ := cpl.src j en hen
    rw [h1, h2, hk] at hget
    injection hget with hget
    injection hget with a b
    rw [hmsg, ← a, ← b]
  · rw [hd.2] at hp; simp [past] at hp

/-- (a) Under concurrency nothing else reaches a handler, and calls below a handler's level
produce nothing: every entry of a handler's history is a call its thread really made (with
the message built for that call) whose level is at or above the handler's level. -/
theorem concurrent_history_are_calls (lg : Logger) (n : Nat) (prog : Nat → List (Env × Call))
    (s : SState) (hr : Reach sstep (sinit .fixed lg n prog) s) (j : Nat) :
    ∀ en ∈ s.hist j, ∃ e c, (prog en.tid)[en.seq]? = some (e, c) ∧ en.msg = mkMsg lg e c ∧
      ∃ h, lg.handlers[j]? = some h ∧ c.level ≥ h.level :=
  (sboth_reach lg n prog s hr).2.src j

/-! ## (d) the asynchronous logger -/

/-- (d) Allocation accounting at every moment, every schedule, any capacity, any number of
producers: the logger's live allocations are exactly two (struct + payload) per message
that is in the channel, held by a producer between allocation and hand-over/release, or
held by the writer; no double free; no handler fault. In particular a refused message
(`ERR_FULL`) is not live any more once its producer is idle again. -/
theorem async_accounting (lg : Logger) (slots n : Nat) (prog : Nat → List (Env × Call)) (s : AState)
    (hr : Reach astep (ainit .fixed lg slots n prog) s) :
    s.live = 2 * ((qmsgs s.queue).length + pcount s.ppc s.n + heldCnt s.wpc) ∧
    s.dblFree = false ∧ s.fault = none ∧ s.queue.length ≤ s.slots :=
  let inv := ainv_reach lg slots n prog s hr
  ⟨inv.live, inv.nodbl, inv.nofault, inv.bound⟩

/-- (d) The writer processes messages in exactly the order the channel accepted them
(every schedule): accepted = written ++ (the one in the writer's hands) ++ (those queued). -/
theorem async_fifo (lg : Logger) (slots n : Nat) (prog : Nat → List (Env × Call)) (s : AState)
    (hr : Reach astep (ainit .fixed lg slots n prog) s) :
    s.accepted = s.written ++ heldList s.wpc ++ qmsgs s.queue :=
  (ainv_reach lg slots n prog s hr).fifo

/-- (d)/(b) Each producer's messages keep their order through the asynchronous logger,
every schedule: in the order of acceptance — which is the order of writing (`async_fifo`) —
the calls of one producer have strictly increasing call index (so none is written twice). -/
theorem async_per_producer_order (lg : Logger) (slots n : Nat) (prog : Nat → List (Env × Call))
    (s : AState) (hr : Reach astep (ainit .fixed lg slots n prog) s) :
    s.accepted.Pairwise (fun a b => a.src = b.src → a.seq < b.seq) ∧
    s.written.Pairwise (fun a b => a.src = b.src → a.seq < b.seq) := by
  have h := (aord_reach .fixed lg slots n prog s hr).ordA
  refine ⟨h, ?_⟩
  rw [async_fifo lg slots n prog s hr, List.append_assoc] at h
  exact (List.pairwise_append.mp h).1

/-- (d) The asynchronous logger emits the same lines as the synchronous one: at every
moment the handlers are exactly what `muggle_logger_write` — the synchronous dispatch —
produces when applied, one after the other, to the messages written so far. -/
theorem async_same_as_sync (lg : Logger) (slots n : Nat) (prog : Nat → List (Env × Call)) (s : AState)
    (hr : Reach astep (ainit .fixed lg slots n prog) s) :
    replay .fixed lg.handlers (s.written.map (·.msg)) = .ok s.lg.handlers := by
  rw [replay_fixed, (ainv_reach lg slots n prog s hr).hand]

/-- (d) `muggle_async_logger_destroy` returns only after everything accepted has been
written, and then nothing is leaked — every schedule, any capacity (so also when the queue
overflowed any number of times), any number of producers and calls: once destroy has
returned, the writer thread has exited, the channel is empty, every accepted message has
been written, in acceptance order, the handlers hold exactly what the synchronous logger
would have produced for the accepted messages, and no allocation of the logger is live. -/
theorem async_destroy_complete (lg : Logger) (slots n : Nat) (prog : Nat → List (Env × Call))
    (s : AState) (hr : Reach astep (ainit .fixed lg slots n prog) s) (hd : s.dpc = .done) :
    s.wpc = .exited ∧ s.queue = [] ∧ s.written = s.accepted ∧ s.live = 0 ∧ s.dblFree = false ∧
    s.fault = none ∧ replay .fixed lg.handlers (s.accepted.map (·.msg)) = .ok s.lg.handlers := by
  have inv := ainv_reach lg slots n prog s hr
  obtain ⟨hw, hq⟩ := inv.ph2 hd
  have hp := inv.pdone (by rw [hd]; simp)
  rw [producersDone_iff] at hp
  have hwr : s.written = s.accepted := by
    have := inv.fifo
    rw [hw, hq] at this
    simpa [heldList, qmsgs] using this.symm
  refine ⟨hw, hq, hwr, ?_, inv.nodbl, inv.nofault, ?_⟩
  · have := inv.live
    rw [hw, hq, pcount_zero_of_idle _ _ (fun i hi => (hp i hi).2)] at this
    simpa [qmsgs, heldCnt] using this
  · rw [← hwr]; exact async_same_as_sync lg slots n prog s hr

/-- (d) Every message the writer handles is a call some producer really made: its payload
and header are what `mkMsg` builds from call number `seq` of producer `src` (every schedule,
at every moment). -/
theorem async_written_are_calls (lg : Logger) (slots n : Nat) (prog : Nat → List (Env × Call))
    (s : AState) (hr : Reach astep (ainit .fixed lg slots n prog) s) :
    ∀ q ∈ s.written, ∃ e c, (prog q.src)[q.seq]? = some (e, c) ∧ q.msg = mkMsg lg e c := by
  intro q hq
  have hacc : q ∈ s.accepted := by
    rw [async_fifo lg slots n prog s hr]; simp [hq]
  exact (acpl_reach .fixed lg slots n prog s hr).src q (List.mem_append_left _ hacc)

/-- (d) Nothing is lost silently: once destroy has returned, every call of every producer
whose level passes the logger's threshold has either been written (exactly once, in its
producer's order — `async_per_producer_order`) or was refused by the full channel
(`dropped`, released — `async_destroy_complete`); every schedule, any capacity. -/
theorem async_every_call_accounted (lg : Logger) (slots n : Nat) (prog : Nat → List (Env × Call))
    (s : AState) (hr : Reach astep (ainit .fixed lg slots n prog) s) (hd : s.dpc = .done)
    (i : Nat) (hi : i < s.n) (k : Nat) (e : Env) (c : Call) (hk : (prog i)[k]? = some (e, c))
    (hl : ¬ lg.lowest > c.level) :
    ∃ q ∈ s.written ++ s.dropped, q.src = i ∧ q.seq = k ∧ q.msg = mkMsg lg e c := by
  have inv := ainv_reach lg slots n prog s hr
  have cpl := acpl_reach .fixed lg slots n prog s hr
  have hp := (producersDone_iff s).mp (inv.pdone (by rw [hd]; simp)) i hi
  have hw := (async_destroy_complete lg slots n prog s hr hd).2.2.1
  have hcnt : k < s.cnt i := by
    have h1 := (cpl.rest i).1
    rw [hp.1] at h1
    have h2 := List.drop_eq_nil_iff.mp h1
    have h3 : k < (prog i).length := by
      rcases Nat.lt_or_ge k (prog i).length with h | h
      · exact h
      · rw [List.getElem?_eq_none h] at hk; cases hk
    omega
  rcases cpl.cpl i k e c hcnt hk hl with ⟨q, hq, hs, hseq⟩ | ⟨q, hq, _⟩
  · refine ⟨q, by rw [hw]; exact hq, hs, hseq, ?_⟩
    obtain ⟨e', c', hget, hmsg⟩ := cpl.src q hq
    rw [hs, hseq, hk] at hget
    injection hget with hget
    injection hget with h1 h2
    rw [hmsg, ← h1, ← h2]
  · have hidle : s.ppc i = .idle := by
      cases hx : s.ppc i <;> simp [hx, isIdle] at hp ⊢
    rw [hidle] at hq; simp [busyMsg] at hq

/-- (d) Progress of destroy (the fixed tree does not hang): while destroy is in progress and
the writer is not held back by the harness gate, some thread can always take a step that
strictly decreases the work left (`destroyMeasure`), and no step of any thread ever increases
it — the only steps that leave it unchanged are destroy's own retry on a full channel and the
gate. Hence under any schedule that does not starve the writer and destroy, destroy returns.
(Needs at least one usable slot: channel capacity ≥ 3.) -/
theorem async_destroy_progress (lg : Logger) (slots n : Nat) (prog : Nat → List (Env × Call))
    (s : AState) (hr : Reach astep (ainit .fixed lg slots n prog) s)
    (hd : s.dpc = .sending ∨ s.dpc = .joining) (hg : s.gate = true) (hslots : 1 ≤ s.slots) :
    (∃ t s', astep s t = some (s', []) ∧ destroyMeasure s' < destroyMeasure s) ∧
    (∀ t s' ev, astep s t = some (s', ev) → destroyMeasure s' ≤ destroyMeasure s) := by
  have inv := ainv_reach lg slots n prog s hr
  refine ⟨destroy_progress_step lg.handlers s inv hd hg hslots, ?_⟩
  intro t s' ev h
  exact destroy_measure_mono lg.handlers s s' t ev inv (by rcases hd with h | h <;> rw [h] <;> simp) h

/-- (d) While destroy is waiting in `join`, the sentinel is the last element of the channel
or the writer has already consumed it: the sentinel is never lost and nothing is queued
behind it. -/
theorem async_sentinel_not_lost (lg : Logger) (slots n : Nat) (prog : Nat → List (Env × Call))
    (s : AState) (hr : Reach astep (ainit .fixed lg slots n prog) s) (hd : s.dpc = .joining) :
    (s.wpc ≠ .exited ∧ ∃ ms : List QMsg, s.queue = ms.map some ++ [none]) ∨
    (s.wpc = .exited ∧ s.queue = []) :=
  (ainv_reach lg slots n prog s hr).ph1 hd

/-! ### the pinned tree violates (d): witnesses -/

/-- one producer, two calls at FATAL level, no handler (so nothing else matters) -/
def wCalls : Nat → List (Env × Call) := fun _ =>
  [({}, { level := 1280, file := "a.c", line := 1, func := "f", expansion := [65] }),
   ({}, { level := 1280, file := "a.c", line := 2, func := "f", expansion := [66] })]

/-- schedule: both calls are made while the writer has not run (one usable slot: the second
gets `ERR_FULL`), then the writer drains, destroy sends the sentinel, the writer exits,
destroy joins. -/
def wLeakSched : List Tok :=
  [⟨2, .none⟩, ⟨2, .none⟩, ⟨2, .none⟩, ⟨2, .none⟩, ⟨0, .none⟩, ⟨0, .none⟩, ⟨0, .none⟩,
   ⟨1, .none⟩, ⟨1, .none⟩, ⟨0, .none⟩, ⟨1, .none⟩]

/-- (d), negation on the pinned tree: a run in which destroy has returned and two
allocations (the refused message and its payload) are still live. -/
theorem orig_async_leaks :
    let r := runSched astep (ainit .orig {} 1 1 wCalls) wLeakSched
    r.2.2 = true ∧ r.1.dpc = .done ∧ r.1.live = 2 ∧ r.1.dropped.length = 1 := by
  decide

/-- destroy is called while the queue is full -/
def wHangSched : List Tok :=
  [⟨2, .none⟩, ⟨2, .none⟩, ⟨2, .none⟩, ⟨2, .none⟩, ⟨1, .none⟩, ⟨1, .none⟩, ⟨0, .none⟩, ⟨0, .none⟩, ⟨0, .none⟩]

/-- the state in which the pinned tree hangs: destroy waits in `join`, the writer waits for
a message, the channel is empty, every producer has returned -/
def Hung (s : AState) : Prop :=
  s.dpc = .joining ∧ s.wpc = .reading ∧ s.queue = [] ∧ producersDone s = true

theorem hung_closed (s s' : AState) (t : Tok) (ev : List String) (h : Hung s)
    (hs : astep s t = some (s', ev)) : Hung s' := by
  obtain ⟨hd, hw, hq, hp⟩ := h
  have hp' := (producersDone_iff s).mp hp
  unfold astep at hs
  split at hs
  · simp [writerStep, hw, hq] at hs
  · split at hs
    · split at hs
      · injection hs with hs; injection hs with hs _; subst hs
        exact ⟨hd, hw, hq, by rw [producersDone_iff]; exact hp'⟩
      · simp [destroyStep, hd, hw] at hs
    · split at hs
      · rename_i hi
        have := hp' _ hi
        have hidle : s.ppc (t.tid - 2) = .idle := by
          cases hx : s.ppc (t.tid - 2) <;> simp [hx, isIdle] at this ⊢
        simp [producerStep, hidle, this.1] at hs
      · simp at hs

/-- (d), negation on the pinned tree: a reachable state from which destroy never returns,
whatever is scheduled afterwards (the sentinel was refused by the full channel). -/
theorem orig_async_destroy_hangs :
    ∃ s, Reach astep (ainit .orig {} 1 1 wCalls) s ∧
      ∀ s', Reach astep s s' → s'.dpc ≠ .done := by
  refine ⟨(runSched astep (ainit .orig {} 1 1 wCalls) wHangSched).1,
    reach_runSched astep _ _ Reach.init _, ?_⟩
  have h0 : Hung (runSched astep (ainit .orig {} 1 1 wCalls) wHangSched).1 := by
    refine ⟨by decide, by decide, by decide, by decide⟩
  intro s' hr
  have : Hung s' := by
    induction hr with
    | init => exact h0
    | step _ hs ih => exact hung_closed _ _ _ _ ih hs
  rw [this.1]; simp

/-! ## non-vacuity -/

/-- a logger with three handlers, a line that has to be cut: hypotheses of the sequential
theorems hold and the result is not trivial -/
example :
    let lg : Logger := { handlers := [{ kind := .file, level := 512, fmt := some .simple },
                                       { kind := .console true, level := 768, fmt := some .complicated },
                                       { kind := .cap, level := 0, fmt := none }],
                          wantTs := true, wantTid := true, lowest := 0 }
    lg.Wf ∧ (callRecs lg {} { level := 1024, file := "a.c", line := 1, func := "f",
                              expansion := List.replicate 9000 65 } lg.handlers[0]).length = 1 := by
  refine ⟨?_, ?_⟩
  · intro h hh; simp at hh; rcases hh with rfl | rfl | rfl <;> decide
  · decide

/-- the fixed asynchronous logger on the witness schedules: destroy returns, nothing is live -/
example :
    let r := runSched astep (ainit .fixed {} 1 1 wCalls)
      [⟨2, .none⟩, ⟨2, .none⟩, ⟨2, .none⟩, ⟨2, .none⟩, ⟨2, .none⟩, ⟨1, .none⟩, ⟨1, .none⟩, ⟨1, .none⟩,
       ⟨0, .none⟩, ⟨0, .none⟩, ⟨0, .none⟩, ⟨1, .none⟩, ⟨0, .none⟩, ⟨1, .none⟩]
    r.2.2 = true ∧ r.1.dpc = .done ∧ r.1.live = 0 ∧ r.1.dropped.length = 1 ∧ r.1.written.length = 1 := by
  decide

/-- two threads, one handler: a reachable state of the concurrent model in which a line is
half-way (one thread holds the mutex) -/
example :
    let lg : Logger := { handlers := [{ kind := .cap, level := 0, fmt := none }], lowest := 0 }
    let prog : Nat → List (Env × Call) := fun _ =>
      [({}, { level := 1024, file := "a.c", line := 1, func := "f", expansion := [65] })]
    let r := runSched sstep (sinit .fixed lg 2 prog) [⟨0, .none⟩, ⟨1, .none⟩, ⟨0, .none⟩, ⟨0, .none⟩]
    r.2.2 = true ∧ r.1.mtx 0 = some 0 ∧ (r.1.outs 0).length = 1 := by
  decide

end MgProof.C16
