import MgModel.C16.Logger
/-! Helper lemmas for C16, sequential part: the line buffer, `emit`, one handler, the
dispatch loop, the synchronous logger. Property theorems live in `Props.lean`. -/
namespace MgProof.C16
open MgModel.C16

theorem readRange_map_some (l : Bytes) (rest : Buf) :
    readRange (l.map some ++ rest) l.length = .ok l := by
  induction l with
  | nil => simp [readRange]
  | cons b bs ih => simp [readRange, ih]; rfl

theorem set_at_length {α : Type} (a : List α) (x y : α) (r : List α) :
    (a ++ x :: r).set a.length y = a ++ y :: r := by
  induction a with
  | nil => simp
  | cons h t ih => simp [ih]

theorem maxLen_ge : 2 ≤ maxLen := by decide

/-- the buffer after the formatter's `snprintf` when the line fits -/
theorem snprintfBuf_fit (cap : Nat) (line : Bytes) (h : line.length < cap) :
    snprintfBuf cap line =
      (line.map some ++ ([some 0] ++ List.replicate (cap - 1 - line.length) none), line.length) := by
  unfold snprintfBuf
  have h0 : cap ≠ 0 := by omega
  have ht : line.take (cap - 1) = line := List.take_of_length_le (by omega)
  simp [h0, ht]

/-- the buffer after the formatter's `snprintf` when the line does not fit -/
theorem snprintfBuf_long (cap : Nat) (line : Bytes) (hc : 2 ≤ cap) (h : cap ≤ line.length) :
    ∃ x, snprintfBuf cap line =
      ((line.take (cap - 2)).map some ++ some x :: [some 0], line.length) := by
  unfold snprintfBuf
  have h0 : cap ≠ 0 := by omega
  have hlt : cap - 2 < line.length := by omega
  refine ⟨line[cap - 2], ?_⟩
  have ht : line.take (cap - 1) = line.take (cap - 2) ++ [line[cap - 2]] := by
    have : cap - 1 = (cap - 2) + 1 := by omega
    rw [this, List.take_succ_eq_append_getElem hlt]
  have hl : (line.take (cap - 2) ++ [line[cap - 2]]).length = cap - 1 := by
    simp only [List.length_append, List.length_take, List.length_cons, List.length_nil]; omega
  rw [if_neg h0]
  simp only [ht, hl, Nat.sub_self, List.replicate_zero, List.append_nil, List.map_append,
    List.map_cons, List.map_nil, List.append_assoc, List.cons_append, List.nil_append]

/-- **fixed code**: `fwrite` gets exactly the formatted line cut at the maximum; no error -/
theorem emit_fixed (line : Bytes) :
    emit .fixed line = .ok (cut line, (cut line).length) := by
  unfold emit cut
  by_cases h : line.length < maxLen
  · rw [snprintfBuf_fit maxLen line h]
    have hn : ¬ line.length ≥ maxLen := by omega
    simp only [clamp, hn, if_false, if_pos h]
    show (do let bytes ← readRange _ line.length; Except.ok (bytes, line.length)) = _
    rw [readRange_map_some]
    rfl
  · have hge : maxLen ≤ line.length := by omega
    obtain ⟨x, hx⟩ := snprintfBuf_long maxLen line maxLen_ge hge
    rw [hx]
    have hn : line.length ≥ maxLen := hge
    have hlen : (List.map some (List.take (maxLen - 2) line)).length = maxLen - 2 := by
      simp only [List.length_map, List.length_take]; have := maxLen_ge; omega
    have hset : bufSet (List.map some (List.take (maxLen - 2) line) ++ [some x, some 0]) (maxLen - 2) 10
        = .ok (List.map some (List.take (maxLen - 2) line ++ [10]) ++ [some 0]) := by
      unfold bufSet
      have hlt : maxLen - 2 < (List.map some (List.take (maxLen - 2) line) ++ [some x, some 0]).length := by
        simp only [List.length_append, hlen]; simp
      rw [if_pos hlt]
      have := set_at_length (List.map some (List.take (maxLen - 2) line)) (some x) (some (10 : UInt8)) [some 0]
      rw [hlen] at this
      rw [this]
      simp
    simp only [clamp, hn, if_true, if_neg h]
    show (do
      let p ← (do let buf' ← bufSet _ (maxLen - 2) 10; Except.ok (buf', maxLen - 1))
      let bytes ← readRange p.1 p.2
      Except.ok (bytes, p.2)) = _
    rw [hset]
    have hl2 : (List.take (maxLen - 2) line ++ [10]).length = maxLen - 1 := by
      simp only [List.length_append, List.length_take, List.length_cons, List.length_nil]
      have := maxLen_ge; omega
    show (do let bytes ← readRange (List.map some (List.take (maxLen - 2) line ++ [10]) ++ [some 0]) (maxLen - 1)
             Except.ok (bytes, maxLen - 1)) = _
    rw [← hl2, readRange_map_some]
    rfl


/-! ### the cut line -/

theorem cut_length_le (line : Bytes) : (cut line).length ≤ maxLen - 1 := by
  unfold cut
  have := maxLen_ge
  split
  · omega
  · simp only [List.length_append, List.length_take, List.length_cons, List.length_nil]; omega

theorem cut_fit (line : Bytes) (h : line.length < maxLen) : cut line = line := by
  unfold cut; rw [if_pos h]

theorem cut_long (line : Bytes) (h : maxLen ≤ line.length) :
    cut line = line.take (maxLen - 2) ++ [10] := by
  unfold cut; rw [if_neg (by omega)]

/-- the cut line ends with the newline whenever the line does -/
theorem cut_getLast (line : Bytes) (h : line.getLast? = some 10) : (cut line).getLast? = some 10 := by
  unfold cut
  split
  · exact h
  · simp

/-- all bytes of the cut line but the last are the first bytes of the line -/
theorem cut_dropLast_prefix (line : Bytes) : (cut line).dropLast <+: line := by
  unfold cut
  split
  · exact List.dropLast_prefix line
  · simp only [List.dropLast_concat]; exact List.take_prefix _ _

/-! ### the pinned tree reads beyond the buffer -/

theorem readRange_all_some_oob (l : Bytes) (n : Nat) (h : l.length < n) :
    readRange (l.map some) n = .error .oob := by
  induction l generalizing n with
  | nil =>
    cases n with
    | zero => omega
    | succ n => simp [readRange]
  | cons b bs ih =>
    cases n with
    | zero => omega
    | succ n =>
      have : bs.length < n := by simp at h; omega
      simp [readRange, ih n this]; rfl

/-- **pinned tree**: a formatted line longer than the buffer makes `fwrite` read beyond it -/
theorem emit_orig_oob (line : Bytes) (h : maxLen < line.length) : emit .orig line = .error .oob := by
  unfold emit
  obtain ⟨x, hx⟩ := snprintfBuf_long maxLen line maxLen_ge (by omega)
  rw [hx]
  simp only [clamp]
  have hb : List.map some (List.take (maxLen - 2) line) ++ [some x, some 0]
      = List.map some (List.take (maxLen - 2) line ++ [x, 0]) := by simp
  show (do let bytes ← readRange _ line.length; Except.ok (bytes, line.length)) = _
  rw [hb, readRange_all_some_oob]
  · rfl
  · simp only [List.length_append, List.length_take, List.length_cons, List.length_nil]
    have := maxLen_ge; omega

/-- **pinned tree**: a line of exactly 4096 bytes puts the terminating NUL into the output -/
theorem emit_orig_nul (line : Bytes) (h : line.length = maxLen) :
    ∃ x, emit .orig line = .ok (line.take (maxLen - 2) ++ [x, 0], maxLen) := by
  unfold emit
  obtain ⟨x, hx⟩ := snprintfBuf_long maxLen line maxLen_ge (by omega)
  refine ⟨x, ?_⟩
  rw [hx]
  simp only [clamp]
  have hb : List.map some (List.take (maxLen - 2) line) ++ [some x, some 0]
      = List.map some (List.take (maxLen - 2) line ++ [x, 0]) ++ [] := by simp
  have hl : (List.take (maxLen - 2) line ++ [x, 0]).length = line.length := by
    simp only [List.length_append, List.length_take, List.length_cons, List.length_nil]
    have := maxLen_ge; omega
  show (do let bytes ← readRange _ line.length; Except.ok (bytes, line.length)) = _
  rw [hb, ← hl, readRange_map_some, hl, h]
  rfl

/-! ### one handler, the dispatch loop, the synchronous logger (fixed code) -/

theorem handlerWrite_fixed (h : Handler) (m : Msg) :
    handlerWrite .fixed h m = .ok ({ h with out := h.out ++ specRecs h m }, specRet h m) := by
  obtain ⟨kind, level, fmt, out⟩ := h
  unfold handlerWrite specRecs specRet
  cases kind <;> cases fmt <;> simp only [emit_fixed, List.append_nil] <;> rfl

/-- the handlers after `muggle_logger_write` as the specification has them -/
def stepHandlers (m : Msg) (hs : List Handler) : List Handler :=
  hs.map fun h => if shouldWrite h m.level then { h with out := h.out ++ specRecs h m } else h

def stepRets (m : Msg) (hs : List Handler) : List (Option Int) :=
  hs.map fun h => if shouldWrite h m.level then some (specRet h m) else none

theorem writeAll_fixed (m : Msg) (hs : List Handler) :
    writeAll .fixed m hs = .ok (stepHandlers m hs, stepRets m hs) := by
  induction hs with
  | nil => rfl
  | cons h hs ih =>
    unfold writeAll
    rw [ih]
    by_cases hw : shouldWrite h m.level
    · simp only [hw, if_true, handlerWrite_fixed, stepHandlers, stepRets, List.map_cons]; rfl
    · simp only [hw, stepHandlers, stepRets, List.map_cons]; rfl

theorem shouldWrite_iff (h : Handler) (l : Int) : shouldWrite h l = true ↔ l ≥ h.level := by
  unfold shouldWrite; simp

theorem stepHandlers_length (m : Msg) (hs : List Handler) : (stepHandlers m hs).length = hs.length := by
  simp [stepHandlers]

/-- levels, kinds and formatters never change when messages are written -/
theorem stepHandlers_static (m : Msg) (hs : List Handler) :
    (stepHandlers m hs).map (fun h => (h.kind, h.level, h.fmt)) = hs.map (fun h => (h.kind, h.level, h.fmt)) := by
  unfold stepHandlers
  rw [List.map_map]
  apply List.map_congr_left
  intro h _
  simp only [Function.comp]
  split <;> rfl

theorem syncLog_fixed (lg : Logger) (e : Env) (c : Call) :
    syncLog .fixed lg e c =
      .ok (if lg.lowest > c.level then (lg, [])
           else ({ lg with handlers := stepHandlers (mkMsg lg e c) lg.handlers },
                 stepRets (mkMsg lg e c) lg.handlers)) := by
  unfold syncLog
  split
  · rfl
  · rw [writeAll_fixed]; rfl

/-! ### lists -/

theorem drop_cons_facts {α : Type} (l : List α) (n : Nat) (x : α) (r : List α) (h : l.drop n = x :: r) :
    l[n]? = some x ∧ l.drop (n + 1) = r ∧ n < l.length := by
  have h1 : (l.drop n).head? = some x := by rw [h]; rfl
  rw [List.head?_drop] at h1
  have h2 : (l.drop n).tail = r := by rw [h]; rfl
  rw [List.tail_drop] at h2
  refine ⟨h1, h2, ?_⟩
  exact Nat.lt_of_not_le (fun hle => by
    have := List.drop_of_length_le hle
    rw [this] at h; cases h)

end MgProof.C16
