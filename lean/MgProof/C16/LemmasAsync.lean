import MgModel.C16.Async
import MgProof.C16.Lemmas
/-! Helper lemmas for C16, asynchronous logger: the invariant of the interleaving model
(`MgModel/C16/Async.lean`) and its preservation by every step of every thread. -/
namespace MgProof.C16
open MgModel.C16 MgModel.Conc

/-- the messages in the channel (the sentinel is not a message) -/
def qmsgs (q : List (Option QMsg)) : List QMsg := q.filterMap id

/-- allocations held by the writer thread (in units of one message = struct + payload) -/
def heldCnt : WPc → Nat
  | .holding _ => 1
  | .wrote _ => 1
  | _ => 0

/-- the message the writer has taken from the channel but not yet handed to the handlers -/
def heldList : WPc → List QMsg
  | .holding q => [q]
  | _ => []

/-- number of producers `< n` that hold a message (between allocation and hand-over / release) -/
def pcount (ppc : Nat → PPc) : Nat → Nat
  | 0 => 0
  | n + 1 => pcount ppc n + (if isIdle (ppc n) then 0 else 1)

/-- the handlers after the writer has processed `w`, as the specification has them -/
def foldHandlers (hs0 : List Handler) (w : List QMsg) : List Handler :=
  w.foldl (fun hs q => stepHandlers q.msg hs) hs0

theorem pcount_upd (f : Nat → PPc) (i : Nat) (a : PPc) (n : Nat) (h : i < n) :
    pcount (upd f i a) n + (if isIdle (f i) then 0 else 1) = pcount f n + (if isIdle a then 0 else 1) := by
  induction n with
  | zero => omega
  | succ n ih =>
    simp only [pcount]
    by_cases hi : i = n
    · subst hi
      have hlt : ∀ m, m ≤ i → pcount (upd f i a) m = pcount f m := by
        intro m hm
        induction m with
        | zero => rfl
        | succ m ihm =>
          simp only [pcount]
          have : m ≠ i := by omega
          rw [ihm (by omega), upd_other _ _ _ _ this]
      rw [hlt i (Nat.le_refl _), upd_same]
      omega
    · have hne : n ≠ i := fun h => hi h.symm
      have := ih (by omega)
      rw [upd_other _ _ _ _ hne]
      omega

theorem pcount_zero_of_idle (f : Nat → PPc) (n : Nat) (h : ∀ i < n, isIdle (f i) = true) :
    pcount f n = 0 := by
  induction n with
  | zero => rfl
  | succ n ih =>
    simp only [pcount]
    rw [ih (fun i hi => h i (by omega)), h n (by omega)]
    rfl

theorem producersDone_iff (s : AState) :
    producersDone s = true ↔ ∀ i < s.n, s.prog i = [] ∧ isIdle (s.ppc i) = true := by
  unfold producersDone
  simp [List.all_eq_true, List.mem_range, List.isEmpty_iff]

theorem qmsgs_append (a b : List (Option QMsg)) : qmsgs (a ++ b) = qmsgs a ++ qmsgs b := by
  simp [qmsgs, List.filterMap_append]

theorem foldHandlers_append (hs0 : List Handler) (w : List QMsg) (q : QMsg) :
    foldHandlers hs0 (w ++ [q]) = stepHandlers q.msg (foldHandlers hs0 w) := by
  simp [foldHandlers, List.foldl_append]

/-- the invariant of the fixed asynchronous logger; `hs0` = the handlers at initialisation -/
structure AInv (hs0 : List Handler) (s : AState) : Prop where
  fixed   : s.v = .fixed
  nofault : s.fault = none
  nodbl   : s.dblFree = false
  live    : s.live = 2 * ((qmsgs s.queue).length + pcount s.ppc s.n + heldCnt s.wpc)
  fifo    : s.accepted = s.written ++ heldList s.wpc ++ qmsgs s.queue
  hand    : s.lg.handlers = foldHandlers hs0 s.written
  bound   : s.queue.length ≤ s.slots
  ph0     : s.dpc = .notCalled ∨ s.dpc = .sending → (∀ x ∈ s.queue, x ≠ none) ∧ s.wpc ≠ .exited
  ph1     : s.dpc = .joining →
              (s.wpc ≠ .exited ∧ ∃ ms : List QMsg, s.queue = ms.map some ++ [none]) ∨
              (s.wpc = .exited ∧ s.queue = [])
  ph2     : s.dpc = .done → s.wpc = .exited ∧ s.queue = []
  pdone   : s.dpc ≠ .notCalled → producersDone s = true

theorem ainv_init (lg : Logger) (slots n : Nat) (prog : Nat → List (Env × Call)) :
    AInv lg.handlers (ainit .fixed lg slots n prog) := by
  refine ⟨rfl, rfl, rfl, ?_, rfl, rfl, Nat.zero_le _, ?_, ?_, ?_, ?_⟩
  · simp only [ainit, qmsgs, heldCnt, List.filterMap_nil, List.length_nil]
    rw [pcount_zero_of_idle _ _ (fun _ _ => rfl)]
  · intro _; exact ⟨by simp [ainit], by simp [ainit]⟩
  · intro h; simp [ainit] at h
  · intro h; simp [ainit] at h
  · intro h; simp [ainit] at h

/-! ### preservation, thread by thread -/

theorem release_live (s : AState) (h : 2 ≤ s.live) :
    (release s) = { s with live := s.live - 2 } := by
  unfold release
  rw [if_neg (by omega)]

theorem writer_preserves (hs0 : List Handler) (s s' : AState) (inv : AInv hs0 s)
    (h : writerStep s = some s') : AInv hs0 s' := by
  obtain ⟨fixed, nofault, nodbl, live, fifo, hand, bound, ph0, ph1, ph2, pdone⟩ := inv
  unfold writerStep at h
  split at h
  · -- reading
    rename_i hw
    split at h
    · simp at h
    · rename_i q rest hq
      injection h with h; subst h
      refine ⟨fixed, nofault, nodbl, ?_, ?_, hand, ?_, ?_, ?_, ?_, ?_⟩
      · simp only [hq, hw, qmsgs, heldCnt, List.filterMap_cons, id, List.length_cons] at live ⊢
        omega
      · simp only [hq, hw, qmsgs, heldList, List.filterMap_cons, id, List.append_nil] at fifo ⊢
        simpa using fifo
      · simp only [hq, List.length_cons] at bound ⊢; omega
      · intro hd
        have := ph0 hd
        refine ⟨fun x hx => this.1 x (by rw [hq]; exact List.mem_cons_of_mem _ hx), by simp⟩
      · intro hd
        rcases ph1 hd with ⟨_, ms, hms⟩ | ⟨he, _⟩
        · left
          refine ⟨by simp, ?_⟩
          rw [hq] at hms
          cases ms with
          | nil => simp at hms
          | cons m ms => exact ⟨ms, by simpa using (List.cons.inj hms).2⟩
        · rw [hw] at he; cases he
      · intro hd; have := (ph2 hd).1; rw [hw] at this; cases this
      · intro hd; have := pdone hd; rw [producersDone_iff] at this ⊢; exact this
    · rename_i rest hq
      injection h with h; subst h
      have hjoin : s.dpc = .joining := by
        cases hd : s.dpc with
        | notCalled => exact absurd rfl ((ph0 (Or.inl hd)).1 none (by rw [hq]; simp))
        | sending => exact absurd rfl ((ph0 (Or.inr hd)).1 none (by rw [hq]; simp))
        | joining => rfl
        | done => have := (ph2 hd).2; rw [hq] at this; cases this
      have hrest : rest = [] := by
        rcases ph1 hjoin with ⟨_, ms, hms⟩ | ⟨he, _⟩
        · rw [hq] at hms
          cases ms with
          | nil => simpa using hms
          | cons m ms => simp at hms
        · rw [hw] at he; cases he
      subst hrest
      refine ⟨fixed, nofault, nodbl, ?_, ?_, hand, ?_, ?_, ?_, ?_, ?_⟩
      · simp only [hq, hw, qmsgs, heldCnt, List.filterMap_cons, id, List.filterMap_nil] at live ⊢
        omega
      · simp only [hq, hw, qmsgs, heldList, List.filterMap_cons, id] at fifo ⊢
        simpa using fifo
      · simp
      · intro hd; rcases hd with hd | hd <;> rw [hjoin] at hd <;> cases hd
      · intro _; right; exact ⟨rfl, rfl⟩
      · intro hd; rw [hjoin] at hd; cases hd
      · intro hd; have := pdone hd; rw [producersDone_iff] at this ⊢; exact this
  · -- holding q
    rename_i q hw
    split at h
    · simp at h
    · rw [fixed, writeAll_fixed] at h
      simp only at h
      injection h with h; subst h
      refine ⟨rfl, nofault, nodbl, ?_, ?_, ?_, bound, ?_, ?_, ?_, ?_⟩
      · simp only [hw, heldCnt] at live ⊢; exact live
      · simp only [hw, heldList] at fifo ⊢; simpa using fifo
      · show stepHandlers q.msg s.lg.handlers = _
        rw [foldHandlers_append, hand]
      · intro hd; exact ⟨(ph0 hd).1, by simp⟩
      · intro hd
        rcases ph1 hd with ⟨_, hms⟩ | ⟨he, _⟩
        · left; exact ⟨by simp, hms⟩
        · rw [hw] at he; cases he
      · intro hd; have := (ph2 hd).1; rw [hw] at this; cases this
      · intro hd; have := pdone hd; rw [producersDone_iff] at this ⊢; exact this
  · -- wrote q
    rename_i q hw
    injection h with h; subst h
    have h2 : 2 ≤ s.live := by rw [live, hw]; simp only [heldCnt]; omega
    rw [release_live s h2]
    refine ⟨fixed, nofault, nodbl, ?_, ?_, hand, bound, ?_, ?_, ?_, ?_⟩
    · simp only [hw, heldCnt] at live ⊢; omega
    · simp only [hw, heldList] at fifo ⊢; exact fifo
    · intro hd; exact ⟨(ph0 hd).1, by simp⟩
    · intro hd
      rcases ph1 hd with ⟨_, hms⟩ | ⟨he, _⟩
      · left; exact ⟨by simp, hms⟩
      · rw [hw] at he; cases he
    · intro hd; have := (ph2 hd).1; rw [hw] at this; cases this
    · intro hd; have := pdone hd; rw [producersDone_iff] at this ⊢; exact this
  · simp at h

theorem map_some_filterMap (l : List (Option QMsg)) (hl : ∀ x ∈ l, x ≠ none) :
    l = (l.filterMap id).map some := by
  induction l with
  | nil => rfl
  | cons a t ih =>
    cases a with
    | none => exact absurd rfl (hl none (by simp))
    | some a =>
      simp only [List.filterMap_cons, id, List.map_cons]
      rw [← ih (fun x hx => hl x (List.mem_cons_of_mem _ hx))]

theorem destroy_preserves (hs0 : List Handler) (s s' : AState) (inv : AInv hs0 s)
    (h : destroyStep s = some s') : AInv hs0 s' := by
  obtain ⟨fixed, nofault, nodbl, live, fifo, hand, bound, ph0, ph1, ph2, pdone⟩ := inv
  unfold destroyStep at h
  split at h
  · rename_i hd
    split at h
    · rename_i hp
      injection h with h; subst h
      refine ⟨fixed, nofault, nodbl, live, fifo, hand, bound, fun _ => ph0 (Or.inl hd), ?_, ?_, ?_⟩
      · intro h; cases h
      · intro h; cases h
      · intro _; rw [producersDone_iff] at hp ⊢; exact hp
    · simp at h
  · rename_i hd
    have hp := pdone (by rw [hd]; simp)
    split at h
    · rename_i hlt
      injection h with h; subst h
      have hq := (ph0 (Or.inr hd)).1
      refine ⟨fixed, nofault, nodbl, ?_, ?_, hand, ?_, ?_, ?_, ?_, ?_⟩
      · simp only [qmsgs_append] at live ⊢; simpa [qmsgs] using live
      · simp only [qmsgs_append] at fifo ⊢; simpa [qmsgs] using fifo
      · simp only [List.length_append, List.length_cons, List.length_nil]; omega
      · intro h; rcases h with h | h <;> cases h
      · intro _
        left
        refine ⟨(ph0 (Or.inr hd)).2, s.queue.filterMap id, ?_⟩
        show s.queue ++ [none] = _
        rw [← map_some_filterMap _ hq]
      · intro h; cases h
      · intro _; rw [producersDone_iff] at hp ⊢; exact hp
    · rw [fixed] at h
      simp only at h
      injection h with h; subst h
      exact ⟨fixed, nofault, nodbl, live, fifo, hand, bound, ph0, ph1, ph2, pdone⟩
  · rename_i hd
    split at h
    · rename_i hw
      injection h with h; subst h
      refine ⟨fixed, nofault, nodbl, live, fifo, hand, bound, ?_, ?_, ?_, ?_⟩
      · intro h; rcases h with h | h <;> cases h
      · intro h; cases h
      · intro _
        rcases ph1 hd with ⟨hne, _⟩ | ⟨_, hq⟩
        · exact absurd hw hne
        · exact ⟨hw, hq⟩
      · intro _
        have hp := pdone (by rw [hd]; simp); rw [producersDone_iff] at hp ⊢; exact hp
    · simp at h
  · simp at h

theorem pcount_pos (f : Nat → PPc) (n i : Nat) (hi : i < n) (h : isIdle (f i) = false) :
    1 ≤ pcount f n := by
  induction n with
  | zero => omega
  | succ n ih =>
    simp only [pcount]
    by_cases hin : i = n
    · subst hin; rw [h]; simp
    · have := ih (by omega); omega

theorem producer_preserves (hs0 : List Handler) (s s' : AState) (i : Nat) (hi : i < s.n)
    (inv : AInv hs0 s) (h : producerStep s i = some s') : AInv hs0 s' := by
  obtain ⟨fixed, nofault, nodbl, live, fifo, hand, bound, ph0, ph1, ph2, pdone⟩ := inv
  -- a producer that can move means destroy has not been called
  have hnc : (s.prog i ≠ [] ∨ isIdle (s.ppc i) = false) → s.dpc = .notCalled := by
    intro hmove
    cases hd : s.dpc with
    | notCalled => rfl
    | _ =>
      have := pdone (by rw [hd]; simp)
      rw [producersDone_iff] at this
      have := this i hi
      rcases hmove with hm | hm
      · exact absurd this.1 hm
      · rw [this.2] at hm; cases hm
  unfold producerStep at h
  split at h
  · -- idle
    rename_i hp
    split at h
    · simp at h
    · rename_i e c rest hprog
      have hd := hnc (Or.inl (by rw [hprog]; simp))
      have hpc := pcount_upd s.ppc i
      split at h
      · injection h with h; subst h
        refine ⟨fixed, nofault, nodbl, live, fifo, hand, bound, ph0, ph1, ph2, ?_⟩
        intro hne; exact absurd hd hne
      · injection h with h; subst h
        refine ⟨fixed, nofault, nodbl, ?_, fifo, hand, bound, ph0, ph1, ph2, ?_⟩
        · have := hpc (.built { msg := mkMsg s.lg e c, src := i, seq := s.cnt i }) s.n hi
          rw [hp] at this
          simp [isIdle] at this
          show s.live + 2 = 2 * ((qmsgs s.queue).length + pcount (upd s.ppc i _) s.n + heldCnt s.wpc)
          omega
        · intro hne; exact absurd hd hne
  · -- built q
    rename_i q hp
    have hd := hnc (Or.inr (by rw [hp]; rfl))
    have hpos := pcount_pos s.ppc s.n i hi (by rw [hp]; rfl)
    split at h
    · rename_i hlt
      injection h with h; subst h
      have hpc := pcount_upd s.ppc i .idle s.n hi
      rw [hp] at hpc
      simp [isIdle] at hpc
      refine ⟨fixed, nofault, nodbl, ?_, ?_, hand, ?_, ?_, ?_, ?_, ?_⟩
      · show s.live = 2 * ((qmsgs (s.queue ++ [some q])).length + pcount (upd s.ppc i .idle) s.n + heldCnt s.wpc)
        rw [qmsgs_append]
        simp only [qmsgs, List.filterMap_cons, id, List.filterMap_nil, List.length_append,
          List.length_cons, List.length_nil] at live ⊢
        omega
      · show s.accepted ++ [q] = s.written ++ heldList s.wpc ++ qmsgs (s.queue ++ [some q])
        rw [qmsgs_append, fifo]
        simp [qmsgs]
      · show (s.queue ++ [some q]).length ≤ s.slots
        simp only [List.length_append, List.length_cons, List.length_nil]; omega
      · intro _
        refine ⟨?_, (ph0 (Or.inl hd)).2⟩
        intro x hx
        rcases List.mem_append.mp hx with hx | hx
        · exact (ph0 (Or.inl hd)).1 x hx
        · simp at hx; rw [hx]; simp
      · intro h; exact absurd (hd.symm.trans h) (by simp)
      · intro h; exact absurd (hd.symm.trans h) (by simp)
      · intro hne; exact absurd hd hne
    · rw [fixed] at h
      simp only at h
      injection h with h; subst h
      have hpc := pcount_upd s.ppc i (.full q) s.n hi
      rw [hp] at hpc
      simp [isIdle] at hpc
      refine ⟨rfl, nofault, nodbl, ?_, fifo, hand, bound, ph0, ph1, ph2, ?_⟩
      · show s.live = 2 * ((qmsgs s.queue).length + pcount (upd s.ppc i (.full q)) s.n + heldCnt s.wpc)
        omega
      · intro hne; exact absurd hd hne
  · -- full q
    rename_i q hp
    have hd := hnc (Or.inr (by rw [hp]; rfl))
    have hpos := pcount_pos s.ppc s.n i hi (by rw [hp]; rfl)
    have h2 : 2 ≤ s.live := by rw [live]; omega
    rw [release_live s h2] at h
    injection h with h; subst h
    have hpc := pcount_upd s.ppc i .idle s.n hi
    rw [hp] at hpc
    simp [isIdle] at hpc
    refine ⟨fixed, nofault, nodbl, ?_, fifo, hand, bound, ph0, ph1, ph2, ?_⟩
    · show s.live - 2 = 2 * ((qmsgs s.queue).length + pcount (upd s.ppc i .idle) s.n + heldCnt s.wpc)
      omega
    · intro hne; exact absurd hd hne

/-- every step of every thread (and the harness's gate) preserves the invariant -/
theorem astep_preserves (hs0 : List Handler) (s s' : AState) (t : Tok) (ev : List String)
    (inv : AInv hs0 s) (h : astep s t = some (s', ev)) : AInv hs0 s' := by
  unfold astep at h
  split at h
  · cases hw : writerStep s with
    | none => simp [hw] at h
    | some s1 =>
      simp only [hw, Option.map_some, Option.some.injEq, Prod.mk.injEq] at h
      rw [← h.1]; exact writer_preserves hs0 s s1 inv hw
  · split at h
    · split at h
      · injection h with h
        injection h with h1 _
        subst h1
        obtain ⟨fixed, nofault, nodbl, live, fifo, hand, bound, ph0, ph1, ph2, pdone⟩ := inv
        exact ⟨fixed, nofault, nodbl, live, fifo, hand, bound, ph0, ph1, ph2,
          fun hne => by have := pdone hne; rw [producersDone_iff] at this ⊢; exact this⟩
      · cases hw : destroyStep s with
        | none => simp [hw] at h
        | some s1 =>
          simp only [hw, Option.map_some, Option.some.injEq, Prod.mk.injEq] at h
          rw [← h.1]; exact destroy_preserves hs0 s s1 inv hw
    · split at h
      · rename_i hi
        cases hw : producerStep s (t.tid - 2) with
        | none => simp [hw] at h
        | some s1 =>
          simp only [hw, Option.map_some, Option.some.injEq, Prod.mk.injEq] at h
          rw [← h.1]; exact producer_preserves hs0 s s1 _ hi inv hw
      · simp at h

/-- the invariant holds in every state the fixed logger can reach, under every schedule -/
theorem ainv_reach (lg : Logger) (slots n : Nat) (prog : Nat → List (Env × Call)) (s : AState)
    (hr : Reach astep (ainit .fixed lg slots n prog) s) : AInv lg.handlers s :=
  Reach.inv (AInv lg.handlers) (ainv_init lg slots n prog)
    (fun s t s' ev inv h => astep_preserves lg.handlers s s' t ev inv h) s hr

/-- the specification's handlers are what the synchronous dispatch loop computes -/
theorem replay_fixed (hs0 : List Handler) (w : List QMsg) :
    replay .fixed hs0 (w.map (·.msg)) = .ok (foldHandlers hs0 w) := by
  induction w generalizing hs0 with
  | nil => rfl
  | cons q w ih =>
    simp only [List.map_cons, replay, writeAll_fixed]
    exact ih (stepHandlers q.msg hs0)

/-! ### per-producer order -/

/-- the message a producer holds between allocation and hand-over / release -/
def busyMsg : PPc → Option QMsg
  | .idle => none
  | .built q => some q
  | .full q => some q

/-- ordering invariant of the asynchronous logger (both variants): sequence numbers of one
producer enter the channel in increasing order -/
structure AOrd (s : AState) : Prop where
  busy : ∀ i q, busyMsg (s.ppc i) = some q → q.src = i ∧ q.seq + 1 = s.cnt i
  hist : ∀ q ∈ s.accepted ++ s.dropped,
           q.seq < s.cnt q.src ∧ ∀ q0, busyMsg (s.ppc q.src) = some q0 → q.seq < q0.seq
  ordA : s.accepted.Pairwise (fun a b => a.src = b.src → a.seq < b.seq)

theorem aord_init (v : Variant) (lg : Logger) (slots n : Nat) (prog : Nat → List (Env × Call)) :
    AOrd (ainit v lg slots n prog) :=
  ⟨fun i q h => by simp [ainit, busyMsg] at h, fun q h => by simp [ainit] at h, by simp [ainit]⟩

theorem producer_aord (s s' : AState) (i : Nat) (inv : AOrd s) (h : producerStep s i = some s') :
    AOrd s' := by
  obtain ⟨busy, hist, ordA⟩ := inv
  unfold producerStep at h
  split at h
  · rename_i hp
    split at h
    · simp at h
    · split at h <;> (injection h with h; subst h)
      · refine ⟨?_, ?_, ordA⟩ <;> (simp only [upd]) <;> grind [busyMsg]
      · refine ⟨?_, ?_, ordA⟩ <;> (simp only [upd]) <;> grind [busyMsg]
  · rename_i q hp
    have hb := busy i q (by rw [hp]; rfl)
    split at h
    · injection h with h; subst h
      refine ⟨?_, ?_, ?_⟩
      · simp only [upd]; grind [busyMsg]
      · simp only [upd]; grind [busyMsg]
      · show (s.accepted ++ [q]).Pairwise _
        rw [List.pairwise_append]
        refine ⟨ordA, by simp, ?_⟩
        intro a ha b hb' hsrc
        simp at hb'; subst hb'
        have := (hist a (List.mem_append_left _ ha)).2 b (by rw [hsrc, hb.1, hp]; rfl)
        exact this
    · split at h <;> (injection h with h; subst h)
      · refine ⟨?_, ?_, ordA⟩ <;> (simp only [upd]) <;> grind [busyMsg]
      · refine ⟨?_, ?_, ordA⟩ <;> (simp only [upd]) <;> grind [busyMsg]
  · rename_i q hp
    have hb := busy i q (by rw [hp]; rfl)
    injection h with h; subst h
    refine ⟨?_, ?_, ?_⟩
    · simp only [upd, release]; split <;> grind [busyMsg]
    · simp only [upd, release]; split <;> grind [busyMsg]
    · simp only [release]; split <;> exact ordA

theorem aord_frame (s s' : AState) (inv : AOrd s) (h1 : s'.ppc = s.ppc) (h2 : s'.cnt = s.cnt)
    (h3 : s'.accepted = s.accepted) (h4 : s'.dropped = s.dropped) : AOrd s' := by
  obtain ⟨busy, hist, ordA⟩ := inv
  exact ⟨by rw [h1, h2]; exact busy, by rw [h1, h2, h3, h4]; exact hist, by rw [h3]; exact ordA⟩

theorem release_frame (s : AState) :
    (release s).ppc = s.ppc ∧ (release s).cnt = s.cnt ∧ (release s).accepted = s.accepted ∧
    (release s).dropped = s.dropped := by
  unfold release; split <;> exact ⟨rfl, rfl, rfl, rfl⟩

theorem writer_frame (s s' : AState) (h : writerStep s = some s') :
    s'.ppc = s.ppc ∧ s'.cnt = s.cnt ∧ s'.accepted = s.accepted ∧ s'.dropped = s.dropped := by
  unfold writerStep at h
  have hr := release_frame s
  repeat' split at h
  all_goals first
    | (simp at h; done)
    | (injection h with h; subst h; first | exact ⟨rfl, rfl, rfl, rfl⟩ | exact hr)

theorem destroy_frame (s s' : AState) (h : destroyStep s = some s') :
    s'.ppc = s.ppc ∧ s'.cnt = s.cnt ∧ s'.accepted = s.accepted ∧ s'.dropped = s.dropped := by
  unfold destroyStep at h
  repeat' split at h
  all_goals first
    | (simp at h; done)
    | (injection h with h; subst h; exact ⟨rfl, rfl, rfl, rfl⟩)

theorem astep_aord (s s' : AState) (t : Tok) (ev : List String) (inv : AOrd s)
    (h : astep s t = some (s', ev)) : AOrd s' := by
  unfold astep at h
  split at h
  · cases hw : writerStep s with
    | none => simp [hw] at h
    | some s1 =>
      simp only [hw, Option.map_some, Option.some.injEq, Prod.mk.injEq] at h
      obtain ⟨a, b, c, d⟩ := writer_frame s s1 hw
      rw [← h.1]; exact aord_frame s s1 inv a b c d
  · split at h
    · split at h
      · injection h with h; injection h with h1 _; subst h1
        exact aord_frame s _ inv rfl rfl rfl rfl
      · cases hw : destroyStep s with
        | none => simp [hw] at h
        | some s1 =>
          simp only [hw, Option.map_some, Option.some.injEq, Prod.mk.injEq] at h
          obtain ⟨a, b, c, d⟩ := destroy_frame s s1 hw
          rw [← h.1]; exact aord_frame s s1 inv a b c d
    · split at h
      · cases hw : producerStep s (t.tid - 2) with
        | none => simp [hw] at h
        | some s1 =>
          simp only [hw, Option.map_some, Option.some.injEq, Prod.mk.injEq] at h
          rw [← h.1]; exact producer_aord s s1 _ inv hw
      · simp at h

theorem aord_reach (v : Variant) (lg : Logger) (slots n : Nat) (prog : Nat → List (Env × Call))
    (s : AState) (hr : Reach astep (ainit v lg slots n prog) s) : AOrd s :=
  Reach.inv AOrd (aord_init v lg slots n prog) (fun s t s' ev inv h => astep_aord s s' t ev inv h) s hr

/-! ### completeness: every call is accounted for -/

theorem mkMsg_cfg (lg lg0 : Logger) (h1 : lg.wantTs = lg0.wantTs) (h2 : lg.wantTid = lg0.wantTid)
    (e : Env) (c : Call) : mkMsg lg e c = mkMsg lg0 e c := by
  unfold mkMsg; rw [h1, h2]

/-- completeness invariant: every call a producer has started is accounted for -/
structure ACpl (lg0 : Logger) (prog0 : Nat → List (Env × Call)) (s : AState) : Prop where
  cfg   : s.lg.wantTs = lg0.wantTs ∧ s.lg.wantTid = lg0.wantTid ∧ s.lg.lowest = lg0.lowest
  rest  : ∀ i, (prog0 i).drop (s.cnt i) = s.prog i ∧ s.cnt i ≤ (prog0 i).length
  src   : ∀ q ∈ s.accepted ++ s.dropped, ∃ e c, (prog0 q.src)[q.seq]? = some (e, c) ∧ q.msg = mkMsg lg0 e c
  busyK : ∀ i q, busyMsg (s.ppc i) = some q →
            q.src = i ∧ ∃ e c, (prog0 i)[q.seq]? = some (e, c) ∧ q.msg = mkMsg lg0 e c
  cpl   : ∀ i k e c, k < s.cnt i → (prog0 i)[k]? = some (e, c) → ¬ lg0.lowest > c.level →
            (∃ q ∈ s.accepted ++ s.dropped, q.src = i ∧ q.seq = k) ∨
            (∃ q, busyMsg (s.ppc i) = some q ∧ q.seq = k)

theorem acpl_init (v : Variant) (lg : Logger) (slots n : Nat) (prog : Nat → List (Env × Call)) :
    ACpl lg prog (ainit v lg slots n prog) :=
  ⟨⟨rfl, rfl, rfl⟩, fun i => by simp [ainit], fun q h => by simp [ainit] at h,
   fun i q h => by simp [ainit, busyMsg] at h, fun i k e c h => by simp [ainit] at h⟩

theorem producer_acpl (lg0 : Logger) (prog0 : Nat → List (Env × Call)) (s s' : AState) (i : Nat)
    (inv : ACpl lg0 prog0 s) (h : producerStep s i = some s') : ACpl lg0 prog0 s' := by
  obtain ⟨cfg, rest, src, busyK, cpl⟩ := inv
  unfold producerStep at h
  split at h
  · rename_i hp
    split at h
    · simp at h
    · rename_i e c tl hprog
      have hr := rest i
      rw [hprog] at hr
      obtain ⟨hget, hdrop, hlt⟩ := drop_cons_facts _ _ _ _ hr.1
      have hmk := mkMsg_cfg s.lg lg0 cfg.1 cfg.2.1 e c
      split at h <;> (injection h with h; subst h)
      · rename_i hlow
        rw [cfg.2.2] at hlow
        refine ⟨cfg, ?_, src, ?_, ?_⟩ <;> (simp only [upd]) <;> grind [busyMsg]
      · refine ⟨cfg, ?_, src, ?_, ?_⟩
        · simp only [upd]; grind
        · intro i1 q hq
          simp only [upd] at hq
          by_cases hi : i1 = i
          · subst hi
            simp only [if_true, busyMsg, Option.some.injEq] at hq
            subst hq
            exact ⟨rfl, e, c, hget, hmk⟩
          · simp only [hi, if_false] at hq; exact busyK i1 q hq
        · intro i1 k e1 c1 hk hg hl
          simp only [upd] at hk ⊢
          by_cases hi : i1 = i
          · subst hi
            simp only [if_true] at hk ⊢
            by_cases hkc : k < s.cnt i1
            · rcases cpl i1 k e1 c1 hkc hg hl with h | ⟨q, hq, _⟩
              · left; exact h
              · rw [hp] at hq; simp [busyMsg] at hq
            · right; exact ⟨_, rfl, by show s.cnt i1 = k; omega⟩
          · simp only [hi, if_false] at hk ⊢; exact cpl i1 k e1 c1 hk hg hl
  · rename_i q hp
    have hb := busyK i q (by rw [hp]; rfl)
    -- the message leaves the producer's hands and joins `accepted` or `dropped`
    have move : ∀ (acc drp : List QMsg), (∀ x, x ∈ s.accepted ++ s.dropped ∨ x = q ↔ x ∈ acc ++ drp) →
        (∀ q' ∈ acc ++ drp, ∃ e c, (prog0 q'.src)[q'.seq]? = some (e, c) ∧ q'.msg = mkMsg lg0 e c) ∧
        (∀ i1 k e c, k < s.cnt i1 → (prog0 i1)[k]? = some (e, c) → ¬ lg0.lowest > c.level →
          (∃ q' ∈ acc ++ drp, q'.src = i1 ∧ q'.seq = k) ∨
          (∃ q', busyMsg (upd s.ppc i .idle i1) = some q' ∧ q'.seq = k)) := by
      intro acc drp hmem
      constructor
      · intro q' hq'
        rcases (hmem q').mpr hq' with h | h
        · exact src q' h
        · subst h; rw [hb.1]; exact hb.2
      · intro i1 k e c hk hg hl
        rcases cpl i1 k e c hk hg hl with ⟨q', hq', hs⟩ | ⟨q', hq', hs⟩
        · left; exact ⟨q', (hmem q').mp (Or.inl hq'), hs⟩
        · by_cases hi : i1 = i
          · subst hi
            rw [hp] at hq'
            simp only [busyMsg, Option.some.injEq] at hq'
            subst hq'
            left; exact ⟨q, (hmem q).mp (Or.inr rfl), hb.1, hs⟩
          · right; exact ⟨q', by simp only [upd, hi, if_false]; exact hq', hs⟩
    have bk : ∀ i1 q', busyMsg (upd s.ppc i .idle i1) = some q' →
        q'.src = i1 ∧ ∃ e c, (prog0 i1)[q'.seq]? = some (e, c) ∧ q'.msg = mkMsg lg0 e c := by
      intro i1 q' hq'
      simp only [upd] at hq'
      by_cases hi : i1 = i
      · simp [hi, busyMsg] at hq'
      · simp only [hi, if_false] at hq'; exact busyK i1 q' hq'
    split at h
    · injection h with h; subst h
      obtain ⟨m1, m2⟩ := move (s.accepted ++ [q]) s.dropped (by intro x; simp only [List.mem_append, List.mem_singleton]; grind)
      exact ⟨cfg, rest, m1, bk, m2⟩
    · split at h <;> (injection h with h; subst h)
      · refine ⟨cfg, rest, src, ?_, ?_⟩
        · intro i1 q' hq'
          simp only [upd] at hq'
          by_cases hi : i1 = i
          · subst hi
            simp only [if_true, busyMsg, Option.some.injEq] at hq'
            subst hq'; exact hb
          · simp only [hi, if_false] at hq'; exact busyK i1 q' hq'
        · intro i1 k e c hk hg hl
          rcases cpl i1 k e c hk hg hl with h | ⟨q', hq', hs⟩
          · left; exact h
          · right
            by_cases hi : i1 = i
            · subst hi
              rw [hp] at hq'
              exact ⟨q', by simp only [upd, if_true]; exact hq', hs⟩
            · exact ⟨q', by simp only [upd, hi, if_false]; exact hq', hs⟩
      · obtain ⟨m1, m2⟩ := move s.accepted (s.dropped ++ [q]) (by intro x; simp only [List.mem_append, List.mem_singleton]; grind)
        exact ⟨cfg, rest, m1, bk, m2⟩
  · rename_i q hp
    have hb := busyK i q (by rw [hp]; rfl)
    have move : ∀ (acc drp : List QMsg), (∀ x, x ∈ s.accepted ++ s.dropped ∨ x = q ↔ x ∈ acc ++ drp) →
        (∀ q' ∈ acc ++ drp, ∃ e c, (prog0 q'.src)[q'.seq]? = some (e, c) ∧ q'.msg = mkMsg lg0 e c) ∧
        (∀ i1 k e c, k < s.cnt i1 → (prog0 i1)[k]? = some (e, c) → ¬ lg0.lowest > c.level →
          (∃ q' ∈ acc ++ drp, q'.src = i1 ∧ q'.seq = k) ∨
          (∃ q', busyMsg (upd s.ppc i .idle i1) = some q' ∧ q'.seq = k)) := by
      intro acc drp hmem
      constructor
      · intro q' hq'
        rcases (hmem q').mpr hq' with h | h
        · exact src q' h
        · subst h; rw [hb.1]; exact hb.2
      · intro i1 k e c hk hg hl
        rcases cpl i1 k e c hk hg hl with ⟨q', hq', hs⟩ | ⟨q', hq', hs⟩
        · left; exact ⟨q', (hmem q').mp (Or.inl hq'), hs⟩
        · by_cases hi : i1 = i
          · subst hi
            rw [hp] at hq'
            simp only [busyMsg, Option.some.injEq] at hq'
            subst hq'
            left; exact ⟨q, (hmem q).mp (Or.inr rfl), hb.1, hs⟩
          · right; exact ⟨q', by simp only [upd, hi, if_false]; exact hq', hs⟩
    have bk : ∀ i1 q', busyMsg (upd s.ppc i .idle i1) = some q' →
        q'.src = i1 ∧ ∃ e c, (prog0 i1)[q'.seq]? = some (e, c) ∧ q'.msg = mkMsg lg0 e c := by
      intro i1 q' hq'
      simp only [upd] at hq'
      by_cases hi : i1 = i
      · simp [hi, busyMsg] at hq'
      · simp only [hi, if_false] at hq'; exact busyK i1 q' hq'
    injection h with h; subst h
    obtain ⟨m1, m2⟩ := move s.accepted (s.dropped ++ [q]) (by intro x; simp only [List.mem_append, List.mem_singleton]; grind)
    have hrel : (release s).lg = s.lg ∧ (release s).prog = s.prog := by
      unfold release; split <;> exact ⟨rfl, rfl⟩
    obtain ⟨f1, f2, f3, f4⟩ := release_frame s
    refine ⟨?_, ?_, ?_, ?_, ?_⟩ <;> dsimp only
    · rw [hrel.1]; exact cfg
    · rw [hrel.2, f2]; exact rest
    · rw [f3]; exact m1
    · exact bk
    · rw [f2, f3]; exact m2

theorem acpl_frame (lg0 : Logger) (prog0 : Nat → List (Env × Call)) (s s' : AState)
    (inv : ACpl lg0 prog0 s) (h1 : s'.ppc = s.ppc) (h2 : s'.cnt = s.cnt)
    (h3 : s'.accepted = s.accepted) (h4 : s'.dropped = s.dropped) (h5 : s'.prog = s.prog)
    (h6 : s'.lg.wantTs = s.lg.wantTs ∧ s'.lg.wantTid = s.lg.wantTid ∧ s'.lg.lowest = s.lg.lowest) :
    ACpl lg0 prog0 s' := by
  obtain ⟨cfg, rest, src, busyK, cpl⟩ := inv
  refine ⟨by rw [h6.1, h6.2.1, h6.2.2]; exact cfg, by rw [h2, h5]; exact rest,
    by rw [h3, h4]; exact src, by rw [h1]; exact busyK, by rw [h1, h2, h3, h4]; exact cpl⟩

theorem writer_frame2 (s s' : AState) (h : writerStep s = some s') :
    s'.prog = s.prog ∧ s'.lg.wantTs = s.lg.wantTs ∧ s'.lg.wantTid = s.lg.wantTid ∧
    s'.lg.lowest = s.lg.lowest := by
  unfold writerStep at h
  have hr : (release s).prog = s.prog ∧ (release s).lg = s.lg := by
    unfold release; split <;> exact ⟨rfl, rfl⟩
  repeat' split at h
  all_goals first
    | (simp at h; done)
    | (injection h with h; subst h; first | exact ⟨rfl, rfl, rfl, rfl⟩ | exact ⟨hr.1, by rw [hr.2], by rw [hr.2], by rw [hr.2]⟩)

theorem destroy_frame2 (s s' : AState) (h : destroyStep s = some s') :
    s'.prog = s.prog ∧ s'.lg.wantTs = s.lg.wantTs ∧ s'.lg.wantTid = s.lg.wantTid ∧
    s'.lg.lowest = s.lg.lowest := by
  unfold destroyStep at h
  repeat' split at h
  all_goals first
    | (simp at h; done)
    | (injection h with h; subst h; exact ⟨rfl, rfl, rfl, rfl⟩)

theorem astep_acpl (lg0 : Logger) (prog0 : Nat → List (Env × Call)) (s s' : AState) (t : Tok)
    (ev : List String) (inv : ACpl lg0 prog0 s) (h : astep s t = some (s', ev)) : ACpl lg0 prog0 s' := by
  unfold astep at h
  split at h
  · cases hw : writerStep s with
    | none => simp [hw] at h
    | some s1 =>
      simp only [hw, Option.map_some, Option.some.injEq, Prod.mk.injEq] at h
      obtain ⟨a, b, c, d⟩ := writer_frame s s1 hw
      obtain ⟨e, f⟩ := writer_frame2 s s1 hw
      rw [← h.1]; exact acpl_frame lg0 prog0 s s1 inv a b c d e f
  · split at h
    · split at h
      · injection h with h; injection h with h1 _; subst h1
        exact acpl_frame lg0 prog0 s _ inv rfl rfl rfl rfl rfl ⟨rfl, rfl, rfl⟩
      · cases hw : destroyStep s with
        | none => simp [hw] at h
        | some s1 =>
          simp only [hw, Option.map_some, Option.some.injEq, Prod.mk.injEq] at h
          obtain ⟨a, b, c, d⟩ := destroy_frame s s1 hw
          obtain ⟨e, f⟩ := destroy_frame2 s s1 hw
          rw [← h.1]; exact acpl_frame lg0 prog0 s s1 inv a b c d e f
    · split at h
      · cases hw : producerStep s (t.tid - 2) with
        | none => simp [hw] at h
        | some s1 =>
          simp only [hw, Option.map_some, Option.some.injEq, Prod.mk.injEq] at h
          rw [← h.1]; exact producer_acpl lg0 prog0 s s1 _ inv hw
      · simp at h

theorem acpl_reach (v : Variant) (lg : Logger) (slots n : Nat) (prog : Nat → List (Env × Call))
    (s : AState) (hr : Reach astep (ainit v lg slots n prog) s) : ACpl lg prog s :=
  Reach.inv (ACpl lg prog) (acpl_init v lg slots n prog)
    (fun s t s' ev inv h => astep_acpl lg prog s s' t ev inv h) s hr


/-! ### progress of destroy -/

def dWeight : DPc → Nat
  | .notCalled => 3 | .sending => 2 | .joining => 1 | .done => 0

def wStage : WPc → Nat
  | .holding _ => 2 | .wrote _ => 1 | _ => 0

/-- work left until destroy returns -/
def destroyMeasure (s : AState) : Nat := 4 * dWeight s.dpc + 3 * s.queue.length + wStage s.wpc

/-- while destroy is in progress and the harness gate is open, some thread can take a step
that strictly decreases the measure -/
theorem destroy_progress_step (hs0 : List Handler) (s : AState) (inv : AInv hs0 s)
    (hd : s.dpc = .sending ∨ s.dpc = .joining) (hg : s.gate = true) (hslots : 1 ≤ s.slots) :
    ∃ t s', astep s t = some (s', []) ∧ destroyMeasure s' < destroyMeasure s := by
  have aw : ∀ s', writerStep s = some s' → astep s ⟨0, .none⟩ = some (s', []) := by
    intro s' h; simp [astep, h]
  have ad : ∀ s', destroyStep s = some s' → astep s ⟨1, .none⟩ = some (s', []) := by
    intro s' h; simp [astep, h]
  cases hw : s.wpc with
  | holding q =>
    refine ⟨⟨0, .none⟩, { s with lg := { s.lg with handlers := stepHandlers q.msg s.lg.handlers },
                                  written := s.written ++ [q], wpc := .wrote q }, aw _ ?_, ?_⟩
    · simp [writerStep, hw, hg, inv.fixed, writeAll_fixed]
    · simp [destroyMeasure, wStage, hw]
  | wrote q =>
    refine ⟨⟨0, .none⟩, { release s with wpc := .reading }, aw _ ?_, ?_⟩
    · simp [writerStep, hw]
    · simp only [destroyMeasure, wStage, hw]
      unfold release; split <;> simp
  | reading =>
    cases hq : s.queue with
    | cons x rest =>
      cases x with
      | some q =>
        refine ⟨⟨0, .none⟩, { s with queue := rest, wpc := .holding q }, aw _ ?_, ?_⟩
        · simp [writerStep, hw, hq]
        · simp [destroyMeasure, wStage, hw, hq]; omega
      | none =>
        refine ⟨⟨0, .none⟩, { s with queue := rest, wpc := .exited }, aw _ ?_, ?_⟩
        · simp [writerStep, hw, hq]
        · simp [destroyMeasure, wStage, hw, hq]
    | nil =>
      have hsend : s.dpc = .sending := by
        rcases hd with h | h
        · exact h
        · rcases inv.ph1 h with ⟨_, ms, hms⟩ | ⟨he, _⟩
          · rw [hq] at hms; simp at hms
          · rw [hw] at he; cases he
      refine ⟨⟨1, .none⟩, { s with queue := s.queue ++ [none], dpc := .joining }, ad _ ?_, ?_⟩
      · have : s.queue.length < s.slots := by rw [hq]; simp; omega
        simp [destroyStep, hsend, this]
      · simp [destroyMeasure, dWeight, hsend, hq, hw, wStage]
  | exited =>
    have hjoin : s.dpc = .joining := by
      rcases hd with h | h
      · exact absurd hw (inv.ph0 (Or.inr h)).2
      · exact h
    refine ⟨⟨1, .none⟩, { s with dpc := .done }, ad _ ?_, ?_⟩
    · simp [destroyStep, hjoin, hw]
    · simp [destroyMeasure, dWeight, hjoin]

/-- once destroy has been called no step of any thread increases the measure (the only
steps that leave it unchanged are destroy's retry on a full channel and the harness gate) -/
theorem destroy_measure_mono (hs0 : List Handler) (s s' : AState) (t : Tok) (ev : List String)
    (inv : AInv hs0 s) (hd : s.dpc ≠ .notCalled) (h : astep s t = some (s', ev)) :
    destroyMeasure s' ≤ destroyMeasure s := by
  have hp := (producersDone_iff s).mp (inv.pdone hd)
  unfold astep at h
  split at h
  · cases hw : writerStep s with
    | none => simp [hw] at h
    | some s1 =>
      simp only [hw, Option.map_some, Option.some.injEq, Prod.mk.injEq] at h
      rw [← h.1]
      unfold writerStep at hw
      split at hw
      · rename_i hwp
        split at hw
        · simp at hw
        · rename_i q rest hq
          injection hw with hw; subst hw
          simp [destroyMeasure, wStage, hwp, hq]; omega
        · rename_i rest hq
          injection hw with hw; subst hw
          simp [destroyMeasure, wStage, hwp, hq]; omega
      · rename_i q hwp
        split at hw
        · simp at hw
        · rw [inv.fixed, writeAll_fixed] at hw
          simp only at hw
          injection hw with hw; subst hw
          simp [destroyMeasure, wStage, hwp]
      · rename_i q hwp
        injection hw with hw; subst hw
        simp only [destroyMeasure, wStage, hwp]
        unfold release; split <;> simp
      · simp at hw
  · split at h
    · split at h
      · injection h with h; injection h with h1 _; subst h1
        exact Nat.le_refl _
      · cases hw : destroyStep s with
        | none => simp [hw] at h
        | some s1 =>
          simp only [hw, Option.map_some, Option.some.injEq, Prod.mk.injEq] at h
          rw [← h.1]
          unfold destroyStep at hw
          split at hw
          · rename_i hdd; exact absurd hdd hd
          · rename_i hdd
            split at hw
            · injection hw with hw; subst hw
              simp [destroyMeasure, dWeight, hdd]; omega
            · rw [inv.fixed] at hw
              simp only at hw
              injection hw with hw; subst hw
              exact Nat.le_refl _
          · rename_i hdd
            split at hw
            · injection hw with hw; subst hw
              simp [destroyMeasure, dWeight, hdd]
            · simp at hw
          · simp at hw
    · split at h
      · rename_i hi
        have := hp _ hi
        have hidle : s.ppc (t.tid - 2) = .idle := by
          cases hx : s.ppc (t.tid - 2) <;> simp [hx, isIdle] at this ⊢
        simp [producerStep, hidle, this.1] at h
      · simp at h
end MgProof.C16
