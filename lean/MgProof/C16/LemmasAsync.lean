import MgModel.C16.Async
import MgProof.C16.Lemmas
/-! Helper lemmas for C16, asynchronous logger: the invariant of the interleaving model
(`MgModel/C16/Async.lean`) and its preservation by every step of every thread. -/
namespace MgProof.C16
open MgModel.C16 MgModel.Conc

/-- the messages in the channel (the sentinel is not a message) -/
def qmsgs (q : List (Option QMsg)) : List QMsg := q.filterMap id

/-- allocations held by the writer thread (in units of one message = struct + payload) -/
def heldCnt : WPc → Nat
  | .holding _ => 1
  | .wrote _ => 1
  | _ => 0

/-- the message the writer has taken from the channel but not yet handed to the handlers -/
def heldList : WPc → List QMsg
  | .holding q => [q]
  | _ => []

/-- number of producers `< n` that hold a message (between allocation and hand-over / release) -/
def pcount (ppc : Nat → PPc) : Nat → Nat
  | 0 => 0
  | n + 1 => pcount ppc n + (if isIdle (ppc n) then 0 else 1)

/-- the handlers after the writer has processed `w`, as the specification has them -/
def foldHandlers (hs0 : List Handler) (w : List QMsg) : List Handler :=
  w.foldl (fun hs q => stepHandlers q.msg hs) hs0

theorem pcount_upd (f : Nat → PPc) (i : Nat) (a : PPc) (n : Nat) (h : i < n) :
    pcount (upd f i a) n + (if isIdle (f i) then 0 else 1) = pcount f n + (if isIdle a then 0 else 1) := by
  induction n with
  | zero => omega
  | succ n ih =>
    simp only [pcount]
    by_cases hi : i = n
    · subst hi
      have hlt : ∀ m, m ≤ i → pcount (upd f i a) m = pcount f m := by
        intro m hm
        induction m with
        | zero => rfl
        | succ m ihm =>
          simp only [pcount]
          have : m ≠ i := by omega
          rw [ihm (by omega), upd_other _ _ _ _ this]
      rw [hlt i (Nat.le_refl _), upd_same]
      omega
    · have hne : n ≠ i := fun h => hi h.symm
      have := ih (by omega)
      rw [upd_other _ _ _ _ hne]
      omega

theorem pcount_zero_of_idle (f : Nat → PPc) (n : Nat) (h : ∀ i < n, isIdle (f i) = true) :
    pcount f n = 0 := by
  induction n with
  | zero => rfl
  | succ n ih =>
    simp only [pcount]
    rw [ih (fun i hi => h i (by omega)), h n (by omega)]
    rfl

theorem producersDone_iff (s : AState) :
    producersDone s = true ↔ ∀ i < s.n, s.prog i = [] ∧ isIdle (s.ppc i) = true := by
  unfold producersDone
  simp [List.all_eq_true, List.mem_range, List.isEmpty_iff]

theorem qmsgs_append (a b : List (Option QMsg)) : qmsgs (a ++ b) = qmsgs a ++ qmsgs b := by
  simp [qmsgs, List.filterMap_append]

theorem foldHandlers_append (hs0 : List Handler) (w : List QMsg) (q : QMsg) :
    foldHandlers hs0 (w ++ [q]) = stepHandlers q.msg (foldHandlers hs0 w) := by
  simp [foldHandlers, List.foldl_append]

/-- the invariant of the fixed asynchronous logger; `hs0` = the handlers at initialisation -/
structure AInv (hs0 : List Handler) (s : AState) : Prop where
  fixed   : s.v = .fixed
  nofault : s.fault = none
  nodbl   : s.dblFree = false
  live    : s.live = 2 * ((qmsgs s.queue).length + pcount s.ppc s.n + heldCnt s.wpc)
  fifo    : s.accepted = s.written ++ heldList s.wpc ++ qmsgs s.queue
  hand    : s.lg.handlers = foldHandlers hs0 s.written
  bound   : s.queue.length ≤ s.slots
  ph0     : s.dpc = .notCalled ∨ s.dpc = .sending → (∀ x ∈ s.queue, x ≠ none) ∧ s.wpc ≠ .exited
  ph1     : s.dpc = .joining →
              (s.wpc ≠ .exited ∧ ∃ ms : List QMsg, s.queue = ms.map some ++ [none]) ∨
              (s.wpc = .exited ∧ s.queue = [])
  ph2     : s.dpc = .done → s.wpc = .exited ∧ s.queue = []
  pdone   : s.dpc ≠ .notCalled → producersDone s = true

theorem ainv_init (lg : Logger) (slots n : Nat) (prog : Nat → List (Env × Call)) :
    AInv lg.handlers (ainit .fixed lg slots n prog) := by
  refine ⟨rfl, rfl, rfl, ?_, rfl, rfl, Nat.zero_le _, ?_, ?_, ?_, ?_⟩
  · simp only [ainit, qmsgs, heldCnt, List.filterMap_nil, List.length_nil]
    rw [pcount_zero_of_idle _ _ (fun _ _ => rfl)]
  · intro _; exact ⟨by simp [ainit], by simp [ainit]⟩
  · intro h; simp [ainit] at h
  · intro h; simp [ainit] at h
  · intro h; simp [ainit] at h

/-! ### preservation, thread by thread -/

theorem release_live (s : AState) (h : 2 ≤ s.live) :
    (release s) = { s with live := s.live - 2 } := by
  unfold release
  rw [if_neg (by omega)]

theorem writer_preserves (hs0 : List Handler) (s s' : AState) (inv : AInv hs0 s)
    (h : writerStep s = some s') : AInv hs0 s' := by
  obtain ⟨fixed, nofault, nodbl, live, fifo, hand, bound, ph0, ph1, ph2, pdone⟩ := inv
  unfold writerStep at h
  split at h
  · -- reading
    rename_i hw
    split at h
    · simp at h
    · rename_i q rest hq
      injection h with h; subst h
      refine ⟨fixed, nofault, nodbl, ?_, ?_, hand, ?_, ?_, ?_, ?_, ?_⟩
      · simp only [hq, hw, qmsgs, heldCnt, List.filterMap_cons, id, List.length_cons] at live ⊢
        omega
      · simp only [hq, hw, qmsgs, heldList, List.filterMap_cons, id, List.append_nil] at fifo ⊢
        simpa using fifo
      · simp only [hq, List.length_cons] at bound ⊢; omega
      · intro hd
        have := ph0 hd
        refine ⟨fun x hx => this.1 x (by rw [hq]; exact List.mem_cons_of_mem _ hx), by simp⟩
      · intro hd
        rcases ph1 hd with ⟨_, ms, hms⟩ | ⟨he, _⟩
        · left
          refine ⟨by simp, ?_⟩
          rw [hq] at hms
          cases ms with
          | nil => simp at hms
          | cons m ms => exact ⟨ms, by simpa using (List.cons.inj hms).2⟩
        · rw [hw] at he; cases he
      · intro hd; have := (ph2 hd).1; rw [hw] at this; cases this
      · intro hd; have := pdone hd; rw [producersDone_iff] at this ⊢; exact this
    · rename_i rest hq
      injection h with h; subst h
      have hjoin : s.dpc = .joining := by
        cases hd : s.dpc with
        | notCalled => exact absurd rfl ((ph0 (Or.inl hd)).1 none (by rw [hq]; simp))
        | sending => exact absurd rfl ((ph0 (Or.inr hd)).1 none (by rw [hq]; simp))
        | joining => rfl
        | done => have := (ph2 hd).2; rw [hq] at this; cases this
      have hrest : rest = [] := by
        rcases ph1 hjoin with ⟨_, ms, hms⟩ | ⟨he, _⟩
        · rw [hq] at hms
          cases ms with
          | nil => simpa using hms
          | cons m ms => simp at hms
        · rw [hw] at he; cases he
      subst hrest
      refine ⟨fixed, nofault, nodbl, ?_, ?_, hand, ?_, ?_, ?_, ?_, ?_⟩
      · simp only [hq, hw, qmsgs, heldCnt, List.filterMap_cons, id, List.filterMap_nil] at live ⊢
        omega
      · simp only [hq, hw, qmsgs, heldList, List.filterMap_cons, id] at fifo ⊢
        simpa using fifo
      · simp
      · intro hd; rcases hd with hd | hd <;> rw [hjoin] at hd <;> cases hd
      · intro _; right; exact ⟨rfl, rfl⟩
      · intro hd; rw [hjoin] at hd; cases hd
      · intro hd; have := pdone hd; rw [producersDone_iff] at this ⊢; exact this
  · -- holding q
    rename_i q hw
    split at h
    · simp at h
    · rw [fixed, writeAll_fixed] at h
      simp only at h
      injection h with h; subst h
      refine ⟨rfl, nofault, nodbl, ?_, ?_, ?_, bound, ?_, ?_, ?_, ?_⟩
      · simp only [hw, heldCnt] at live ⊢; exact live
      · simp only [hw, heldList] at fifo ⊢; simpa using fifo
      · show stepHandlers q.msg s.lg.handlers = _
        rw [foldHandlers_append, hand]
      · intro hd; exact ⟨(ph0 hd).1, by simp⟩
      · intro hd
        rcases ph1 hd with ⟨_, hms⟩ | ⟨he, _⟩
        · left; exact ⟨by simp, hms⟩
        · rw [hw] at he; cases he
      · intro hd; have := (ph2 hd).1; rw [hw] at this; cases this
      · intro hd; have := pdone hd; rw [producersDone_iff] at this ⊢; exact this
  · -- wrote q
    rename_i q hw
    injection h with h; subst h
    have h2 : 2 ≤ s.live := by rw [live, hw]; simp only [heldCnt]; omega
    rw [release_live s h2]
    refine ⟨fixed, nofault, nodbl, ?_, ?_, hand, bound, ?_, ?_, ?_, ?_⟩
    · simp only [hw, heldCnt] at live ⊢; omega
    · simp only [hw, heldList] at fifo ⊢; exact fifo
    · intro hd; exact ⟨(ph0 hd).1, by simp⟩
    · intro hd
      rcases ph1 hd with ⟨_, hms⟩ | ⟨he, _⟩
      · left; exact ⟨by simp, hms⟩
      · rw [hw] at he; cases he
    · intro hd; have := (ph2 hd).1; rw [hw] at this; cases this
    · intro hd; have := pdone hd; rw [producersDone_iff] at this ⊢; exact this
  · simp at h

theorem map_some_filterMap (l : List (Option QMsg)) (hl : ∀ x ∈ l, x ≠ none) :
    l = (l.filterMap id).map some := by
  induction l with
  | nil => rfl
  | cons a t ih =>
    cases a with
    | none => exact absurd rfl (hl none (by simp))
    | some a =>
      simp only [List.filterMap_cons, id, List.map_cons]
      rw [← ih (fun x hx => hl x (List.mem_cons_of_mem _ hx))]

theorem destroy_preserves (hs0 : List Handler) (s s' : AState) (inv : AInv hs0 s)
    (h : destroyStep s = some s') : AInv hs0 s' := by
  obtain ⟨fixed, nofault, nodbl, live, fifo, hand, bound, ph0, ph1, ph2, pdone⟩ := inv
  unfold destroyStep at h
  split at h
  · rename_i hd
    split at h
    · rename_i hp
      injection h with h; subst h
      refine ⟨fixed, nofault, nodbl, live, fifo, hand, bound, fun _ => ph0 (Or.inl hd), ?_, ?_, ?_⟩
      · intro h; cases h
      · intro h; cases h
      · intro _; rw [producersDone_iff] at hp ⊢; exact hp
    · simp at h
  · rename_i hd
    have hp := pdone (by rw [hd]; simp)
    split at h
    · rename_i hlt
      injection h with h; subst h
      have hq := (ph0 (Or.inr hd)).1
      refine ⟨fixed, nofault, nodbl, ?_, ?_, hand, ?_, ?_, ?_, ?_, ?_⟩
      · simp only [qmsgs_append] at live ⊢; simpa [qmsgs] using live
      · simp only [qmsgs_append] at fifo ⊢; simpa [qmsgs] using fifo
      · simp only [List.length_append, List.length_cons, List.length_nil]; omega
      · intro h; rcases h with h | h <;> cases h
      · intro _
        left
        refine ⟨(ph0 (Or.inr hd)).2, s.queue.filterMap id, ?_⟩
        show s.queue ++ [none] = _
        rw [← map_some_filterMap _ hq]
      · intro h; cases h
      · intro _; rw [producersDone_iff] at hp ⊢; exact hp
    · rw [fixed] at h
      simp only at h
      injection h with h; subst h
      exact ⟨fixed, nofault, nodbl, live, fifo, hand, bound, ph0, ph1, ph2, pdone⟩
  · rename_i hd
    split at h
    · rename_i hw
      injection h with h; subst h
      refine ⟨fixed, nofault, nodbl, live, fifo, hand, bound, ?_, ?_, ?_, ?_⟩
      · intro h; rcases h with h | h <;> cases h
      · intro h; cases h
      · intro _
        rcases ph1 hd with ⟨hne, _⟩ | ⟨_, hq⟩
        · exact absurd hw hne
        · exact ⟨hw, hq⟩
      · intro _
        have hp := pdone (by rw [hd]; simp); rw [producersDone_iff] at hp ⊢; exact hp
    · simp at h
  · simp at h

theorem pcount_pos (f : Nat → PPc) (n i : Nat) (hi : i < n) (h : isIdle (f i) = false) :
    1 ≤ pcount f n := by
  induction n with
  | zero => omega
  | succ n ih =>
    simp only [pcount]
    by_cases hin : i = n
    · subst hin; rw [h]; simp
    · have := ih (by omega); omega

theorem producer_preserves (hs0 : List Handler) (s s' : AState) (i : Nat) (hi : i < s.n)
    (inv : AInv hs0 s) (h : producerStep s i = some s') : AInv hs0 s' := by
  obtain ⟨fixed, nofault, nodbl, live, fifo, hand, bound, ph0, ph1, ph2, pdone⟩ := inv
  -- a producer that can move means destroy has not been called
  have hnc : (s.prog i ≠ [] ∨ isIdle (s.ppc i) = false) → s.dpc = .notCalled := by
    intro hmove
    cases hd : s.dpc with
    | notCalled => rfl
    | _ =>
      have := pdone (by rw [hd]; simp)
      rw [producersDone_iff] at this
      have := this i hi
      rcases hmove with hm | hm
      · exact absurd this.1 hm
      · rw [this.2] at hm; cases hm
  unfold producerStep at h
  split at h
  · -- idle
    rename_i hp
    split at h
    · simp at h
    · rename_i e c rest hprog
      have hd := hnc (Or.inl (by rw [hprog]; simp))
      have hpc := pcount_upd s.ppc i
      split at h
      · injection h with h; subst h
        refine ⟨fixed, nofault, nodbl, live, fifo, hand, bound, ph0, ph1, ph2, ?_⟩
        intro hne; exact absurd hd hne
      · injection h with h; subst h
        refine ⟨fixed, nofault, nodbl, ?_, fifo, hand, bound, ph0, ph1, ph2, ?_⟩
        · have := hpc (.built { msg := mkMsg s.lg e c, src := i, seq := s.cnt i }) s.n hi
          rw [hp] at this
          simp [isIdle] at this
          show s.live + 2 = 2 * ((qmsgs s.queue).length + pcount (upd s.ppc i _) s.n + heldCnt s.wpc)
          omega
        · intro hne; exact absurd hd hne
  · -- built q
    rename_i q hp
    have hd := hnc (Or.inr (by rw [hp]; rfl))
    have hpos := pcount_pos s.ppc s.n i hi (by rw [hp]; rfl)
    split at h
    · rename_i hlt
      injection h with h; subst h
      have hpc := pcount_upd s.ppc i .idle s.n hi
      rw [hp] at hpc
      simp [isIdle] at hpc
      refine ⟨fixed, nofault, nodbl, ?_, ?_, hand, ?_, ?_, ?_, ?_, ?_⟩
      · show s.live = 2 * ((qmsgs (s.queue ++ [some q])).length + pcount (upd s.ppc i .idle) s.n + heldCnt s.wpc)
        rw [qmsgs_append]
        simp only [qmsgs, List.filterMap_cons, id, List.filterMap_nil, List.length_append,
          List.length_cons, List.length_nil] at live ⊢
        omega
      · show s.accepted ++ [q] = s.written ++ heldList s.wpc ++ qmsgs (s.queue ++ [some q])
        rw [qmsgs_append, fifo]
        simp [qmsgs]
      · show (s.queue ++ [some q]).length ≤ s.slots
        simp only [List.length_append, List.length_cons, List.length_nil]; omega
      · intro _
        refine ⟨?_, (ph0 (Or.inl hd)).2⟩
        intro x hx
        rcases List.mem_append.mp hx with hx | hx
        · exact (ph0 (Or.inl hd)).1 x hx
        · simp at hx; rw [hx]; simp
      · intro h; exact absurd (hd.symm.trans h) (by simp)
      · intro h; exact absurd (hd.symm.trans h) (by simp)
      · intro hne; exact absurd hd hne
    · rw [fixed] at h
      simp only at h
      injection h with h; subst h
      have hpc := pcount_upd s.ppc i (.full q) s.n hi
      rw [hp] at hpc
      simp [isIdle] at hpc
      refine ⟨rfl, nofault, nodbl, ?_, fifo, hand, bound, ph0, ph1, ph2, ?_⟩
      · show s.live = 2 * ((qmsgs s.queue).length + pcount (upd s.ppc i (.full q)) s.n + heldCnt s.wpc)
        omega
      · intro hne; exact absurd hd hne
  · -- full q
    rename_i q hp
    have hd := hnc (Or.inr (by rw [hp]; rfl))
    have hpos := pcount_pos s.ppc s.n i hi (by rw [hp]; rfl)
    have h2 : 2 ≤ s.live := by rw [live]; omega
    rw [release_live s h2] at h
    injection h with h; subst h
    have hpc := pcount_upd s.ppc i .idle s.n hi
    rw [hp] at hpc
    simp [isIdle] at hpc
    refine ⟨fixed, nofault, nodbl, ?_, fifo, hand, bound, ph0, ph1, ph2, ?_⟩
    · show s.live - 2 = 2 * ((qmsgs s.queue).length + pcount (upd s.ppc i .idle) s.n + heldCnt s.wpc)
      omega
    · intro hne; exact absurd hd hne

/-- every step of every thread (and the harness's gate) preserves the invariant -/
theorem astep_preserves (hs0 : List Handler) (s s' : AState) (t : Tok) (ev : List String)
    (inv : AInv hs0 s) (h : astep s t = some (s', ev)) : AInv hs0 s' := by
  unfold astep at h
  split at h
  · cases hw : writerStep s with
    | none => simp [hw] at h
    | some s1 =>
      simp only [hw, Option.map_some, Option.some.injEq, Prod.mk.injEq] at h
      rw [← h.1]; exact writer_preserves hs0 s s1 inv hw
  · split at h
    · split at h
      · injection h with h
        injection h with h1 _
        subst h1
        obtain ⟨fixed, nofault, nodbl, live, fifo, hand, bound, ph0, ph1, ph2, pdone⟩ := inv
        exact ⟨fixed, nofault, nodbl, live, fifo, hand, bound, ph0, ph1, ph2,
          fun hne => by have := pdone hne; rw [producersDone_iff] at this ⊢; exact this⟩
      · cases hw : destroyStep s with
        | none => simp [hw] at h
        | some s1 =>
          simp only [hw, Option.map_some, Option.some.injEq, Prod.mk.injEq] at h
          rw [← h.1]; exact destroy_preserves hs0 s s1 inv hw
    · split at h
      · rename_i hi
        cases hw : producerStep s (t.tid - 2) with
        | none => simp [hw] at h
        | some s1 =>
          simp only [hw, Option.map_some, Option.some.injEq, Prod.mk.injEq] at h
          rw [← h.1]; exact producer_preserves hs0 s s1 _ hi inv hw
      · simp at h

/-- the invariant holds in every state the fixed logger can reach, under every schedule -/
theorem ainv_reach (lg : Logger) (slots n : Nat) (prog : Nat → List (Env × Call)) (s : AState)
    (hr : Reach astep (ainit .fixed lg slots n prog) s) : AInv lg.handlers s :=
  Reach.inv (AInv lg.handlers) (ainv_init lg slots n prog)
    (fun s t s' ev inv h => astep_preserves lg.handlers s s' t ev inv h) s hr

/-- the specification's handlers are what the synchronous dispatch loop computes -/
theorem replay_fixed (hs0 : List Handler) (w : List QMsg) :
    replay .fixed hs0 (w.map (·.msg)) = .ok (foldHandlers hs0 w) := by
  induction w generalizing hs0 with
  | nil => rfl
  | cons q w ih =>
    simp only [List.map_cons, replay, writeAll_fixed]
    exact ih (stepHandlers q.msg hs0)

/-! ### per-producer order -/

/-- the message a producer holds between allocation and hand-over / release -/
def busyMsg : PPc → Option QMsg
  | .idle => none
  | .built q => some q
  | .full q => some q

/-- ordering invariant of the asynchronous logger (both variants): sequence numbers of one
producer enter the channel in increasing order -/
structure AOrd (s : AState) : Prop where
  busy : ∀ i q, busyMsg (s.ppc i) = some q → q.src = i ∧ q.seq + 1 = s.cnt i
  hist : ∀ q ∈ s.accepted ++ s.dropped,
           q.seq < s.cnt q.src ∧ ∀ q0, busyMsg (s.ppc q.src) = some q0 → q.seq < q0.seq
  ordA : s.accepted.Pairwise (fun a b => a.src = b.src → a.seq < b.seq)

theorem aord_init (v : Variant) (lg : Logger) (slots n : Nat) (prog : Nat → List (Env × Call)) :
    AOrd (ainit v lg slots n prog) :=
  ⟨fun i q h => by simp [ainit, busyMsg] at h, fun q h => by simp [ainit] at h, by simp [ainit]⟩

theorem producer_aord (s s' : AState) (i : Nat) (inv : AOrd s) (h : producerStep s i = some s') :
    AOrd s' := by
  obtain ⟨busy, hist, ordA⟩ := inv
  unfold producerStep at h
  split at h
  · rename_i hp
    split at h
    · simp at h
    · split at h <;> (injection h with h; subst h)
      · refine ⟨?_, ?_, ordA⟩ <;> (simp only [upd]) <;> grind [busyMsg]
      · refine ⟨?_, ?_, ordA⟩ <;> (simp only [upd]) <;> grind [busyMsg]
  · rename_i q hp
    have hb := busy i q (by rw [hp]; rfl)
    split at h
    · injection h with h; subst h
      refine ⟨?_, ?_, ?_⟩
      · simp only [upd]; grind [busyMsg]
      · simp only [upd]; grind [busyMsg]
      · show (s.accepted ++ [q]).Pairwise _
        rw [List.pairwise_append]
        refine ⟨ordA, by simp, ?_⟩
        intro a ha b hb' hsrc
        simp at hb'; subst hb'
        have := (hist a (List.mem_append_left _ ha)).2 b (by rw [hsrc, hb.1, hp]; rfl)
        exact this
    · split at h <;> (injection h with h; subst h)
      · refine ⟨?_, ?_, ordA⟩ <;> (simp only [upd]) <;> grind [busyMsg]
      · refine ⟨?_, ?_, ordA⟩ <;> (simp only [upd]) <;> grind [busyMsg]
  · rename_i q hp
    have hb := busy i q (by rw [hp]; rfl)
    injection h with h; subst h
    refine ⟨?_, ?_, ?_⟩
    · simp only [upd, release]; split <;> grind [busyMsg]
    · simp only [upd, release]; split <;> grind [busyMsg]
    · simp only [release]; split <;> exact ordA

theorem aord_frame (s s' : AState) (inv : AOrd s) (h1 : s'.ppc = s.ppc) (h2 : s'.cnt = s.cnt)
    (h3 : s'.accepted = s.accepted) (h4 : s'.dropped = s.dropped) : AOrd s' := by
  obtain ⟨busy, hist, ordA⟩ := inv
  exact ⟨by rw [h1, h2]; exact busy, by rw [h1, h2, h3, h4]; exact hist, by rw [h3]; exact ordA⟩

theorem release_frame (s : AState) :
    (release s).ppc = s.ppc ∧ (release s).cnt = s.cnt ∧ (release s).accepted = s.accepted ∧
    (release s).dropped = s.dropped := by
  unfold release; split <;> exact ⟨rfl, rfl, rfl, rfl⟩

theorem writer_frame (s s' : AState) (h : writerStep s = some s') :
    s'.ppc = s.ppc ∧ s'.cnt = s.cnt ∧ s'.accepted = s.accepted ∧ s'.dropped = s.dropped := by
  unfold writerStep at h
  have hr := release_frame s
  repeat' split at h
  all_goals first
    | (simp at h; done)
    | (injection h with h; subst h; first | exact ⟨rfl, rfl, rfl, rfl⟩ | exact hr)

theorem destroy_frame (s s' : AState) (h : destroyStep s = some s') :
    s'.ppc = s.ppc ∧ s'.cnt = s.cnt ∧ s'.accepted = s.accepted ∧ s'.dropped = s.dropped := by
  unfold destroyStep at h
  repeat' split at h
  all_goals first
    | (simp at h; done)
    | (injection h with h; subst h; exact ⟨rfl, rfl, rfl, rfl⟩)

theorem astep_aord (s s' : AState) (t : Tok) (ev : List String) (inv : AOrd s)
    (h : astep s t = some (s', ev)) : AOrd s' := by
  unfold astep at h
  split at h
  · cases hw : writerStep s with
    | none => simp [hw] at h
    | some s1 =>
      simp only [hw, Option.map_some, Option.some.injEq, Prod.mk.injEq] at h
      obtain ⟨a, b, c, d⟩ := writer_frame s s1 hw
      rw [← h.1]; exact aord_frame s s1 inv a b c d
  · split at h
    · split at h
      · injection h with h; injection h with h1 _; subst h1
        exact aord_frame s _ inv rfl rfl rfl rfl
      · cases hw : destroyStep s with
        | none => simp [hw] at h
        | some s1 =>
          simp only [hw, Option.map_some, Option.some.injEq, Prod.mk.injEq] at h
          obtain ⟨a, b, c, d⟩ := destroy_frame s s1 hw
          rw [← h.1]; exact aord_frame s s1 inv a b c d
    · split at h
      · cases hw : producerStep s (t.tid - 2) with
        | none => simp [hw] at h
        | some s1 =>
          simp only [hw, Option.map_some, Option.some.injEq, Prod.mk.injEq] at h
          rw [← h.1]; exact producer_aord s s1 _ inv hw
      · simp at h

theorem aord_reach (v : Variant) (lg : Logger) (slots n : Nat) (prog : Nat → List (Env × Call))
    (s : AState) (hr : Reach astep (ainit v lg slots n prog) s) : AOrd s :=
  Reach.inv AOrd (aord_init v lg slots n prog) (fun s t s' ev inv h => astep_aord s s' t ev inv h) s hr

end MgProof.C16
