import MgModel.C16.SyncConc
import MgProof.C16.Lemmas
/-! Helper lemmas for C16, many threads on one synchronous logger: the invariant of the
interleaving model (`MgModel/C16/SyncConc.lean`) and its preservation by every step. -/
namespace MgProof.C16
open MgModel.C16 MgModel.Conc

theorem specRecs_out_irrel (h : Handler) (o : List Rec) (m : Msg) :
    specRecs { h with out := o } m = specRecs h m := by
  obtain ⟨k, l, f, out⟩ := h
  rfl

theorem handlerRecs_fixed (h : Handler) (m : Msg) : handlerRecs .fixed h m = .ok (specRecs h m) := by
  unfold handlerRecs
  rw [handlerWrite_fixed]
  simp only [List.nil_append, specRecs_out_irrel]
  rfl

/-- output that handler `j` must have produced once everybody in `hist j` is through -/
def base (lg : Logger) (outs0 : Nat → List Rec) (hist : Nat → List HEntry) (j : Nat) : List Rec :=
  outs0 j ++ (hist j).flatMap (fun e => recsAt lg j e.msg)

structure SInv (lg : Logger) (outs0 : Nat → List Rec) (s : SState) : Prop where
  fixed   : s.v = .fixed
  cfg     : s.lg = lg
  nofault : s.fault = none
  own     : ∀ i m j todo, s.pc i = .locked m j todo → s.mtx j = some i
  owned   : ∀ j i, s.mtx j = some i → ∃ m todo, s.pc i = .locked m j todo
  free    : ∀ j, s.mtx j = none → s.outs j = base lg outs0 s.hist j
  held    : ∀ i m j todo, s.pc i = .locked m j todo → s.outs j ++ todo = base lg outs0 s.hist j
  inrange : ∀ i, s.pc i ≠ .idle → i < s.n

theorem sinv_init (lg : Logger) (n : Nat) (prog : Nat → List (Env × Call)) :
    SInv lg (sinit .fixed lg n prog).outs (sinit .fixed lg n prog) := by
  refine ⟨rfl, rfl, rfl, ?_, ?_, ?_, ?_, ?_⟩ <;> simp [sinit, base]

theorem sstep_preserves (lg : Logger) (outs0 : Nat → List Rec) (s s' : SState) (t : Tok)
    (ev : List String) (inv : SInv lg outs0 s) (h : sstep s t = some (s', ev)) :
    SInv lg outs0 s' := by
  obtain ⟨fixed, cfg, nofault, own, owned, free, held, inrange⟩ := inv
  unfold sstep at h
  simp only at h
  split at h
  · simp at h
  · split at h
    · -- idle
      split at h
      · simp at h
      · split at h <;> (injection h with h; injection h with h _; subst h)
        · refine ⟨fixed, cfg, nofault, own, owned, free, held, inrange⟩
        · refine ⟨fixed, cfg, nofault, ?_, ?_, free, ?_, ?_⟩ <;> (simp only [upd]) <;> grind
    · -- disp m j
      rename_i m j hpc
      split at h
      · injection h with h; injection h with h _; subst h
        refine ⟨fixed, cfg, nofault, ?_, ?_, free, ?_, ?_⟩ <;> (simp only [upd]) <;> grind
      · rename_i hd hj
        split at h
        · injection h with h; injection h with h _; subst h
          refine ⟨fixed, cfg, nofault, ?_, ?_, free, ?_, ?_⟩ <;> (simp only [upd]) <;> grind
        · rw [fixed, handlerRecs_fixed] at h
          split at h
          · rename_i hx; cases hx
          · injection h with h; injection h with h _; subst h
            refine ⟨rfl, cfg, nofault, ?_, ?_, free, ?_, ?_⟩ <;> (simp only [upd]) <;> grind
          · rename_i r rs hrecs
            split at h
            · simp at h
            · rename_i hm
              injection h with h; injection h with h _; subst h
              have hrec : recsAt lg j m = r :: rs := by
                unfold recsAt
                rw [← cfg, hj]
                injection hrecs
              have hb : base lg outs0 (upd s.hist j (s.hist j ++ [{ tid := t.tid, seq := s.cnt t.tid - 1, msg := m }])) j
                  = s.outs j ++ (r :: rs) := by
                unfold base
                rw [upd_same, List.flatMap_append, ← List.append_assoc]
                have := free j hm
                unfold base at this
                rw [← this]
                simp [hrec]
              have hbo : ∀ j', j' ≠ j → base lg outs0 (upd s.hist j (s.hist j ++ [{ tid := t.tid, seq := s.cnt t.tid - 1, msg := m }])) j'
                  = base lg outs0 s.hist j' := by
                intro j' hne
                unfold base
                rw [upd_other _ _ _ _ hne]
              refine ⟨rfl, cfg, nofault, ?_, ?_, ?_, ?_, ?_⟩
              rotate_left 4
              · simp only [upd]; grind
              · simp only [upd]; grind
              · intro j' i' hmx
                simp only [upd] at hmx ⊢
                by_cases hj' : j' = j
                · subst hj'
                  simp only [if_true, Option.some.injEq] at hmx
                  subst hmx
                  exact ⟨m, r :: rs, by simp⟩
                · simp only [hj', if_false] at hmx
                  obtain ⟨m', todo', hp⟩ := owned j' i' hmx
                  refine ⟨m', todo', ?_⟩
                  by_cases hi : i' = t.tid
                  · subst hi; rw [hpc] at hp; cases hp
                  · simp only [hi, if_false]; exact hp
              · simp only [upd] at hb hbo ⊢; grind
              · simp only [upd] at hb hbo ⊢; grind
    · -- locked m j (r :: rs)
      rename_i m j r rs hpc
      injection h with h; injection h with h _; subst h
      refine ⟨fixed, cfg, nofault, ?_, ?_, ?_, ?_, ?_⟩ <;> (simp only [upd]) <;> grind
    · -- locked m j []
      rename_i m j hpc
      injection h with h; injection h with h _; subst h
      refine ⟨fixed, cfg, nofault, ?_, ?_, ?_, ?_, ?_⟩ <;> (simp only [upd]) <;> grind

/-- the invariant holds in every reachable state, under every schedule -/
theorem sinv_reach (lg : Logger) (n : Nat) (prog : Nat → List (Env × Call)) (s : SState)
    (hr : Reach sstep (sinit .fixed lg n prog) s) :
    SInv lg (sinit .fixed lg n prog).outs s :=
  Reach.inv (SInv lg (sinit .fixed lg n prog).outs) (sinv_init lg n prog)
    (fun s t s' ev inv h => sstep_preserves lg _ s s' t ev inv h) s hr

/-- the number of threads never changes -/
theorem sstep_n (s s' : SState) (t : Tok) (ev : List String) (h : sstep s t = some (s', ev)) :
    s'.n = s.n := by
  unfold sstep at h
  simp only at h
  repeat' split at h
  all_goals first
    | (simp at h; done)
    | (injection h with h; injection h with h _; subst h; rfl)

/-! ### per-thread order -/

/-- thread at `pc` has already dealt with handler `j` in its current call -/
def past : SPc → Nat → Prop
  | .idle, _ => True
  | .disp _ j', j => j < j'
  | .locked _ j' _, j => j ≤ j'

def inCall : SPc → Bool
  | .idle => false
  | _ => true

/-- ordering invariant of the concurrent synchronous model (both variants) -/
structure SOrd (s : SState) : Prop where
  cur  : ∀ i, inCall (s.pc i) = true → 1 ≤ s.cnt i
  hist : ∀ j, ∀ e ∈ s.hist j, e.seq < s.cnt e.tid ∧ (e.seq + 1 = s.cnt e.tid → past (s.pc e.tid) j)
  ord  : ∀ j, (s.hist j).Pairwise (fun a b => a.tid = b.tid → a.seq < b.seq)

theorem sord_init (v : Variant) (lg : Logger) (n : Nat) (prog : Nat → List (Env × Call)) :
    SOrd (sinit v lg n prog) :=
  ⟨fun i h => by simp [sinit, inCall] at h, fun j e h => by simp [sinit] at h, fun j => by simp [sinit]⟩

theorem sstep_sord (s s' : SState) (t : Tok) (ev : List String) (inv : SOrd s)
    (h : sstep s t = some (s', ev)) : SOrd s' := by
  obtain ⟨cur, hist, ord⟩ := inv
  unfold sstep at h
  simp only at h
  split at h
  · simp at h
  · split at h
    · split at h
      · simp at h
      · split at h <;> (injection h with h; injection h with h _; subst h)
        · refine ⟨?_, ?_, ord⟩ <;> (simp only [upd]) <;> grind [past, inCall]
        · refine ⟨?_, ?_, ord⟩ <;> (simp only [upd]) <;> grind [past, inCall]
    · rename_i m j hpc
      have hc := cur t.tid (by rw [hpc]; rfl)
      split at h
      · injection h with h; injection h with h _; subst h
        refine ⟨?_, ?_, ord⟩ <;> (simp only [upd]) <;> grind [past, inCall]
      · split at h
        · injection h with h; injection h with h _; subst h
          refine ⟨?_, ?_, ord⟩ <;> (simp only [upd]) <;> grind [past, inCall]
        · split at h
          · injection h with h; injection h with h _; subst h
            refine ⟨?_, ?_, ord⟩ <;> (simp only [upd]) <;> grind [past, inCall]
          · injection h with h; injection h with h _; subst h
            refine ⟨?_, ?_, ord⟩ <;> (simp only [upd]) <;> grind [past, inCall]
          · split at h
            · simp at h
            · injection h with h; injection h with h _; subst h
              refine ⟨?_, ?_, ?_⟩
              · simp only [upd]; grind [past, inCall]
              · intro j' e he
                simp only [upd] at he ⊢
                by_cases hj : j' = j
                · subst hj
                  simp only [if_true, List.mem_append, List.mem_singleton] at he
                  rcases he with he | he
                  · have := hist j' e he
                    by_cases hti : e.tid = t.tid
                    · simp only [hti, if_true] at this ⊢
                      rw [hpc] at this
                      refine ⟨this.1, fun h => ?_⟩
                      have := this.2 h
                      simp [past] at this
                    · simp only [hti, if_false]; exact this
                  · subst he
                    simp only [if_true]
                    exact ⟨by omega, fun _ => by simp [past]⟩
                · simp only [hj, if_false] at he
                  have := hist j' e he
                  by_cases hti : e.tid = t.tid
                  · simp only [hti, if_true] at this ⊢
                    rw [hpc] at this
                    refine ⟨this.1, fun h => ?_⟩
                    have := this.2 h
                    simp only [past] at this ⊢
                    omega
                  · simp only [hti, if_false]; exact this
              · intro j'
                simp only [upd]
                by_cases hj : j' = j
                · subst hj
                  simp only [if_true]
                  rw [List.pairwise_append]
                  refine ⟨ord j', by simp, ?_⟩
                  intro a ha b hb hab
                  simp at hb; subst hb
                  simp only at hab ⊢
                  have := hist j' a ha
                  rw [hab, hpc] at this
                  have h2 : ¬ (a.seq + 1 = s.cnt t.tid) := fun h => by
                    have := this.2 h; simp [past] at this
                  omega
                · simp only [hj, if_false]; exact ord j'
    · rename_i m j r rs hpc
      injection h with h; injection h with h _; subst h
      refine ⟨?_, ?_, ord⟩ <;> (simp only [upd]) <;> grind [past, inCall]
    · rename_i m j hpc
      injection h with h; injection h with h _; subst h
      refine ⟨?_, ?_, ord⟩ <;> (simp only [upd]) <;> grind [past, inCall]

theorem sord_reach (v : Variant) (lg : Logger) (n : Nat) (prog : Nat → List (Env × Call)) (s : SState)
    (hr : Reach sstep (sinit v lg n prog) s) : SOrd s :=
  Reach.inv SOrd (sord_init v lg n prog) (fun s t s' ev inv h => sstep_sord s s' t ev inv h) s hr

end MgProof.C16
