import MgModel.C16.SyncConc
import MgProof.C16.Lemmas
/-! Helper lemmas for C16, many threads on one synchronous logger: the invariant of the
interleaving model (`MgModel/C16/SyncConc.lean`) and its preservation by every step. -/
namespace MgProof.C16
open MgModel.C16 MgModel.Conc

theorem specRecs_out_irrel (h : Handler) (o : List Rec) (m : Msg) :
    specRecs { h with out := o } m = specRecs h m := by
  obtain ⟨k, l, f, out⟩ := h
  rfl

theorem handlerRecs_fixed (h : Handler) (m : Msg) : handlerRecs .fixed h m = .ok (specRecs h m) := by
  unfold handlerRecs
  rw [handlerWrite_fixed]
  simp only [List.nil_append, specRecs_out_irrel]
  rfl

/-- output that handler `j` must have produced once everybody in `hist j` is through -/
def base (lg : Logger) (outs0 : Nat → List Rec) (hist : Nat → List HEntry) (j : Nat) : List Rec :=
  outs0 j ++ (hist j).flatMap (fun e => recsAt lg j e.msg)

structure SInv (lg : Logger) (outs0 : Nat → List Rec) (s : SState) : Prop where
  fixed   : s.v = .fixed
  cfg     : s.lg = lg
  nofault : s.fault = none
  own     : ∀ i m j todo, s.pc i = .locked m j todo → s.mtx j = some i
  owned   : ∀ j i, s.mtx j = some i → ∃ m todo, s.pc i = .locked m j todo
  free    : ∀ j, s.mtx j = none → s.outs j = base lg outs0 s.hist j
  held    : ∀ i m j todo, s.pc i = .locked m j todo → s.outs j ++ todo = base lg outs0 s.hist j
  inrange : ∀ i, s.pc i ≠ .idle → i < s.n

theorem sinv_init (lg : Logger) (n : Nat) (prog : Nat → List (Env × Call)) :
    SInv lg (sinit .fixed lg n prog).outs (sinit .fixed lg n prog) := by
  refine ⟨rfl, rfl, rfl, ?_, ?_, ?_, ?_, ?_⟩ <;> simp [sinit, base]

theorem sstep_preserves (lg : Logger) (outs0 : Nat → List Rec) (s s' : SState) (t : Tok)
    (ev : List String) (inv : SInv lg outs0 s) (h : sstep s t = some (s', ev)) :
    SInv lg outs0 s' := by
  obtain ⟨fixed, cfg, nofault, own, owned, free, held, inrange⟩ := inv
  unfold sstep at h
  simp only at h
  split at h
  · simp at h
  · split at h
    · -- idle
      split at h
      · simp at h
      · split at h <;> (injection h with h; injection h with h _; subst h)
        · refine ⟨fixed, cfg, nofault, own, owned, free, held, inrange⟩
        · refine ⟨fixed, cfg, nofault, ?_, ?_, free, ?_, ?_⟩ <;> (simp only [upd]) <;> grind
    · -- disp m j
      rename_i m j hpc
      split at h
      · injection h with h; injection h with h _; subst h
        refine ⟨fixed, cfg, nofault, ?_, ?_, free, ?_, ?_⟩ <;> (simp only [upd]) <;> grind
      · rename_i hd hj
        split at h
        · injection h with h; injection h with h _; subst h
          refine ⟨fixed, cfg, nofault, ?_, ?_, free, ?_, ?_⟩ <;> (simp only [upd]) <;> grind
        · rw [fixed, handlerRecs_fixed] at h
          split at h
          · rename_i hx; cases hx
          · injection h with h; injection h with h _; subst h
            refine ⟨rfl, cfg, nofault, ?_, ?_, free, ?_, ?_⟩ <;> (simp only [upd]) <;> grind
          · rename_i r rs hrecs
            split at h
            · simp at h
            · rename_i hm
              injection h with h; injection h with h _; subst h
              have hrec : recsAt lg j m = r :: rs := by
                unfold recsAt
                rw [← cfg, hj]
                injection hrecs
              have hb : base lg outs0 (upd s.hist j (s.hist j ++ [{ tid := t.tid, seq := s.cnt t.tid - 1, msg := m }])) j
                  = s.outs j ++ (r :: rs) := by
                unfold base
                rw [upd_same, List.flatMap_append, ← List.append_assoc]
                have := free j hm
                unfold base at this
                rw [← this]
                simp [hrec]
              have hbo : ∀ j', j' ≠ j → base lg outs0 (upd s.hist j (s.hist j ++ [{ tid := t.tid, seq := s.cnt t.tid - 1, msg := m }])) j'
                  = base lg outs0 s.hist j' := by
                intro j' hne
                unfold base
                rw [upd_other _ _ _ _ hne]
              refine ⟨rfl, cfg, nofault, ?_, ?_, ?_, ?_, ?_⟩
              rotate_left 4
              · simp only [upd]; grind
              · simp only [upd]; grind
              · intro j' i' hmx
                simp only [upd] at hmx ⊢
                by_cases hj' : j' = j
                · subst hj'
                  simp only [if_true, Option.some.injEq] at hmx
                  subst hmx
                  exact ⟨m, r :: rs, by simp⟩
                · simp only [hj', if_false] at hmx
                  obtain ⟨m', todo', hp⟩ := owned j' i' hmx
                  refine ⟨m', todo', ?_⟩
                  by_cases hi : i' = t.tid
                  · subst hi; rw [hpc] at hp; cases hp
                  · simp only [hi, if_false]; exact hp
              · simp only [upd] at hb hbo ⊢; grind
              · simp only [upd] at hb hbo ⊢; grind
    · -- locked m j (r :: rs)
      rename_i m j r rs hpc
      injection h with h; injection h with h _; subst h
      refine ⟨fixed, cfg, nofault, ?_, ?_, ?_, ?_, ?_⟩ <;> (simp only [upd]) <;> grind
    · -- locked m j []
      rename_i m j hpc
      injection h with h; injection h with h _; subst h
      refine ⟨fixed, cfg, nofault, ?_, ?_, ?_, ?_, ?_⟩ <;> (simp only [upd]) <;> grind

/-- the invariant holds in every reachable state, under every schedule -/
theorem sinv_reach (lg : Logger) (n : Nat) (prog : Nat → List (Env × Call)) (s : SState)
    (hr : Reach sstep (sinit .fixed lg n prog) s) :
    SInv lg (sinit .fixed lg n prog).outs s :=
  Reach.inv (SInv lg (sinit .fixed lg n prog).outs) (sinv_init lg n prog)
    (fun s t s' ev inv h => sstep_preserves lg _ s s' t ev inv h) s hr

/-- the number of threads never changes -/
theorem sstep_n (s s' : SState) (t : Tok) (ev : List String) (h : sstep s t = some (s', ev)) :
    s'.n = s.n := by
  unfold sstep at h
  simp only at h
  repeat' split at h
  all_goals first
    | (simp at h; done)
    | (injection h with h; injection h with h _; subst h; rfl)

/-! ### per-thread order -/

/-- thread at `pc` has already dealt with handler `j` in its current call -/
def past : SPc → Nat → Prop
  | .idle, _ => True
  | .disp _ j', j => j < j'
  | .locked _ j' _, j => j ≤ j'

def inCall : SPc → Bool
  | .idle => false
  | _ => true

/-- ordering invariant of the concurrent synchronous model (both variants) -/
structure SOrd (s : SState) : Prop where
  cur  : ∀ i, inCall (s.pc i) = true → 1 ≤ s.cnt i
  hist : ∀ j, ∀ e ∈ s.hist j, e.seq < s.cnt e.tid ∧ (e.seq + 1 = s.cnt e.tid → past (s.pc e.tid) j)
  ord  : ∀ j, (s.hist j).Pairwise (fun a b => a.tid = b.tid → a.seq < b.seq)

theorem sord_init (v : Variant) (lg : Logger) (n : Nat) (prog : Nat → List (Env × Call)) :
    SOrd (sinit v lg n prog) :=
  ⟨fun i h => by simp [sinit, inCall] at h, fun j e h => by simp [sinit] at h, fun j => by simp [sinit]⟩

theorem sstep_sord (s s' : SState) (t : Tok) (ev : List String) (inv : SOrd s)
    (h : sstep s t = some (s', ev)) : SOrd s' := by
  obtain ⟨cur, hist, ord⟩ := inv
  unfold sstep at h
  simp only at h
  split at h
  · simp at h
  · split at h
    · split at h
      · simp at h
      · split at h <;> (injection h with h; injection h with h _; subst h)
        · refine ⟨?_, ?_, ord⟩ <;> (simp only [upd]) <;> grind [past, inCall]
        · refine ⟨?_, ?_, ord⟩ <;> (simp only [upd]) <;> grind [past, inCall]
    · rename_i m j hpc
      have hc := cur t.tid (by rw [hpc]; rfl)
      split at h
      · injection h with h; injection h with h _; subst h
        refine ⟨?_, ?_, ord⟩ <;> (simp only [upd]) <;> grind [past, inCall]
      · split at h
        · injection h with h; injection h with h _; subst h
          refine ⟨?_, ?_, ord⟩ <;> (simp only [upd]) <;> grind [past, inCall]
        · split at h
          · injection h with h; injection h with h _; subst h
            refine ⟨?_, ?_, ord⟩ <;> (simp only [upd]) <;> grind [past, inCall]
          · injection h with h; injection h with h _; subst h
            refine ⟨?_, ?_, ord⟩ <;> (simp only [upd]) <;> grind [past, inCall]
          · split at h
            · simp at h
            · injection h with h; injection h with h _; subst h
              refine ⟨?_, ?_, ?_⟩
              · simp only [upd]; grind [past, inCall]
              · intro j' e he
                simp only [upd] at he ⊢
                by_cases hj : j' = j
                · subst hj
                  simp only [if_true, List.mem_append, List.mem_singleton] at he
                  rcases he with he | he
                  · have := hist j' e he
                    by_cases hti : e.tid = t.tid
                    · simp only [hti, if_true] at this ⊢
                      rw [hpc] at this
                      refine ⟨this.1, fun h => ?_⟩
                      have := this.2 h
                      simp [past] at this
                    · simp only [hti, if_false]; exact this
                  · subst he
                    simp only [if_true]
                    exact ⟨by omega, fun _ => by simp [past]⟩
                · simp only [hj, if_false] at he
                  have := hist j' e he
                  by_cases hti : e.tid = t.tid
                  · simp only [hti, if_true] at this ⊢
                    rw [hpc] at this
                    refine ⟨this.1, fun h => ?_⟩
                    have := this.2 h
                    simp only [past] at this ⊢
                    omega
                  · simp only [hti, if_false]; exact this
              · intro j'
                simp only [upd]
                by_cases hj : j' = j
                · subst hj
                  simp only [if_true]
                  rw [List.pairwise_append]
                  refine ⟨ord j', by simp, ?_⟩
                  intro a ha b hb hab
                  simp at hb; subst hb
                  simp only at hab ⊢
                  have := hist j' a ha
                  rw [hab, hpc] at this
                  have h2 : ¬ (a.seq + 1 = s.cnt t.tid) := fun h => by
                    have := this.2 h; simp [past] at this
                  omega
                · simp only [hj, if_false]; exact ord j'
    · rename_i m j r rs hpc
      injection h with h; injection h with h _; subst h
      refine ⟨?_, ?_, ord⟩ <;> (simp only [upd]) <;> grind [past, inCall]
    · rename_i m j hpc
      injection h with h; injection h with h _; subst h
      refine ⟨?_, ?_, ord⟩ <;> (simp only [upd]) <;> grind [past, inCall]

theorem sord_reach (v : Variant) (lg : Logger) (n : Nat) (prog : Nat → List (Env × Call)) (s : SState)
    (hr : Reach sstep (sinit v lg n prog) s) : SOrd s :=
  Reach.inv SOrd (sord_init v lg n prog) (fun s t s' ev inv h => sstep_sord s s' t ev inv h) s hr

/-! ### completeness: every accepted call reaches every handler -/

/-- completeness invariant of the concurrent synchronous model -/
structure SCpl (lg : Logger) (prog0 : Nat → List (Env × Call)) (s : SState) : Prop where
  rest : ∀ i, (prog0 i).drop (s.cnt i) = s.prog i ∧ s.cnt i ≤ (prog0 i).length
  cur  : ∀ i, inCall (s.pc i) = true →
           ∃ e c, (prog0 i)[s.cnt i - 1]? = some (e, c) ∧ 1 ≤ s.cnt i ∧
             (∀ m j, s.pc i = .disp m j → m = mkMsg lg e c) ∧
             (∀ m j todo, s.pc i = .locked m j todo → m = mkMsg lg e c)
  src  : ∀ j, ∀ en ∈ s.hist j, ∃ e c, (prog0 en.tid)[en.seq]? = some (e, c) ∧ en.msg = mkMsg lg e c ∧
           ∃ h, lg.handlers[j]? = some h ∧ c.level ≥ h.level
  cpl  : ∀ i k e c j, k < s.cnt i → (prog0 i)[k]? = some (e, c) → ¬ lg.lowest > c.level →
           recsAt lg j (mkMsg lg e c) ≠ [] → (∀ h, lg.handlers[j]? = some h → c.level ≥ h.level) →
           (∃ en ∈ s.hist j, en.tid = i ∧ en.seq = k) ∨ (k + 1 = s.cnt i ∧ ¬ past (s.pc i) j)

theorem scpl_init (lg : Logger) (n : Nat) (prog : Nat → List (Env × Call)) :
    SCpl lg prog (sinit .fixed lg n prog) :=
  ⟨fun i => by simp [sinit], fun i h => by simp [sinit, inCall] at h, fun j en h => by simp [sinit] at h,
   fun i k e c j h => by simp [sinit] at h⟩

theorem sstep_scpl (lg : Logger) (outs0 : Nat → List Rec) (prog0 : Nat → List (Env × Call))
    (s s' : SState) (t : Tok) (ev : List String) (sinv : SInv lg outs0 s) (inv : SCpl lg prog0 s)
    (h : sstep s t = some (s', ev)) : SCpl lg prog0 s' := by
  obtain ⟨rest, cur, src, cpl⟩ := inv
  have fixed := sinv.fixed
  have cfg := sinv.cfg
  unfold sstep at h
  simp only at h
  split at h
  · simp at h
  · split at h
    · -- idle: the next call starts
      rename_i hpc
      split at h
      · simp at h
      · rename_i e c tl hprog
        have hr := rest t.tid
        rw [hprog] at hr
        obtain ⟨hget, hdrop, hlt⟩ := drop_cons_facts _ _ _ _ hr.1
        split at h <;> (injection h with h; injection h with h _; subst h)
        · rename_i hlow _
          rw [cfg] at hlow
          refine ⟨?_, ?_, src, ?_⟩ <;> (simp only [upd]) <;> grind [past, inCall]
        · rename_i hlow _
          rw [cfg] at hlow
          refine ⟨?_, ?_, src, ?_⟩
          · simp only [upd]; grind
          · intro i hi
            simp only [upd] at hi ⊢
            by_cases hti : i = t.tid
            · subst hti
              simp only [if_true]
              refine ⟨e, c, by simpa using hget, by omega, ?_, ?_⟩
              · intro m j hm; injection hm with h1 _; rw [← h1, cfg]
              · intro m j todo hm; cases hm
            · simp only [hti, if_false] at hi ⊢; exact cur i hi
          · intro i k e1 c1 j hk hg hl hne hlev
            simp only [upd] at hk ⊢
            by_cases hti : i = t.tid
            · subst hti
              simp only [if_true] at hk ⊢
              by_cases hkc : k < s.cnt t.tid
              · rcases cpl t.tid k e1 c1 j hkc hg hl hne hlev with h | ⟨h1, h2⟩
                · left; exact h
                · rw [hpc] at h2; simp [past] at h2
              · right; exact ⟨by omega, by simp [past]⟩
            · simp only [hti, if_false] at hk ⊢; exact cpl i k e1 c1 j hk hg hl hne hlev
    · -- disp m j
      rename_i m j hpc
      obtain ⟨e, c, hget, hc1, hm, _⟩ := cur t.tid (by rw [hpc]; rfl)
      have hme : m = mkMsg lg e c := hm m j hpc
      -- generic step: the thread moves on to `pc'` (still in the same call or idle), `hist` unchanged
      have moveOn : ∀ pc' : SPc,
          (inCall pc' = true → (∀ m' j', pc' = .disp m' j' → m' = m) ∧ (∀ m' j' td, pc' = .locked m' j' td → m' = m)) →
          (∀ j'' e1 c1, (prog0 t.tid)[s.cnt t.tid - 1]? = some (e1, c1) → ¬ lg.lowest > c1.level →
              recsAt lg j'' (mkMsg lg e1 c1) ≠ [] → (∀ h, lg.handlers[j'']? = some h → c1.level ≥ h.level) →
              ¬ past (.disp m j) j'' → ¬ past pc' j'') →
          SCpl lg prog0 { s with pc := upd s.pc t.tid pc' } := by
        intro pc' hcur hpast
        refine ⟨rest, ?_, src, ?_⟩
        · intro i hi
          simp only [upd] at hi ⊢
          by_cases hti : i = t.tid
          · subst hti
            simp only [if_true] at hi ⊢
            obtain ⟨h1, h2⟩ := hcur hi
            refine ⟨e, c, hget, hc1, ?_, ?_⟩
            · intro m' j' hp'; rw [h1 m' j' hp', hme]
            · intro m' j' td hp'; rw [h2 m' j' td hp', hme]
          · simp only [hti, if_false] at hi ⊢; exact cur i hi
        · intro i k e1 c1 j'' hk hg hl hne hlev
          simp only [upd]
          by_cases hti : i = t.tid
          · subst hti
            simp only [if_true]
            rcases cpl t.tid k e1 c1 j'' hk hg hl hne hlev with h | ⟨h1, h2⟩
            · left; exact h
            · right
              rw [hpc] at h2
              have hk' : k = s.cnt t.tid - 1 := by omega
              exact ⟨h1, hpast j'' e1 c1 (by rw [← hk']; exact hg) hl hne hlev h2⟩
          · simp only [hti, if_false]; exact cpl i k e1 c1 j'' hk hg hl hne hlev
      split at h
      · -- no handler j: back to idle
        rename_i hnone
        injection h with h; injection h with h _; subst h
        apply moveOn .idle (fun h => by simp [inCall] at h)
        intro j'' e1 c1 _ _ hne _ hp
        exfalso
        simp only [past, Nat.not_lt] at hp
        have : lg.handlers[j'']? = none := by
          rw [cfg] at hnone
          rw [List.getElem?_eq_none_iff] at hnone ⊢; omega
        exact hne (by simp [recsAt, this])
      · rename_i hd hj
        rw [cfg] at hj
        -- handler j is not written by this call: move to j + 1
        have skip : (∀ e1 c1, (prog0 t.tid)[s.cnt t.tid - 1]? = some (e1, c1) →
              recsAt lg j (mkMsg lg e1 c1) ≠ [] → (∀ h, lg.handlers[j]? = some h → c1.level ≥ h.level) → False) →
            SCpl lg prog0 { s with pc := upd s.pc t.tid (.disp m (j + 1)) } := by
          intro hno
          apply moveOn (.disp m (j + 1))
          · intro _
            exact ⟨fun m' j' hp => by injection hp with h1 _; exact h1.symm, fun m' j' td hp => by cases hp⟩
          · intro j'' e1 c1 hg1 _ hne hlev hp
            simp only [past, Nat.not_lt] at hp ⊢
            by_cases hjj : j'' = j
            · subst hjj; exact absurd (hno e1 c1 hg1 hne hlev) id
            · omega
        split at h
        · rename_i hsw
          injection h with h; injection h with h _; subst h
          apply skip
          intro e1 c1 hg1 _ hlev
          rw [hget] at hg1
          injection hg1 with hg1; injection hg1 with h1 h2
          subst h1; subst h2
          have := hlev hd hj
          have hlv : m.level = c.level := by rw [hme]; rfl
          simp [shouldWrite, hlv] at hsw
          omega
        · rename_i hsw2
          have hrec : handlerRecs s.v hd m = .ok (specRecs hd m) := by
            rw [fixed]; exact handlerRecs_fixed hd m
          rw [hrec] at h
          split at h
          · rename_i hx; cases hx
          · rename_i hx
            injection h with h; injection h with h _; subst h
            apply skip
            intro e1 c1 hg1 hne _
            rw [hget] at hg1
            injection hg1 with hg1; injection hg1 with h1 h2
            subst h1; subst h2
            apply hne
            simp only [recsAt, hj]
            rw [← hme]
            injection hx with hx
          · rename_i r rs hx
            split at h
            · simp at h
            · injection h with h; injection h with h _; subst h
              refine ⟨rest, ?_, ?_, ?_⟩
              · intro i hi
                simp only [upd] at hi ⊢
                by_cases hti : i = t.tid
                · subst hti
                  simp only [if_true]
                  refine ⟨e, c, hget, hc1, ?_, ?_⟩
                  · intro m' j' hp'; cases hp'
                  · intro m' j' td hp'; injection hp' with h1 _; rw [← h1, hme]
                · simp only [hti, if_false] at hi ⊢; exact cur i hi
              · intro j' en hen
                simp only [upd] at hen
                by_cases hjj : j' = j
                · subst hjj
                  simp only [if_true, List.mem_append, List.mem_singleton] at hen
                  rcases hen with hen | hen
                  · exact src j' en hen
                  · subst hen
                    refine ⟨e, c, hget, hme, hd, hj, ?_⟩
                    have hlv : m.level = c.level := by rw [hme]; rfl
                    simp [shouldWrite, hlv] at hsw2
                    omega
                · simp only [hjj, if_false] at hen; exact src j' en hen
              · intro i k e1 c1 j'' hk hg hl hne hlev
                simp only [upd]
                have grow : (∃ en ∈ s.hist j'', en.tid = i ∧ en.seq = k) →
                    ∃ en ∈ (if j'' = j then s.hist j ++ [{ tid := t.tid, seq := s.cnt t.tid - 1, msg := m }] else s.hist j''),
                      en.tid = i ∧ en.seq = k := by
                  rintro ⟨en, hen, h1⟩
                  refine ⟨en, ?_, h1⟩
                  by_cases hjj : j'' = j
                  · subst hjj; simp [hen]
                  · simp [hjj, hen]
                rcases cpl i k e1 c1 j'' hk hg hl hne hlev with h | ⟨h1, h2⟩
                · left; exact grow h
                · by_cases hti : i = t.tid
                  · subst hti
                    rw [hpc] at h2
                    simp only [past, Nat.not_lt] at h2
                    by_cases hjj : j'' = j
                    · left
                      subst hjj
                      exact ⟨{ tid := t.tid, seq := s.cnt t.tid - 1, msg := m }, by simp, rfl, by simp; omega⟩
                    · right
                      simp only [if_true, past]
                      exact ⟨h1, by omega⟩
                  · right; simp only [hti, if_false]; exact ⟨h1, h2⟩
    · -- locked m j (r :: rs): one more fwrite
      rename_i m j r rs hpc
      injection h with h; injection h with h _; subst h
      obtain ⟨e, c, hget, hc1, _, hm⟩ := cur t.tid (by rw [hpc]; rfl)
      refine ⟨rest, ?_, src, ?_⟩
      · intro i hi
        simp only [upd] at hi ⊢
        by_cases hti : i = t.tid
        · subst hti
          simp only [if_true]
          refine ⟨e, c, hget, hc1, (fun m' j' hp' => by cases hp'), ?_⟩
          intro m' j' td hp'; injection hp' with h1 _; rw [← h1]; exact hm m j _ hpc
        · simp only [hti, if_false] at hi ⊢; exact cur i hi
      · intro i k e1 c1 j'' hk hg hl hne hlev
        simp only [upd]
        rcases cpl i k e1 c1 j'' hk hg hl hne hlev with h | ⟨h1, h2⟩
        · left; exact h
        · right
          by_cases hti : i = t.tid
          · subst hti; rw [hpc] at h2; simp only [if_true]; exact ⟨h1, h2⟩
          · simp only [hti, if_false]; exact ⟨h1, h2⟩
    · -- locked m j []: unlock
      rename_i m j hpc
      injection h with h; injection h with h _; subst h
      obtain ⟨e, c, hget, hc1, _, hm⟩ := cur t.tid (by rw [hpc]; rfl)
      refine ⟨rest, ?_, src, ?_⟩
      · intro i hi
        simp only [upd] at hi ⊢
        by_cases hti : i = t.tid
        · subst hti
          simp only [if_true]
          refine ⟨e, c, hget, hc1, ?_, fun m' j' td hp' => by cases hp'⟩
          intro m' j' hp'; injection hp' with h1 _; rw [← h1]; exact hm m j _ hpc
        · simp only [hti, if_false] at hi ⊢; exact cur i hi
      · intro i k e1 c1 j'' hk hg hl hne hlev
        simp only [upd]
        rcases cpl i k e1 c1 j'' hk hg hl hne hlev with h | ⟨h1, h2⟩
        · left; exact h
        · right
          by_cases hti : i = t.tid
          · subst hti
            rw [hpc] at h2
            simp only [if_true, past, Nat.not_le, Nat.not_lt] at h2 ⊢
            exact ⟨h1, by omega⟩
          · simp only [hti, if_false]; exact ⟨h1, h2⟩

/-- both invariants together, in every reachable state -/
theorem sboth_reach (lg : Logger) (n : Nat) (prog : Nat → List (Env × Call)) (s : SState)
    (hr : Reach sstep (sinit .fixed lg n prog) s) :
    SInv lg (sinit .fixed lg n prog).outs s ∧ SCpl lg prog s :=
  Reach.inv (fun s => SInv lg (sinit .fixed lg n prog).outs s ∧ SCpl lg prog s)
    ⟨sinv_init lg n prog, scpl_init lg n prog⟩
    (fun s t s' ev inv h => ⟨sstep_preserves lg _ s s' t ev inv.1 h, sstep_scpl lg _ prog s s' t ev inv.1 inv.2 h⟩)
    s hr

end MgProof.C16
