import MgProof.C07.LemmasOps
/-!
# C07 — property theorems (bytes buffer, muggle/c/memory/bytes_buffer.c)

Statement (properties.jsonl): for every sequence of operations on a bytes buffer
(copying write/read/fetch and the zero-copy find-contiguous / advance pairs on both
sides, including partial advances) the bytes obtained by the reader are exactly the
bytes accepted from the writer, in the same order, each exactly once; `readable()`
always equals bytes accepted minus bytes consumed; an operation fails only when it
lacks the space or data it needs and then changes nothing; no operation touches
memory outside the buffer.

Quantifiers of the theorems below: every capacity `c ≥ 1`, every state satisfying the
representation invariant `Inv` (in particular every state reachable from `init c`:
`reachable_inv`), every operation list of every length, every byte content, every
size `≥ 0` and every partial advance `0 ≤ k ≤ n` (`Op.Valid`).

The model is the code with fixes/C07-stale-truncation.patch applied. For the function
as it is in the pinned tree the property is FALSE: `stale_truncation_duplicates`.
-/
namespace MgProof.C07
open MgModel.C07

/-- **Clauses "bytes obtained = bytes accepted, in order, once", "fails … then changes
nothing", "no operation touches memory outside the buffer" — one operation.**
From any state satisfying the invariant, every operation within the API contract
runs without an out-of-block access (`step` returns `.ok`, all `memcpy`s of the model
are bounds-checked against the malloc'ed block), keeps the invariant and the capacity,
transforms the abstract queue `abs s` exactly as the queue specification says and
returns exactly the specified bytes; a failing operation returns the state unchanged. -/
theorem step_refines {s : BB} (inv : Inv s) (op : Op) (hv : op.Valid) :
    ∃ s' res, step s op = .ok (s', res) ∧ Inv s' ∧ s'.c = s.c ∧
      specStep (abs s) res.isOk op = (abs s', res) ∧ (res = .fail → s' = s) := by
  cases op with
  | write src =>
    obtain ⟨s', b, h, inv', hc, _, hab, hun⟩ := write_spec inv src
    cases b with
    | true =>
      refine ⟨s', .ok [], ?_, inv', hc, ?_, by simp⟩
      · simp [step, h, bind, Except.bind, pure, Except.pure]
      · simp [specStep, Res.isOk, hab rfl]
    | false =>
      refine ⟨s', .fail, ?_, inv', hc, ?_, fun _ => hun rfl⟩
      · simp [step, h, bind, Except.bind, pure, Except.pure]
      · simp [specStep, Res.isOk, hun rfl]
  | read n =>
    have hn : 0 ≤ n := hv
    obtain ⟨s', o, h, inv', hc, hok, hfail⟩ := read_spec inv hn
    by_cases hle : n ≤ (abs s).length
    · obtain ⟨ho, hab⟩ := hok hle
      refine ⟨s', .ok ((abs s).take n.toNat), ?_, inv', hc, ?_, by simp⟩
      · simp [step, h, ho, bind, Except.bind, pure, Except.pure]
      · simp [specStep, hle, hab]
    · obtain ⟨ho, hs⟩ := hfail (by omega)
      refine ⟨s', .fail, ?_, inv', hc, ?_, fun _ => hs⟩
      · simp [step, h, ho, bind, Except.bind, pure, Except.pure]
      · simp [specStep, hle, hs]
  | fetch n =>
    have hn : 0 ≤ n := hv
    obtain ⟨o, h, hok, hfail⟩ := fetch_spec inv hn
    by_cases hle : n ≤ (abs s).length
    · refine ⟨s, .ok ((abs s).take n.toNat), ?_, inv, rfl, ?_, by simp⟩
      · simp [step, h, hok hle, bind, Except.bind, pure, Except.pure]
      · simp [specStep, hle]
    · refine ⟨s, .fail, ?_, inv, rfl, ?_, fun _ => rfl⟩
      · simp [step, h, hfail (by omega), bind, Except.bind, pure, Except.pure]
      · simp [specStep, hle]
  | wz data k =>
    obtain ⟨hk0, hk⟩ : 0 ≤ k ∧ k ≤ data.length := hv
    have hpre : ¬ (k < 0 ∨ k > data.length) := by omega
    rcases wz_spec inv data hk0 hk with ⟨hfc, _, _⟩ | ⟨off, s1, hfc, hwr, _, hb, inv', hc, hab⟩
    · refine ⟨s, .fail, ?_, inv, rfl, ?_, fun _ => rfl⟩
      · simp [step, hpre, hfc, pure, Except.pure]
      · simp [specStep, Res.isOk]
    · refine ⟨(writerMoveN s1 off k).1, .ok [], ?_, inv', hc, ?_, by simp⟩
      · simp [step, hpre, hfc, hwr, hb, bind, Except.bind, pure, Except.pure]
      · simp [specStep, Res.isOk, hab]
  | wd data =>
    rcases wd_spec inv data with ⟨hfc, _, _⟩ | ⟨off, s1, hfc, hwr, _, hb, inv', hc, hab⟩
    · refine ⟨s, .fail, ?_, inv, rfl, ?_, fun _ => rfl⟩
      · simp [step, hfc, pure, Except.pure]
      · simp [specStep, Res.isOk]
    · refine ⟨(writerMove s1 data.length).1, .ok [], ?_, inv', hc, ?_, by simp⟩
      · simp [step, hfc, hwr, hb, bind, Except.bind, pure, Except.pure]
      · simp [specStep, Res.isOk, hab]
  | rz n k =>
    obtain ⟨hn, hk0, hk⟩ : 0 ≤ n ∧ 0 ≤ k ∧ k ≤ n := hv
    rcases rz_spec inv hn hk0 hk with ⟨hfc, _⟩ | ⟨hfc, _, _, hrd, hb, inv', hc, hab⟩
    · refine ⟨s, .fail, ?_, inv, rfl, ?_, fun _ => rfl⟩
      · simp [step, hfc, pure, Except.pure]
      · simp [specStep, Res.isOk]
    · refine ⟨(readerMove s k).1, .ok ((abs s).take n.toNat), ?_, inv', hc, ?_, by simp⟩
      · simp [step, hfc, hrd, hb, bind, Except.bind, pure, Except.pure]
      · simp [specStep, Res.isOk, hab]
  | clear =>
    obtain ⟨inv', hab, hc⟩ := clear_spec inv
    refine ⟨clear s, .ok [], ?_, inv', hc, ?_, by simp⟩
    · simp [step, pure, Except.pure]
    · simp [specStep, hab]

/-- **Main refinement theorem (every history).** From any state satisfying the
invariant, every list of operations within the API contract runs without an
out-of-block access, ends in a state satisfying the invariant, and the results
(verdicts and bytes) are exactly those of the byte-queue specification started at
`abs s`; the final abstract queue is the specification's final queue. -/
theorem run_refines (ops : List Op) : ∀ {s : BB}, Inv s → (∀ op ∈ ops, op.Valid) →
    ∃ s' rs, run s ops = .ok (s', rs) ∧ Inv s' ∧ s'.c = s.c ∧ rs.length = ops.length ∧
      specRun (abs s) ops rs = (abs s', rs) := by
  induction ops with
  | nil => intro s inv _; exact ⟨s, [], rfl, inv, rfl, rfl, rfl⟩
  | cons op ops ih =>
    intro s inv hv
    obtain ⟨s1, x, h1, inv1, hc1, hsp, _⟩ := step_refines inv op (hv op (by simp))
    obtain ⟨s2, xs, h2, inv2, hc2, hlen, hsr⟩ := ih inv1 (fun o ho => hv o (by simp [ho]))
    refine ⟨s2, x :: xs, ?_, inv2, by omega, by simp [hlen], ?_⟩
    · simp [run, h1, h2, bind, Except.bind, pure, Except.pure]
    · simp [specRun, hsp, hsr]

/-- Every state reachable from `init c` (`c ≥ 1`) by operations within the contract
satisfies the invariant, and its abstraction is the specification's queue. -/
theorem reachable_inv {c : Int} (hc : 1 ≤ c) (ops : List Op) (hv : ∀ op ∈ ops, op.Valid) :
    ∃ s0 s' rs, init c = some s0 ∧ run s0 ops = .ok (s', rs) ∧ Inv s' ∧ s'.c = c ∧
      specRun [] ops rs = (abs s', rs) := by
  obtain ⟨s0, h0, inv0, hab0, hc0⟩ := inv_init hc
  obtain ⟨s', rs, h, inv', hc', _, hsr⟩ := run_refines ops inv0 hv
  exact ⟨s0, s', rs, h0, h, inv', by omega, by rw [← hab0]; exact hsr⟩

/-- **Clause "`readable()` always equals bytes accepted minus bytes consumed".**
In every state satisfying the invariant `muggle_bytes_buffer_readable` is the length
of the abstract queue (which by `stream_conservation` is accepted minus consumed). -/
theorem readable_eq_queue_length {s : BB} (inv : Inv s) : readable s = (abs s).length :=
  (abs_length inv).symm

/-- One specification step conserves the stream: what was queued plus what was
accepted = what the reader obtained followed by what is still queued (`clear`
excluded: it discards the queue). -/
theorem specStep_conserves (q : List Byte) (ok : Bool) (op : Op) (hv : op.Valid)
    (hc : op ≠ .clear) :
    q ++ accepted (specStep q ok op).2 op = obtained (specStep q ok op).2 op ++ (specStep q ok op).1 := by
  cases op with
  | write src => cases ok <;> simp [specStep, accepted, obtained, Res.isOk]
  | read n =>
    by_cases h : n ≤ q.length <;> simp [specStep, accepted, obtained, h]
  | fetch n =>
    by_cases h : n ≤ q.length <;> simp [specStep, accepted, obtained, h]
  | wz data k => cases ok <;> simp [specStep, accepted, obtained, Res.isOk]
  | wd data => cases ok <;> simp [specStep, accepted, obtained, Res.isOk]
  | rz n k =>
    obtain ⟨hn, hk0, hk⟩ : 0 ≤ n ∧ 0 ≤ k ∧ k ≤ n := hv
    cases ok with
    | false => simp [specStep, accepted, obtained]
    | true =>
      simp only [specStep, accepted, obtained, if_true, List.append_nil]
      rw [List.take_take, Nat.min_eq_left (by omega), List.take_append_drop]
  | clear => exact absurd rfl hc

/-- **Clause "the bytes obtained by the reader are exactly the bytes accepted from the
writer, in the same order, each exactly once" — every history.** For every history
without `clear` from a state satisfying the invariant: (bytes queued at the start) ++
(all bytes accepted from the writer, in order) = (all bytes the reader obtained, in
order) ++ (bytes still queued). From `init` the first term is empty. Hence the reader's
stream is a prefix of the writer's stream, nothing is lost, duplicated or reordered,
and `readable()` (= length of the queue) = accepted − consumed. -/
theorem stream_conservation (ops : List Op) : ∀ {s : BB}, Inv s → (∀ op ∈ ops, op.Valid) →
    (∀ op ∈ ops, op ≠ .clear) →
    ∃ s' rs, run s ops = .ok (s', rs) ∧
      abs s ++ acceptedAll ops rs = obtainedAll ops rs ++ abs s' := by
  induction ops with
  | nil => intro s _ _ _; exact ⟨s, [], rfl, by simp [acceptedAll, obtainedAll]⟩
  | cons op ops ih =>
    intro s inv hv hnc
    obtain ⟨s1, x, h1, inv1, _, hsp, _⟩ := step_refines inv op (hv op (by simp))
    obtain ⟨s2, xs, h2, hcons⟩ := ih inv1 (fun o ho => hv o (by simp [ho]))
      (fun o ho => hnc o (by simp [ho]))
    refine ⟨s2, x :: xs, ?_, ?_⟩
    · simp [run, h1, h2, bind, Except.bind, pure, Except.pure]
    · have hstep := specStep_conserves (abs s) x.isOk op (hv op (by simp)) (hnc op (by simp))
      rw [hsp] at hstep
      simp only at hstep
      simp only [acceptedAll, obtainedAll]
      rw [← List.append_assoc, hstep, List.append_assoc, hcons, List.append_assoc]

/-- The same for histories that also contain `clear`: the bytes that left the queue are
those the reader obtained plus those an explicit `clear` discarded (`departedAll`). -/
theorem stream_conservation_with_clear (ops : List Op) : ∀ {s : BB}, Inv s →
    (∀ op ∈ ops, op.Valid) →
    ∃ s' rs, run s ops = .ok (s', rs) ∧
      abs s ++ acceptedAll ops rs = departedAll (abs s) ops rs ++ abs s' := by
  induction ops with
  | nil => intro s _ _; exact ⟨s, [], rfl, by simp [acceptedAll, departedAll]⟩
  | cons op ops ih =>
    intro s inv hv
    obtain ⟨s1, x, h1, inv1, _, hsp, _⟩ := step_refines inv op (hv op (by simp))
    obtain ⟨s2, xs, h2, hcons⟩ := ih inv1 (fun o ho => hv o (by simp [ho]))
    refine ⟨s2, x :: xs, ?_, ?_⟩
    · simp [run, h1, h2, bind, Except.bind, pure, Except.pure]
    · have hstep : abs s ++ accepted x op = departed (abs s) x op ++ abs s1 := by
        by_cases hc : op = .clear
        · subst hc
          have : abs s1 = [] := by simpa [specStep] using (congrArg Prod.fst hsp).symm
          simp [accepted, departed, this]
        · have h := specStep_conserves (abs s) x.isOk op (hv op (by simp)) hc
          rw [hsp] at h
          have hd : departed (abs s) x op = obtained x op := by
            cases op <;> simp_all [departed]
          rw [hd]; exact h
      simp only [acceptedAll, departedAll, hsp]
      rw [← List.append_assoc, hstep, List.append_assoc, hcons, List.append_assoc]

/-- `readable()` = accepted − consumed, as a count, for every `clear`-free history
from `init c`. -/
theorem readable_eq_accepted_minus_consumed {c : Int} (hc : 1 ≤ c) (ops : List Op)
    (hv : ∀ op ∈ ops, op.Valid) (hnc : ∀ op ∈ ops, op ≠ .clear) :
    ∃ s0 s' rs, init c = some s0 ∧ run s0 ops = .ok (s', rs) ∧
      readable s' = ((acceptedAll ops rs).length : Int) - (obtainedAll ops rs).length := by
  obtain ⟨s0, h0, inv0, hab0, _⟩ := inv_init hc
  obtain ⟨s', rs, h, inv', _, _, _⟩ := run_refines ops inv0 hv
  obtain ⟨s'', rs', h', hcons⟩ := stream_conservation ops inv0 hv hnc
  rw [h] at h'
  obtain ⟨rfl, rfl⟩ : s' = s'' ∧ rs = rs' := by
    injection h' with h'; exact ⟨congrArg Prod.fst h', congrArg Prod.snd h'⟩
  refine ⟨s0, s', rs, h0, h, ?_⟩
  rw [hab0, List.nil_append] at hcons
  have := congrArg List.length hcons
  rw [List.length_append] at this
  rw [readable_eq_queue_length inv']
  omega

/-! ### "fails only when it lacks the space or data it needs" — the verdicts -/

/-- `read(n)` / `fetch(n)` fail iff fewer than `n` bytes are queued
(`readable() < n`). -/
theorem read_fails_iff {s : BB} (inv : Inv s) {n : Int} (hn : 0 ≤ n) :
    (∃ s', read s n = .ok (s', none)) ↔ readable s < n := by
  obtain ⟨s', o, h, _, _, hok, hfail⟩ := read_spec inv hn
  rw [readable_eq_queue_length inv]
  constructor
  · rintro ⟨s'', h'⟩
    rw [h] at h'
    by_cases hle : n ≤ (abs s).length
    · have := (hok hle).1
      injection h' with h'
      have h2 := congrArg Prod.snd h'
      simp [this] at h2
    · omega
  · intro hlt
    exact ⟨s', by rw [h, (hfail hlt).1]⟩

theorem fetch_fails_iff {s : BB} (inv : Inv s) {n : Int} (hn : 0 ≤ n) :
    fetch s n = .ok none ↔ readable s < n := by
  obtain ⟨o, h, hok, hfail⟩ := fetch_spec inv hn
  rw [readable_eq_queue_length inv]
  constructor
  · intro h'
    rw [h] at h'
    by_cases hle : n ≤ (abs s).length
    · have := hok hle
      injection h' with h'
      simp [this] at h'
    · omega
  · intro hlt
    rw [h, hfail hlt]

/-- `write(n)` fails iff `n > writable()`. -/
theorem write_fails_iff {s : BB} (inv : Inv s) (src : List Byte) :
    (∃ s', write s src = .ok (s', false)) ↔ writable s < src.length := by
  obtain ⟨s', b, h, _, _, hiff, _, _⟩ := write_spec inv src
  constructor
  · rintro ⟨s'', h'⟩
    rw [h] at h'
    injection h' with h'
    have hb : b = false := congrArg Prod.snd h'
    subst hb
    have : ¬ (src.length : Int) ≤ writable s := fun hle => by simpa using hiff.mpr hle
    omega
  · intro hlt
    cases b with
    | false => exact ⟨s', h⟩
    | true => have := hiff.mp rfl; omega

/-- `writable()` is the capacity minus the one slot kept free, minus the queued
bytes, minus the tail `[t, c)` given up by a contiguous jump while the buffer is
wrapped. So `write` fails exactly when the bytes do not fit into the free space the
layout has. -/
theorem writable_eq {s : BB} (inv : Inv s) :
    writable s = s.c - 1 - (abs s).length - (if s.w < s.r then s.c - s.t else 0) := by
  have hlen := abs_length inv
  obtain ⟨cpos, len, w0, r0, wc, t0, tc, wrap⟩ := inv
  rcases layout s with ⟨hl, hr⟩ | ⟨hl, hr⟩ | hl
  · have hnw : ¬ s.w < s.r := by omega
    simp only [readable, contiguousReadable, jumpReadable, writable, contiguousWritable,
      jumpWritable, hnw, if_false] at hlen ⊢
    have : s.w ≥ s.r := hl
    simp only [this, if_true, hr, ne_eq, not_false_eq_true] at hlen ⊢
    omega
  · have hnw : ¬ s.w < s.r := by omega
    simp only [readable, contiguousReadable, jumpReadable, writable, contiguousWritable,
      jumpWritable, hnw, if_false] at hlen ⊢
    have : s.w ≥ s.r := hl
    simp only [hr, ne_eq, not_true_eq_false, if_false] at hlen ⊢
    omega
  · have hnl : ¬ s.w ≥ s.r := by omega
    have := wrap hl
    simp only [readable, contiguousReadable, jumpReadable, writable, contiguousWritable,
      jumpWritable, hnl, hl, if_false, if_true] at hlen ⊢
    omega

/-- `writer_fc(n)` returns NULL iff neither the contiguous space at `w` nor the
space before `r` (reachable by a jump) has `n` bytes; a non-NULL result lies in the
block together with its `n` bytes (the `wr` of the caller's fill succeeds). -/
theorem writer_fc_fails_iff {s : BB} (inv : Inv s) (data : List Byte) :
    writerFc s data.length = none ↔
      (contiguousWritable s < data.length ∧ jumpWritable s < data.length) := by
  rcases wz_spec inv data (k := 0) (by omega) (by omega) with ⟨h, h1, h2⟩ | ⟨off, _, h, _, h1, _⟩
  · simp [h, h1, h2]
  · simp only [h, reduceCtorEq, false_iff]
    omega

/-- `reader_fc(n)` returns NULL iff fewer than `n` bytes are contiguous at `r`
(`contiguous_readable() < n`); a non-NULL result exposes the first `n` queued bytes. -/
theorem reader_fc_fails_iff {s : BB} (inv : Inv s) {n : Int} (hn : 0 ≤ n) :
    readerFc s n = none ↔ contiguousReadable s < n := by
  rcases rz_spec inv hn (k := 0) (by omega) hn with ⟨h, h1⟩ | ⟨h, h1, _⟩
  · simp [h, h1]
  · simp only [h, reduceCtorEq, false_iff]
    omega

/-- **Clause "no operation touches memory outside the buffer" (cursor part).** In every
state satisfying the invariant all cursors are inside `[0, c]` (so C `int` arithmetic on
them cannot overflow when `c ≤ INT_MAX`), the block has exactly `c` bytes, `w < c`. -/
theorem cursors_bounded {s : BB} (inv : Inv s) :
    0 ≤ s.w ∧ s.w < s.c ∧ 0 ≤ s.r ∧ s.r ≤ s.c ∧ 0 ≤ s.t ∧ s.t ≤ s.c ∧
      (s.buf.length : Int) = s.c := by
  obtain ⟨cpos, len, w0, r0, wc, t0, tc, wrap⟩ := inv
  by_cases hl : s.r ≤ s.w
  · omega
  · have := wrap (by omega); omega

/-- The accounting of the header comment stays inside `[0, c − 1]`: every sum the C code
forms (`cw + jw`, `cr + jr`, and `w + n` / `r + n` after `n ≤ cw` / `n ≤ cr`) is at most
`c`, so no `int` overflow is possible for any `c ≤ INT_MAX` and any `n`. -/
theorem accounting_bounded {s : BB} (inv : Inv s) :
    0 ≤ contiguousWritable s ∧ 0 ≤ jumpWritable s ∧ writable s ≤ s.c - 1 ∧
    0 ≤ contiguousReadable s ∧ 0 ≤ jumpReadable s ∧ readable s ≤ s.c - 1 ∧
    s.w + contiguousWritable s ≤ s.c ∧ s.r + contiguousReadable s ≤ s.c := by
  obtain ⟨cpos, len, w0, r0, wc, t0, tc, wrap⟩ := inv
  rcases layout s with ⟨hl, hr⟩ | ⟨hl, hr⟩ | hl
  · have hge : s.w ≥ s.r := hl
    simp only [writable, readable, contiguousWritable, jumpWritable, contiguousReadable,
      jumpReadable, hge, if_true, hr, ne_eq, not_false_eq_true]
    omega
  · have hge : s.w ≥ s.r := hl
    simp only [writable, readable, contiguousWritable, jumpWritable, contiguousReadable,
      jumpReadable, hr, ne_eq, not_true_eq_false, if_false]
    omega
  · have := wrap hl
    have hnl : ¬ s.w ≥ s.r := by omega
    simp only [writable, readable, contiguousWritable, jumpWritable, contiguousReadable,
      jumpReadable, hnl, if_false]
    omega

/-- **The region handed out by `writer_fc(n)` is free.** The caller may overwrite all
`n` claimed bytes (here with arbitrary `data`) and advance by `0`: the queue is
unchanged, i.e. the region is inside the block and disjoint from every unread byte. -/
theorem writer_fc_region_free {s : BB} (inv : Inv s) (data : List Byte) :
    ∃ s' res, step s (.wz data 0) = .ok (s', res) ∧ Inv s' ∧ abs s' = abs s := by
  obtain ⟨s', res, h, inv', _, hsp, _⟩ := step_refines inv (.wz data 0) (by simp [Op.Valid])
  refine ⟨s', res, h, inv', ?_⟩
  cases hr : res.isOk <;> simp [specStep, hr] at hsp <;> exact hsp.1.symm

/-! ### Non-vacuity: concrete non-trivial states satisfy the hypotheses -/

/-- a wrapped state with a pending truncation mark (`w = 2 < r = 3`, `t = 4 < c = 5`)
reached from `init 5` by `write 4; read 3; write 2` satisfies `Inv` -/
example : ∃ s0 s rs, init 5 = some s0 ∧
    run s0 [.write [1, 2, 3, 4], .read 3, .write [5, 6]] = .ok (s, rs) ∧
    Inv s ∧ s.w = 2 ∧ s.r = 3 ∧ s.t = 4 ∧ abs s = [4, 5, 6] := by
  refine ⟨_, { c := 5, w := 2, r := 3, t := 4, buf := [5, 6, 3, 4, 0] }, _, rfl, rfl, ?_,
    rfl, rfl, rfl, by decide⟩
  constructor <;> simp

/-! ### The pinned tree violates the property -/

/-- **The patch changes nothing else.** For every state (invariant or not) and every
`n`, the fixed `read` and the pinned tree's `read` are the same function except in the
one situation of the defect: a contiguous read that ends exactly on `t` while the
buffer is NOT wrapped (`r + n = t ∧ r + n ≤ w`, i.e. `t` is a stale mark). -/
theorem fix_agrees_unless_stale_hit (s : BB) (n : Int)
    (h : ¬ (contiguousReadable s ≥ n ∧ s.r + n = s.t ∧ s.r + n ≤ s.w)) :
    MgModel.C07.read s n = Orig.read s n := by
  unfold MgModel.C07.read Orig.read
  simp only
  by_cases h1 : contiguousReadable s ≥ n
  · simp only [h1, if_true]
    by_cases h2 : s.r + n = s.t
    · simp [h2]
      have : s.t > s.w := by omega
      simp [this]
    · simp [h2]
  · simp only [h1, if_false]

/-- **Negation witness for the unfixed `muggle_bytes_buffer_read`.** Capacity 16,
`write 12; read 6; write 5; read 6; write 7; read 12; read 12` with the `read` of the
pinned tree (`Orig.read`): the reader wraps at `t = 12` and `t` stays (stale), the
writer lands exactly on the stale mark (`w = 12`), the sixth operation drains the buffer
but its `r == t` test fires in the contiguous layout and sets `r := 0`, and the seventh delivers the same 12 bytes again: 36 bytes obtained from 24
accepted. (`run`, the fixed model, answers `.fail` to the seventh operation.) -/
theorem stale_truncation_duplicates :
    ∃ s0 s rs, init 16 = some s0 ∧
      Orig.run s0 [.write (List.replicate 12 7), .read 6, .write (List.replicate 5 8), .read 6,
        .write [1, 2, 3, 4, 5, 6, 9], .read 12, .read 12] = .ok (s, rs) ∧
      rs[5]? = some (.ok [8, 8, 8, 8, 8, 1, 2, 3, 4, 5, 6, 9]) ∧
      rs[6]? = some (.ok [8, 8, 8, 8, 8, 1, 2, 3, 4, 5, 6, 9]) ∧
      readable s = 12 := by
  refine ⟨_, _, _, rfl, rfl, ?_, ?_, ?_⟩ <;> decide

end MgProof.C07
